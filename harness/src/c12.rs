//! C12: subscribers attaching to / resuming an existing subscription on a live listener
//! while changes are produced; the delay between the matcher and the broadcast and the
//! batch cuts are schedule knobs (cfg hooks).
use crate::{c17, util::Toks};
use klukai_agent::api::public::pubsub::verif_hooks as ph;
use klukai_types::updates::verif_hooks as vh;
use std::sync::atomic::Ordering::SeqCst;
use std::time::{Duration, Instant};
use tokio::io::{AsyncReadExt, AsyncWriteExt};

const SQL: &str = "SELECT id, text FROM tests";

/// open a streaming request and collect the events that arrive until `quiet` passes without data
/// what the open streams have received so far (counted per read; a marker cut by a read
/// boundary is missed, so waits on these also have a time limit)
static EOQ_SEEN: std::sync::atomic::AtomicUsize = std::sync::atomic::AtomicUsize::new(0);
static CHG_SEEN: std::sync::atomic::AtomicUsize = std::sync::atomic::AtomicUsize::new(0);

fn count_marks(chunk: &[u8]) {
    let t = String::from_utf8_lossy(chunk);
    EOQ_SEEN.fetch_add(t.matches("{\"eoq\"").count(), SeqCst);
    CHG_SEEN.fetch_add(t.matches("{\"change\"").count(), SeqCst);
}

async fn wait_seen(c: &std::sync::atomic::AtomicUsize, n: usize, ms: u64) {
    let t0 = std::time::Instant::now();
    while c.load(SeqCst) < n && t0.elapsed() < Duration::from_millis(ms) {
        tokio::time::sleep(Duration::from_millis(50)).await;
    }
}

async fn stream(addr: std::net::SocketAddr, method: &str, path: &str, body: &str, stop: tokio::sync::watch::Receiver<bool>) -> (u16, Option<String>, Vec<String>, bool) {
    let mut s = tokio::net::TcpStream::connect(addr).await.unwrap();
    let mut req = format!("{method} {path} HTTP/1.1\r\nHost: verif\r\nAccept: application/json\r\n");
    if method == "POST" {
        req.push_str(&format!("Content-Type: application/json\r\nContent-Length: {}\r\n", body.len()));
    }
    req.push_str("\r\n");
    req.push_str(body);
    s.write_all(req.as_bytes()).await.unwrap();
    let mut buf: Vec<u8> = vec![];
    let mut closed = false;
    let mut stop = stop;
    loop {
        let mut chunk = [0u8; 8192];
        tokio::select! {
            r = s.read(&mut chunk) => match r {
                Ok(0) => { closed = true; break; }
                Ok(n) => { count_marks(&chunk[..n]); buf.extend_from_slice(&chunk[..n]) }
                Err(_) => { closed = true; break; }
            },
            _ = stop.changed() => {
                // drain what is already there
                loop {
                    match tokio::time::timeout(Duration::from_millis(300), s.read(&mut chunk)).await {
                        Ok(Ok(0)) => { closed = true; break; }
                        Ok(Ok(n)) => buf.extend_from_slice(&chunk[..n]),
                        _ => break,
                    }
                }
                break;
            }
        }
    }
    let txt = String::from_utf8_lossy(&buf).to_string();
    let status = txt.split_whitespace().nth(1).and_then(|x| x.parse::<u16>().ok()).unwrap_or(0);
    let id = txt.lines().find_map(|l| l.strip_prefix("corro-query-id: ").map(|x| x.trim().to_string()));
    // events: one JSON object per line
    let mut evs = vec![];
    for l in txt.lines() {
        let l = l.trim();
        if l.starts_with("{\"eoq\"") {
            let cid = l.split("\"change_id\":").nth(1).map(|x| x.trim_end_matches(|c| c == '}' || c == ' ').to_string()).unwrap_or("-".into());
            evs.push(format!("eoq:{cid}"));
        } else if l.starts_with("{\"change\"") {
            // {"change":["insert",rowid,[cells],change_id]}
            let cid = l.trim_end_matches(|c| c == '}' || c == ']').rsplit(',').next().unwrap_or("?").to_string();
            evs.push(format!("c:{cid}"));
        } else if l.starts_with("{\"error\"") {
            evs.push("err".to_string());
        } else if l.starts_with("{\"row\"") {
            evs.push("row".to_string());
        }
    }
    (status, id, evs, closed)
}

async fn flush_subs(agent: &klukai_types::agent::Agent) {
    let ids: Vec<uuid::Uuid> = agent.subs_manager().get_handles().keys().cloned().collect();
    let _ = crate::util::flush_loops(&ids, 20).await;
}

/// case: attach <delay_ms> <nops> { W n | F | A off_ms | R k off_ms | S ms }
///   W n      write n fresh rows (one transaction each)
///   F        cut a candidate batch (events are produced, broadcast after <delay_ms> each, committed)
///   A off    start a fresh attach off ms from now (without waiting)
///   R k off  resume subscriber k (0-based, in attach order) from its current last id, off ms from now
///   S ms     sleep
/// obs per subscriber: start=<eoq id | from> ids=<...> err=<0/1> closed=<0/1>  ; and final max change id
pub fn attach(t: &mut Toks) -> String {
    let rt = tokio::runtime::Builder::new_multi_thread().worker_threads(6).enable_all().build().unwrap();
    let delay = t.u64();
    let nops = t.usize();
    enum Op { W(usize), F, A(u64), R(usize, u64), S(u64) }
    let mut ops = vec![];
    for _ in 0..nops {
        ops.push(match t.tok() {
            "W" => Op::W(t.usize()),
            "F" => Op::F,
            "A" => Op::A(t.u64()),
            "R" => Op::R(t.usize(), t.u64()),
            "S" => Op::S(t.u64()),
            x => panic!("bad op {x}"),
        });
    }
    vh::MANUAL.store(true, SeqCst);
    ph::BCAST_DELAY_MS.store(0, SeqCst);
    ph::TRACE.lock().unwrap().clear();
    rt.block_on(async move {
        let srv = c17::start(None).await;
        let addr = srv.addr;
        let (stop_tx, stop_rx) = tokio::sync::watch::channel(false);
        // the first subscriber creates the subscription
        let body = serde_json::to_string(SQL).unwrap();
        let first = tokio::spawn({ let b = body.clone(); let rx = stop_rx.clone(); async move { stream(addr, "POST", "/v1/subscriptions", &b, rx).await } });
        // wait until the subscription exists and its loop runs (it answers a batch cut), however
        // loaded the machine is; then a short pause for the creator's end-of-query to go out
        {
            let t0 = Instant::now();
            loop {
                let ids: Vec<uuid::Uuid> = srv.kit_agent.subs_manager().get_handles().keys().cloned().collect();
                if !ids.is_empty() && crate::util::flush_loops(&ids, 5).await {
                    break;
                }
                if t0.elapsed() > Duration::from_secs(60) {
                    break;
                }
                tokio::time::sleep(Duration::from_millis(20)).await;
            }
            tokio::time::sleep(Duration::from_millis(300)).await;
        }
        ph::BCAST_DELAY_MS.store(delay, SeqCst);
        let mut next_row = 1i64;
        let mut handles: Vec<tokio::task::JoinHandle<(u16, Option<String>, Vec<String>, bool)>> = vec![];
        let mut kinds: Vec<String> = vec![];
        // the subscription id, learned from a quick probe attach
        let mut sub_id: Option<String> = None;
        for op in ops {
            match op {
                Op::W(n) => {
                    for _ in 0..n {
                        let b = format!(r#"["INSERT INTO tests (id, text) VALUES ({next_row}, 'r{next_row}')"]"#);
                        next_row += 1;
                        let _ = c17::http(addr, "POST", "/v1/transactions", &[], &b).await;
                    }
                    tokio::time::sleep(Duration::from_millis(60)).await;  // broadcast_changes -> match_changes
                }
                Op::F => flush_subs(&srv.kit_agent).await,
                Op::S(ms) => tokio::time::sleep(Duration::from_millis(ms)).await,
                Op::A(off) => {
                    let b = body.clone();
                    let rx = stop_rx.clone();
                    kinds.push("A".into());
                    handles.push(tokio::spawn(async move {
                        tokio::time::sleep(Duration::from_millis(off)).await;
                        stream(addr, "POST", "/v1/subscriptions", &b, rx).await
                    }));
                }
                Op::R(k, off) => {
                    if sub_id.is_none() {
                        // learn the id with a skip_rows attach that is dropped at once
                        let (_, id, _, _) = {
                            let (tx1, rx1) = tokio::sync::watch::channel(false);
                            let h = tokio::spawn({ let b = body.clone(); async move { stream(addr, "POST", "/v1/subscriptions?skip_rows=true", &b, rx1).await } });
                            tokio::time::sleep(Duration::from_millis(150)).await;
                            let _ = tx1.send(true);
                            h.await.unwrap()
                        };
                        sub_id = id;
                    }
                    let Some(id) = sub_id.clone() else { continue };
                    let from = k as u64; // resume point given directly
                    let rx = stop_rx.clone();
                    kinds.push(format!("R{from}"));
                    handles.push(tokio::spawn(async move {
                        tokio::time::sleep(Duration::from_millis(off)).await;
                        stream(addr, "GET", &format!("/v1/subscriptions/{id}?from={from}"), "", rx).await
                    }));
                }
            }
        }
        // let everything settle, then stop the readers
        tokio::time::sleep(Duration::from_millis(delay * 12 + 900)).await;
        let _ = stop_tx.send(true);
        let mut outs = vec![];
        let f = first.await.unwrap();
        let maxid = f.2.iter().filter_map(|e| e.strip_prefix("c:").and_then(|x| x.parse::<i64>().ok())).max().unwrap_or(0);
        outs.push(format!("first status={} evs={}", f.0, f.2.iter().filter(|e| *e != "row").cloned().collect::<Vec<_>>().join(",")));
        for (h, k) in handles.into_iter().zip(kinds.iter()) {
            let (status, _id, evs, closed) = h.await.unwrap();
            outs.push(format!("{k} status={status} evs={} closed={}", evs.iter().filter(|e| *e != "row").cloned().collect::<Vec<_>>().join(","), if closed { 1 } else { 0 }));
        }
        outs.push(format!("max={maxid}"));
        let tr: Vec<String> = ph::TRACE.lock().unwrap().iter().map(|(n, w, v)| format!("{n}:{w}:{v}")).collect();
        outs.push(format!("trace={}", tr.join(",")));
        vh::MANUAL.store(false, SeqCst);
        ph::BCAST_DELAY_MS.store(0, SeqCst);
        outs.join(" # ")
    })
}

/// case: early <nrows> <off_ms> <relay_delay_ms>
///   the relay between the matcher's event channel and the broadcast takes relay_delay_ms per
///   event (schedule knob); the table holds nrows rows; a first subscriber creates the subscription and off_ms later --
///   while its initial query may still be running -- a second one attaches; then 3 changes.
/// obs: per subscriber `rows=<row events> eoq=<end-of-query events> evs=<eoq/change sequence>`
pub fn early(t: &mut Toks) -> String {
    let rt = tokio::runtime::Builder::new_multi_thread().worker_threads(6).enable_all().build().unwrap();
    let nrows = t.u64();
    let off = t.u64();
    let relay = t.u64();
    vh::MANUAL.store(false, SeqCst);
    ph::BCAST_DELAY_MS.store(relay, SeqCst);
    ph::TRACE.lock().unwrap().clear();
    EOQ_SEEN.store(0, SeqCst);
    CHG_SEEN.store(0, SeqCst);
    let out = rt.block_on(async move {
        let srv = c17::start(None).await;
        let addr = srv.addr;
        let fill = format!(r#"["WITH RECURSIVE c(x) AS (SELECT 1 UNION ALL SELECT x + 1 FROM c WHERE x < {nrows}) INSERT INTO tests (id, text) SELECT x, 'r' || x FROM c"]"#);
        let _ = c17::http(addr, "POST", "/v1/transactions", &[], &fill).await;
        let (stop_tx, stop_rx) = tokio::sync::watch::channel(false);
        let body = serde_json::to_string(SQL).unwrap();
        let first = tokio::spawn({ let b = body.clone(); let rx = stop_rx.clone(); async move { stream(addr, "POST", "/v1/subscriptions", &b, rx).await } });
        tokio::time::sleep(Duration::from_millis(off)).await;
        let second = tokio::spawn({ let b = body.clone(); let rx = stop_rx.clone(); async move { stream(addr, "POST", "/v1/subscriptions", &b, rx).await } });
        // wait until both have seen an end of query (at least the time the schedule needs, at
        // most 60 s more), then produce 3 changes and wait until both streams carried them
        tokio::time::sleep(Duration::from_millis(3000 + nrows / 20 + relay * (nrows + 3))).await;
        wait_seen(&EOQ_SEEN, 2, 60_000).await;
        ph::BCAST_DELAY_MS.store(0, SeqCst);
        for i in 0..3 {
            let b = format!(r#"["INSERT INTO tests (id, text) VALUES ({}, 'late')"]"#, nrows + 1 + i);
            let _ = c17::http(addr, "POST", "/v1/transactions", &[], &b).await;
            tokio::time::sleep(Duration::from_millis(400)).await;
        }
        wait_seen(&CHG_SEEN, 6, 30_000).await;
        tokio::time::sleep(Duration::from_millis(1500)).await;
        let _ = stop_tx.send(true);
        let mut outs = vec![];
        for (name, h) in [("first", first), ("A", second)] {
            let (status, _id, evs, closed) = h.await.unwrap();
            let rows = evs.iter().filter(|e| *e == "row").count();
            let eoq = evs.iter().filter(|e| e.starts_with("eoq")).count();
            outs.push(format!("{name} status={status} rows={rows} eoq={eoq} evs={} closed={}", evs.iter().filter(|e| *e != "row").cloned().collect::<Vec<_>>().join(","), if closed { 1 } else { 0 }));
        }
        outs.join(" # ")
    });
    rt.shutdown_background();
    out
}

/// raw lines of a subscription stream until stop (status, lines)
async fn stream_raw(addr: std::net::SocketAddr, body: &str, stop: tokio::sync::watch::Receiver<bool>) -> (u16, Vec<String>, bool) {
    let mut s = tokio::net::TcpStream::connect(addr).await.unwrap();
    let req = format!("POST /v1/subscriptions HTTP/1.1\r\nHost: verif\r\nAccept: application/json\r\nContent-Type: application/json\r\nContent-Length: {}\r\n\r\n{}", body.len(), body);
    s.write_all(req.as_bytes()).await.unwrap();
    let mut buf: Vec<u8> = vec![];
    let mut stop = stop;
    let mut closed = false;
    loop {
        let mut chunk = [0u8; 8192];
        tokio::select! {
            r = s.read(&mut chunk) => match r {
                Ok(0) | Err(_) => { closed = true; break; }
                Ok(n) => { count_marks(&chunk[..n]); buf.extend_from_slice(&chunk[..n]) }
            },
            _ = stop.changed() => {
                loop {
                    match tokio::time::timeout(Duration::from_millis(300), s.read(&mut chunk)).await {
                        Ok(Ok(n)) if n > 0 => buf.extend_from_slice(&chunk[..n]),
                        _ => break,
                    }
                }
                break;
            }
        }
    }
    let txt = String::from_utf8_lossy(&buf).to_string();
    let status = txt.split_whitespace().nth(1).and_then(|x| x.parse::<u16>().ok()).unwrap_or(0);
    let closed = closed || txt.contains("\r\n0\r\n");
    (status, txt.lines().map(|l| l.trim().to_string()).filter(|l| l.starts_with('{')).collect(), closed)
}

/// case: commitwin <nrows> <commit_delay_ms> <attach_after_ms>
///   the table holds nrows rows and a subscription exists (its creator keeps listening); one
///   transaction rewrites every row; the matcher announces the batch's changes and -- schedule
///   knob -- commits them commit_delay_ms later; attach_after_ms after the transaction was
///   acknowledged a second subscriber attaches from scratch (inside that window when
///   attach_after_ms < commit_delay_ms).  What the second subscriber was told -- its snapshot
///   rows, then the change events after its end-of-query id -- is replayed into a view.
/// obs: status=<http> snap=<rows in the snapshot> eoq=<id> changes=<events after it> consecutive=<0/1>
///      stale=<rows of the view whose text differs from the table's at the end> missing=<rows absent>
pub fn commitwin(t: &mut Toks) -> String {
    let rt = tokio::runtime::Builder::new_multi_thread().worker_threads(6).enable_all().build().unwrap();
    let nrows = t.u64();
    let delay = t.u64();
    let after = t.u64();
    vh::MANUAL.store(false, SeqCst);
    ph::BCAST_DELAY_MS.store(0, SeqCst);
    vh::COMMIT_DELAY_MS.store(0, SeqCst);
    EOQ_SEEN.store(0, SeqCst);
    CHG_SEEN.store(0, SeqCst);
    let out = rt.block_on(async move {
        let srv = c17::start(None).await;
        let addr = srv.addr;
        let fill = format!(r#"["WITH RECURSIVE c(x) AS (SELECT 1 UNION ALL SELECT x + 1 FROM c WHERE x < {nrows}) INSERT INTO tests (id, text) SELECT x, 'old' || x FROM c"]"#);
        let _ = c17::http(addr, "POST", "/v1/transactions", &[], &fill).await;
        let (stop_tx, stop_rx) = tokio::sync::watch::channel(false);
        let body = serde_json::to_string(SQL).unwrap();
        let first = tokio::spawn({ let b = body.clone(); let rx = stop_rx.clone(); async move { stream_raw(addr, &b, rx).await } });
        wait_seen(&EOQ_SEEN, 1, 60_000).await;
        tokio::time::sleep(Duration::from_millis(300)).await;
        vh::COMMIT_DELAY_MS.store(delay, SeqCst);
        let _ = c17::http(addr, "POST", "/v1/transactions", &[], r#"["UPDATE tests SET text = 'new' || id"]"#).await;
        // the matcher picks the batch up on its 600 ms timer (or earlier): attach relative to the
        // first change event the creator receives
        wait_seen(&CHG_SEEN, 1, 30_000).await;
        tokio::time::sleep(Duration::from_millis(after)).await;
        let second = tokio::spawn({ let b = body.clone(); let rx = stop_rx.clone(); async move { stream_raw(addr, &b, rx).await } });
        // the creator sees nrows changes, the second subscriber whatever it is told; then one more
        // transaction so that both streams are known to be past the batch
        wait_seen(&CHG_SEEN, nrows as usize, 60_000).await;
        tokio::time::sleep(Duration::from_millis(delay + 500)).await;
        vh::COMMIT_DELAY_MS.store(0, SeqCst);
        let _ = c17::http(addr, "POST", "/v1/transactions", &[], &format!(r#"["INSERT INTO tests (id, text) VALUES ({}, 'tail')"]"#, nrows + 1)).await;
        tokio::time::sleep(Duration::from_millis(2500)).await;
        let _ = stop_tx.send(true);
        let _ = first.await;
        let (status, lines, closed) = second.await.unwrap();
        let errs = lines.iter().filter(|l| l.starts_with("{\"error\"")).count();
        // replay
        let mut view: std::collections::BTreeMap<i64, String> = Default::default();   // id -> text
        let mut by_rowid: std::collections::BTreeMap<i64, i64> = Default::default();   // rowid -> id
        let mut snap = 0;
        let mut eoq: Option<i64> = None;
        let mut ids: Vec<i64> = vec![];
        for l in &lines {
            let v: serde_json::Value = match serde_json::from_str(l) { Ok(v) => v, Err(_) => continue };
            if let Some(r) = v.get("row") {
                let rowid = r[0].as_i64().unwrap_or(-1);
                let id = r[1][0].as_i64().unwrap_or(-1);
                view.insert(id, r[1][1].as_str().unwrap_or("?").to_string());
                by_rowid.insert(rowid, id);
                snap += 1;
            } else if let Some(e) = v.get("eoq") {
                eoq = e.get("change_id").and_then(|x| x.as_i64());
            } else if let Some(c) = v.get("change") {
                let kind = c[0].as_str().unwrap_or("?");
                let rowid = c[1].as_i64().unwrap_or(-1);
                let id = c[2][0].as_i64().unwrap_or(-1);
                ids.push(c[3].as_i64().unwrap_or(-1));
                match kind {
                    "delete" => { view.remove(&id); by_rowid.remove(&rowid); }
                    _ => { view.insert(id, c[2][1].as_str().unwrap_or("?").to_string()); by_rowid.insert(rowid, id); }
                }
            }
        }
        let mut consecutive = true;
        let mut prev = eoq.unwrap_or(0);
        for i in &ids { if *i != prev + 1 { consecutive = false; } prev = *i; }
        // the table at the end
        let conn = srv.kit_agent.pool().read().await.unwrap();
        let actual: Vec<(i64, String)> = conn.prepare("SELECT id, text FROM tests ORDER BY id").unwrap()
            .query_map([], |r| Ok((r.get(0)?, r.get(1)?))).unwrap().map(|x| x.unwrap()).collect();
        let mut stale = 0;
        let mut missing = 0;
        for (id, text) in &actual {
            match view.get(id) { None => missing += 1, Some(t) if t != text => stale += 1, _ => {} }
        }
        let extra = view.len() as i64 - (actual.len() as i64 - missing as i64);
        format!("status={status} snap={snap} eoq={} changes={} consecutive={} stale={stale} missing={missing} extra={extra} err={errs} closed={}", eoq.map(|x| x.to_string()).unwrap_or("-".into()), ids.len(), if consecutive { 1 } else { 0 }, if closed { 1 } else { 0 })
    });
    vh::COMMIT_DELAY_MS.store(0, SeqCst);
    rt.shutdown_background();
    out
}
