(* Interval sets over Z: the model of rangemap::RangeInclusiveSet<u64> as the
   repository uses it (versions and sequence numbers).  A set is a list of
   closed ranges; the canonical form is sorted, with non-empty, non-overlapping
   and NON-ADJACENT ranges (rangemap coalesces touching ranges).

   Everything later is proved at membership level; [canonical_ext] turns
   membership equality of canonical lists into list equality, which is what
   ties the in-memory sets to the persisted rows (C02). *)
From Coq Require Import List ZArith Bool Lia.
Import ListNotations.
Open Scope Z_scope.

Definition iset := list (Z * Z).

Fixpoint mem (x : Z) (s : iset) : Prop :=
  match s with
  | [] => False
  | (a, b) :: t => a <= x <= b \/ mem x t
  end.

Fixpoint memb (x : Z) (s : iset) : bool :=
  match s with
  | [] => false
  | (a, b) :: t => ((a <=? x) && (x <=? b)) || memb x t
  end.

Fixpoint canon_from (lo : Z) (s : iset) : Prop :=
  match s with
  | [] => True
  | (a, b) :: t => lo <= a /\ a <= b /\ canon_from (b + 2) t
  end.

Definition canonical (s : iset) : Prop := exists lo, canon_from lo s.

Fixpoint canon_fromb (lo : Z) (s : iset) : bool :=
  match s with
  | [] => true
  | (a, b) :: t => (lo <=? a) && (a <=? b) && canon_fromb (b + 2) t
  end.

Definition canonicalb (s : iset) : bool :=
  match s with
  | [] => true
  | (a, _) :: _ => canon_fromb a s
  end.

(* RangeInclusiveSet::insert: coalesces overlapping and adjacent ranges *)
Fixpoint ins (a b : Z) (s : iset) : iset :=
  match s with
  | [] => [(a, b)]
  | (x, y) :: t =>
    if y + 1 <? a then (x, y) :: ins a b t
    else if b + 1 <? x then (a, b) :: (x, y) :: t
    else ins (Z.min a x) (Z.max b y) t
  end.

(* RangeInclusiveSet::remove *)
Fixpoint rem (a b : Z) (s : iset) : iset :=
  match s with
  | [] => []
  | (x, y) :: t =>
    if y <? a then (x, y) :: rem a b t
    else if b <? x then (x, y) :: t
    else (if x <? a then [(x, a - 1)] else []) ++
         (if b <? y then (b + 1, y) :: t else rem a b t)
  end.

(* RangeInclusiveSet::gaps(&(a..=b)): maximal sub-ranges of [a,b] not in s *)
Fixpoint gaps (a b : Z) (s : iset) : iset :=
  if b <? a then []
  else
    match s with
    | [] => [(a, b)]
    | (x, y) :: t =>
      if y <? a then gaps a b t
      else if b <? x then [(a, b)]
      else (if a <? x then [(a, x - 1)] else []) ++
           (if y <? b then gaps (y + 1) b t else [])
    end.

(* RangeInclusiveSet::overlapping(&(a..=b)): stored ranges meeting [a,b] *)
Definition overlapping (a b : Z) (s : iset) : iset :=
  filter (fun r => (fst r <=? b) && (a <=? snd r)) s.

(* RangeInclusiveSet::get(&x): the stored range containing x *)
Fixpoint get (x : Z) (s : iset) : option (Z * Z) :=
  match s with
  | [] => None
  | (a, b) :: t => if (a <=? x) && (x <=? b) then Some (a, b) else get x t
  end.

(* extend / from_iter *)
Definition ins_all (rs : list (Z * Z)) (s : iset) : iset :=
  fold_left (fun acc r => ins (fst r) (snd r) acc) rs s.

Definition rem_all (rs : list (Z * Z)) (s : iset) : iset :=
  fold_left (fun acc r => rem (fst r) (snd r) acc) rs s.

(* normalise an arbitrary list of non-empty ranges *)
Definition norm (rs : list (Z * Z)) : iset := ins_all rs [].

Definition set_max (s : iset) : option Z :=
  match rev s with [] => None | (_, b) :: _ => Some b end.

(* ------------------------------------------------------------------ *)
(* basic facts                                                         *)

Ltac zb := repeat match goal with
  | H : (_ <? _) = true |- _ => apply Z.ltb_lt in H
  | H : (_ <? _) = false |- _ => apply Z.ltb_ge in H
  | H : (_ <=? _) = true |- _ => apply Z.leb_le in H
  | H : (_ <=? _) = false |- _ => apply Z.leb_gt in H
  end.
Ltac il := zb; intuition lia.
Ltac csplit := repeat match goal with |- _ /\ _ => split end; zb; try lia.

Lemma memb_iff x s : memb x s = true <-> mem x s.
Proof.
  induction s as [|[a b] t IH]; cbn; [split; [discriminate|tauto]|].
  rewrite orb_true_iff, andb_true_iff, IH, !Z.leb_le. tauto.
Qed.

Lemma canon_fromb_iff lo s : canon_fromb lo s = true <-> canon_from lo s.
Proof.
  revert lo; induction s as [|[a b] t IH]; intros lo; cbn; [tauto|].
  rewrite !andb_true_iff, IH, !Z.leb_le. tauto.
Qed.

Lemma canon_from_weaken lo lo' s : lo' <= lo -> canon_from lo s -> canon_from lo' s.
Proof. destruct s as [|[a b] t]; cbn; [tauto|]. intros; intuition lia. Qed.

Lemma canonicalb_iff s : canonicalb s = true <-> canonical s.
Proof.
  unfold canonical. destruct s as [|[a b] t].
  - cbn. split; [exists 0; exact I|reflexivity].
  - unfold canonicalb. rewrite canon_fromb_iff. split.
    + intros H; exists a; exact H.
    + intros [lo H]. cbn in *. intuition lia.
Qed.

Lemma canon_from_lower lo s x : canon_from lo s -> mem x s -> lo <= x.
Proof.
  revert lo; induction s as [|[a b] t IH]; intros lo; cbn; [tauto|].
  intros (H1 & H2 & H3) [Hx|Hx]; [lia|]. specialize (IH _ H3 Hx). lia.
Qed.

Lemma canonical_nil : canonical [].
Proof. exists 0; exact I. Qed.

Lemma canonical_tail r t : canonical (r :: t) -> canonical t.
Proof. destruct r as [a b]. intros [lo H]. cbn in H. exists (b + 2). tauto. Qed.

(* ------------------------------------------------------------------ *)
(* ins                                                                 *)

Lemma ins_mem : forall s a b x, a <= b ->
  (mem x (ins a b s) <-> a <= x <= b \/ mem x s).
Proof.
  induction s as [|[p q] t IH]; intros a b x Hab; cbn [ins mem].
  - tauto.
  - destruct (q + 1 <? a) eqn:E1; [cbn [mem]; rewrite IH by lia; tauto|].
    destruct (b + 1 <? p) eqn:E2; [cbn [mem]; tauto|].
    rewrite IH by lia. il.
Qed.

(* inserting into a canonical set whose ranges are non-empty; the hypothesis
   p <= q on stored ranges is part of canon_from *)
Lemma ins_canon : forall s a b lo, a <= b -> canon_from lo s ->
  canon_from (Z.min lo a) (ins a b s).
Proof.
  induction s as [|[p q] t IH]; intros a b lo Hab Hc; cbn [ins].
  - cbn. csplit.
  - cbn in Hc. destruct Hc as (H1 & H2 & H3).
    destruct (q + 1 <? a) eqn:E1.
    + cbn. csplit.
      specialize (IH a b (q + 2) Hab H3).
      eapply canon_from_weaken; [|exact IH]. lia.
    + destruct (b + 1 <? p) eqn:E2.
      * cbn. csplit. eapply canon_from_weaken; [|exact H3]. lia.
      * zb. specialize (IH (Z.min a p) (Z.max b q) (q + 2) ltac:(lia) H3).
        eapply canon_from_weaken; [|exact IH]. lia.
Qed.

Lemma ins_canonical s a b : a <= b -> canonical s -> canonical (ins a b s).
Proof. intros Hab [lo H]. eexists. apply ins_canon; eassumption. Qed.

(* ------------------------------------------------------------------ *)
(* rem                                                                 *)

Lemma rem_mem : forall s a b x lo, a <= b -> canon_from lo s ->
  (mem x (rem a b s) <-> mem x s /\ ~ (a <= x <= b)).
Proof.
  induction s as [|[p q] t IH]; intros a b x lo Hab Hc; cbn [rem mem].
  - tauto.
  - cbn in Hc. destruct Hc as (H1 & H2 & H3).
    assert (Ht : mem x t -> q + 2 <= x) by (apply canon_from_lower; exact H3).
    destruct (q <? a) eqn:E1; [cbn [mem]; rewrite (IH a b x _ Hab H3); il|].
    destruct (b <? p) eqn:E2; [cbn [mem]; il|].
    destruct (p <? a) eqn:E3; destruct (b <? q) eqn:E4; cbn [app mem];
      rewrite ?(IH a b x _ Hab H3); il.
Qed.

Lemma rem_canon : forall s a b lo, a <= b -> canon_from lo s -> canon_from lo (rem a b s).
Proof.
  induction s as [|[p q] t IH]; intros a b lo Hab Hc; cbn [rem].
  - exact I.
  - cbn in Hc. destruct Hc as (H1 & H2 & H3).
    destruct (q <? a) eqn:E1; [cbn; csplit; apply IH; assumption|].
    destruct (b <? p) eqn:E2; [cbn; csplit; exact H3|].
    destruct (p <? a) eqn:E3; destruct (b <? q) eqn:E4; cbn [app canon_from]; csplit;
      first [exact H3
            | eapply canon_from_weaken; [|exact H3]; lia
            | eapply canon_from_weaken; [|eapply IH; [exact Hab|exact H3]]; lia].
Qed.

Lemma rem_canonical s a b : a <= b -> canonical s -> canonical (rem a b s).
Proof. intros Hab [lo H]. exists lo. apply rem_canon; assumption. Qed.

(* ------------------------------------------------------------------ *)
(* gaps                                                                *)

Lemma gaps_unfold a b s :
  gaps a b s =
  if b <? a then []
  else
    match s with
    | [] => [(a, b)]
    | (x, y) :: t =>
      if y <? a then gaps a b t
      else if b <? x then [(a, b)]
      else (if a <? x then [(a, x - 1)] else []) ++
           (if y <? b then gaps (y + 1) b t else [])
    end.
Proof. destruct s; reflexivity. Qed.

Lemma gaps_mem : forall s a b x lo, canon_from lo s ->
  (mem x (gaps a b s) <-> a <= x <= b /\ ~ mem x s).
Proof.
  induction s as [|[p q] t IH]; intros a b x lo Hc; rewrite gaps_unfold.
  - destruct (b <? a) eqn:E0; cbn [mem]; il.
  - cbn in Hc. destruct Hc as (H1 & H2 & H3).
    assert (Ht : mem x t -> q + 2 <= x) by (apply canon_from_lower; exact H3).
    assert (x < p \/ p <= x <= q \/ q < x) as Hcase by lia.
    destruct (b <? a) eqn:E0; [cbn [mem]; il|].
    destruct (q <? a) eqn:E1; [rewrite (IH a b x _ H3); cbn [mem]; il|].
    destruct (b <? p) eqn:E2; [cbn [mem]; il|].
    destruct (a <? p) eqn:E3; destruct (q <? b) eqn:E4; cbn [app mem];
      rewrite ?(IH (q + 1) b x _ H3); il.
Qed.

Lemma gaps_canon : forall s a b lo, canon_from lo s -> canon_from a (gaps a b s).
Proof.
  induction s as [|[p q] t IH]; intros a b lo Hc; rewrite gaps_unfold.
  - destruct (b <? a) eqn:E0; cbn; csplit.
  - cbn in Hc. destruct Hc as (H1 & H2 & H3).
    destruct (b <? a) eqn:E0; [exact I|].
    destruct (q <? a) eqn:E1; [apply (IH a b _ H3)|].
    destruct (b <? p) eqn:E2; [cbn; csplit|].
    destruct (a <? p) eqn:E3; destruct (q <? b) eqn:E4; cbn [app canon_from]; csplit;
      first [exact I
            | eapply canon_from_weaken; [|eapply (IH (q + 1) b); exact H3]; lia].
Qed.

Lemma gaps_nil_iff s a b lo : canon_from lo s -> a <= b ->
  (gaps a b s = [] <-> forall x, a <= x <= b -> mem x s).
Proof.
  intros Hc Hab. split.
  - intros Hg x Hx. destruct (memb x s) eqn:E; [apply memb_iff; exact E|].
    exfalso. assert (mem x (gaps a b s)) as Hm.
    { apply (gaps_mem _ _ _ _ _ Hc). split; [exact Hx|].
      intros Hm. apply memb_iff in Hm. congruence. }
    rewrite Hg in Hm. exact Hm.
  - intros Hall. destruct (gaps a b s) as [|[p q] t] eqn:Hg; [reflexivity|exfalso].
    pose proof (gaps_canon _ a b _ Hc) as Hcg. rewrite Hg in Hcg. cbn in Hcg.
    assert (mem p (gaps a b s)) as Hm by (rewrite Hg; cbn; lia).
    apply (gaps_mem _ _ _ _ _ Hc) in Hm. destruct Hm as [Hp Hn]. apply Hn, Hall, Hp.
Qed.

(* ------------------------------------------------------------------ *)
(* overlapping / get                                                   *)

Lemma overlapping_In a b s r :
  In r (overlapping a b s) <-> In r s /\ fst r <= b /\ a <= snd r.
Proof.
  unfold overlapping. rewrite filter_In, andb_true_iff, !Z.leb_le. tauto.
Qed.

Lemma get_Some x s r : get x s = Some r -> In r s /\ fst r <= x <= snd r.
Proof.
  induction s as [|[a b] t IH]; cbn; [discriminate|].
  destruct ((a <=? x) && (x <=? b)) eqn:E.
  - intros H; injection H as <-. apply andb_true_iff in E. cbn. split; [left; reflexivity|lia].
  - intros H. destruct (IH H). split; [right; assumption|assumption].
Qed.

Lemma get_None x s : get x s = None <-> ~ mem x s.
Proof.
  induction s as [|[a b] t IH]; cbn; [tauto|].
  destruct ((a <=? x) && (x <=? b)) eqn:E.
  - apply andb_true_iff in E. split; [discriminate|intros H; exfalso; apply H; left; lia].
  - apply andb_false_iff in E. rewrite IH. split; intros H; [intros [Hx|Hx]; [lia|tauto]|tauto].
Qed.

Lemma In_mem r s x : In r s -> fst r <= x <= snd r -> mem x s.
Proof.
  induction s as [|[a b] t IH]; cbn; [tauto|].
  intros [<-|Hin] Hx; [left; exact Hx|right; apply IH; assumption].
Qed.

Lemma mem_In x s : mem x s -> exists r, In r s /\ fst r <= x <= snd r.
Proof.
  induction s as [|[a b] t IH]; cbn; [tauto|].
  intros [Hx|Hx]; [exists (a, b); cbn; tauto|].
  destruct (IH Hx) as (r & Hr & Hrx). exists r. tauto.
Qed.

(* in a canonical set the range containing x is unique *)
Lemma canon_In_unique : forall s lo r1 r2 x, canon_from lo s ->
  In r1 s -> In r2 s -> fst r1 <= x <= snd r1 -> fst r2 <= x <= snd r2 -> r1 = r2.
Proof.
  induction s as [|[a b] t IH]; intros lo r1 r2 x Hc H1 H2 Hx1 Hx2; [destruct H1|].
  cbn in Hc. destruct Hc as (Hlo & Hab & Ht).
  assert (Hlow : forall r, In r t -> fst r <= x <= snd r -> b + 2 <= x).
  { intros r Hr Hrx. apply (canon_from_lower _ _ _ Ht). eapply In_mem; eassumption. }
  destruct H1 as [<-|H1], H2 as [<-|H2]; cbn in *.
  - reflexivity.
  - specialize (Hlow _ H2 Hx2). lia.
  - specialize (Hlow _ H1 Hx1). lia.
  - eapply IH; eassumption.
Qed.

(* ------------------------------------------------------------------ *)
(* extensionality of canonical sets                                    *)

Lemma canon_ext : forall s1 s2 lo1 lo2,
  canon_from lo1 s1 -> canon_from lo2 s2 ->
  (forall x, mem x s1 <-> mem x s2) -> s1 = s2.
Proof.
  induction s1 as [|[a1 b1] t1 IH]; intros s2 lo1 lo2 H1 H2 Hext.
  - destruct s2 as [|[a2 b2] t2]; [reflexivity|exfalso].
    cbn in H2. apply (Hext a2). cbn. lia.
  - destruct s2 as [|[a2 b2] t2].
    { exfalso. cbn in H1. apply (Hext a1). cbn. lia. }
    cbn in H1, H2. destruct H1 as (L1 & N1 & T1), H2 as (L2 & N2 & T2).
    assert (Low1 : forall x, mem x t1 -> b1 + 2 <= x)
      by (intros x0 Hx0; eapply canon_from_lower; eassumption).
    assert (Low2 : forall x, mem x t2 -> b2 + 2 <= x)
      by (intros x0 Hx0; eapply canon_from_lower; eassumption).
    assert (a1 = a2).
    { assert (mem a1 ((a2, b2) :: t2)) as M by (apply Hext; cbn; lia).
      assert (mem a2 ((a1, b1) :: t1)) as M' by (apply Hext; cbn; lia).
      cbn in M, M'. destruct M as [M|M]; [|specialize (Low2 _ M)];
        destruct M' as [M'|M']; [|specialize (Low1 _ M')| |specialize (Low1 _ M')]; lia. }
    subst a2.
    assert (b1 = b2).
    { destruct (Z.lt_trichotomy b1 b2) as [Hlt|[Heq|Hgt]]; [exfalso|exact Heq|exfalso].
      - assert (mem (b1 + 1) ((a1, b1) :: t1)) as M by (apply Hext; cbn; lia).
        cbn in M. destruct M as [M|M]; [lia|specialize (Low1 _ M); lia].
      - assert (mem (b2 + 1) ((a1, b2) :: t2)) as M by (apply Hext; cbn; lia).
        cbn in M. destruct M as [M|M]; [lia|specialize (Low2 _ M); lia]. }
    subst b2. f_equal.
    apply (IH t2 _ _ T1 T2). intros x. specialize (Hext x). cbn in Hext. split; intros M.
    + pose proof (Low1 _ M). destruct (proj1 Hext (or_intror M)) as [|]; [lia|assumption].
    + pose proof (Low2 _ M). destruct (proj2 Hext (or_intror M)) as [|]; [lia|assumption].
Qed.

Theorem canonical_ext s1 s2 :
  canonical s1 -> canonical s2 -> (forall x, mem x s1 <-> mem x s2) -> s1 = s2.
Proof. intros [l1 H1] [l2 H2]. eapply canon_ext; eassumption. Qed.

(* ------------------------------------------------------------------ *)
(* folds                                                               *)

Definition ranges_ok (rs : list (Z * Z)) : Prop := Forall (fun r => fst r <= snd r) rs.

Lemma ins_all_canonical rs : forall s, ranges_ok rs -> canonical s -> canonical (ins_all rs s).
Proof.
  induction rs as [|[a b] rs IH]; intros s Hok Hc; cbn; [exact Hc|].
  inversion Hok; subst. apply IH; [assumption|]. apply ins_canonical; assumption.
Qed.

Lemma ins_all_mem rs : forall s x, ranges_ok rs ->
  (mem x (ins_all rs s) <-> mem x rs \/ mem x s).
Proof.
  induction rs as [|[a b] rs IH]; intros s x Hok; cbn [ins_all fold_left mem].
  - tauto.
  - inversion Hok; subst. cbn [fst snd] in *.
    change (fold_left (fun acc r => ins (fst r) (snd r) acc) rs (ins a b s)) with (ins_all rs (ins a b s)).
    rewrite IH by assumption. rewrite ins_mem by assumption. tauto.
Qed.

Lemma rem_all_canonical rs : forall s, ranges_ok rs -> canonical s -> canonical (rem_all rs s).
Proof.
  induction rs as [|[a b] rs IH]; intros s Hok Hc; cbn; [exact Hc|].
  inversion Hok; subst. apply IH; [assumption|]. apply rem_canonical; assumption.
Qed.

Lemma rem_all_mem rs : forall s x, ranges_ok rs -> canonical s ->
  (mem x (rem_all rs s) <-> mem x s /\ ~ mem x rs).
Proof.
  induction rs as [|[a b] rs IH]; intros s x Hok Hc; cbn [rem_all fold_left mem].
  - tauto.
  - inversion Hok as [|r rs' Hab Hok']; subst. cbn [fst snd] in *.
    change (fold_left (fun acc r => rem (fst r) (snd r) acc) rs (rem a b s))
      with (rem_all rs (rem a b s)).
    rewrite IH by (try assumption; apply rem_canonical; assumption).
    destruct Hc as [lo Hc]. rewrite (rem_mem _ _ _ _ _ Hab Hc). tauto.
Qed.

Lemma norm_canonical rs : ranges_ok rs -> canonical (norm rs).
Proof. intros H. apply ins_all_canonical; [exact H|apply canonical_nil]. Qed.

Lemma norm_mem rs x : ranges_ok rs -> (mem x (norm rs) <-> mem x rs).
Proof. intros H. unfold norm. rewrite ins_all_mem by exact H. cbn. tauto. Qed.

Lemma canon_ranges_ok lo s : canon_from lo s -> ranges_ok s.
Proof.
  revert lo; induction s as [|[a b] t IH]; intros lo H; [constructor|].
  cbn in H. constructor; [cbn; lia|]. eapply IH. exact (proj2 (proj2 H)).
Qed.

Lemma canonical_ranges_ok s : canonical s -> ranges_ok s.
Proof. intros [lo H]. eapply canon_ranges_ok; exact H. Qed.

(* a canonical list is its own normal form *)
Lemma norm_id s : canonical s -> norm s = s.
Proof.
  intros Hc. apply canonical_ext; [apply norm_canonical, canonical_ranges_ok, Hc|exact Hc|].
  intros x. apply norm_mem, canonical_ranges_ok, Hc.
Qed.
