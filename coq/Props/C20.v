(* C20 — Database writers are mutually exclusive, prioritised and never deadlock.
   Model: Model/WritePool.v (the dispatcher over three queues with one guard at a time;
   tasks holding and requesting ranked locks).  Proofs: Proofs/WritePoolProofs.v.
   PARTIAL: tokio scheduling, timeouts (5 min per step of write_inner) and the fairness of the
   underlying semaphore are runtime.  Which locks each function of the agent takes, in which
   order and for how long, is READ FROM THE SOURCE on every run (tools/lockorder2coq.py ->
   Gen/LockOrder.v: every non-test function that takes the write connection, the bookie or a
   per-actor bookkeeping lock, as acquire / release steps; guard lifetimes approximated
   textually, erring towards "held longer"; nested lock-taking calls fail closed); the older
   hand-written activity table is kept below as a second reading and exercised by a watchdog
   run on a real agent. *)
From Coq Require Import List ZArith Bool Lia.
From Corro Require Import Model.WritePool Model.LockSeq Gen.LockOrder Proofs.WritePoolProofs Proofs.LockSeqProofs.
Import ListNotations.
Open Scope Z_scope.

(* a connection is only handed out while nobody holds one (the guard is a single option in the
   model; that the real pool never has two live WriteConn values is what the harness samples) *)
Theorem C20_grant_needs_free : forall s o, grants (wp_step s o) <> grants s -> holder s = None /\ o = Dispatch.
Proof. exact grant_needs_free. Qed.
Print Assumptions C20_grant_needs_free.

(* when the connection is free a waiting client-priority request is served before any sync or
   background request, and a sync request before any background request; requests cancelled
   while queued are discarded without being served *)
Theorem C20_priority_first : forall s, holder s = None -> q_high s <> [] ->
  let s' := wp_step s Dispatch in
  q_normal s' = q_normal s /\ q_low s' = q_low s /\
  (holder s' = None \/ exists id, holder s' = Some id /\ In id (q_high s) /\ is_cancelled s id = false).
Proof. exact dispatch_prefers_high. Qed.
Print Assumptions C20_priority_first.

Theorem C20_normal_before_low : forall s, holder s = None -> q_high s = [] -> q_normal s <> [] ->
  let s' := wp_step s Dispatch in
  q_low s' = q_low s /\
  (holder s' = None \/ exists id, holder s' = Some id /\ In id (q_normal s) /\ is_cancelled s id = false).
Proof. exact dispatch_prefers_normal. Qed.
Print Assumptions C20_normal_before_low.

(* admission never gets stuck: a free connection with somebody queued always leads to a grant or
   to the removal of a dead entry, and a held connection is freed by its release or by the
   cancellation of its holder *)
Theorem C20_admission_progress : forall s, holder s = None -> (0 < waiting s)%nat ->
  (waiting (wp_step s Dispatch) < waiting s)%nat.
Proof. exact dispatch_progress. Qed.
Print Assumptions C20_admission_progress.

Theorem C20_cancelled_holder_frees : forall s id, holder s = Some id -> holder (wp_step s (Cancel id)) = None.
Proof. exact cancel_holder_frees. Qed.
Print Assumptions C20_cancelled_holder_frees.

(* lock ordering: any set of tasks that only request locks ranked above everything they hold can
   always make a step -- for every state, every number of tasks, every rank function *)
Theorem C20_ordered_locks_never_deadlock : forall (rank : Z -> Z) (ts : list task),
  ts <> [] -> forallb (ordered rank) ts = true ->
  exists i t, nth_error ts i = Some t /\ can_step ts i t = true.
Proof. exact ordered_locks_never_deadlock. Qed.
Print Assumptions C20_ordered_locks_never_deadlock.

(* the agent's activities, as read from the source (api/public/mod.rs make_broadcastable_changes,
   agent/util.rs process_multiple_changes / process_fully_buffered_changes / clear_buffered_meta_loop,
   types/sync.rs generate_sync), as sequences of acquire / release steps.  Locks: 0 = write
   connection (queue, guard, pooled connection), 1 = write permit, 2 = the bookie (the map of
   actors), 10+a = the bookkeeping of actor a.  The bookie lock is only ever held for the
   lookup `bookie.write(..).ensure(actor)` / the clone of the map and released before the next
   lock is requested, so it ranks ABOVE the per-actor locks: rank 0, 1, then 10+a by actor, then the
   bookie.  Every point of every activity is an ordered task, so no mix of them can deadlock. *)
Definition act_local_write := [Acq 0; Acq 1; Acq 10; Rel 10; Rel 1; Rel 0].
Definition per_actor (a : Z) := [Acq 2; Rel 2; Acq (10 + a); Rel (10 + a)].
Definition act_remote_apply :=                      (* a batch with changes of actors 0, 1, 2: three passes over the actors *)
  [Acq 0; Acq 1] ++ per_actor 0 ++ per_actor 1 ++ per_actor 2 ++ per_actor 0 ++ per_actor 1 ++ per_actor 2 ++
  per_actor 0 ++ per_actor 1 ++ per_actor 2 ++ [Rel 1; Rel 0].
(* (keeping the per-actor locks of earlier actors while going on would be ordered as well) *)
Definition act_remote_apply_holding :=
  [Acq 0; Acq 1; Acq 2; Rel 2; Acq 10; Acq 2; Rel 2; Acq 11; Acq 2; Rel 2; Acq 12; Rel 12; Rel 11; Rel 10; Rel 1; Rel 0].
Definition act_buffered_apply := [Acq 0; Acq 1; Acq 2; Rel 2; Acq 11; Rel 11; Rel 1; Rel 0].
Definition act_generate_sync := [Acq 2; Rel 2; Acq 10; Rel 10; Acq 11; Rel 11; Acq 12; Rel 12].
Definition act_clear_buffered := [Acq 0; Acq 1; Rel 1; Rel 0].
Definition agent_rank (l : Z) : Z := if l =? 2 then 1000 else l.

Fixpoint prefixes (l : list Z) (held : list Z) : list task :=
  match l with
  | [] => [mkTask held None]
  | x :: t => mkTask held (Some x) :: prefixes t (held ++ [x])
  end.

Example C20_agent_activities_are_ordered :
  forallb (ordered agent_rank)
    (flat_map (fun a => points a []) [act_local_write; act_remote_apply; act_remote_apply_holding; act_buffered_apply; act_generate_sync; act_clear_buffered]) = true.
Proof. vm_compute. reflexivity. Qed.

(* holding the bookie while asking for a per-actor lock, or asking for the connection while
   holding bookkeeping, is rejected by the same test *)
Example C20_bookie_held_across_is_not_ordered :
  forallb (ordered agent_rank) (points [Acq 0; Acq 1; Acq 2; Acq 10] []) = false /\
  forallb (ordered agent_rank) (points [Acq 10; Acq 0] []) = false.
Proof. vm_compute. split; reflexivity. Qed.

(* a swapped order is rejected by the same test *)
Example C20_swapped_order_is_not_ordered :
  forallb (ordered (fun x => x)) (prefixes [2; 0] []) = false.
Proof. vm_compute. reflexivity. Qed.

(* ---- the lock sites of the CURRENT source ---- *)
(* natural ranks: connection 0 < permit 1 < bookie 2 < per-actor bookkeeping 10, 11, .. *)
Definition src_rank (l : Z) : Z := l.
Definition src_points : list task := flat_map (fun a => points (snd a) []) src_activities.

(* at every acquire of every lock-taking function of the source, the requested lock ranks above
   everything the function holds at that point (this is the theorem a swapped or nested lock
   acquisition in the source breaks) *)
Theorem C20_source_lock_sites_are_ordered : forallb (ordered src_rank) src_points = true.
Proof. vm_compute. reflexivity. Qed.
Print Assumptions C20_source_lock_sites_are_ordered.

(* hence: any number of threads, each at any point of any of these functions, is never stuck *)
Theorem C20_source_activities_never_deadlock : forall ts : list task,
  ts <> [] -> (forall t, In t ts -> In t src_points) ->
  exists i t, nth_error ts i = Some t /\ can_step ts i t = true.
Proof.
  intros ts Hne Hin. apply (C20_ordered_locks_never_deadlock src_rank ts Hne).
  apply forallb_forall. intros t Ht.
  pose proof C20_source_lock_sites_are_ordered as H. rewrite forallb_forall in H. exact (H t (Hin t Ht)).
Qed.
Print Assumptions C20_source_activities_never_deadlock.

(* "Every mix ... completes".  Threads run acquire / release sequences under mutual exclusion
   of every lock (a thread's acquire is possible only while no other thread holds the lock).
   For EVERY rank function and EVERY list of threads whose remaining sequences are ordered at
   every point and release what they took: while somebody has work left somebody's next step
   is possible (no mix is stuck); a possible step keeps the discipline and shortens the work
   left by one (so every run of possible steps is finite and can only end with all done). *)
Theorem C20_ordered_threads_progress : forall (rank : Z -> Z) (ts : list thr),
  Forall (thr_ok rank) ts -> all_done ts = false ->
  exists pre t post, ts = pre ++ t :: post /\ enabled_in (pre ++ post) t = true.
Proof. exact ordered_threads_progress. Qed.
Print Assumptions C20_ordered_threads_progress.

Theorem C20_ordered_threads_step : forall (rank : Z -> Z) pre t post,
  Forall (thr_ok rank) (pre ++ t :: post) -> enabled_in (pre ++ post) t = true ->
  Forall (thr_ok rank) (pre ++ thr_step t :: post) /\
  (work (pre ++ thr_step t :: post) + 1 = work (pre ++ t :: post))%nat.
Proof. exact ordered_threads_step. Qed.
Print Assumptions C20_ordered_threads_step.

(* every lock-taking function of the source releases what it took *)
Theorem C20_source_activities_are_balanced :
  forallb (fun a => match end_held (snd a) [] with [] => true | _ => false end) src_activities = true.
Proof. vm_compute. reflexivity. Qed.
Print Assumptions C20_source_activities_are_balanced.

(* any number of threads, each starting any lock-taking function of the CURRENT source, in any
   mix: all of them complete *)
Theorem C20_every_mix_of_source_activities_completes : forall ts : list thr,
  (forall t, In t ts -> exists a, In a src_activities /\ t = mkThr (snd a) []) ->
  exists ts', runs ts ts' /\ all_done ts' = true.
Proof.
  intros ts Hts. apply (ordered_threads_complete src_rank (work ts) ts eq_refl).
  apply Forall_forall. intros t Ht. destruct (Hts t Ht) as (a & Ha & ->).
  apply start_ok.
  - pose proof C20_source_lock_sites_are_ordered as H. unfold src_points in H.
    rewrite forallb_forall in H. apply forallb_forall. intros x Hx. apply H.
    apply in_flat_map. exists a. split; assumption.
  - pose proof C20_source_activities_are_balanced as H. rewrite forallb_forall in H.
    specialize (H a Ha). destruct (end_held (snd a) []); [reflexivity|discriminate].
Qed.
Print Assumptions C20_every_mix_of_source_activities_completes.

(* two threads taking the connection and one actor's bookkeeping in opposite orders: both are
   balanced, the second is not ordered, and the mix has a reachable state with work left in
   which nobody can step *)
Example C20_opposite_orders_get_stuck :
  let a := [Acq 0; Acq 10; Rel 10; Rel 0] in
  let b := [Acq 10; Acq 0; Rel 0; Rel 10] in
  forallb (ordered src_rank) (points b []) = false /\
  let s := [thr_step (mkThr a []); thr_step (mkThr b [])] in
  all_done s = false /\
  enabled_in [nth 1 s (mkThr [] [])] (nth 0 s (mkThr [] [])) = false /\
  enabled_in [nth 0 s (mkThr [] [])] (nth 1 s (mkThr [] [])) = false.
Proof. vm_compute. repeat split; reflexivity. Qed.

(* the generated table is not empty and contains the writers the property names *)
Example C20_source_table_nonvacuous :
  (10 <= length src_activities)%nat /\ (40 <= length src_points)%nat /\
  existsb (fun t => match t_wants t with Some 10 => existsb (Z.eqb 0) (t_holds t) | _ => false end) src_points = true.
Proof. vm_compute. repeat split; try reflexivity; apply Nat.leb_le; reflexivity. Qed.

Example C20_nonvacuous :
  (* the connection is held; low 1, normal 2, priority 3, priority 4 queue up; 3 is cancelled;
     after the release the grants are 4, 2, 1 *)
  let ops := [Req PHigh 9; Dispatch; Req PLow 1; Req PNormal 2; Req PHigh 3; Req PHigh 4; Cancel 3;
              Release; Dispatch; Dispatch; Release; Dispatch; Release; Dispatch; Release] in
  grants (wp_run ops pool_init) = [9; 4; 2; 1] /\ waiting (wp_run ops pool_init) = 0%nat.
Proof. vm_compute. split; reflexivity. Qed.
