(* Order-free specification of what a node shows for one row after merging a collection of
   change records (Model/Crdt.v is the operational side): the greatest causal length wins; an
   even causal length means the row is deleted; for an odd one the data column carries the
   lexicographically greatest (column version, value) among the data records of that
   generation.  Nothing here depends on the order or the multiplicity of the records. *)
From Coq Require Import List ZArith Bool.
From Corro Require Import Model.Crdt.
Import ListNotations.
Open Scope Z_scope.

(* what is observable of a row: causal length and, if the column is set, (value, column version) *)
Definition robs := (Z * option (Z * Z))%type.
Definition row_obs (s : rowst) : robs :=
  (rw_cl s, match rw_col s with Some c => Some (c_val c, c_colv c) | None => None end).

Definition maxcl (P : list rec) : Z := fold_right (fun r m => Z.max (r_cl r) m) 0 P.
Definition is_top (M : Z) (r : rec) : bool := negb (r_sent r) && (r_cl r =? M).
Definition rkey (r : rec) : Z * Z := (r_colv r, r_val r).
Definition lexlt (a b : Z * Z) : bool := (fst a <? fst b) || ((fst a =? fst b) && (snd a <? snd b)).
Definition lexmax (a b : Z * Z) : Z * Z := if lexlt a b then b else a.
Definition best (D : list rec) : option (Z * Z) :=
  fold_right (fun r acc => match acc with None => Some (rkey r) | Some y => Some (lexmax (rkey r) y) end) None D.

Definition row_spec (P : list rec) : option robs :=
  match P with
  | [] => None
  | _ => let M := maxcl P in
         if Z.even M then Some (M, None)
         else Some (M, match best (filter (is_top M) P) with Some (cv, v) => Some (v, cv) | None => None end)
  end.

(* well-formed record collections: causal lengths start at 1, a data record has a column
   version of at least 1, and the newest generation of a live row comes with a value for the
   column (cr-sqlite writes a clock row for every column of an inserted row, and Corrosion
   applies a version only as a whole) *)
Definition rec_ok (r : rec) : bool := (1 <=? r_cl r) && (r_sent r || (1 <=? r_colv r)).
Definition wf_row (P : list rec) : bool :=
  forallb rec_ok P && (Z.even (maxcl P) || existsb (is_top (maxcl P)) P).

Definition on_row (k : Z) (rs : list rec) : list rec := filter (fun r => r_row r =? k) rs.
Definition wf (rs : list rec) : Prop := forall k, wf_row (on_row k rs) = true.

(* the observable part of a whole database *)
Definition omap (d : db) : list (Z * robs) := map (fun kv => (fst kv, row_obs (snd kv))) d.
