(* C02 — placeholder while the proofs are being developed: see below. *)
From Coq Require Import List ZArith Bool Lia.
From Corro Require Import Lib.Ivl Model.Book Model.SeqRows Model.BookOps Gen.Consts.
Import ListNotations.
Open Scope Z_scope.

(* the source's PartialVersion::full_range starts at seq 0 (regenerated from
   agent.rs on every run): is_complete and the apply trigger agree *)
Theorem C02_is_complete_agrees_with_trigger : forall p, is_complete p = fully_buffered p.
Proof. intros p. unfold is_complete, fully_buffered. reflexivity. Qed.
Print Assumptions C02_is_complete_agrees_with_trigger.
