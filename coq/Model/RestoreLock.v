(* Model of the lock protocol under `corrosion restore`,
   crates/klukai-types/src/sqlite3_restore.rs: lock_all.  POSIX byte-range locks (fcntl
   F_SETLK, non blocking) on the lock bytes SQLite itself uses: a request is granted iff no
   OTHER owner holds a conflicting lock on the byte (read/read is the only compatible pair).
   Rollback-journal mode: a reader holds a read lock on SHARED while it reads; lock_all ends
   holding write locks on RESERVED, PENDING and SHARED.  WAL mode: a reader holds a read lock
   on one of the read marks READ0..READ4; lock_all ends holding write locks on WRITE, CKPT,
   RECOVER and READ0..READ4. *)
From Coq Require Import List ZArith Bool.
Import ListNotations.
Open Scope Z_scope.

Inductive lkind := LRead | LWrite.
Definition lentry := (Z * Z * lkind)%type.            (* (lock byte, owner, kind) *)
Definition ltable := list lentry.

Definition conflicts (k1 k2 : lkind) : bool := match k1, k2 with LRead, LRead => false | _, _ => true end.

Definition blocks (b o : Z) (k : lkind) (e : lentry) : bool :=
  let '(b', o', k') := e in (b' =? b) && negb (o' =? o) && conflicts k k'.
Definition mine (b o : Z) (e : lentry) : bool := let '(b', o', _) := e in (b' =? b) && (o' =? o).

(* F_SETLK: refused if another owner holds a conflicting lock on the byte; a granted request
   replaces the owner's own lock on that byte *)
Definition try_lock (t : ltable) (b o : Z) (k : lkind) : option ltable :=
  if existsb (blocks b o k) t then None
  else Some ((b, o, k) :: filter (fun e => negb (mine b o e)) t).

Definition unlock (t : ltable) (b o : Z) : ltable := filter (fun e => negb (mine b o e)) t.

(* two different owners never hold conflicting locks on one byte *)
Definition compat (t : ltable) : bool :=
  forallb (fun e1 => forallb (fun e2 =>
     let '(b1, o1, k1) := e1 in let '(b2, o2, k2) := e2 in
     negb ((b1 =? b2) && negb (o1 =? o2) && conflicts k1 k2)) t) t.

Inductive lop := OLock (b o : Z) (k : lkind) | OUnlock (b o : Z).
Definition lock_step (t : ltable) (op : lop) : ltable :=
  match op with
  | OLock b o k => match try_lock t b o k with Some t' => t' | None => t end
  | OUnlock b o => unlock t b o
  end.

(* ---------- lock_all as a sequence of lock() calls ---------- *)
(* The calls themselves are generated from the source (Gen/RestoreLocks.v).  lock() retries a
   refused F_SETLK until its timeout and then fails, which makes lock_all -- and the restore --
   fail before the destination is touched: a refusal that lasts is `None` here. *)
Inductive lk := LkRead | LkWrite | LkUnlock.

Fixpoint run_locks (t : ltable) (w : Z) (calls : list (lk * Z)) : option ltable :=
  match calls with
  | [] => Some t
  | (LkUnlock, b) :: r => run_locks (unlock t b w) w r
  | (LkRead, b) :: r => match try_lock t b w LRead with Some t' => run_locks t' w r | None => None end
  | (LkWrite, b) :: r => match try_lock t b w LWrite with Some t' => run_locks t' w r | None => None end
  end.

Definition lk_eqb (a b : lk) : bool :=
  match a, b with LkRead, LkRead | LkWrite, LkWrite | LkUnlock, LkUnlock => true | _, _ => false end.
(* does the call sequence take a write lock on byte b? *)
Definition write_locks (calls : list (lk * Z)) (b : Z) : bool :=
  existsb (fun c => lk_eqb (fst c) LkWrite && (snd c =? b)) calls.
