(* C14 — Row-level update notifications reflect every changed key and its final fate.
   Model: Model/Updates.v (batch_candidates' cl cache and buffer, handle_candidates).
   Proofs: Proofs/UpdatesProofs.v. *)
From Coq Require Import List ZArith Bool Lia.
From Corro Require Import Gen.Consts Model.Updates Model.Crdt Proofs.UpdatesProofs Proofs.CrdtProofs.
Import ListNotations.
Open Scope Z_scope.

(* For every sequence of received candidate maps and flushes (any arrival order,
   any batching) over at most MAX distinct keys, once the feed has been flushed:
   - every key that was received has been notified, and its LAST notification
     carries the greatest causal length received for it;
   - per key, notifications never go back to an older state;
   - nothing is notified that was not received. *)
Theorem C14_final_fate : forall U ops,
  bounded updates_max_cache_entries U (received ops) ->
  let ns := snd (urun u_init (ops ++ [UFlush])) in
  (forall k M, maxcl k (received ops) None = Some M -> lastn k ns None = Some M) /\
  (forall k, mono_upto k ns None) /\
  (forall k c, lastn k ns None = Some c -> maxcl k (received ops) None = Some c).
Proof. exact (updates_final_fate updates_max_cache_entries updates_keep_cache_entries). Qed.
Print Assumptions C14_final_fate.

(* the notification says "deleted" exactly for an even causal length, which is
   exactly when the CRDT layer (Model/Crdt.v, validated against cr-sqlite in C01)
   shows no row; causal lengths only grow (C01: merge_cl_monotone), so the greatest
   causal length received is the row's current one as soon as the change that
   produced it has been matched *)
Theorem C14_deleted_iff_even : forall cl, kind_of cl = NDel <-> Z.odd cl = false.
Proof.
  intros cl. unfold kind_of. rewrite <- Z.negb_even. destruct (Z.even cl); cbn; split; intros H; try reflexivity; discriminate.
Qed.
Print Assumptions C14_deleted_iff_even.

Check merge_cl_monotone : forall o r, local_cl o <= local_cl (merge_row o r).

(* invariant kept by every step (any state reachable from the initial one) *)
Check urun_inv : forall maxn keep U ops st seen ns,
  uinv st seen ns -> bounded maxn U (seen ++ received ops) ->
  uinv (fst (urun_with maxn keep st ops)) (seen ++ received ops) (ns ++ snd (urun_with maxn keep st ops)).

(* With more than MAX distinct keys between two candidates of the same key the
   cache forgets it and an older state IS notified after a newer one: the bound
   in C14_final_fate is necessary (2001 other keys in between; real constants). *)
Definition ev_keys : list (ukey * Z) := map (fun i => ([Z.of_nat i], 1)) (seq 1 2000).
Definition ev_ops : list uop := [URecv [([0], 3)]; UFlush; URecv ev_keys; UFlush; URecv [([0], 2)]; UFlush].

Theorem C14_evict_refuted :
  let ns := snd (urun u_init ev_ops) in
  lastn [0] ns None = Some 2 /\ maxcl [0] (received ev_ops) None = Some 3 /\ ~ mono_upto [0] ns None.
Proof.
  split; [vm_compute; reflexivity|]. split; [vm_compute; reflexivity|].
  intros H.
  assert (E : filter (fun n => ukey_eqb (snd (fst n)) [0]) (snd (urun u_init ev_ops)) = [(NUpd, [0], 3); (NDel, [0], 2)])
    by (vm_compute; reflexivity).
  apply (mono_filter [0]) in H. rewrite E in H. cbn in H. lia.
Qed.
Print Assumptions C14_evict_refuted.

Example C14_nonvacuous :
  let ops := [URecv [([1], 1); ([2], 1)]; URecv [([1], 2)]; UFlush; URecv [([1], 3)]; URecv [([1], 2); ([2], 2)]] in
  snd (urun u_init (ops ++ [UFlush])) =
    [(NDel, [1], 2); (NUpd, [2], 1); (NUpd, [1], 3); (NDel, [2], 2)] /\
  bounded updates_max_cache_entries [[1]; [2]] (received ops).
Proof.
  split; [vm_compute; reflexivity|]. split; [vm_compute; discriminate|].
  cbn. intros k H. intuition (subst; auto).
Qed.
