(* Model of attaching to / resuming an existing subscription,
   crates/klukai-agent/src/api/public/pubsub.rs: catch_up_sub (subscribe to the live
   broadcast and buffer change events; read the snapshot or `changes_since(from)`; look at
   the first buffered event or at the matcher's last-change watch; re-read the log up to 5
   times while the live side is ahead; forward the pending event, the buffered ones and then
   the live ones) and of the client's continuity rule, crates/klukai-client/src/sub.rs:
   handle_eoq / handle_change.

   The producer is described by what catch_up_sub can observe of it:
     first  L0  greatest change id committed when the first read was done
     reads      greatest committed id at each later re-read (the log is complete up to it)
     peek       id of the first buffered live event, if any, else the watch value
     qrest      ids buffered after the peeked one
     live       ids received from the broadcast after the buffer was closed            *)
From Coq Require Import List ZArith Bool.
Import ListNotations.
Open Scope Z_scope.

Definition zrange (lo hi : Z) : list Z := map (fun i => lo + Z.of_nat i) (seq 0 (Z.to_nat (hi - lo + 1))).

(* `changes_since(L)` against a log whose greatest committed id is r *)
Definition read_since (L r : Z) : list Z * Z := let L' := Z.max L r in (zrange (L + 1) L', L').

(* the `for i in 0..5` loop: (delivered, last_change_id, left the loop by `break`) *)
Fixpoint retry (n : nat) (c L : Z) (reads : list Z) (acc : list Z) : list Z * Z * bool :=
  match n with
  | O => (acc, L, false)
  | S n' =>
    if L + 1 <=? c then
      let '(d, L') := read_since L (match reads with r :: _ => r | [] => L end) in
      retry n' c L' (tl reads) (acc ++ d)
    else (acc, L, true)
  end.

(* `if change_id > last_change_id { send; last_change_id = change_id }` *)
Definition fwd_filtered (st : list Z * Z) (id : Z) : list Z * Z :=
  let (acc, l) := st in if l <? id then (acc ++ [id], id) else (acc, l).

Record cin := mkCin {
  ci_from : Z;                 (* the resume point N; for a fresh attach N = L0 (the snapshot carries L0) *)
  ci_first : Z;                (* L0 *)
  ci_peek : option Z;
  ci_watch : Z;
  ci_reads : list Z;
  ci_qrest : list Z;
  ci_live : list Z }.

(* `filter_live`: does the forwarding of live events after the catch-up drop ids that were
   already delivered?  (generated from the source: Gen/CatchupCfg.v) *)
Definition catch_up (attempts : nat) (filter_live : bool) (i : cin) : list Z * bool :=
  let d0 := zrange (ci_from i + 1) (ci_first i) in
  let check := match ci_peek i with
               | Some c => Some c
               | None => if ci_watch i <=? ci_first i then None else Some (ci_watch i)
               end in
  let '(d1, L, ok) := match check with
                      | Some c => retry attempts c (ci_first i) (ci_reads i) []
                      | None => ([], ci_first i, true)
                      end in
  if negb ok then (d0 ++ d1, true)                      (* "could not catch up ... in 5 attempts": the stream stops *)
  else
    let st0 := match ci_peek i with Some c => fwd_filtered ([], L) c | None => ([], L) end in
    let st1 := fold_left fwd_filtered (ci_qrest i) st0 in
    let d3 := if filter_live then fst (fold_left fwd_filtered (ci_live i) ([], snd st1)) else ci_live i in
    (d0 ++ d1 ++ fst st1 ++ d3, false).

(* ---------- the client ---------- *)
Inductive cevent := CEoq (id : option Z) | CChange (id : Z).
Inductive cout := CAccept (id : Z) | CMissed (expected got : Z).

Definition client_step (last : option Z) (e : cevent) : option Z * list cout :=
  match e with
  | CEoq id => (id, [])
  | CChange id =>
    match last with
    | Some l => if l + 1 =? id then (Some id, [CAccept id]) else (last, [CMissed (l + 1) id])
    | None => (Some id, [CAccept id])
    end
  end.

Fixpoint client_run (last : option Z) (es : list cevent) : list cout :=
  match es with
  | [] => []
  | e :: t => let (l', o) := client_step last e in o ++ client_run l' t
  end.

(* ---------- oracle on an observed stream of one subscriber ---------- *)
(* ids must be start+1, start+2, ... ; `stopped` says the stream ended (error event or close) *)
Fixpoint consecutive_from (start : Z) (ids : list Z) : bool :=
  match ids with
  | [] => true
  | x :: t => (x =? start + 1) && consecutive_from x t
  end.
