From Coq Require Import List ZArith Bool Lia.
From Corro Require Import Model.Authz.
Import ListNotations.
Open Scope Z_scope.

Lemma zl_eqb_spec : forall a b, zl_eqb a b = true <-> a = b.
Proof.
  induction a as [|x a IH]; destruct b as [|y b]; cbn; split; intros H; try reflexivity; try discriminate.
  - apply andb_true_iff in H as [H1 H2]. apply Z.eqb_eq in H1. apply IH in H2. subst. reflexivity.
  - injection H as -> ->. apply andb_true_iff. split; [apply Z.eqb_refl|apply IH; reflexivity].
Qed.

(* require_authz lets a request through exactly when no token is configured or the
   header carries exactly the configured token *)
Theorem passes_spec cfg h :
  passes true cfg h = None <-> (cfg = None \/ exists tok, cfg = Some tok /\ h = HBearer tok).
Proof.
  unfold passes. destruct h as [| |t], cfg as [tok|]; cbn; split; intros H; auto; try discriminate.
  - destruct H as [H|[t [H1 H2]]]; discriminate.
  - destruct H as [H|[t [H1 H2]]]; discriminate.
  - destruct (zl_eqb t tok) eqn:E; [|discriminate]. apply zl_eqb_spec in E. subst. right. exists tok. auto.
  - destruct H as [H|[t' [H1 H2]]]; [discriminate|]. injection H1 as E1. injection H2 as E2. subst.
    rewrite (proj2 (zl_eqb_spec t' t') eq_refl). reflexivity.
Qed.

Lemma passes_refusal mia cfg h o : passes mia cfg h = Some o -> o = O401 \/ o = O400.
Proof.
  unfold passes. destruct h as [| |t], cfg as [tok|], mia; cbn; intros H; try discriminate; try (injection H as <-; auto).
  - destruct (zl_eqb t tok); [discriminate|injection H as <-; auto].
  - destruct (zl_eqb t tok); [discriminate|injection H as <-; auto].
Qed.

(* when every route and the fallback are under the authorization layer, a refused
   request never reaches a handler, whatever route or method it names *)
Theorem guarded_refusal mia items cfg p m h o :
  all_guarded items = true -> passes mia cfg h = Some o ->
  api_serve mia items cfg p m h = o /\ (o = O401 \/ o = O400).
Proof.
  intros Hg Hp. split; [|exact (passes_refusal _ _ _ _ Hp)].
  unfold api_serve, all_guarded in *. destruct (build items) as [routes fb]. cbn [fst snd] in Hg.
  apply andb_true_iff in Hg as [Hr Hf]. subst fb.
  assert (G : forall rs i r g, forallb (fun r => snd r) rs = true -> find_route p m rs i = Some (r, g) -> g = true).
  { induction rs as [|[[p' m'] g'] t IH]; intros i r g Hall Hfind; cbn in *; [discriminate|].
    apply andb_true_iff in Hall as [H1 H2].
    destruct (zl_eqb p p' && meth_eqb m m'); [injection Hfind as _ <-; exact H1|exact (IH _ _ _ H2 Hfind)]. }
  destruct (find_route p m routes 0) as [[i g]|] eqn:E.
  - rewrite (G _ _ _ _ Hr E), Hp. reflexivity.
  - rewrite Hp. reflexivity.
Qed.

(* ... and an admitted request is not refused *)
Theorem admitted_reaches mia items cfg p m h :
  passes mia cfg h = None ->
  exists o, api_serve mia items cfg p m h = o /\ o <> O401 /\ o <> O400.
Proof.
  intros Hp. unfold api_serve. destruct (build items) as [routes fb].
  destruct (find_route p m routes 0) as [[i g]|].
  - destruct g; [rewrite Hp|]; eexists; (split; [reflexivity|split; discriminate]).
  - destruct fb; [rewrite Hp|]; eexists; (split; [reflexivity|split; discriminate]).
Qed.

(* a layer added after the routes guards all of them: the shape the real router has *)
Lemma build_routes_then_authz routes rest :
  (forall it, In it routes -> exists p m, it = RRoute p m) ->
  (forall it, In it rest -> it = RLayer LOther \/ it = RLayer LAuthz \/ it = RRouteLayer) ->
  all_guarded (routes ++ RLayer LAuthz :: rest) = true.
Proof.
  intros Hr Hrest. unfold all_guarded, build. rewrite fold_left_app. cbn [fold_left].
  set (st := fold_left add_item routes ([], false)).
  assert (G : forall l st0, (forall it, In it l -> it = RLayer LOther \/ it = RLayer LAuthz \/ it = RRouteLayer) ->
              forallb (fun r : groute => snd r) (fst st0) = true -> snd st0 = true ->
              forallb (fun r : groute => snd r) (fst (fold_left add_item l st0)) = true /\ snd (fold_left add_item l st0) = true).
  { induction l as [|it l IH]; intros st0 Hl H1 H2; cbn; [auto|].
    assert (Hit : it = RLayer LOther \/ it = RLayer LAuthz \/ it = RRouteLayer) by (apply Hl; left; reflexivity).
    apply IH; [intros x Hx; apply Hl; right; exact Hx| |].
    - destruct Hit as [E|[E|E]]; subst it; cbn; auto.
      clear. induction (fst st0) as [|r t IHt]; cbn; [reflexivity|exact IHt].
    - destruct Hit as [E|[E|E]]; subst it; cbn; auto. }
  destruct (G rest (add_item st (RLayer LAuthz)) Hrest) as [H1 H2].
  - cbn. clear. induction (fst st) as [|r t IHt]; cbn; [reflexivity|exact IHt].
  - reflexivity.
  - apply andb_true_iff. split; [exact H1|exact H2].
Qed.
