(* The seq-range bookkeeping of process_incomplete_version: for every sequence
   of received chunk ranges the rows of a version stay the canonical
   (disjoint, non-adjacent, sorted) list denoting exactly the union of the
   received ranges; the `len = 1` failsafe never fires and the INSERT never
   conflicts.  The WHERE clause of the DELETE is proved equivalent to
   "overlaps or is adjacent to the incoming range". *)
From Coq Require Import List ZArith Bool Lia.
From Corro Require Import Lib.Ivl Model.Book Model.SeqRows Proofs.BookProofs.
Import ListNotations.
Open Scope Z_scope.

(* the SQL predicate *)
Lemma seq_del_pred_spec rs re s e :
  0 <= rs <= re -> 0 <= s <= e ->
  (seq_del_pred rs re s e = true <-> rs <= e + 1 /\ s - 1 <= re).
Proof.
  intros Hr Hs. unfold seq_del_pred, Gen.SeqSql.seq_del_pred_src.
  rewrite ?orb_true_iff, ?andb_true_iff, ?negb_true_iff, ?Z.leb_le, ?Z.ltb_lt, ?Z.eqb_eq, ?Z.eqb_neq.
  lia.
Qed.

Definition rset (rows : list srow) : iset := map fst rows.

Lemma srow_insert_fst r rows :
  option_map rset (srow_insert r rows) = row_insert (fst r) (rset rows).
Proof.
  induction rows as [|x t IH]; [reflexivity|]. cbn [srow_insert rset map row_insert].
  destruct (fst (fst r) =? fst (fst x)); [reflexivity|].
  destruct (fst (fst r) <? fst (fst x)); [reflexivity|].
  fold (rset t). rewrite <- IH. destruct (srow_insert r t); reflexivity.
Qed.

(* a canonical set whose members form a convex set of integers is one range *)
Lemma convex_single l lo :
  canon_from lo l -> l <> [] ->
  (forall x y z, mem x l -> mem z l -> x <= y <= z -> mem y l) ->
  exists a b, l = [(a, b)].
Proof.
  intros Hc Hne Hconv. destruct l as [|[a b] t]; [contradiction|].
  destruct t as [|[c d] t']; [exists a, b; reflexivity|exfalso].
  cbn [canon_from] in Hc. destruct Hc as (_ & Hab & Htail).
  assert (Hcd : b + 2 <= c /\ c <= d) by (cbn in Htail; lia).
  assert (mem (b + 1) ((a, b) :: (c, d) :: t')) as Hm.
  { apply (Hconv b (b + 1) c); [cbn; lia|cbn; lia|lia]. }
  cbn [mem] in Hm. destruct Hm as [Hm|Hm]; [lia|].
  pose proof (canon_from_lower (b + 2) ((c, d) :: t') (b + 1) Htail Hm). lia.
Qed.

Definition hitp (s e : Z) (p : Z * Z) : bool := seq_del_pred (fst p) (snd p) s e.

Lemma map_filter_fst {B} (f : Z * Z -> bool) (l : list (Z * Z * B)) :
  map fst (filter (fun r => f (fst r)) l) = filter f (map fst l).
Proof.
  induction l as [|x t IH]; [reflexivity|]. cbn. destruct (f (fst x)); cbn; [f_equal|]; exact IH.
Qed.

Definition rows_ok (rows : list srow) : Prop :=
  (exists lo, canon_from lo (rset rows)) /\ (forall p, In p (rset rows) -> 0 <= fst p).

Lemma rows_ok_nil : rows_ok [].
Proof. split; [exists 0; exact I|intros p []]. Qed.

Theorem incomplete_rows_ok rows s e last :
  rows_ok rows -> 0 <= s <= e ->
  exists rows' a b,
    incomplete_rows rows s e last = IncOk rows' [(a, b)] /\
    rows_ok rows' /\
    rset rows' = ins s e (rset rows) /\
    a <= s /\ e <= b /\ In (a, b) (rset rows').
Proof.
  intros [[lo Hc] Hpos] Hse. unfold incomplete_rows.
  set (hit := fun r : srow => seq_del_pred (fst (fst r)) (snd (fst r)) s e).
  set (deleted := filter hit rows). set (kept := filter (fun r => negb (hit r)) rows).
  set (R := rset rows) in *.
  assert (Hok : forall p, In p R -> 0 <= fst p <= snd p).
  { intros p Hp. destruct (canon_In_ok _ _ _ Hc Hp). specialize (Hpos p Hp). lia. }
  assert (Hhit : forall p, In p R -> (hitp s e p = true <-> fst p <= e + 1 /\ s - 1 <= snd p)).
  { intros p Hp. unfold hitp. apply seq_del_pred_spec; [apply Hok, Hp|exact Hse]. }
  assert (Hdel : map fst deleted = filter (hitp s e) R)
    by (unfold deleted, hit; apply (map_filter_fst (hitp s e))).
  assert (Hkept : rset kept = filter (fun p => negb (hitp s e p)) R)
    by (unfold kept, hit, rset; apply (map_filter_fst (fun p => negb (hitp s e p)))).
  assert (Hdok : ranges_ok (map fst deleted)).
  { unfold ranges_ok. apply Forall_forall. intros p Hp. rewrite Hdel in Hp. apply filter_In in Hp.
    destruct (Hok p (proj1 Hp)). lia. }
  set (D := ins_all (map fst deleted) []).
  assert (HcD : canonical D) by (apply norm_canonical; exact Hdok).
  assert (HmD : forall x, mem x D <-> exists p, In p R /\ hitp s e p = true /\ inr x p).
  { intros x. unfold D. fold (norm (map fst deleted)). rewrite (norm_mem _ _ Hdok), mem_iff_In. rewrite Hdel. split.
    - intros (p & Hp & Hx). apply filter_In in Hp. exists p. tauto.
    - intros (p & Hp & Hh & Hx). exists p. split; [apply filter_In; tauto|exact Hx]. }
  set (NR := ins s e D).
  assert (HcNR : canonical NR) by (apply ins_canonical; [lia|exact HcD]).
  assert (HmNR : forall x, mem x NR <-> s <= x <= e \/ mem x D) by (intros x; apply ins_mem; lia).
  (* one range *)
  destruct HcNR as [loN HcN].
  destruct (convex_single NR loN HcN) as (a & b & HNR).
  { intros E. assert (mem s NR) as Hm by (apply HmNR; left; lia). rewrite E in Hm. exact Hm. }
  { intros x y z Hx Hz Hxyz. apply HmNR. apply HmNR in Hx. apply HmNR in Hz.
    destruct (Z_lt_le_dec y s) as [Hys|Hys]; [|destruct (Z_le_gt_dec y e) as [Hye|Hye]; [left; lia|]].
    - right. destruct Hx as [Hx|Hx]; [lia|]. apply HmD in Hx. destruct Hx as (p & Hp & Hh & Hxp).
      apply HmD. exists p. split; [exact Hp|]. split; [exact Hh|]. apply (Hhit p Hp) in Hh. unfold inr in *. lia.
    - right. destruct Hz as [Hz|Hz]; [lia|]. apply HmD in Hz. destruct Hz as (p & Hp & Hh & Hzp).
      apply HmD. exists p. split; [exact Hp|]. split; [exact Hh|]. apply (Hhit p Hp) in Hh. unfold inr in *. lia. }
  fold hit deleted kept D NR. rewrite HNR.
  assert (Hab : a <= b /\ forall x, mem x NR <-> a <= x <= b).
  { rewrite HNR in HcN. cbn in HcN. split; [lia|]. intros x. rewrite HNR. cbn. tauto. }
  destruct Hab as [Hab HmAB].
  assert (Has : a <= s /\ e <= b).
  { split; [apply (HmAB s), HmNR; left; lia|apply (HmAB e), HmNR; left; lia]. }
  (* kept rows are separated from [a,b] *)
  set (K := rset kept).
  assert (HcK : canon_from lo K) by (unfold K; rewrite Hkept; apply canon_filter; exact Hc).
  assert (Hfar : forall y x k, mem y NR -> In k K -> inr x k -> y - 1 <= x <= y + 1 -> False).
  { intros y x k Hy Hk Hxk Hxy. unfold K in Hk. rewrite Hkept in Hk. apply filter_In in Hk. destruct Hk as [HkR Hnh].
    apply negb_true_iff in Hnh.
    apply HmNR in Hy. destruct Hy as [Hy|Hy].
    - assert (hitp s e k = true) as Hh by (apply (Hhit k HkR); unfold inr in Hxk; lia). congruence.
    - apply HmD in Hy. destruct Hy as (p & Hp & Hh & Hyp).
      assert (p = k).
      { destruct (Z_le_gt_dec y x).
        - apply (canon_near_eq R lo p k y x Hc Hp HkR Hyp Hxk). lia.
        - symmetry. apply (canon_near_eq R lo k p x y Hc HkR Hp Hxk Hyp). lia. }
      subst. congruence. }
  assert (Hsep : sep a b K).
  { intros x Hx Hm. apply mem_In in Hm. destruct Hm as (k & Hk & Hxk).
    destruct (Z_lt_le_dec x a); [apply (Hfar a x k); [apply HmAB; lia|exact Hk|exact Hxk|lia]|].
    destruct (Z_le_gt_dec x b); [apply (Hfar x x k); [apply HmAB; lia|exact Hk|exact Hxk|lia]|].
    apply (Hfar b x k); [apply HmAB; lia|exact Hk|exact Hxk|lia]. }
  pose proof (ins_row_insert K lo a b HcK Hab Hsep) as Hri.
  pose proof (srow_insert_fst (a, b, last) kept) as Hsf. cbn [fst] in Hsf. fold K in Hsf. rewrite Hri in Hsf.
  destruct (srow_insert (a, b, last) kept) as [rows'|] eqn:Esi; [|discriminate].
  cbn in Hsf. injection Hsf as Hrows'.
  exists rows', a, b. split.
  { match goal with |- context [srow_insert ?r ?l] =>
      replace (srow_insert r l) with (Some rows') by (symmetry; exact Esi) end. reflexivity. }
  assert (HmK : forall x, mem x K <-> exists p, In p R /\ hitp s e p = false /\ inr x p).
  { intros x. unfold K. rewrite Hkept, mem_iff_In. split.
    - intros (p & Hp & Hx). apply filter_In in Hp. destruct Hp as [Hp Hn]. apply negb_true_iff in Hn. exists p. tauto.
    - intros (p & Hp & Hn & Hx). exists p. split; [apply filter_In; split; [exact Hp|apply negb_true_iff, Hn]|exact Hx]. }
  assert (Heq : rset rows' = ins s e R).
  { rewrite Hrows'. apply canonical_ext.
    - apply ins_canonical; [exact Hab|exists lo; exact HcK].
    - apply ins_canonical; [lia|exists lo; exact Hc].
    - intros x. rewrite (ins_mem K a b x Hab), (ins_mem R s e x ltac:(lia)), <- HmAB, HmNR, HmD, HmK, mem_iff_In.
      split.
      + intros [[H|(p & Hp & _ & Hx)]|(p & Hp & _ & Hx)]; [left; exact H|right; exists p; tauto|right; exists p; tauto].
      + intros [H|(p & Hp & Hx)]; [left; left; exact H|].
        destruct (hitp s e p) eqn:Eh; [left; right; exists p; tauto|right; exists p; tauto]. }
  split; [|split; [exact Heq|split; [lia|split; [lia|]]]].
  - split.
    + rewrite Heq. exists (Z.min lo s). apply ins_canon; [lia|exact Hc].
    + intros p Hp. rewrite Hrows' in Hp.
      assert (Hmem : mem (fst p) (ins a b K)).
      { eapply In_mem; [exact Hp|]. assert (canonical (ins a b K)) as Hci by (apply ins_canonical; [exact Hab|exists lo; exact HcK]).
        pose proof (canonical_In_ok _ _ Hci Hp). lia. }
      apply (ins_mem K a b _ Hab) in Hmem. destruct Hmem as [Hm|Hm].
      * assert (0 <= a); [|lia].
        assert (mem a NR) as Ha by (apply HmAB; lia). apply HmNR in Ha. destruct Ha as [Ha|Ha]; [lia|].
        apply HmD in Ha. destruct Ha as (q & Hq & _ & Haq). destruct (Hok q Hq). unfold inr in Haq. lia.
      * apply HmK in Hm. destruct Hm as (q & Hq & _ & Hxq). destruct (Hok q Hq). unfold inr in Hxq. lia.
  - rewrite Hrows'.
    assert (mem a (ins a b K)) as Hma by (apply ins_mem; [exact Hab|left; lia]).
    apply mem_In in Hma. destruct Hma as (p & Hp & Hap).
    (* the range containing a in ins a b K is (a,b) itself: ins on a separated range is sorted insertion *)
    clear -Hri Hp. revert Hri Hp. generalize (ins a b K). intros l Hri _.
    clear -Hri. revert l Hri. induction K as [|x t IH]; intros l Hri; cbn in Hri.
    + injection Hri as <-. left; reflexivity.
    + destruct (a =? fst x); [discriminate|]. destruct (a <? fst x); [injection Hri as <-; left; reflexivity|].
      destruct (row_insert (a, b) t) as [t'|] eqn:E; [|discriminate]. injection Hri as <-. right. apply IH. reflexivity.
Qed.
