(* Model of a schema submission, crates/klukai-agent/src/api/public/mod.rs:execute_schema
   (parse, merge into a clone of the in-memory schema, constrain, apply inside ONE
   immediate transaction, in-memory schema replaced only after commit) and
   crates/klukai-types/src/schema.rs: Schema::constrain, apply_schema.
   SQLite / cr-sqlite are an oracle described by three rules (a CRR needs a primary
   key; ADD COLUMN NOT NULL needs a non-NULL default; an index needs its columns). *)
From Coq Require Import List ZArith Bool.
Import ListNotations.
Open Scope Z_scope.

(* defaults: 0 none, 1 "0", 2 "1", 3 "''", 4 NULL *)
Record col := mkCol {
  c_name : Z; c_type : Z; c_notnull : bool; c_dflt : Z; c_fk : bool;
  c_inlinepk : bool;          (* PRIMARY KEY written on the column itself (part of its definition) *)
  c_pk : bool }.              (* member of the table's primary key *)

Record idx := mkIdx { i_name : Z; i_unique : bool; i_cols : list Z }.

Record tab := mkTab { t_name : Z; t_cols : list col; t_pk : list Z; t_idxs : list idx }.

Definition zlist_eqb (a b : list Z) : bool :=
  (fix go a b := match a, b with
                 | [], [] => true
                 | x :: a', y :: b' => (x =? y) && go a' b'
                 | _, _ => false end) a b.

Definition col_eqb (a b : col) : bool :=
  (c_name a =? c_name b) && (c_type a =? c_type b) && Bool.eqb (c_notnull a) (c_notnull b) &&
  (c_dflt a =? c_dflt b) && Bool.eqb (c_fk a) (c_fk b) && Bool.eqb (c_inlinepk a) (c_inlinepk b) &&
  Bool.eqb (c_pk a) (c_pk b).

Definition idx_eqb (a b : idx) : bool :=
  (i_name a =? i_name b) && Bool.eqb (i_unique a) (i_unique b) && zlist_eqb (i_cols a) (i_cols b).

Definition find_tab (n : Z) (l : list tab) : option tab := find (fun t => t_name t =? n) l.
Definition find_col (n : Z) (l : list col) : option col := find (fun c => c_name c =? n) l.
Definition find_idx (n : Z) (l : list idx) : option idx := find (fun i => i_name i =? n) l.

(* ---------- execute_schema: merge ---------- *)
(* schema.tables.insert(name, def): replace in place, or append *)
Fixpoint put_tab (t : tab) (l : list tab) : list tab :=
  match l with
  | [] => [t]
  | x :: r => if t_name x =? t_name t then t :: r else x :: put_tab t r
  end.
Definition merge (old : list tab) (sub : list tab) : list tab := fold_left (fun acc t => put_tab t acc) sub old.

(* ---------- Schema::constrain ---------- *)
Definition constrain_tab (t : tab) : bool :=
  forallb (fun c => (c_pk c || negb (c_notnull c) || negb (c_dflt c =? 0)) && negb (c_fk c)) (t_cols t) &&
  forallb (fun i => negb (i_unique i)) (t_idxs t).
Definition constrain (s : list tab) : bool := forallb constrain_tab s.

(* ---------- apply_schema ---------- *)
Definition idx_cols_ok (t : tab) : bool :=
  forallb (fun i => forallb (fun n => match find_col n (t_cols t) with Some _ => true | None => false end) (i_cols i)) (t_idxs t).

Fixpoint nodupb (l : list Z) : bool :=
  match l with [] => true | x :: r => negb (existsb (Z.eqb x) r) && nodupb r end.

(* SQLite: no duplicate column names; primary key columns exist *)
Definition shape_ok (t : tab) : bool :=
  nodupb (map c_name (t_cols t)) &&
  forallb (fun n => match find_col n (t_cols t) with Some c => c_pk c | None => false end) (t_pk t) &&
  forallb (fun c => Bool.eqb (c_pk c) (existsb (Z.eqb (c_name c)) (t_pk t))) (t_cols t).

(* a table that is new: CREATE TABLE; crsql_as_crr; CREATE INDEX ... *)
Definition create_ok (t : tab) : bool :=
  shape_ok t && negb (match t_pk t with [] => true | _ => false end) && idx_cols_ok t.

(* a table that exists already *)
Definition added_cols (o t : tab) : list col :=
  filter (fun c => match find_col (c_name c) (t_cols o) with None => true | Some _ => false end) (t_cols t).

Definition alter_ok (nonempty : bool) (o t : tab) : bool :=
  shape_ok t &&
  zlist_eqb (t_pk o) (t_pk t) &&                                                  (* primary key: same columns, same order *)
  forallb (fun c => match find_col (c_name c) (t_cols t) with                      (* no dropped, no changed column *)
                    | Some c' => col_eqb c c' | None => false end) (t_cols o) &&
  forallb (fun c => negb (c_pk c) &&                                               (* added columns *)
                    (negb (c_notnull c) || negb (c_dflt c =? 0)) &&
                    negb (c_notnull c && (c_dflt c =? 4) && nonempty)) (added_cols o t) &&   (* SQLite checks the existing rows *)
  idx_cols_ok t.

Definition apply_ok (has_rows : Z -> bool) (old new : list tab) : bool :=
  forallb (fun t => match find_tab (t_name t) old with
                    | None => create_ok t
                    | Some o => alter_ok (has_rows (t_name t)) o t end) new.

(* ---------- the database ---------- *)
Definition val := option Z.                         (* None = NULL; texts are coded as negative numbers *)
Definition drow := list (Z * val).                  (* column name -> value *)
Record dtab := mkD { d_tab : tab; d_rows : list drow }.

Definition default_val (c : col) : val :=
  match c_dflt c with 1 => Some 0 | 2 => Some 1 | 3 => Some (-1000) | _ => None end.

Definition find_dtab (n : Z) (l : list dtab) : option dtab := find (fun d => t_name (d_tab d) =? n) l.

(* ALTER TABLE ADD COLUMN appends; existing rows read the default *)
Definition alter_dtab (d : dtab) (t : tab) : dtab :=
  let add := added_cols (d_tab d) t in
  mkD (mkTab (t_name t) (t_cols (d_tab d) ++ add) (t_pk (d_tab d)) (t_idxs t))
      (map (fun r => r ++ map (fun c => (c_name c, default_val c)) add) (d_rows d)).

Definition db_apply (db : list dtab) (new : list tab) : list dtab :=
  map (fun d => match find_tab (t_name (d_tab d)) new with
                | Some t => alter_dtab d t | None => d end) db ++
  map (fun t => mkD t []) (filter (fun t => match find_dtab (t_name t) db with None => true | Some _ => false end) new).

Definition has_rows (db : list dtab) (n : Z) : bool :=
  match find_dtab n db with Some d => negb (match d_rows d with [] => true | _ => false end) | None => false end.

Record sstate := mkS { s_mem : list tab; s_db : list dtab }.

(* a submission: None = a statement that does not parse *)
Definition parse (sub : list (option tab)) : option (list tab) :=
  fold_right (fun o acc => match o, acc with Some t, Some l => Some (t :: l) | _, _ => None end) (Some []) sub.

Definition exec (st : sstate) (sub : list (option tab)) : bool * sstate :=
  match parse sub with
  | None => (false, st)
  | Some tabs =>
    let new := merge (s_mem st) tabs in
    if constrain new && apply_ok (has_rows (s_db st)) (s_mem st) new
    then (true, mkS new (db_apply (s_db st) new))
    else (false, st)
  end.

(* a write between submissions (inserts a row) *)
Definition insert_row (st : sstate) (n : Z) (r : drow) : sstate :=
  mkS (s_mem st) (map (fun d => if t_name (d_tab d) =? n then mkD (d_tab d) (d_rows d ++ [r]) else d) (s_db st)).
