From Coq Require Import List ZArith Bool Lia Arith.
From Corro Require Import Lib.Utf8 Model.Wire.
Import ListNotations.
Open Scope Z_scope.

(* induction principle with a hypothesis for every alternative of a sum *)
Section DescInd.
  Variable P : desc -> Prop.
  Hypothesis HUInt : forall n, P (DUInt n).
  Hypothesis HI64 : P DI64.
  Hypothesis HFixed : forall n, P (DFixed n).
  Hypothesis HBytes : P DBytes.
  Hypothesis HStr : P DStr.
  Hypothesis HOpt : forall d, P d -> P (DOpt d).
  Hypothesis HVec32 : forall d, P d -> P (DVec32 d).
  Hypothesis HVec64 : forall d, P d -> P (DVec64 d).
  Hypothesis HPair : forall a b, P a -> P b -> P (DPair a b).
  Hypothesis HSum : forall tb alts, Forall P alts -> P (DSum tb alts).
  Hypothesis HEof : forall d, P d -> P (DEofDefault d).
  Hypothesis HMin : forall n d, P d -> P (DMin n d).
  Hypothesis HUnit : P DUnit.

  Fixpoint desc_ind' (d : desc) : P d :=
    match d with
    | DUInt n => HUInt n
    | DI64 => HI64
    | DFixed n => HFixed n
    | DBytes => HBytes
    | DStr => HStr
    | DOpt d' => HOpt d' (desc_ind' d')
    | DVec32 d' => HVec32 d' (desc_ind' d')
    | DVec64 d' => HVec64 d' (desc_ind' d')
    | DPair a b => HPair a b (desc_ind' a) (desc_ind' b)
    | DSum tb alts =>
      HSum tb alts ((fix go (l : list desc) : Forall P l :=
                       match l with
                       | [] => Forall_nil P
                       | x :: t => Forall_cons x (desc_ind' x) (go t)
                       end) alts)
    | DEofDefault d' => HEof d' (desc_ind' d')
    | DMin n d' => HMin n d' (desc_ind' d')
    | DUnit => HUnit
    end.
End DescInd.

(* ---------- little-endian integers ------------------------------------------ *)
Lemma le_bytes_length n u : length (le_bytes n u) = n.
Proof. revert u; induction n as [|k IH]; intros u; cbn; [reflexivity|f_equal; apply IH]. Qed.

Lemma le_val_bytes : forall n u, 0 <= u -> le_val (le_bytes n u) = u mod 256 ^ Z.of_nat n.
Proof.
  induction n as [|k IH]; intros u Hu.
  - cbn. rewrite Z.mod_1_r. reflexivity.
  - cbn [le_bytes le_val]. rewrite IH by (apply Z.div_pos; lia).
    replace (Z.of_nat (S k)) with (1 + Z.of_nat k) by lia.
    rewrite Z.pow_add_r by lia. change (256 ^ 1) with 256.
    assert (0 < 256 ^ Z.of_nat k) by (apply Z.pow_pos_nonneg; lia).
    rewrite (Z.rem_mul_r u 256 (256 ^ Z.of_nat k)) by lia. reflexivity.
Qed.

Lemma take_z_app : forall h t, take_z (Z.of_nat (length h)) (h ++ t) = Some (h, t).
Proof.
  induction h as [|b h IH]; intros t.
  - cbn. destruct t; reflexivity.
  - cbn [length app take_z]. destruct (Z.of_nat (S (length h)) <=? 0) eqn:E; [apply Z.leb_le in E; lia|].
    replace (Z.of_nat (S (length h)) - 1) with (Z.of_nat (length h)) by lia. rewrite IH. reflexivity.
Qed.

Lemma take_n_app : forall n h t, length h = n -> take_n n (h ++ t) = Some (h, t).
Proof.
  induction n as [|k IH]; intros h t Hl.
  - destruct h; [reflexivity|discriminate].
  - destruct h as [|b h]; [discriminate|]. cbn. injection Hl as Hl. rewrite (IH h t Hl). reflexivity.
Qed.

Lemma read_uint_le n u rest : 0 <= u < 256 ^ Z.of_nat n ->
  read_uint n (le_bytes n u ++ rest) = Some (u, rest).
Proof.
  intros Hu. unfold read_uint. rewrite (take_n_app n _ rest (le_bytes_length n u)).
  rewrite le_val_bytes, Z.mod_small by lia. reflexivity.
Qed.

Lemma of_to_u64 i : - 2 ^ 63 <= i < 2 ^ 63 -> of_u64 (i mod 2 ^ 64) = i.
Proof.
  intros H. unfold of_u64.
  destruct (Z_lt_le_dec i 0) as [Hn|Hp].
  - replace (i mod 2 ^ 64) with (i + 2 ^ 64).
    + destruct (i + 2 ^ 64 <? 2 ^ 63) eqn:E; [apply Z.ltb_lt in E; lia|lia].
    + symmetry. rewrite <- (Z.mod_add i 1 (2 ^ 64)) by lia. apply Z.mod_small. lia.
  - rewrite Z.mod_small by lia. destruct (i <? 2 ^ 63) eqn:E; [reflexivity|apply Z.ltb_ge in E; lia].
Qed.

(* ---------- an encoding is at least minimum_bytes_needed long ----------------- *)
Lemma min_list_le l x : In x l -> (min_list l <= x)%nat.
Proof.
  induction l as [|y l IH]; intros Hin; [destruct Hin|].
  destruct Hin as [->|Hin].
  - destruct l; cbn; lia.
  - specialize (IH Hin). destruct l as [|z l]; [destruct Hin|].
    change (min_list (y :: z :: l)) with (Nat.min y (min_list (z :: l))). lia.
Qed.

Lemma min_list_mono (f g : desc -> nat) l :
  Forall (fun d => (f d <= g d)%nat) l -> (min_list (map f l) <= min_list (map g l))%nat.
Proof.
  induction l as [|x l IH]; intros H; [cbn; lia|]. inversion H as [|? ? Hx Hl]; subst.
  specialize (IH Hl). destruct l as [|y l]; [cbn; exact Hx|].
  change (min_list (map f (x :: y :: l))) with (Nat.min (f x) (min_list (map f (y :: l)))).
  change (min_list (map g (x :: y :: l))) with (Nat.min (g x) (min_list (map g (y :: l)))). lia.
Qed.

Lemma min_bytes_le_real : forall d, desc_ok d = true -> (min_bytes d <= real_min d)%nat.
Proof.
  induction d using desc_ind'; intros Hok; cbn [min_bytes real_min desc_ok] in *; try lia.
  - apply andb_true_iff in Hok as [Ha Hb]. specialize (IHd1 Ha). specialize (IHd2 Hb). lia.
  - apply andb_true_iff in Hok as [_ Hoks]. rewrite forallb_forall in Hoks.
    assert (min_list (map min_bytes alts) <= min_list (map real_min alts))%nat; [|lia].
    apply min_list_mono. rewrite Forall_forall in *. intros d Hd. apply H; [exact Hd|apply Hoks, Hd].
  - apply andb_true_iff in Hok as [Hn _]. apply Nat.leb_le in Hn. exact Hn.
Qed.

Lemma enc_real_min : forall d, desc_ok d = true -> forall v, wt d v = true ->
  (real_min d <= length (enc d v))%nat.
Proof.
  induction d using desc_ind'; intros Hok v Hwt; cbn [real_min enc wt desc_ok] in *.
  - destruct v; try discriminate. rewrite le_bytes_length. lia.
  - destruct v; try discriminate. rewrite le_bytes_length. lia.
  - destruct v; try discriminate. apply andb_true_iff in Hwt as [_ H]. apply Nat.eqb_eq in H. lia.
  - destruct v; try discriminate. rewrite app_length, le_bytes_length. lia.
  - destruct v; try discriminate. rewrite app_length, le_bytes_length. lia.
  - destruct v as [| |[x|]| | | |]; try discriminate; cbn; lia.
  - destruct v; try discriminate. rewrite app_length, le_bytes_length. lia.
  - destruct v; try discriminate. rewrite app_length, le_bytes_length. lia.
  - destruct v; try discriminate. apply andb_true_iff in Hok as [Ha Hb]. apply andb_true_iff in Hwt as [Hx Hy].
    rewrite app_length. specialize (IHd1 Ha _ Hx). specialize (IHd2 Hb _ Hy). lia.
  - destruct v as [| | | | |tag x|]; try discriminate.
    apply andb_true_iff in Hok as [_ Hoks]. apply andb_true_iff in Hwt as [_ Hw].
    destruct (nth_error (map wt alts) tag) as [f|] eqn:Ef; [|discriminate].
    rewrite nth_error_map in Ef. destruct (nth_error alts tag) as [d'|] eqn:Ed; [|discriminate].
    injection Ef as <-. rewrite nth_error_map, Ed. cbn [option_map].
    rewrite app_length, le_bytes_length.
    pose proof (nth_error_In _ _ Ed) as Hin.
    rewrite Forall_forall in H. rewrite forallb_forall in Hoks.
    specialize (H d' Hin (Hoks d' Hin) x Hw).
    assert (min_list (map real_min alts) <= real_min d')%nat by (apply min_list_le, in_map, Hin). lia.
  - apply IHd; assumption.
  - apply andb_true_iff in Hok as [_ Hd]. apply IHd; assumption.
  - lia.
Qed.

Lemma enc_min_bytes d v : desc_ok d = true -> wt d v = true -> (min_bytes d <= length (enc d v))%nat.
Proof.
  intros Hok Hwt. pose proof (min_bytes_le_real d Hok). pose proof (enc_real_min d Hok v Hwt). lia.
Qed.

(* ---------- the element loop ------------------------------------------------- *)
Lemma vec_loop_ok (f : list Z -> res) (e : val -> list Z) :
  forall l fuel rest,
  (length l < fuel)%nat ->
  Forall (fun x => forall r, f (e x ++ r) = ROk x r) l ->
  vec_loop f fuel (Z.of_nat (length l)) (flat_map e l ++ rest) = ROk (VL l) rest.
Proof.
  induction l as [|x l IH]; intros fuel rest Hf Hall.
  - destruct fuel; cbn; reflexivity.
  - destruct fuel as [|fuel]; [cbn in Hf; lia|].
    inversion Hall as [|? ? Hx Hl]; subst.
    cbn [vec_loop length flat_map].
    destruct (Z.of_nat (S (length l)) <=? 0) eqn:E; [apply Z.leb_le in E; lia|].
    rewrite <- app_assoc, Hx.
    replace (Z.of_nat (S (length l)) - 1) with (Z.of_nat (length l)) by lia.
    rewrite IH by (try assumption; cbn in Hf; lia). reflexivity.
Qed.

Lemma flat_map_length_ge {A} (e : A -> list Z) (l : list A) k :
  (forall x, In x l -> (k <= length (e x))%nat) -> (k * length l <= length (flat_map e l))%nat.
Proof.
  induction l as [|x l IH]; intros H; cbn; [lia|].
  rewrite app_length. specialize (IH (fun y Hy => H y (or_intror Hy))).
  specialize (H x (or_introl eq_refl)). lia.
Qed.

(* ---------- round trip ------------------------------------------------------- *)
Theorem dec_enc : forall d, desc_ok d = true -> forall v rest, wt d v = true ->
  dec d (enc d v ++ rest) = ROk v rest.
Proof.
  induction d using desc_ind'; intros Hok v rest Hwt; cbn [enc dec wt desc_ok] in *.
  - (* uint *)
    destruct v; try discriminate. apply andb_true_iff in Hwt as [H1 H2].
    apply Z.leb_le in H1. apply Z.ltb_lt in H2. rewrite read_uint_le by lia. reflexivity.
  - destruct v as [i| | | | | |]; try discriminate. apply andb_true_iff in Hwt as [H1 H2].
    apply Z.leb_le in H1. apply Z.ltb_lt in H2.
    rewrite read_uint_le by (change (256 ^ Z.of_nat 8) with (2 ^ 64); apply Z.mod_pos_bound; lia).
    rewrite of_to_u64 by lia. reflexivity.
  - destruct v; try discriminate. apply andb_true_iff in Hwt as [_ H]. apply Nat.eqb_eq in H.
    rewrite (take_n_app n bs rest H). reflexivity.
  - destruct v; try discriminate. apply andb_true_iff in Hwt as [_ H]. apply Z.ltb_lt in H.
    rewrite <- app_assoc, read_uint_le by (change (256 ^ Z.of_nat 4) with (2 ^ 32); lia).
    rewrite take_z_app. reflexivity.
  - destruct v; try discriminate. apply andb_true_iff in Hwt as [Hw Hu]. apply andb_true_iff in Hw as [_ H].
    apply Z.ltb_lt in H.
    rewrite <- app_assoc, read_uint_le by (change (256 ^ Z.of_nat 4) with (2 ^ 32); lia).
    rewrite take_z_app, Hu. reflexivity.
  - (* option *)
    destruct v as [| |[x|]| | | |]; try discriminate; cbn [app].
    + cbn [Z.eqb]. rewrite (IHd Hok x rest Hwt). reflexivity.
    + reflexivity.
  - (* vec32 *)
    destruct v as [| | |l| | |]; try discriminate.
    apply andb_true_iff in Hok as [Hmin Hokd]. apply Nat.leb_le in Hmin.
    apply andb_true_iff in Hwt as [Hlen Hall]. apply Z.ltb_lt in Hlen.
    rewrite <- app_assoc, read_uint_le by (change (256 ^ Z.of_nat 4) with (2 ^ 32); lia).
    rewrite forallb_forall in Hall.
    assert (Hge : (real_min d * length l <= length (flat_map (enc d) l))%nat).
    { apply flat_map_length_ge. intros x Hx. apply enc_real_min; [exact Hokd|apply Hall, Hx]. }
    pose proof (min_bytes_le_real d Hokd) as Hmr.
    destruct (Z.of_nat (length (flat_map (enc d) l ++ rest)) <? Z.of_nat (min_bytes d) * Z.of_nat (length l)) eqn:E.
    { apply Z.ltb_lt in E. rewrite app_length in E. nia. }
    apply vec_loop_ok.
    + rewrite app_length. nia.
    + apply Forall_forall. intros x Hx r. apply IHd; [exact Hokd|apply Hall, Hx].
  - (* vec64 *)
    destruct v as [| | |l| | |]; try discriminate.
    apply andb_true_iff in Hok as [Hmin Hokd]. apply Nat.leb_le in Hmin.
    apply andb_true_iff in Hwt as [Hlen Hall]. apply Z.ltb_lt in Hlen.
    rewrite forallb_forall in Hall.
    assert (Hge : (real_min d * length l <= length (flat_map (enc d) l))%nat).
    { apply flat_map_length_ge. intros x Hx. apply enc_real_min; [exact Hokd|apply Hall, Hx]. }
    rewrite <- app_assoc, read_uint_le by (change (256 ^ Z.of_nat 8) with (2 ^ 64); lia).
    apply vec_loop_ok.
    + rewrite app_length. nia.
    + apply Forall_forall. intros x Hx r. apply IHd; [exact Hokd|apply Hall, Hx].
  - (* pair *)
    destruct v; try discriminate. apply andb_true_iff in Hok as [Ha Hb]. apply andb_true_iff in Hwt as [Hx Hy].
    rewrite <- app_assoc, (IHd1 Ha _ _ Hx), (IHd2 Hb _ _ Hy). reflexivity.
  - (* sum *)
    destruct v as [| | | | |tag x|]; try discriminate.
    apply andb_true_iff in Hok as [Htb Hoks]. apply andb_true_iff in Hwt as [Htag Hw]. apply Z.ltb_lt in Htag.
    destruct (nth_error (map wt alts) tag) as [f|] eqn:Ef; [|discriminate].
    rewrite nth_error_map in Ef. destruct (nth_error alts tag) as [d'|] eqn:Ed; [|discriminate].
    injection Ef as <-. rewrite nth_error_map, Ed. cbn [option_map].
    rewrite <- app_assoc, read_uint_le by lia.
    assert (tag < length alts)%nat as Hlt by (apply nth_error_Some; congruence).
    destruct (Z.of_nat (length alts) <=? Z.of_nat tag) eqn:Ele; [apply Z.leb_le in Ele; lia|].
    rewrite Nat2Z.id, nth_error_map, Ed. cbn [option_map].
    pose proof (nth_error_In _ _ Ed) as Hin.
    rewrite Forall_forall in H. rewrite forallb_forall in Hoks.
    rewrite (H d' Hin (Hoks d' Hin) x rest Hw). reflexivity.
  - rewrite (IHd Hok v rest Hwt). reflexivity.
  - apply andb_true_iff in Hok as [_ Hd]. apply IHd; assumption.
  - destruct v; try discriminate. reflexivity.
Qed.

(* a frame cut right before a trailing #[speedy(default_on_eof)] field *)
Lemma dec_pair_eof_default a b x :
  desc_ok a = true -> wt a x = true -> dec b [] = REof ->
  dec (DPair a (DEofDefault b)) (enc a x) = ROk (VP x (default_of b)) [].
Proof.
  intros Ha Hx Hb. cbn [dec]. rewrite <- (app_nil_r (enc a x)). rewrite (dec_enc a Ha x [] Hx).
  rewrite Hb. reflexivity.
Qed.

Lemma dec_sum_single tb d bs :
  (tb <= 8)%nat ->
  dec (DSum tb [d]) (le_bytes tb 0 ++ bs) =
  match dec d bs with ROk x r => ROk (VT 0 x) r | e => e end.
Proof.
  intros Htb. cbn [dec]. rewrite read_uint_le.
  - cbn. reflexivity.
  - split; [lia|]. apply Z.pow_pos_nonneg; lia.
Qed.
