(* Extraction of the executable models.  ExtrOcamlBasic only: bool, option,
   list, prod, unit, sumbool map to OCaml's; Z/positive/N/nat stay inductive.
   No Extract Constant. *)
From Coq Require Import Extraction ExtrOcamlBasic ZArith List.
From Corro Require Import Model.Chunk.
Extraction Language OCaml.
Extraction "model.ml"
  Z.add Z.mul Z.sub Z.opp Z.div_eucl Z.of_nat Z.to_nat Z.compare Z.eqb Z.ltb Z.leb
  Chunk.run Chunk.start_cursor Chunk.next Chunk.chunk_range
  Chunk.wf_input Chunk.check_chunks Chunk.check_chunk_range.
