From Coq Require Import List ZArith Bool Lia.
From Corro Require Import Lib.Ivl Gen.Consts Gen.NeedSql Model.Chunk Model.Serve Proofs.ChunkProofs.
Import ListNotations.
Open Scope Z_scope.

(* send_change_chunks never produces Empty messages, only Full ones about its version *)
Lemma send_chunks_only_full rz v last rows a b m :
  In m (send_chunks rz v last rows a b) -> exists r s e, m = MFull v r s e last.
Proof.
  unfold send_chunks.
  match goal with |- In _ (?f ?l) -> _ => generalize l end.
  intros l. induction l as [|[c [x y]] t IH]; intros H; [destruct H|].
  destruct c as [|g c'].
  - destruct ((x =? 0) && (y =? last)); [destruct H|].
    destruct H as [<-|H]; [eauto|apply IH, H].
  - destruct H as [<-|H]; [eauto|apply IH, H].
Qed.

Lemma buffered_msgs_only_full sv v q m :
  In m (buffered_msgs sv v q) -> exists r s e l, m = MFull v r s e l.
Proof.
  unfold buffered_msgs. intros H. apply in_flat_map in H. destruct H as ([[rs re] last] & _ & H).
  destruct q as [[qs qe]|].
  - destruct (need_overlap_pred_src _ _ _ _) in H; [|destruct H].
    apply send_chunks_only_full in H. destruct H as (r & s & e & ->). eauto.
  - apply send_chunks_only_full in H. destruct H as (r & s & e & ->). eauto.
Qed.

(* Partial need: an Empty answer only for a version that is not live, not
   buffered and not listed as needed *)
Theorem partial_empty_only_if_cleared sv v seqs lo hi :
  In (MEmpty lo hi) (handle_need_partial sv v seqs) ->
  lo = v /\ hi = v /\ holds_live sv v = false /\ holds_buf sv v = false /\ memb v (sv_gaps sv) = false.
Proof.
  unfold handle_need_partial, holds_live, holds_buf. intros H.
  destruct (vget v (sv_live sv)) as [rows|].
  - exfalso. apply in_flat_map in H. destruct H as (q & _ & H).
    apply send_chunks_only_full in H. destruct H as (r & s & e & H). discriminate.
  - destruct (vget v (sv_buf sv)) as [[|r0 b0]|].
    + destruct (memb v (sv_gaps sv)); [destruct H|]. destruct H as [H|[]]. injection H as <- <-. auto.
    + exfalso. apply in_flat_map in H. destruct H as (q & _ & H).
      apply buffered_msgs_only_full in H. destruct H as (r & s & e & l & H). discriminate.
    + destruct (memb v (sv_gaps sv)); [destruct H|]. destruct H as [H|[]]. injection H as <- <-. auto.
Qed.

Lemma In_zrange x lo hi : In x (zrange lo hi) <-> lo <= x <= hi.
Proof.
  unfold zrange. rewrite in_map_iff. split.
  - intros (i & <- & Hi). apply in_seq in Hi. lia.
  - intros H. exists (Z.to_nat (x - lo)). split; [lia|apply in_seq; lia].
Qed.

(* Full need: every version declared empty was requested, is not live, not
   buffered and not listed as needed *)
Theorem full_empty_only_if_cleared sv s e lo hi v :
  In (MEmpty lo hi) (handle_need_full sv s e) -> lo <= v <= hi ->
  s <= v <= e /\ holds_live sv v = false /\ holds_buf sv v = false /\ memb v (sv_gaps sv) = false.
Proof.
  unfold handle_need_full. intros H Hv.
  apply in_app_iff in H. destruct H as [H|H].
  { exfalso. apply in_flat_map in H. destruct H as (w & _ & H).
    destruct (vget w (sv_live sv)); [|destruct H].
    apply send_chunks_only_full in H. destruct H as (r & a & b & H). discriminate. }
  apply in_app_iff in H. destruct H as [H|H].
  { exfalso. apply in_flat_map in H. destruct H as (w & _ & H).
    destruct (match vget w (sv_buf sv) with Some (_ :: _) => true | _ => false end); [|destruct H].
    apply buffered_msgs_only_full in H. destruct H as (r & a & b & l & H). discriminate. }
  unfold empties_msgs in H. apply in_map_iff in H. destruct H as ([a b] & E & Hin). injection E as <- <-.
  set (vs := filter _ _) in Hin.
  assert (Hok : ranges_ok (map (fun w : Z => (w, w)) vs)).
  { unfold ranges_ok. apply Forall_forall. intros p Hp. apply in_map_iff in Hp. destruct Hp as (w & <- & _). cbn. lia. }
  assert (mem v (ins_all (map (fun w : Z => (w, w)) vs) [])) as Hm by (eapply In_mem; [exact Hin|exact Hv]).
  apply (norm_mem _ _ Hok) in Hm. apply mem_In in Hm. destruct Hm as (p & Hp & Hvp).
  apply in_map_iff in Hp. destruct Hp as (w & <- & Hw). cbn in Hvp. assert (w = v) by lia. subst w.
  unfold vs in Hw. apply filter_In in Hw. destruct Hw as [Hw Hc].
  apply filter_In in Hw. destruct Hw as [Hr Hl]. apply In_zrange in Hr.
  apply andb_true_iff in Hc as [Hb Hg]. apply negb_true_iff in Hb, Hg.
  unfold holds_live, holds_buf. split; [exact Hr|].
  split; [destruct (vget v (sv_live sv)); [discriminate|reflexivity]|].
  split; [exact Hb|exact Hg].
Qed.

Lemma tiles_bounds a last rs : tiles a last rs ->
  a <= last /\ forall p, In p rs -> a <= fst p /\ fst p <= snd p /\ snd p <= last.
Proof.
  induction 1 as [x y Hxy|x y l rs Hxy Ht [IH1 IH2]].
  - split; [lia|]. intros p [<-|[]]. cbn. lia.
  - split; [lia|]. intros p [<-|Hp]; [cbn; lia|]. destruct (IH2 p Hp). lia.
Qed.

(* every change sent lies inside the seq range of the changeset carrying it,
   for row lists ordered by seq inside the requested range *)
Theorem send_chunks_in_range rz v last rows a b m :
  wf_input (map (fun r => mkChg (fst r) rz (snd r)) rows) a b = true ->
  In m (send_chunks rz v last rows a b) ->
  match m with
  | MFull _ r s e _ => Forall (fun x => s <= fst x <= e) r /\ a <= s /\ e <= b
  | MEmpty _ _ => False
  end.
Proof.
  intros Hwf. unfold send_chunks. cbv zeta.
  set (cs := map (fun r : Z * Z => mkChg (fst r) rz (snd r)) rows) in *.
  match goal with |- context [run ?l ?c] => destruct (run l c) as [out stf] eqn:Hrun end.
  assert (Hlen : (length cs < length (repeat max_changes_bytes_per_message (S (length rows))))%nat)
    by (unfold cs; rewrite map_length, repeat_length; lia).
  destruct (run_tiles cs a b _ out stf Hwf Hlen Hrun) as (_ & Htiles & _ & Hin).
  cbn [fst].
  assert (Hb : forall ch, In ch out -> a <= fst (snd ch) /\ snd (snd ch) <= b).
  { intros ch Hch. destruct (tiles_bounds _ _ _ Htiles) as [_ Hall].
    destruct (Hall (snd ch) (in_map snd _ _ Hch)). lia. }
  rewrite Forall_forall in Hin.
  intros Hm.
  assert (Hgen : forall l, (forall ch, In ch l -> In ch out) ->
     In m ((fix go (l : list chunk) : list msg :=
        match l with
        | [] => []
        | (c, (x, y)) :: t =>
          match c with
          | [] => if (x =? 0) && (y =? last) then [] else MFull v [] x y last :: go t
          | _ => MFull v (map (fun g => (c_seq g, c_id g)) c) x y last :: go t
          end
        end) l) ->
     match m with
     | MFull _ r s e _ => Forall (fun x => s <= fst x <= e) r /\ a <= s /\ e <= b
     | MEmpty _ _ => False
     end).
  { induction l as [|[c [x y]] t IH]; intros Hsub H; [destruct H|].
    assert (Hc := Hsub (c, (x, y)) (or_introl eq_refl)).
    destruct (Hb _ Hc) as [Hb1 Hb2]. cbn in Hb1, Hb2.
    destruct c as [|g c'].
    - destruct ((x =? 0) && (y =? last)); [destruct H|].
      destruct H as [<-|H]; [split; [constructor|lia]|apply IH; [intros ch Hch; apply Hsub; right; exact Hch|exact H]].
    - destruct H as [<-|H]; [|apply IH; [intros ch Hch; apply Hsub; right; exact Hch|exact H]].
      split; [|lia]. specialize (Hin _ Hc). unfold chunk_in_range in Hin. cbn in Hin.
      apply Forall_forall. intros r Hr. apply in_map_iff in Hr. destruct Hr as (g' & <- & Hg').
      rewrite Forall_forall in Hin. apply (Hin g' Hg'). }
  apply (Hgen out); [auto|exact Hm].
Qed.

(* a partially buffered version is answered with sub-ranges of the ranges it holds *)
Theorem buffered_range_within_held sv v q m :
  (forall rs re last a b, In ((rs, re), last) (match vget v (sv_seq sv) with Some r => r | None => [] end) ->
     rs <= a -> b <= re ->
     wf_input (map (fun r => mkChg (fst r) (sv_rowsize sv) (snd r))
                   (filter (in_range a b) (match vget v (sv_buf sv) with Some b0 => b0 | None => [] end))) a b = true) ->
  In m (buffered_msgs sv v q) ->
  match m with
  | MFull _ _ s e _ => exists rs re last,
      In ((rs, re), last) (match vget v (sv_seq sv) with Some r => r | None => [] end) /\ rs <= s /\ e <= re
  | MEmpty _ _ => False
  end.
Proof.
  intros Hwf Hm. unfold buffered_msgs in Hm. apply in_flat_map in Hm as [[[rs re] last] [Hsr Hm]].
  destruct q as [[qs qe]|].
  - destruct (need_overlap_pred_src rs re qs qe); [|destruct Hm].
    pose proof (send_chunks_in_range _ _ _ _ _ _ m (Hwf rs re last (Z.max rs qs) (Z.min re qe) Hsr ltac:(lia) ltac:(lia)) Hm) as H.
    destruct m as [v' r s e l|]; [|exact H]. destruct H as [_ [H1 H2]].
    exists rs, re, last. split; [exact Hsr|lia].
  - pose proof (send_chunks_in_range _ _ _ _ _ _ m (Hwf rs re last rs re Hsr ltac:(lia) ltac:(lia)) Hm) as H.
    destruct m as [v' r s e l|]; [|exact H]. destruct H as [_ [H1 H2]].
    exists rs, re, last. split; [exact Hsr|lia].
Qed.

(* ---------- fully held versions: tiling and exactness ---------- *)
Definition msg_range (m : msg) : Z * Z := match m with MFull _ _ s e _ => (s, e) | MEmpty lo hi => (lo, hi) end.
Definition msg_rows (m : msg) : list row := match m with MFull _ r _ _ _ => r | MEmpty _ _ => [] end.
Definition msg_of_chunk (v last : Z) (ch : chunk) : msg :=
  MFull v (map (fun g => (c_seq g, c_id g)) (fst ch)) (fst (snd ch)) (snd (snd ch)) last.

Lemma tiles_whole a last rs x y : tiles a last rs -> In (x, y) rs -> x = a -> y = last -> rs = [(a, last)].
Proof.
  intros Ht. revert x y. induction Ht as [a b Hab|a x0 last rs Hax Ht IH]; intros x y Hin Hx Hy.
  - reflexivity.
  - exfalso. destruct (tiles_bounds _ _ _ Ht) as [Hle Hall]. destruct Hin as [Hin|Hin].
    + injection Hin as _ Hy'. subst. lia.
    + destruct (Hall _ Hin) as [H1 _]. cbn in H1. lia.
Qed.

(* a fully held version with live changes is answered with changesets whose ranges tile
   0..=last_seq and which carry exactly its live changes, in order *)
Theorem live_version_tiles_exact rz v rows :
  rows <> [] ->
  wf_input (map (fun r => mkChg (fst r) rz (snd r)) rows) 0 (maxseq rows) = true ->
  let ms := send_chunks rz v (maxseq rows) rows 0 (maxseq rows) in
  tiles 0 (maxseq rows) (map msg_range ms) /\
  concat (map msg_rows ms) = rows /\
  Forall (fun m => match m with MFull v' _ _ _ l => v' = v /\ l = maxseq rows | MEmpty _ _ => False end) ms.
Proof.
  intros Hne Hwf. cbv zeta. unfold send_chunks. cbv zeta.
  set (last := maxseq rows) in *.
  set (cs := map (fun r : Z * Z => mkChg (fst r) rz (snd r)) rows) in *.
  match goal with |- context [run ?l ?c] => destruct (run l c) as [out stf] eqn:Hrun end.
  assert (Hlen : (length cs < length (repeat max_changes_bytes_per_message (S (length rows))))%nat)
    by (unfold cs; rewrite map_length, repeat_length; lia).
  destruct (run_tiles cs 0 last _ out stf Hwf Hlen Hrun) as (_ & Htiles & Hcat & _).
  cbn [fst].
  assert (Hno : forall ch, In ch out -> ch <> ([], (0, last))).
  { intros ch Hch Heq. subst ch.
    pose proof (tiles_whole _ _ _ 0 last Htiles (in_map snd _ _ Hch) eq_refl eq_refl) as Hone.
    destruct out as [|[c0 r0] [|o2 out']]; try discriminate Hone.
    destruct Hch as [Hch|[]]. injection Hch as -> _. cbn in Hcat.
    unfold cs in Hcat. destruct rows; [congruence|discriminate Hcat]. }
  assert (Hgo : forall l, (forall ch, In ch l -> ch <> ([], (0, last))) ->
     (fix go (l : list chunk) : list msg :=
        match l with
        | [] => []
        | (c, (x, y)) :: t =>
          match c with
          | [] => if (x =? 0) && (y =? last) then [] else MFull v [] x y last :: go t
          | _ => MFull v (map (fun g => (c_seq g, c_id g)) c) x y last :: go t
          end
        end) l = map (msg_of_chunk v last) l).
  { induction l as [|[c [x y]] t IH]; intros Hl; [reflexivity|].
    rewrite IH by (intros ch Hch; apply Hl; right; exact Hch).
    destruct c as [|g c'].
    - destruct ((x =? 0) && (y =? last)) eqn:E; [|reflexivity].
      apply andb_true_iff in E. destruct E as [E1 E2]. apply Z.eqb_eq in E1, E2. subst.
      exfalso. apply (Hl ([], (0, last))); [left; reflexivity|reflexivity].
    - reflexivity. }
  rewrite (Hgo out Hno). split; [|split].
  - rewrite map_map. unfold msg_of_chunk. cbn [msg_range].
    replace (map (fun x : chunk => (fst (snd x), snd (snd x))) out) with (map snd out); [exact Htiles|].
    apply map_ext. intros [c [x y]]. reflexivity.
  - rewrite map_map. unfold msg_of_chunk. cbn [msg_rows].
    assert (Hc : forall l : list chunk, concat (map (fun x : chunk => map (fun g => (c_seq g, c_id g)) (fst x)) l)
                                       = map (fun g => (c_seq g, c_id g)) (concat (map fst l))).
    { induction l as [|h t IHl]; [reflexivity|]. cbn [map concat]. rewrite map_app, IHl. reflexivity. }
    rewrite Hc, Hcat. unfold cs. rewrite map_map. cbn [c_seq c_id]. rewrite <- (map_id rows) at 2. apply map_ext. intros [a b]. reflexivity.
  - apply Forall_forall. intros m Hm. apply in_map_iff in Hm. destruct Hm as [ch [<- _]]. cbn. split; reflexivity.
Qed.

(* ... and those changesets are part of the answer to every Full need that covers the version *)
Theorem full_need_answers_live_version sv s e v rows m :
  vget v (sv_live sv) = Some rows -> s <= v <= e ->
  In m (send_chunks (sv_rowsize sv) v (maxseq rows) rows 0 (maxseq rows)) ->
  In m (handle_need_full sv s e).
Proof.
  intros Hl Hv Hm. unfold handle_need_full. cbv zeta. apply in_or_app. left.
  apply in_flat_map. exists v. split.
  - apply -> in_rev. apply filter_In. split; [apply In_zrange; exact Hv|]. rewrite Hl. reflexivity.
  - rewrite Hl. exact Hm.
Qed.

(* ---------- the Partial path's seq-range SELECT (GENERATED predicate) ---------- *)
(* for well-formed ranges the statement selects exactly the recorded ranges that share a seq with
   the requested one (no adjacency, unlike the DELETE of the ingest path) *)
Theorem need_overlap_select_exact rs re s e :
  rs <= re -> s <= e ->
  (need_overlap_pred_src rs re s e = true <-> exists x, rs <= x <= re /\ s <= x <= e).
Proof.
  intros H1 H2. unfold need_overlap_pred_src.
  rewrite !orb_true_iff, !andb_true_iff, !Z.leb_le. split.
  - intros H. exists (Z.max rs s). lia.
  - intros [x Hx]. lia.
Qed.

(* what is answered from a selected range is the part inside BOTH: the clamp max/min is never empty *)
Theorem need_overlap_clamp_nonempty rs re s e :
  rs <= re -> s <= e -> need_overlap_pred_src rs re s e = true ->
  Z.max rs s <= Z.min re e /\ rs <= Z.max rs s /\ Z.min re e <= re /\ s <= Z.max rs s /\ Z.min re e <= e.
Proof.
  intros H1 H2 H. apply need_overlap_select_exact in H; [|assumption|assumption]. destruct H as [x Hx]. lia.
Qed.
