pub struct Toks<'a> {
    it: std::iter::Peekable<std::str::SplitAsciiWhitespace<'a>>,
}

impl<'a> Toks<'a> {
    pub fn new(s: &'a str) -> Self {
        Self { it: s.split_ascii_whitespace().peekable() }
    }
    pub fn eot(&mut self) -> bool {
        self.it.peek().is_none()
    }
    pub fn tok(&mut self) -> &'a str {
        self.it.next().expect("unexpected end of case")
    }
    pub fn u64(&mut self) -> u64 {
        self.tok().parse().expect("u64")
    }
    pub fn i64(&mut self) -> i64 {
        self.tok().parse().expect("i64")
    }
    pub fn usize(&mut self) -> usize {
        self.tok().parse().expect("usize")
    }
}

/// splitmix64, the only PRNG used by the harness (seeded from the case files)
pub struct Rng(pub u64);
impl Rng {
    pub fn next(&mut self) -> u64 {
        self.0 = self.0.wrapping_add(0x9E3779B97F4A7C15);
        let mut z = self.0;
        z = (z ^ (z >> 30)).wrapping_mul(0xBF58476D1CE4E5B9);
        z = (z ^ (z >> 27)).wrapping_mul(0x94D049BB133111EB);
        z ^ (z >> 31)
    }
    pub fn below(&mut self, n: u64) -> u64 {
        if n == 0 { 0 } else { self.next() % n }
    }
}

/// Cut a batch in every listed subscription / update-feed loop (manual mode) and wait until each
/// of them has flushed at a generation that is not older than this cut.  A loop that entered its
/// select after the bump took the bumped value as its baseline, so the generation is bumped again
/// every 1.5 s; flushes are attributed to the loop that made them (hook FLUSHED_AT), so a fast
/// loop flushing twice cannot stand in for a slow one.
pub async fn flush_loops(ids: &[uuid::Uuid], secs: u64) -> bool {
    use klukai_types::updates::verif_hooks as vh;
    use std::sync::atomic::Ordering::SeqCst;
    use std::time::{Duration, Instant};
    if ids.is_empty() {
        return true;
    }
    let target = vh::FLUSH_GEN.fetch_add(1, SeqCst) + 1;
    let deadline = Instant::now() + Duration::from_secs(secs);
    let mut bumped = Instant::now();
    loop {
        let ok = {
            let m = vh::FLUSHED_AT.lock().unwrap();
            ids.iter().all(|id| m.get(id).copied().unwrap_or(0) >= target)
        };
        if ok {
            return true;
        }
        if Instant::now() > deadline {
            return false;
        }
        if bumped.elapsed() > Duration::from_millis(1500) {
            vh::FLUSH_GEN.fetch_add(1, SeqCst);
            bumped = Instant::now();
        }
        tokio::time::sleep(Duration::from_millis(3)).await;
    }
}
