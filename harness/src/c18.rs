//! C18: the real Members structure under up/down/rtt sequences.
use crate::{c04::actor_num, c04::actor_of, util::Toks};
use klukai_types::{
    actor::{Actor, ClusterId},
    broadcast::Timestamp,
    members::{MemberAddedResult, Members},
};
use std::{net::SocketAddr, time::Duration};

fn addr_of(n: u64) -> SocketAddr {
    format!("127.0.0.1:{}", n).parse().unwrap()
}
fn ts_of(secs: u64) -> Timestamp {
    Timestamp(uhlc::NTP64::from(Duration::from_secs(secs)))
}

fn dump(m: &Members) -> String {
    let st: Vec<String> = m
        .states
        .iter()
        .map(|(id, s)| {
            format!(
                "{}@{}:{}:{}:{}",
                actor_num(id),
                s.addr.port(),
                s.ts.to_duration().as_secs(),
                s.cluster_id.0,
                s.ring.map(|r| r.to_string()).unwrap_or("-".into())
            )
        })
        .collect();
    let mut ba: Vec<(u16, u64)> = m.by_addr.iter().map(|(a, id)| (a.port(), actor_num(id))).collect();
    ba.sort();
    let ba: Vec<String> = ba.iter().map(|(a, id)| format!("{a}>{id}")).collect();
    let r0 = |c: u16| {
        let mut v: Vec<u16> = m.ring0(ClusterId(c)).map(|a| a.port()).collect();
        v.sort();
        v.iter().map(|x| x.to_string()).collect::<Vec<_>>().join(",")
    };
    format!("st={} ba={} r0={}|{}", st.join(","), ba.join(","), r0(0), r0(1))
}

/// case: members <n> { U id addr ts cluster | D id addr ts cluster | R addr ms }
pub fn members(t: &mut Toks) -> String {
    let n = t.usize();
    let mut m = Members::default();
    let mut outs = vec![];
    for _ in 0..n {
        let op = t.tok();
        let res = match op {
            "U" | "D" => {
                let a = Actor::new(actor_of(t.u64()), addr_of(t.u64()), ts_of(t.u64()), ClusterId(t.u64() as u16));
                if op == "U" {
                    match m.add_member(&a) {
                        MemberAddedResult::NewMember => "new",
                        MemberAddedResult::Updated => "upd",
                        MemberAddedResult::Ignored => "ign",
                    }
                } else if m.remove_member(&a) {
                    "rm1"
                } else {
                    "rm0"
                }
            }
            "R" => {
                let addr = addr_of(t.u64());
                let ms = t.u64();
                m.add_rtt(addr, Duration::from_millis(ms));
                "rtt"
            }
            x => panic!("bad op {x}"),
        };
        outs.push(format!("{} {}", res, dump(&m)));
    }
    outs.join(" # ")
}
