(* C11 — A subscription's rows and events always equal its query run on the database.
   Model: Model/Ivm.v (Matcher::new rewrite, run, handle_candidates; SQL for the
   generated query family).  Proofs: Proofs/IvmProofs.v. *)
From Coq Require Import List ZArith Bool Lia.
From Corro Require Import Model.Ivm Proofs.IvmProofs.
Import ListNotations.
Open Scope Z_scope.

(* the initial query: matview = query result, fresh row ids, change id 0 *)
Theorem C11_initial : forall q d, q_kind q <> JLeft -> dbnodup d ->
  agree (m_rows (m_init q d)) (eval q d) /\ minv (m_init q d) /\ m_cid (m_init q d) = 0.
Proof. exact m_init_agree. Qed.
Print Assumptions C11_initial.

(* one batch of candidates, single-table queries: ANY candidate list that covers
   the changed rows (a superset is harmless), any filter / projection *)
Theorem C11_batch_single : forall q dold dnew m cs,
  q_kind q = JSingle -> dbfun dold -> dbfun dnew -> valid_cands q cs -> covers q dold dnew cs ->
  agree (m_rows m) (eval q dold) ->
  agree (m_rows (fst (handle_candidates q dnew m cs))) (eval q dnew).
Proof. exact ivm_single. Qed.
Print Assumptions C11_batch_single.

(* INNER joins, any ON / WHERE / projection, single or composite keys *)
Theorem C11_batch_inner : forall q dold dnew m cs,
  q_kind q = JInner -> dbfun dold -> dbfun dnew -> valid_cands q cs -> covers q dold dnew cs ->
  agree (m_rows m) (eval q dold) ->
  agree (m_rows (fst (handle_candidates q dnew m cs))) (eval q dnew).
Proof. exact ivm_inner. Qed.
Print Assumptions C11_batch_inner.

(* the candidates derived from the changes of a batch (every changed row of every
   table the query reads) are valid and cover *)
Theorem C11_candidates_cover : forall q dold dnew,
  valid_cands q (cands_of q dold dnew) /\ covers q dold dnew (cands_of q dold dnew).
Proof. exact cands_of_ok. Qed.
Print Assumptions C11_candidates_cover.

(* every history, in any batching: after each batch the matview is the query result *)
Theorem C11_history : forall q, q_kind q <> JLeft -> forall ds d0 m,
  dbfun d0 -> Forall dbfun ds -> agree (m_rows m) (eval q d0) ->
  agree (m_rows (run_hist q m d0 ds)) (eval q (last ds d0)).
Proof. exact history_correct. Qed.
Print Assumptions C11_history.

(* LEFT JOIN outside the known-finding class: batches that do not touch the
   nullable side *)
Definition nullable_side_touched (q : query) (dold dnew : db) : Prop :=
  q_kind q = JLeft /\ exists k, row_changed (tbl dold (q_t1 q)) (tbl dnew (q_t1 q)) k = true.

Theorem C11_left_join_left_side : forall q dold dnew m cs,
  q_kind q = JLeft -> dbfun dold -> dbfun dnew ->
  (forall pos ks, In (pos, ks) cs -> pos = 0%nat) ->
  covers q dold dnew cs ->
  (forall k, row_changed (tbl dold (q_t1 q)) (tbl dnew (q_t1 q)) k = false) ->
  agree (m_rows m) (eval q dold) ->
  agree (m_rows (fst (handle_candidates q dnew m cs))) (eval q dnew).
Proof. exact ivm_left_leftside. Qed.
Print Assumptions C11_left_join_left_side.

(* ... and inside it the property is FALSE of the faithful model (and of the code:
   KNOWN_FINDINGS.txt): a row inserted on the nullable side leaves the stale
   (a, NULL) row behind *)
Definition lj_q : query :=
  mkQ JLeft 0 1 (EEq (ECol 0 0) (ECol 1 1)) (EConst 1) [ECol 0 0; ECol 0 1; ECol 1 0; ECol 1 2].
Definition lj_old : db := [[([1], [Some 10; Some 20])]; []].
Definition lj_new : db := [[([1], [Some 10; Some 20])]; [([7], [Some 1; Some 5])]].

Theorem C11_left_join_refuted :
  nullable_side_touched lj_q lj_old lj_new /\
  eval lj_q lj_new = [([Some [1]; Some [7]], [Some 1; Some 10; Some 7; Some 5])] /\
  map snd (m_rows (fst (handle_candidates lj_q lj_new (m_init lj_q lj_old) (cands_of lj_q lj_old lj_new)))) =
    [([Some [1]; None], [Some 1; Some 10; None; None]);
     ([Some [1]; Some [7]], [Some 1; Some 10; Some 7; Some 5])].
Proof.
  split; [split; [reflexivity|exists [7]; vm_compute; reflexivity]|].
  split; vm_compute; reflexivity.
Qed.
Print Assumptions C11_left_join_refuted.

(* the event stream: replaying it from the previous client view gives the new one *)
Theorem C11_replay : forall q d m cs, minv m ->
  minv (fst (handle_candidates q d m cs)) /\
  client_view mkey (list val) (m_rows (fst (handle_candidates q d m cs))) =
  replay mkey (list val) (client_view mkey (list val) (m_rows m)) (snd (handle_candidates q d m cs)).
Proof. exact hc_replay. Qed.
Print Assumptions C11_replay.

(* change ids increase by exactly one per event *)
Theorem C11_change_ids : forall q d m cs,
  m_cid (fst (handle_candidates q d m cs)) = m_cid m + Z.of_nat (length (snd (handle_candidates q d m cs))) /\
  map fst (stamp (m_cid m) (snd (handle_candidates q d m cs))) =
  map (fun i => m_cid m + Z.of_nat i) (seq 1 (length (snd (handle_candidates q d m cs)))).
Proof. intros q d m cs. split; [apply hc_cid|apply stamp_ids]. Qed.
Print Assumptions C11_change_ids.

(* no event when the result did not change *)
Theorem C11_no_spurious_events : forall q d m cs,
  functional mkey (list val) (eval q d) ->
  (forall pos ks, In (pos, ks) cs -> forall mk c,
     In (mk, c) (eval_restricted q d pos ks) <-> In (mk, c) (eval q d) /\ sel_pos pos ks mk = true) ->
  agree (m_rows m) (eval q d) ->
  handle_candidates q d m cs = (m, []).
Proof. exact no_spurious_events. Qed.
Print Assumptions C11_no_spurious_events.

Check pass_spec.
Check restricted_inner : forall q d pos ks mk c, q_kind q = JInner -> (pos = 0 \/ pos = 1)%nat ->
  (In (mk, c) (eval_restricted q d pos ks) <-> In (mk, c) (eval q d) /\ sel_pos pos ks mk = true).

(* non-vacuity: an INNER join history with an insert, a value change that moves a
   row out of the filter, a key change and a delete *)
Definition ex_q : query :=
  mkQ JInner 0 1 (EEq (ECol 0 0) (ECol 1 1)) (ELt (EConst 0) (ECol 1 2)) [ECol 0 1; EAdd (ECol 1 2) (EConst 1)].
Definition ex_d0 : db := [[([1], [Some 10; None])]; [([7], [Some 1; Some 5])]].
Definition ex_d1 : db := [[([1], [Some 10; None]); ([2], [Some 20; None])]; [([7], [Some 1; Some 5]); ([8], [Some 2; Some 0])]].
Definition ex_d2 : db := [[([1], [Some 11; None]); ([2], [Some 20; None])]; [([9], [Some 1; Some 5]); ([8], [Some 2; Some 3])]].
Definition ex_d3 : db := [[([2], [Some 20; None])]; [([9], [Some 1; Some 5]); ([8], [Some 2; Some 3])]].

Example C11_nonvacuous :
  dbnodup ex_d0 /\
  map snd (m_rows (run_hist ex_q (m_init ex_q ex_d0) ex_d0 [ex_d1; ex_d2; ex_d3])) = eval ex_q ex_d3 /\
  eval ex_q ex_d3 = [([Some [2]; Some [8]], [Some 20; Some 4])] /\
  map (fun e => fst (fst (fst e))) (snd (handle_candidates ex_q ex_d2 (run_hist ex_q (m_init ex_q ex_d0) ex_d0 [ex_d1]) (cands_of ex_q ex_d1 ex_d2)))
    = [EvIns; EvDel; EvIns].
Proof.
  split.
  - intros t. unfold tnodup, tbl. destruct t as [|[|[|t]]]; cbn; repeat constructor; cbn; intuition discriminate.
  - vm_compute. repeat split.
Qed.
