//! C04: the real SyncStateV1::compute_available_needs on generated state pairs.
use crate::util::Toks;
use klukai_types::{
    actor::ActorId,
    base::{CrsqlDbVersion, CrsqlSeq},
    sync::{SyncNeedV1, SyncStateV1},
};
use std::collections::HashMap;

pub fn actor_of(n: u64) -> ActorId {
    let mut b = [0u8; 16];
    b[8..].copy_from_slice(&n.to_be_bytes());
    ActorId(uuid::Uuid::from_bytes(b))
}
pub fn actor_num(a: &ActorId) -> u64 {
    let b = a.to_bytes();
    u64::from_be_bytes(b[8..].try_into().unwrap())
}

pub fn parse_state(t: &mut Toks) -> SyncStateV1 {
    let me = t.u64();
    let mut st = SyncStateV1 { actor_id: actor_of(me), ..Default::default() };
    let nh = t.usize();
    for _ in 0..nh {
        let a = t.u64();
        let h = t.u64();
        st.heads.insert(actor_of(a), CrsqlDbVersion(h));
    }
    let nn = t.usize();
    for _ in 0..nn {
        let a = t.u64();
        let k = t.usize();
        let rs = (0..k).map(|_| CrsqlDbVersion(t.u64())..=CrsqlDbVersion(t.u64())).collect();
        st.need.insert(actor_of(a), rs);
    }
    let np = t.usize();
    for _ in 0..np {
        let a = t.u64();
        let m = t.usize();
        let mut map = HashMap::new();
        for _ in 0..m {
            let v = t.u64();
            let k = t.usize();
            let rs = (0..k).map(|_| CrsqlSeq(t.u64())..=CrsqlSeq(t.u64())).collect();
            map.insert(CrsqlDbVersion(v), rs);
        }
        st.partial_need.insert(actor_of(a), map);
    }
    st
}

pub fn fmt_needs(needs: &HashMap<ActorId, Vec<SyncNeedV1>>) -> String {
    let mut actors: Vec<_> = needs.iter().collect();
    actors.sort_by_key(|(a, _)| actor_num(a));
    actors
        .iter()
        .map(|(a, l)| {
            let mut items: Vec<String> = l
                .iter()
                .map(|n| match n {
                    SyncNeedV1::Full { versions } => format!("F{}-{}", versions.start().0, versions.end().0),
                    SyncNeedV1::Partial { version, seqs } => format!(
                        "P{}[{}]",
                        version.0,
                        seqs.iter().map(|r| format!("{}-{}", r.start().0, r.end().0)).collect::<Vec<_>>().join(",")
                    ),
                    SyncNeedV1::Empty { .. } => "E".to_string(),
                })
                .collect();
            items.sort();
            format!("{}:{}", actor_num(a), items.join(" "))
        })
        .collect::<Vec<_>>()
        .join(";")
}

/// case: needs <our state> <their state>
pub fn needs(t: &mut Toks) -> String {
    let ours = parse_state(t);
    let theirs = parse_state(t);
    fmt_needs(&ours.compute_available_needs(&theirs))
}
