From Coq Require Import List ZArith Bool Lia.
From Corro Require Import Model.Catchup.
Import ListNotations.
Open Scope Z_scope.

Lemma zrange_empty lo hi : hi < lo -> zrange lo hi = [].
Proof. intros H. unfold zrange. replace (Z.to_nat (hi - lo + 1)) with 0%nat by lia. reflexivity. Qed.

Lemma zrange_cons lo hi : lo <= hi -> zrange lo hi = lo :: zrange (lo + 1) hi.
Proof.
  intros H. unfold zrange.
  replace (Z.to_nat (hi - lo + 1)) with (S (Z.to_nat (hi - (lo + 1) + 1))) by lia.
  cbn [seq map]. f_equal; [lia|].
  rewrite <- seq_shift, map_map. apply map_ext. intros i. lia.
Qed.

Lemma zrange_app a b c : a <= b + 1 -> b <= c -> zrange a b ++ zrange (b + 1) c = zrange a c.
Proof.
  intros H1 H2. remember (Z.to_nat (b + 1 - a)) as n eqn:En. revert a H1 En.
  induction n as [|n IH]; intros a H1 En.
  - assert (a = b + 1) by lia. subst a. rewrite zrange_empty by lia. reflexivity.
  - rewrite (zrange_cons a b) by lia. rewrite (zrange_cons a c) by lia. cbn [app]. f_equal.
    apply IH; lia.
Qed.

Lemma consecutive_zrange a b : consecutive_from a (zrange (a + 1) b) = true.
Proof.
  remember (Z.to_nat (b - a)) as n eqn:En. revert a En. induction n as [|n IH]; intros a En.
  - destruct (Z_lt_le_dec b (a + 1)) as [H|H]; [rewrite zrange_empty by lia; reflexivity|lia].
  - rewrite zrange_cons by lia. cbn. rewrite Z.eqb_refl. cbn. apply IH. lia.
Qed.

(* ---------- the retry loop ---------- *)
Lemma retry_spec : forall n c L reads acc d L' ok,
  retry n c L reads acc = (d, L', ok) ->
  L <= L' /\ d = acc ++ zrange (L + 1) L' /\ (ok = true -> c <= L').
Proof.
  induction n as [|n IH]; intros c L reads acc d L' ok H; cbn [retry] in H.
  - injection H as <- <- <-. split; [lia|]. split; [rewrite zrange_empty by lia; rewrite app_nil_r; reflexivity|discriminate].
  - destruct (L + 1 <=? c) eqn:E.
    + unfold read_since in H. set (L1 := Z.max L (match reads with r :: _ => r | [] => L end)) in *.
      apply IH in H as [H1 [H2 H3]]. split; [lia|]. split; [|exact H3].
      rewrite H2, <- app_assoc, zrange_app by lia. reflexivity.
    + injection H as <- <- <-. apply Z.leb_gt in E. split; [lia|].
      split; [rewrite zrange_empty by lia; rewrite app_nil_r; reflexivity|intros _; lia].
Qed.

Lemma retry_ok n c L reads acc d L' : retry n c L reads acc = (d, L', true) ->
  L <= L' /\ c <= L' /\ d = acc ++ zrange (L + 1) L'.
Proof. intros H. apply retry_spec in H as [H1 [H2 H3]]. auto. Qed.

Lemma retry_any n c L reads acc d L' ok : retry n c L reads acc = (d, L', ok) ->
  L <= L' /\ d = acc ++ zrange (L + 1) L'.
Proof. intros H. apply retry_spec in H as [H1 [H2 _]]. auto. Qed.

(* ---------- forwarding with the id filter ---------- *)
Lemma fwd_acc l : forall acc L,
  fold_left fwd_filtered l (acc, L) =
  (acc ++ fst (fold_left fwd_filtered l ([], L)), snd (fold_left fwd_filtered l ([], L))).
Proof.
  induction l as [|x t IH]; intros acc L; cbn [fold_left].
  - rewrite app_nil_r. reflexivity.
  - cbn [fwd_filtered]. destruct (L <? x).
    + rewrite (IH (acc ++ [x]) x), (IH ([] ++ [x]) x). cbn [fst snd app]. rewrite <- app_assoc. reflexivity.
    + apply IH.
Qed.

(* a consecutive stream that starts no later than L+1: exactly the ids above L come out, in order *)
Lemma fwd_consecutive : forall l s L, consecutive_from s l = true -> s <= L ->
  fold_left fwd_filtered l ([], L) =
  (zrange (L + 1) (Z.max L (s + Z.of_nat (length l))), Z.max L (s + Z.of_nat (length l))).
Proof.
  induction l as [|x t IH]; intros s L Hc Hs.
  - cbn. rewrite Z.add_0_r, Z.max_l by lia. rewrite zrange_empty by lia. reflexivity.
  - cbn [consecutive_from] in Hc. apply andb_true_iff in Hc as [Hx Ht]. apply Z.eqb_eq in Hx. subst x.
    cbn [fold_left fwd_filtered length]. destruct (L <? s + 1) eqn:E.
    + apply Z.ltb_lt in E. assert (L = s) by lia. subst L.
      rewrite fwd_acc, (IH (s + 1) (s + 1) Ht ltac:(lia)). cbn [fst snd].
      replace (Z.max (s + 1) (s + 1 + Z.of_nat (length t))) with (Z.max s (s + Z.of_nat (S (length t)))) by lia.
      f_equal. cbn [app]. rewrite (zrange_cons (s + 1)) by lia. reflexivity.
    + apply Z.ltb_ge in E. rewrite (IH (s + 1) L Ht ltac:(lia)).
      replace (Z.max L (s + 1 + Z.of_nat (length t))) with (Z.max L (s + Z.of_nat (S (length t)))) by lia. reflexivity.
Qed.

(* ---------- well-formed observations of the producer ---------- *)
Definition peek_list (p : option Z) : list Z := match p with Some c => [c] | None => [] end.

Definition stream_of (i : cin) : list Z := peek_list (ci_peek i) ++ ci_qrest i ++ ci_live i.

Record cin_wf (i : cin) : Prop := {
  wf_from : ci_from i <= ci_first i;
  (* live events are broadcast in id order and none is lost (no Lagged) *)
  wf_stream : exists s, consecutive_from s (stream_of i) = true /\
              (* what is broadcast later than the peek was emitted no later than right after
                 the watch value read at the peek *)
              (ci_peek i = None -> s <= ci_watch i) }.

(* pending event, buffered events and live events go through one and the same filter *)
Lemma tail_spec L p qrest live :
  let st0 := match p with Some c => fwd_filtered ([], L) c | None => ([], L) end in
  let st1 := fold_left fwd_filtered qrest st0 in
  fst st1 ++ fst (fold_left fwd_filtered live ([], snd st1)) =
  fst (fold_left fwd_filtered (peek_list p ++ qrest ++ live) ([], L)).
Proof.
  cbv zeta.
  assert (G : forall st0, fst (fold_left fwd_filtered qrest st0) ++
                          fst (fold_left fwd_filtered live ([], snd (fold_left fwd_filtered qrest st0))) =
                          fst (fold_left fwd_filtered (qrest ++ live) st0)).
  { intros st0. rewrite fold_left_app. destruct (fold_left fwd_filtered qrest st0) as [a l]. cbn [fst snd].
    rewrite (fwd_acc live a l). reflexivity. }
  destruct p as [c|]; cbn [peek_list app fold_left]; apply G.
Qed.

Lemma catch_up_ok_shape attempts i d1 L :
  (match (match ci_peek i with Some c => Some c | None => if ci_watch i <=? ci_first i then None else Some (ci_watch i) end) with
   | Some c => retry attempts c (ci_first i) (ci_reads i) []
   | None => ([], ci_first i, true) end) = (d1, L, true) ->
  catch_up attempts true i =
  (zrange (ci_from i + 1) (ci_first i) ++ d1 ++
   fst (fold_left fwd_filtered (stream_of i) ([], L)), false).
Proof.
  intros H. unfold catch_up. rewrite H. cbn [negb]. unfold stream_of.
  rewrite <- (tail_spec L (ci_peek i) (ci_qrest i) (ci_live i)). cbv zeta. reflexivity.
Qed.

Theorem catch_up_consecutive attempts i d stopped :
  cin_wf i -> catch_up attempts true i = (d, stopped) -> consecutive_from (ci_from i) d = true.
Proof.
  intros [Hfrom [s [Hcons Hwatch]]] Hrun.
  set (d0 := zrange (ci_from i + 1) (ci_first i)).
  assert (Hd0 : forall L, ci_first i <= L -> d0 ++ zrange (ci_first i + 1) L = zrange (ci_from i + 1) L)
    by (intros L HL; unfold d0; apply zrange_app; lia).
  set (check := match ci_peek i with Some c => Some c | None => if ci_watch i <=? ci_first i then None else Some (ci_watch i) end).
  destruct (match check with Some c => retry attempts c (ci_first i) (ci_reads i) [] | None => ([], ci_first i, true) end)
    as [[d1 L] ok] eqn:Er.
  (* what the reads delivered, and where the stream of live events starts *)
  assert (Hread : ci_first i <= L /\ d1 = zrange (ci_first i + 1) L /\ (ok = true -> s <= L)).
  { unfold check in Er. destruct (ci_peek i) as [c|] eqn:Epeek.
    - apply retry_spec in Er as [H1 [H2 H3]]. cbn [app] in H2. split; [lia|]. split; [exact H2|].
      intros Hok. specialize (H3 Hok). unfold stream_of in Hcons. rewrite Epeek in Hcons. cbn [peek_list app consecutive_from] in Hcons.
      apply andb_true_iff in Hcons as [Hx _]. apply Z.eqb_eq in Hx. lia.
    - specialize (Hwatch eq_refl). destruct (ci_watch i <=? ci_first i) eqn:Ew.
      + injection Er as <- <- <-. apply Z.leb_le in Ew. split; [lia|]. split; [rewrite zrange_empty by lia; reflexivity|intros _; lia].
      + apply retry_spec in Er as [H1 [H2 H3]]. cbn [app] in H2. split; [lia|]. split; [exact H2|]. intros Hok. specialize (H3 Hok). lia. }
  destruct Hread as [HL [Hd1 Hs]]. subst d1.
  destruct ok.
  - rewrite (catch_up_ok_shape attempts i _ L Er) in Hrun. injection Hrun as <- _.
    rewrite (fwd_consecutive _ s L Hcons (Hs eq_refl)). cbn [fst].
    fold d0. rewrite app_assoc, Hd0 by lia. rewrite zrange_app by lia. apply consecutive_zrange.
  - unfold catch_up in Hrun. fold check in Hrun. rewrite Er in Hrun. cbn [negb] in Hrun. injection Hrun as <- _.
    fold d0. rewrite Hd0 by lia. apply consecutive_zrange.
Qed.

(* ---------- the client ---------- *)
Definition accepted (outs : list cout) : list Z :=
  flat_map (fun o => match o with CAccept id => [id] | CMissed _ _ => [] end) outs.

(* whatever arrives after the end-of-query, the changes the client accepts are start+1,
   start+2, ... without gap or repetition *)
Theorem client_accepts_consecutive : forall ids start,
  consecutive_from start (accepted (client_run (Some start) (map CChange ids))) = true.
Proof.
  induction ids as [|x t IH]; intros start; cbn [map client_run client_step]; [reflexivity|].
  destruct (start + 1 =? x) eqn:E.
  - cbn [app accepted flat_map]. cbn [consecutive_from]. apply Z.eqb_eq in E. subst x. rewrite Z.eqb_refl. cbn [andb].
    apply IH.
  - cbn [app accepted flat_map]. apply IH.
Qed.

(* ... and every other change is reported, none is dropped silently *)
Theorem client_reports_every_gap : forall ids start,
  length (client_run (Some start) (map CChange ids)) = length ids /\
  (consecutive_from start ids = true <-> client_run (Some start) (map CChange ids) = map CAccept ids).
Proof.
  induction ids as [|x t IH]; intros start; cbn [map client_run client_step length consecutive_from].
  - split; [reflexivity|split; reflexivity].
  - destruct (start + 1 =? x) eqn:E.
    + destruct (IH x) as [H1 H2]. cbn [app length]. split; [f_equal; exact H1|].
      rewrite Z.eqb_sym in E. rewrite E. cbn [andb]. rewrite H2. split; [intros ->; reflexivity|intros H; injection H as H; exact H].
    + destruct (IH start) as [H1 _]. cbn [app length]. split; [f_equal; exact H1|].
      rewrite Z.eqb_sym in E. rewrite E. cbn [andb]. split; [discriminate|intros H; discriminate].
Qed.
