(* The deterministic schedule under which the C10 harness drives the real
   handle_changes (huge chunk size, no ticks): a batch is spawned as soon as
   something is queued and nothing is in flight; it completes at once unless
   the harness holds the write connection; injected failures make
   process_multiple_changes return an error before touching the database. *)
From Coq Require Import List ZArith Bool.
From Corro Require Import Lib.Ivl Model.Ingest.
Import ListNotations.
Open Scope Z_scope.

Inductive sop := SHold | SRelease | SFail (n : nat) | SOffer (c : chg).

Record sst := mkSst { core : ist; held : bool; failn : nat }.

Definition sst_init : sst := mkSst ist_init false O.

(* spawn/complete batches until nothing more can happen *)
Fixpoint settle (self maxq : Z) (fuel : nat) (s : sst) : sst :=
  match fuel with
  | O => s
  | S fuel' =>
    match inflight (core s), queue (core s) with
    | [], _ :: _ =>
      let c1 := istep self maxq (core s) (Spawn (length (queue (core s)))) in
      match failn s with
      | S k => settle self maxq fuel' (mkSst (istep self maxq c1 (Done 0 false)) (held s) k)
      | O => if held s then mkSst c1 true O
             else settle self maxq fuel' (mkSst (istep self maxq c1 (Done 0 true)) false O)
      end
    | _, _ => s
    end
  end.

Definition sstep (self maxq : Z) (s : sst) (op : sop) : sst :=
  match op with
  | SHold => mkSst (core s) true (failn s)
  | SFail n => mkSst (core s) (held s) n
  | SOffer c =>
    settle self maxq (S (S (failn s))) (mkSst (istep self maxq (core s) (Offer c)) (held s) (failn s))
  | SRelease =>
    let c1 := match inflight (core s) with
              | _ :: _ => istep self maxq (core s) (Done 0 true)
              | [] => core s end in
    settle self maxq (S (S (failn s))) (mkSst c1 false (failn s))
  end.
