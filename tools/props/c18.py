"""C18 — membership view follows the newest identity."""
import itertools, random, re
import vlib, flow


class C18(flow.Spec):
    pid = "C18"
    rule = ("sequences of U(p) id addr ts cluster / D(own) id addr ts cluster / R(tt) addr ms on the real Members struct. "
            "Exhaustive: all sequences of length <=3 over 2 actors x ts {10,20} x addr {1000,1001} x cluster {0,1} x {U,D} "
            "plus RTT samples for both addresses; random: 3 actors, 4 ts, 3 addrs, depth<=14 with RTT samples "
            "{1,5,40,250,400 ms} and >20 samples per address. Histories violating the SWIM constraint are compared "
            "impl-vs-model only. non-trivial = distinct sequence with >=1 update/removal/ring change")
    assumptions = ["identity timestamps are whole seconds in the harness (to_duration image); sub-nanosecond NTP64 fractions are not exercised",
                   "the SWIM constraint: an 'up' never carries an identity older than one already reported down; one (actor, ts) = one address and cluster",
                   "foca's Rename notification is ignored by the code and not part of the property's alphabet"]

    def cases(self, tier, seed):
        rnd = random.Random(seed)
        out = []
        thorough = tier == "thorough"
        acts = [(i, a, ts, c) for i in (5, 6) for a in (1000, 1001) for ts in (10, 20) for c in (0, 1)]
        ops1 = ["U %d %d %d %d" % x for x in acts] + ["D %d %d %d %d" % x for x in acts] + ["R 1000 3", "R 1001 120"]
        # exhaustive length 2 (all), length 3 (sampled in quick)
        for a in ops1:
            for b in ops1:
                out.append(("members 2 %s %s" % (a, b), {"exh-2"}))
        L3 = list(itertools.product(ops1, repeat=3))
        if not thorough:
            L3 = rnd.sample(L3, 6000)
        for a, b, c in L3:
            out.append(("members 3 %s %s %s" % (a, b, c), {"exh-3"}))
        N = 3000 if not thorough else 60000
        for _ in range(N):
            depth = rnd.randrange(1, 15)
            ops = []
            # identities: (actor, ts) -> (addr, cluster) fixed, so the history is identity-consistent
            ident = {}
            for _ in range(depth):
                x = rnd.random()
                if x < 0.3:
                    addr = rnd.choice([1000, 1001, 1002])
                    k = rnd.choice([1, 1, 1, 25])
                    for _ in range(k):
                        ops.append("R %d %d" % (addr, rnd.choice([1, 5, 40, 250, 400])))
                else:
                    i = rnd.choice([5, 6, 7]); ts = rnd.choice([10, 20, 30, 40])
                    if (i, ts) not in ident:
                        ident[(i, ts)] = (rnd.choice([1000, 1001, 1002]), rnd.choice([0, 1]))
                    addr, c = ident[(i, ts)]
                    ops.append("%s %d %d %d %d" % ("U" if x < 0.7 else "D", i, addr, ts, c))
            out.append(("members %d %s" % (len(ops), " ".join(ops)), {"random"}))
        return out

    def nontrivial(self, case, model_obs):
        return ("upd " in model_obs) or ("rm1 " in model_obs) or bool(re.search(r":\d+:\d+:\d+ ", model_obs + " ")) and ":0 " in model_obs or "rm1" in model_obs

    def oracle_line(self, case, impl_obs):
        ops = case.split()[1:]
        if impl_obs.startswith(("ERR", "PANIC", "CRASH")):
            return "chk_members " + " ".join(ops) + " 0"
        steps = impl_obs.split(" # ")
        t = ["chk_members"] + ops + [str(len(steps))]
        for st in steps:
            m = re.match(r"\w+ st=(\S*) ba=(\S*) r0=([^|]*)\|(\S*)", st.strip())
            if not m:
                return "chk_members " + " ".join(ops) + " 0"
            ents = [e for e in m.group(1).split(",") if e]
            t.append(str(len(ents)))
            for e in ents:
                mm = re.match(r"(\d+)@(\d+):(\d+):(\d+):(\S+)", e)
                t += [mm.group(1), mm.group(2), mm.group(3), mm.group(4), "-1" if mm.group(5) == "-" else mm.group(5)]
            bas = [e for e in m.group(2).split(",") if e]
            t.append(str(len(bas)))
            for e in bas:
                a, i = e.split(">")
                t += [a, i]
            for g in (m.group(3), m.group(4)):
                xs = [x for x in g.strip().split(",") if x]
                t += [str(len(xs))] + xs
        return " ".join(t)


SPEC = C18
