(* modelrun: runs the extracted Coq models on cases read from stdin, one case
   per line, and prints one canonical observation line per case.
   Hand-written glue (trusted): parsing, printing, dispatch. *)
open Model

(* ---------- Z <-> decimal strings, without going through OCaml ints ------- *)
let rec pos_of_int n =            (* n >= 1, small *)
  if n = 1 then XH
  else if n land 1 = 0 then XO (pos_of_int (n lsr 1))
  else XI (pos_of_int (n lsr 1))
let z_of_small n = if n = 0 then Z0 else if n > 0 then Zpos (pos_of_int n) else Zneg (pos_of_int (-n))
let z10 = z_of_small 10

let z_of_string s =
  let neg = String.length s > 0 && s.[0] = '-' in
  let i0 = if neg then 1 else 0 in
  if String.length s = i0 then failwith ("bad int: " ^ s);
  let acc = ref Z0 in
  for i = i0 to String.length s - 1 do
    let c = s.[i] in
    if c < '0' || c > '9' then failwith ("bad int: " ^ s);
    acc := Z.add (Z.mul !acc z10) (z_of_small (Char.code c - 48))
  done;
  if neg then Z.opp !acc else !acc

let rec int_of_pos = function
  | XH -> 1 | XO p -> 2 * int_of_pos p | XI p -> 2 * int_of_pos p + 1
let int_of_z = function Z0 -> 0 | Zpos p -> int_of_pos p | Zneg p -> - (int_of_pos p)

let rec pos_bits = function XH -> 1 | XO p | XI p -> 1 + pos_bits p

let string_of_z z =
  let small p = pos_bits p < 60 in
  match z with
  | Z0 -> "0"
  | Zpos p when small p -> string_of_int (int_of_pos p)
  | Zneg p when small p -> string_of_int (- (int_of_pos p))
  | _ ->
    let neg, a = (match z with Zneg p -> true, Zpos p | _ -> false, z) in
    let buf = Buffer.create 24 in
    let rec go a acc =
      match a with
      | Z0 -> acc
      | _ -> let (q, r) = Z.div_eucl a z10 in go q (Char.chr (48 + int_of_z r) :: acc)
    in
    let ds = go a [] in
    if neg then Buffer.add_char buf '-';
    List.iter (Buffer.add_char buf) ds;
    Buffer.contents buf

let rec nat_of_int n = if n <= 0 then O else S (nat_of_int (n - 1))
let rec int_of_nat = function O -> 0 | S n -> 1 + int_of_nat n

(* ---------- token reader ---------- *)
type toks = { mutable l : string list }
let toks_of_line line =
  { l = List.filter (fun s -> s <> "") (String.split_on_char ' ' (String.trim line)) }
let tok t = match t.l with [] -> failwith "unexpected end of case" | x :: r -> t.l <- r; x
let tz t = z_of_string (tok t)
let ti t = int_of_string (tok t)
let rec tlist t n f = if n <= 0 then [] else let x = f t in x :: tlist t (n - 1) f
let eot t = t.l = []

let sz = string_of_z
let sb b = if b then "1" else "0"
let join sep f l = String.concat sep (List.map f l)

(* ---------- C08 ---------- *)
(* case:  chunks <start> <last> <n> {<seq> <size>}*n <m> {<lim>}*m
   obs:   a-b[id id ...];...|done=<0/1>
   The change id is its index in the input list. *)
let parse_chunks_case t =
  let start = tz t in let last = tz t in
  let n = ti t in
  let idx = ref (-1) in
  let cs = tlist t n (fun t -> let s = tz t in let size = tz t in incr idx;
                       { c_seq = s; c_size = size; c_id = z_of_small !idx }) in
  let m = ti t in
  let lims = tlist t m tz in
  (start, last, cs, lims)

let print_chunks out =
  join ";" (fun (cs, (a, b)) -> sz a ^ "-" ^ sz b ^ "[" ^ join " " (fun c -> sz c.c_id) cs ^ "]") out

let c08_chunks t =
  let (start, last, cs, lims) = parse_chunks_case t in
  let (out, stf) = run lims (start_cursor cs start last) in
  print_chunks out ^ "|done=" ^ sb stf.done0 ^ "|wf=" ^ sb (wf_input cs start last)

(* case: range <s> <e> <k>   obs: a-b a-b ... *)
let print_blocks bs = join " " (fun (a, b) -> sz a ^ "-" ^ sz b) bs
let c08_range t =
  let s = tz t in let e = tz t in let k = tz t in
  print_blocks (chunk_range s e k)

(* oracle on implementation output:
   chk_chunks <start> <last> <n> {<seq> <size>}*n <c> { <a> <b> <k> {<id>}*k }*c *)
let c08_chk_chunks t =
  let start = tz t in let last = tz t in
  let n = ti t in
  let idx = ref (-1) in
  let cs = tlist t n (fun t -> let s = tz t in let size = tz t in incr idx;
                       { c_seq = s; c_size = size; c_id = z_of_small !idx }) in
  let arr = Array.of_list cs in
  let c = ti t in
  let out = tlist t c (fun t ->
      let a = tz t in let b = tz t in let k = ti t in
      let ids = tlist t k ti in
      let chs = List.map (fun i ->
          if i >= 0 && i < Array.length arr then arr.(i)
          else { c_seq = z_of_small (-1); c_size = Z0; c_id = z_of_small i }) ids in
      (chs, (a, b))) in
  let lims = if eot t then None else (let m = ti t in Some (tlist t m tz)) in
  "wf=" ^ sb (wf_input cs start last) ^ " ok=" ^ sb (check_chunks cs start last out &&
                                                    (match lims with Some l -> sizes_ok_b l out | None -> true))

(* chk_range <s> <e> <c> {<a> <b>}*c *)
let c08_chk_range t =
  let s = tz t in let e = tz t in let c = ti t in
  let bs = tlist t c (fun t -> let a = tz t in let b = tz t in (a, b)) in
  let k = if eot t then None else Some (tz t) in
  "ok=" ^ sb (check_chunk_range s e bs && (match k with Some k -> rtiles_b s e k bs | None -> true))

(* ---------- C02 ---------- *)
(* case: book <U> <nops> { I <k> {<s> <e>}*k | P <v> <s> <e> <last> | R } *)
let fmt_ranges rs = join "," (fun (a, b) -> sz a ^ "-" ^ sz b) rs
let fmt_oz = function None -> "-" | Some z -> sz z
let fmt_bv (b : bv) =
  "n=" ^ fmt_ranges b.needed ^ " m=" ^ fmt_oz b.maxv ^ " p=" ^
  join ";" (fun (v, p) -> sz v ^ ":" ^ sz p.p_last ^ ":" ^ fmt_ranges p.p_seqs) b.partials
let fmt_adv = function
  | None -> "-"
  | Some a -> sz a.a_head ^ "|" ^ fmt_ranges a.a_need ^ "|" ^
              join ";" (fun (v, rs) -> sz v ^ ":" ^ fmt_ranges rs) a.a_partial
let parse_bops t =
  let n = ti t in
  tlist t n (fun t ->
      match tok t with
      | "I" -> let k = ti t in OpInsert (tlist t k (fun t -> let s = tz t in let e = tz t in (s, e)))
      | "P" -> let v = tz t in let s = tz t in let e = tz t in let l = tz t in OpPartial (v, s, e, l)
      | "R" -> OpReload
      | x -> failwith ("bad op " ^ x))
let fmt_bout = function
  | OutOk -> "ok" | OutIdbErr -> "idberr" | OutBadDelete -> "baddelete"
  | OutFailsafe -> "failsafe" | OutConflict -> "conflict"
let c02_book t =
  let u = ti t in
  let ops = parse_bops t in
  let res = bruns bstate_init ops in
  join " # " (fun (st, out) ->
      let b = st.st_bv in
      let cv = String.concat "" (List.init u (fun i -> sb (contains_version b (z_of_small (i + 1))))) in
      fmt_bout out ^ " " ^ fmt_bv b ^ " g=" ^ fmt_ranges st.st_rows ^
      " s=" ^ join ";" (fun r -> sz r.sr_version ^ ":" ^ sz r.sr_start ^ "-" ^ sz r.sr_end ^ ":" ^ sz r.sr_last)
        (seqrows_flat st.st_seq) ^
      " d=" ^ fmt_oz st.st_dbmax ^ " adv=" ^ fmt_adv (sync_actor b) ^
      " fc=[" ^ fmt_bv (reload st) ^ "] cv=" ^ cv) res

(* oracle on ONE observed implementation state:
   chk_bstate <U> <bad:0/1> N{a b} <max|-1> P{v last K{a b}} G{a b} <adv:0/1> [head N{a b} P{v K{a b}}] <fc:0/1> [N{a b} max P{..}]
   where X{..} is a count followed by that many items *)
let p_ranges t = let n = ti t in tlist t n (fun t -> let a = tz t in let b = tz t in (a, b))
let p_omax t = let m = tok t in if m = "-1" then None else Some (z_of_string m)
let p_partials t = let n = ti t in
  tlist t n (fun t -> let v = tz t in let l = tz t in let rs = p_ranges t in (v, { p_seqs = rs; p_last = l }))
let p_bv t = let n = p_ranges t in let m = p_omax t in let p = p_partials t in
  { needed = n; partials = p; maxv = m }
let c02_chk_state t =
  let u = tz t in
  let bad = ti t = 1 in
  let b = p_bv t in
  let g = p_ranges t in
  let a = if ti t = 1 then begin
      let h = tz t in let nd = p_ranges t in
      let n = ti t in
      let ps = tlist t n (fun t -> let v = tz t in let rs = p_ranges t in (v, rs)) in
      Some { a_head = h; a_need = nd; a_partial = ps } end else None in
  let fc = if ti t = 1 then Some (p_bv t) else None in
  "ok=" ^ sb (not bad && state_ok b g a fc u)

(* ---------- C04 ---------- *)
let parse_sstate t =
  let me = tz t in
  let nh = ti t in
  let heads = tlist t nh (fun t -> let a = tz t in let h = tz t in (a, h)) in
  let nn = ti t in
  let need = tlist t nn (fun t -> let a = tz t in let rs = p_ranges t in (a, rs)) in
  let np = ti t in
  let partial = tlist t np (fun t -> let a = tz t in let m = ti t in
                             (a, tlist t m (fun t -> let v = tz t in let rs = p_ranges t in (v, rs)))) in
  { ss_actor = me; ss_heads = heads; ss_need = need; ss_partial = partial }
let fmt_need = function
  | Full (s, e) -> "F" ^ sz s ^ "-" ^ sz e
  | Partial (v, seqs) -> "P" ^ sz v ^ "[" ^ fmt_ranges seqs ^ "]"
let fmt_needs out =
  let out = List.sort (fun (a, _) (b, _) -> compare (int_of_z a) (int_of_z b)) out in
  join ";" (fun (a, l) -> sz a ^ ":" ^ String.concat " " (List.sort compare (List.map fmt_need l))) out
let c04_needs t =
  let us = parse_sstate t in let other = parse_sstate t in
  fmt_needs (compute_available_needs us other)
(* chk_needs <vmax> <qmax> <us> <other> <nout> { a <k> { F s e | P v K{s e} } } *)
let c04_chk t =
  let vmax = tz t in let qmax = tz t in
  let us = parse_sstate t in let other = parse_sstate t in
  let n = ti t in
  let out = tlist t n (fun t -> let a = tz t in let k = ti t in
     (a, tlist t k (fun t -> match tok t with
        | "F" -> let s = tz t in let e = tz t in Full (s, e)
        | "P" -> let v = tz t in let rs = p_ranges t in Partial (v, rs)
        | x -> failwith ("bad need " ^ x)))) in
  "ok=" ^ sb (check_needs us other out vmax qmax)

(* ---------- C18 ---------- *)
let parse_mops t =
  let n = ti t in
  tlist t n (fun t -> match tok t with
    | "U" -> let i = tz t in let a = tz t in let ts = tz t in let c = tz t in
      Up { a_id = i; a_addr = a; a_ts = ts; a_cluster = c }
    | "D" -> let i = tz t in let a = tz t in let ts = tz t in let c = tz t in
      Down { a_id = i; a_addr = a; a_ts = ts; a_cluster = c }
    | "R" -> let a = tz t in let ms = tz t in Rtt (a, ms)
    | x -> failwith ("bad mop " ^ x))
let fmt_members (m : members) =
  let st = join "," (fun (id, s) -> sz id ^ "@" ^ sz s.m_addr ^ ":" ^ sz s.m_ts ^ ":" ^ sz s.m_cluster ^ ":" ^
                                    (match s.m_ring with None -> "-" | Some r -> sz r)) m.states in
  let ba = join "," (fun (a, id) -> sz a ^ ">" ^ sz id) m.by_addr in
  let r0 c = String.concat "," (List.map string_of_int (List.sort compare (List.map int_of_z (ring0 m (z_of_small c))))) in
  "st=" ^ st ^ " ba=" ^ ba ^ " r0=" ^ r0 0 ^ "|" ^ r0 1
let c18_members t =
  let ops = parse_mops t in
  let m = ref members_empty in
  join " # " (fun op ->
      let res = (match op with
          | Up a -> let (m', r) = add_member !m a in m := m';
            (match r with NewMember -> "new" | Updated -> "upd" | Ignored -> "ign")
          | Down a -> let (m', r) = remove_member !m a in m := m'; if r then "rm1" else "rm0"
          | Rtt _ -> m := mstep !m op; "rtt") in
      res ^ " " ^ fmt_members !m) ops
(* oracle: chk_members <ops> <nsteps> { K{id addr ts cluster ring(-1=none)} B{addr id} R0{addr} R1{addr} }
   wf: history allowed by the SWIM constraint; ok: every observed view matches the
   newest-identity fold, by_addr points to present members at that address, and
   ring0(c) is exactly the same-cluster ring-0 members *)
let c18_chk t =
  let ops = parse_mops t in
  let n = ti t in
  let views = tlist t n (fun t ->
      let k = ti t in
      let st = tlist t k (fun t -> let i = tz t in let a = tz t in let ts = tz t in let c = tz t in
                           let r = tok t in
                           (i, { m_addr = a; m_ts = ts; m_cluster = c;
                                 m_ring = (if r = "-1" then None else Some (z_of_string r)) })) in
      let nb = ti t in
      let ba = tlist t nb (fun t -> let a = tz t in let i = tz t in (a, i)) in
      let n0 = ti t in let r0 = tlist t n0 tz in
      let n1 = ti t in let r1 = tlist t n1 tz in
      (st, ba, r0, r1)) in
  let sortz l = List.sort (fun a b -> compare (int_of_z a) (int_of_z b)) l in
  (* the samples kept per address (the model's ring buffer), to judge the rings: a member's ring
     is the bucket of the average of the samples of ITS CURRENT address *)
  let shadow = ref members_empty in
  let ring_ok v ba =
    List.for_all (fun (id, st) ->
        let same_addr = List.length (List.filter (fun (_, s2) -> int_of_z s2.m_addr = int_of_z st.m_addr) v) in
        (* judged for members that own their address in the address index (two actors that were
           at one address at some time share one set of samples and one index entry) *)
        let owns = List.exists (fun (a, i) -> int_of_z a = int_of_z st.m_addr && int_of_z i = int_of_z id) ba in
        if same_addr > 1 || not owns then true else
        let buf = (match mget st.m_addr !shadow.rtts with Some b -> b | None -> []) in
        match st.m_ring, buf with
        | None, _ -> true
        | Some _, [] -> false
        | Some r, _ ->
          let avg = fst (Z.div_eucl (sumz buf) (z_of_small (List.length buf))) in
          (match bucket_of avg ring_buckets Z0 with
           | Some r' -> int_of_z r = int_of_z r'
           | None -> true)) v in
  let rec go s ops views allowed ok =
    match ops, views with
    | op :: ops', (v, ba, r0, r1) :: views' ->
      let allowed = allowed && op_allowed s op in
      let s' = spec_step s op in
      shadow := mstep !shadow op;
      let ok = ok && ring_ok v ba in
      let m = { states = v; by_addr = ba; rtts = [] } in
      let actors = List.map fst s' @ List.map fst v in
      let ok = ok && List.for_all (fun a -> view_matches m s' a) actors
               && ba_inv_b m
               && zlist_eqb (sortz (ring0 m Z0)) (sortz r0)
               && zlist_eqb (sortz (ring0 m (z_of_small 1))) (sortz r1) in
      go s' ops' views' allowed ok
    | [], [] -> (allowed, ok)
    | _ -> (allowed, false)
  in
  let (allowed, ok) = go [] ops views true true in
  "wf=" ^ sb allowed ^ " ok=" ^ sb ok

(* ---------- C09 ---------- *)
let hexval c = match c with
  | '0'..'9' -> Char.code c - 48 | 'a'..'f' -> Char.code c - 87 | 'A'..'F' -> Char.code c - 55
  | _ -> failwith "bad hex"
let bytes_of_hex s =
  if s = "-" then [] else
    List.init (String.length s / 2) (fun i -> z_of_small (16 * hexval s.[2*i] + hexval s.[2*i+1]))
let hex_of_bytes bs =
  if bs = [] then "-" else String.concat "" (List.map (fun b -> Printf.sprintf "%02x" (int_of_z b)) bs)
let rec parse_val t =
  let k = tok t in
  let body = String.sub k 1 (String.length k - 1) in
  match k.[0] with
  | 'N' -> VN (z_of_string body)
  | 'B' -> VB (bytes_of_hex body)
  | 'O' -> if body = "0" then VO None else VO (Some (parse_val t))
  | 'L' -> let n = int_of_string body in VL (tlist t n parse_val)
  | 'P' -> let a = parse_val t in let b = parse_val t in VP (a, b)
  | 'T' -> let tag = int_of_string body in VT (nat_of_int tag, parse_val t)
  | 'U' -> VU
  | _ -> failwith ("bad val token " ^ k)
(* wire <descid> <impl-roundtrip-ok> <hex> <tree>:
   wt: tree is well typed; enc: model encoding = implementation bytes;
   dec: model decoding of the implementation bytes = tree *)
let c09_wire t =
  let id = ti t in let implrt = ti t in
  let hx = tok t in
  let v = parse_val t in
  let d = desc_by_id (nat_of_int id) in
  let bs = bytes_of_hex hx in
  let e = enc d v in
  let dres = (match dec d bs with ROk (v', []) -> v' = v | _ -> false) in
  "implrt=" ^ string_of_int implrt ^ " wt=" ^ sb (wt d v) ^ " enc=" ^ sb (e = bs) ^ " dec=" ^ sb dres
let c09_decode t =
  let id = ti t in let bs = bytes_of_hex (tok t) in
  match read_from_buffer (desc_by_id (nat_of_int id)) bs with Some _ -> "ok" | None -> "err"
let parse_svals t =
  let n = ti t in
  tlist t n (fun t -> match tok t with
    | "N" -> SNull | "I" -> SInt (tz t) | "R" -> SReal (tz t)
    | "T" -> SText (bytes_of_hex (tok t)) | "B" -> SBlob (bytes_of_hex (tok t))
    | x -> failwith ("bad sval " ^ x))
let fmt_sval = function
  | SNull -> "N" | SInt i -> "I" ^ sz i | SReal b -> "R" ^ sz b
  | SText b -> "T" ^ hex_of_bytes b | SBlob b -> "B" ^ hex_of_bytes b
let c09_pack t =
  let vs = parse_svals t in
  match pack vs with
  | None -> "abort"
  | Some bs ->
    let un = (match unpack bs with UOk vs' -> vs' = vs | _ -> false) in
    hex_of_bytes bs ^ " unpack=" ^ sb un ^ " ok=" ^ sb (List.for_all sval_ok vs)
let c09_unpack t =
  match unpack (bytes_of_hex (tok t)) with
  | UOk vs -> String.trim ("ok " ^ String.concat " " (List.map fmt_sval vs))
  | UAbort -> "abort" | UMisuse -> "misuse"
let c09_utf8 t = sb (utf8_valid (bytes_of_hex (tok t)))

(* ---------- C10 ---------- *)
(* ingest <maxq> <nops> { H | R | X n | O F a v s e last | O E a lo hi }  (a = 0: own actor) *)
let c10_ingest t =
  let maxq = tz t in
  let nops = ti t in
  let ops = tlist t nops (fun t -> match tok t with
    | "H" -> SHold | "R" -> SRelease | "X" -> SFail (nat_of_int (ti t))
    | "O" -> (match tok t with
        | "F" -> let a = tz t in let v = tz t in let s = tz t in let e = tz t in let last = tz t in
          SOffer { g_actor = a; g_lo = v; g_hi = v; g_seqs = Some (s, e); g_last = last }
        | "E" -> let a = tz t in let lo = tz t in let hi = tz t in
          SOffer { g_actor = a; g_lo = lo; g_hi = hi; g_seqs = None; g_last = Z0 }
        | x -> failwith ("bad offer " ^ x))
    | x -> failwith ("bad op " ^ x)) in
  let st = ref sst_init in
  let offered = ref [] in
  let invok = ref true in
  let outs = List.map (fun op ->
      (match op with SOffer c -> if not (List.mem c !offered) then offered := !offered @ [c] | _ -> ());
      st := sstep Z0 maxq !st op;
      invok := !invok && seen_inv_b !st.core;
      if !st.held then "b-"
      else "b" ^ String.concat "" (List.map (fun c -> sb (known !st.core.bk c)) !offered)) ops in
  String.concat " " outs ^ (if !invok then "" else " INV-BROKEN")

(* ---------- C16 ---------- *)
let c16_uni t =
  let mine = tz t in let n = ti t in
  let frames = tlist t n (fun t -> let c = tok t in let v = tz t in
                           ((if c = "-1" then None else Some (z_of_string c)), v)) in
  "delivered=" ^ join "," sz (uni_deliver mine frames)
let c16_serve t =
  let mine = tz t in let theirs = tz t in
  match serve_first mine theirs with
  | FirstState -> "first=state data=1"
  | FirstRejectDifferentCluster -> "first=reject-different-cluster data=0"
let c16_members t =
  let n = ti t in
  List.mapi (fun i (c, r) -> { mb_id = z_of_small i; mb_cluster = c; mb_ring0 = r })
    (tlist t n (fun t -> let c = tz t in let r = (ti t) land 1 = 1 in (c, r)))   (* flag >= 2: the member was renewed into this cluster (the model sees the final table) *)
let c16_partners t =
  let mine = tz t in let ms = c16_members t in
  "contacted=" ^ join "," sz (sync_candidates mine (z_of_small (-1)) ms)
let c16_bcast t =
  let mine = tz t in let ms = c16_members t in
  "contacted=" ^ join "," sz (bcast_allowed mine (z_of_small (-1)) ms) ^
  " priority=" ^ join "," sz (bcast_priority mine ms)

(* ---------- C03 ---------- *)
(* part <nops> { D v s e last k {seq}*k | A v | C }  ; payload id of (v, seq) is seq *)
let c03_part t =
  let nops = ti t in
  let states : (int * pst) list ref = ref [] in
  let order = ref [] in
  let get v = match List.assoc_opt v !states with Some s -> s | None -> pst_init in
  let set v s = states := (v, s) :: List.remove_assoc v !states in
  let outs = ref [] in
  for _ = 1 to nops do
    (match tok t with
     | "D" -> let v = ti t in let s = tz t in let e = tz t in let last = tz t in
       let k = ti t in let seqs = tlist t k tz in
       if not (List.mem v !order) then order := !order @ [v];
       let (st', _) = pstep (get v) (Deliver (s, e, last, List.map (fun q -> (q, q)) seqs)) in set v st'
     | "Z" -> let v = ti t in
       if not (List.mem v !order) then order := !order @ [v];
       let (st', _) = pstep (get v) DeliverEmpty in set v st'
     | "A" -> let v = ti t in let (st', _) = pstep (get v) ApplyBuffered in set v st'
     | "C" -> List.iter (fun v -> let (st', _) = pstep (get v) Clear in set v st') !order
     | x -> failwith ("bad op " ^ x));
    let line = String.concat " " (List.map (fun v ->
        let st = get v in
        let ids = List.sort_uniq compare (List.map (fun (_, id) -> int_of_z id) st.ps_db) in
        "v" ^ string_of_int v ^
        " db=" ^ String.concat "," (List.map string_of_int ids) ^
        " buf=" ^ join "," (fun (q, _) -> sz q) st.ps_buf ^
        " rows=" ^ join "," (fun ((a, b), l) -> sz a ^ "-" ^ sz b ^ ":" ^ sz l) st.ps_rows ^
        " mem=" ^ (match st.ps_mem with None -> "-" | Some p -> sz p.p_last ^ ":" ^ fmt_ranges p.p_seqs) ^
        " known=" ^ sb st.ps_known ^ " trig=" ^ sz st.ps_trig) !order) in
    outs := line :: !outs
  done;
  String.concat " # " (List.rev !outs)

(* chk_part <last> <nsteps> { <covered 0/1> <k> {id}*k } *)
let c03_chk t =
  let last = tz t in let n = ti t in
  let steps = tlist t n (fun t -> let c = ti t = 1 in let k = ti t in (c, tlist t k tz)) in
  "ok=" ^ sb (atomic_vis last steps)

(* chk_seqrows <last> <n> {a b} : the recorded ranges (in start order) are pairwise disjoint, non-adjacent, inside 0..=last *)
let c03_chk_rows t =
  let last = tz t in let n = ti t in
  let rs = tlist t n (fun t -> let a = tz t in let b = tz t in (a, b)) in
  let inside = List.for_all (fun (a, b) -> Z.leb Z0 a && Z.leb b last) rs in
  "ok=" ^ sb (canonicalb rs && inside)

(* ---------- C05 ---------- *)
(* srvq <state> <need>          -> the model's answers
   chk_srv <state> <need> <n> {msg}  -> oracle on the implementation's answers
   state: L{v K{seq id}} G{a b} B{v K{seq id}} S{v K{a b last}} N{a b} <max|-1> <rowsize>
   need:  NF s e | NP v K{s e}
   msg:   F v s e last K{seq id} | E lo hi *)
let p_rows t = let k = ti t in tlist t k (fun t -> let q = tz t in let i = tz t in (q, i))
let p_srv t =
  let nl = ti t in let live = tlist t nl (fun t -> let v = tz t in (v, p_rows t)) in
  let gaps = p_ranges t in
  let nb = ti t in let buf = tlist t nb (fun t -> let v = tz t in (v, p_rows t)) in
  let ns = ti t in let sq = tlist t ns (fun t -> let v = tz t in let k = ti t in
                                          (v, tlist t k (fun t -> let a = tz t in let b = tz t in let l = tz t in ((a, b), l)))) in
  let needed = p_ranges t in
  let mx = p_omax t in
  let size = tz t in
  { sv_live = live; sv_gaps = gaps; sv_buf = buf; sv_seq = sq; sv_needed = needed; sv_max = mx; sv_rowsize = size }
let p_sneed t = match tok t with
  | "NF" -> let s = tz t in let e = tz t in NFull (s, e)
  | "NP" -> let v = tz t in NPartial (v, p_ranges t)
  | x -> failwith ("bad need " ^ x)
let fmt_msg = function
  | MFull (v, rows, s, e, last) ->
    "F" ^ sz v ^ ":" ^ sz s ^ "-" ^ sz e ^ ":" ^ sz last ^ "[" ^ join "," (fun (q, i) -> sz q ^ "/" ^ sz i) rows ^ "]"
  | MEmpty (lo, hi) -> "E" ^ sz lo ^ "-" ^ sz hi
let c05_srvq t =
  let sv = p_srv t in let n = p_sneed t in
  join " " fmt_msg (serve sv n)
let c05_chk t =
  let sv = p_srv t in let n = p_sneed t in
  let k = ti t in
  let out = tlist t k (fun t -> match tok t with
      | "F" -> let v = tz t in let s = tz t in let e = tz t in let last = tz t in let rows = p_rows t in MFull (v, rows, s, e, last)
      | "E" -> let lo = tz t in let hi = tz t in MEmpty (lo, hi)
      | x -> failwith ("bad msg " ^ x)) in
  "ok=" ^ sb (check_serve sv n out)

(* ---------- C07 ---------- *)
(* ltxm <nreq> { <ok 0/1> <n> {seq size}*n } *)
let c07_ltxm t =
  let n = ti t in
  let reqs = tlist t n (fun t -> let ok = ti t = 1 in let k = ti t in
                         { r_ok = ok; r_recs = tlist t k (fun t -> let q = tz t in let s = tz t in (q, s)) }) in
  join " # " (fun (st, o) ->
      "v=" ^ (match o.o_version with None -> "-" | Some v -> sz v) ^
      " same=" ^ sb o.o_same ^
      " chunks=" ^ join "," (fun ((a, b), k) -> sz a ^ "-" ^ sz b ^ "[" ^ sz k ^ "]") o.o_chunks ^
      " need=" ^ sb (st.l_bv.needed = [])) (lruns lst_init reqs)

(* ---------- C06 ---------- *)
(* fromconn <dbmax|-1> S{v a b last} G{a b} -> what from_conn rebuilds *)
let c06_fromconn t =
  let dbmax = p_omax t in
  let ns = ti t in
  let rows = tlist t ns (fun t -> let v = tz t in let a = tz t in let b = tz t in let l = tz t in
                          { sr_version = v; sr_start = a; sr_end = b; sr_last = l }) in
  let gaps = p_ranges t in
  fmt_bv (from_conn dbmax rows gaps)
(* chk_reload <bv> G{a b}: the rebuilt state satisfies the bookkeeping invariant with the durable gap rows *)
let c06_chk t =
  let b = p_bv t in let g = p_ranges t in
  "ok=" ^ sb (inv_b b g)

(* ---------- C01 layer 1 ---------- *)
(* crdtm <nsites> <nops> { W <site> <n> {rec}*n | G <dst> {rec} | S <dst> }   rec = row S|T val colv cl site dbv seq
   (val = -1 for the sentinel) ; prints the dump of the touched site after every op *)
let p_rec t =
  let row = tz t in let cid = tok t in let v = tz t in let colv = tz t in let cl = tz t in
  let site = tz t in let dbv = tz t in let seq = tz t in
  { r_row = row; r_sent = (cid = "S"); r_val = v; r_colv = colv; r_cl = cl; r_site = site; r_dbv = dbv; r_seq = seq }
let fmt3 v = let s = int_of_z v in Printf.sprintf "%03d" s
let dump_db (rank_to_name : int -> int) (d : db) =
  let clk = List.concat_map (fun (id, st) ->
      (match st.rw_sent with
       | Some k -> [sz id ^ "/S:-:" ^ sz st.rw_cl ^ ":" ^ sz st.rw_cl ^ ":" ^ string_of_int (rank_to_name (int_of_z k.k_site)) ^ ":" ^ sz k.k_dbv ^ ":" ^ sz k.k_seq]
       | None -> []) @
      (match st.rw_col with
       | Some c -> [sz id ^ "/T:" ^ fmt3 c.c_val ^ ":" ^ sz c.c_colv ^ ":" ^ sz st.rw_cl ^ ":" ^
                    string_of_int (rank_to_name (int_of_z c.c_clk.k_site)) ^ ":" ^ sz c.c_clk.k_dbv ^ ":" ^ sz c.c_clk.k_seq]
       | None -> [])) d in
  let tbl = List.map (fun (id, v) -> sz id ^ "=" ^ (match v with Some x -> fmt3 x | None -> "")) (table d) in
  "clk=" ^ String.concat "," (List.sort compare clk) ^ " tbl=" ^ String.concat "," tbl
let c01_crdtm t =
  let ns = ti t in
  (* site names in rank order: rank i -> name *)
  let names = Array.of_list (tlist t ns ti) in
  let rank_to_name r = names.(r) in
  let nops = ti t in
  let sites = Array.make ns [] in
  let outs = ref [] in
  for _ = 1 to nops do
    (match tok t with
     | "W" -> let s = ti t in let n = ti t in let rs = tlist t n p_rec in
       sites.(s) <- merge_all sites.(s) rs;
       outs := dump_db rank_to_name sites.(s) :: !outs
     | "G" -> let dst = ti t in let r = p_rec t in
       sites.(dst) <- merge sites.(dst) r;
       outs := dump_db rank_to_name sites.(dst) :: !outs
     | "S" -> let dst = ti t in outs := dump_db rank_to_name sites.(dst) :: !outs
     | x -> failwith ("bad op " ^ x))
  done;
  String.concat " # " (List.rev !outs)


(* chk_spec <nsites> { <nrecs> {rec}* <nrows> { <row> <cl> <hascol 0|1> <val> <colv> }* }
   the order-free specification (Model/CrdtSpec.v) evaluated on what the REAL extension shows:
   per site, the records it produced or merged, and the rows of its final dump.  Every row whose
   record collection is well-formed must show exactly row_spec of that collection. *)
let c01_chk_spec t =
  let ns = ti t in
  let checked = ref 0 and bad = ref [] in
  for s = 0 to ns - 1 do
    let nrec = ti t in
    let recs = tlist t nrec p_rec in
    let nrows = ti t in
    let obs = tlist t nrows (fun t -> let row = tz t in let cl = tz t in let hc = ti t in let v = tz t in let cv = tz t in
                              (row, (cl, if hc = 1 then Some (v, cv) else None))) in
    let rows = List.sort_uniq compare (List.map (fun r -> int_of_z r.r_row) recs @ List.map (fun (r, _) -> int_of_z r) obs) in
    List.iter (fun k ->
        let kz = z_of_small k in
        let p = on_row kz recs in
        if wf_row p then begin
          incr checked;
          let seen = List.assoc_opt k (List.map (fun (r, o) -> (int_of_z r, o)) obs) in
          let same = (match row_spec p, seen with
              | None, None -> true
              | Some (c1, None), Some (c2, None) -> int_of_z c1 = int_of_z c2
              | Some (c1, Some (v1, w1)), Some (c2, Some (v2, w2)) ->
                int_of_z c1 = int_of_z c2 && int_of_z v1 = int_of_z v2 && int_of_z w1 = int_of_z w2
              | _ -> false) in
          if not same then bad := Printf.sprintf "site%d/row%d" s k :: !bad
        end) rows
  done;
  if !checked = 0 then "wf=0"
  else if !bad = [] then "ok=1 rows=" ^ string_of_int !checked
  else "ok=0 " ^ String.concat "," (List.rev !bad)

(* chk_cluster <nrecs> {rec}* <nnodes> { <nrows> {<row> <val|-1>}* }
   the conclusion of the cluster theorem (C01_cluster_quiescent_node_shows_the_merge) judged on
   REAL agents at quiescence: U = every record of every acknowledged transaction; if U is
   well-formed, without unordered pairs (no_tie) and with unique clock positions, every node's
   table must be table (merge_all [] U) *)
let c01_chk_cluster t =
  let nrec = ti t in
  let recs = tlist t nrec p_rec in
  let nn = ti t in
  let tbls = tlist t nn (fun t -> let k = ti t in tlist t k (fun t -> let row = tz t in let v = tz t in (int_of_z row, int_of_z v))) in
  let rows = List.sort_uniq compare (List.map (fun r -> int_of_z r.r_row) recs) in
  let wf_all = List.for_all (fun k -> wf_row (on_row (z_of_small k) recs)) rows in
  if not wf_all then "wf=0 why=wf"
  else if not (no_tie recs) then "wf=0 why=tie"
  else if not (clk_unique recs) then "wf=0 why=clk"
  else begin
    let want = List.map (fun (row, v) -> (int_of_z row, match v with Some x -> int_of_z x | None -> -1)) (table (merge_all [] recs)) in
    let bad = List.concat (List.mapi (fun i tb -> if tb = want then [] else ["node" ^ string_of_int i]) tbls) in
    if bad = [] then "ok=1 rows=" ^ string_of_int (List.length want)
    else "ok=0 " ^ String.concat "," bad ^ " want=" ^ String.concat "," (List.map (fun (r, v) -> string_of_int r ^ "=" ^ string_of_int v) want)
  end

(* ---------- C11: subscriptions ---------- *)
let rec p_expr t = match tok t with
  | "c" -> let p = ti t in let c = ti t in ECol (nat_of_int p, nat_of_int c)
  | "k" -> EConst (tz t)
  | "n" -> ENull
  | "+" -> let a = p_expr t in let b = p_expr t in EAdd (a, b)
  | "=" -> let a = p_expr t in let b = p_expr t in EEq (a, b)
  | "<" -> let a = p_expr t in let b = p_expr t in ELt (a, b)
  | "&" -> let a = p_expr t in let b = p_expr t in EAnd (a, b)
  | "|" -> let a = p_expr t in let b = p_expr t in EOr (a, b)
  | "!" -> ENot (p_expr t)
  | "z" -> EIsNull (p_expr t)
  | x -> failwith ("bad expr " ^ x)
let p_query t =
  if tok t <> "q" then failwith "query expected";
  let kind = ti t in
  let t0 = ti t in
  let (k, t1, on) =
    if kind = 0 then (JSingle, 0, EConst (z_of_small 1))
    else let t1 = ti t in let on = p_expr t in ((if kind = 1 then JInner else JLeft), t1, on) in
  let wh = p_expr t in
  let np = ti t in
  let proj = tlist t np p_expr in
  { q_kind = k; q_t0 = nat_of_int t0; q_t1 = nat_of_int t1; q_on = on; q_where = wh; q_proj = proj }
let split_on c s = if s = "" then [] else String.split_on_char c s
let p_cell s = if s = "n" then None else Some (z_of_string s)
(* "k.k:v,v;k:v,v|...|..." *)
let p_dbdump s =
  List.map (fun tb ->
      List.map (fun r ->
          match String.split_on_char ':' r with
          | [ks; vs] -> (List.map z_of_string (split_on '.' ks), List.map p_cell (split_on ',' vs))
          | _ -> failwith "bad row") (split_on ';' tb))
    (String.split_on_char '|' s)
let fmt_cell = function None -> "n" | Some z -> sz z
let fmt_cells cs = join "," fmt_cell cs
let fmt_mkey mk = join "/" (function None -> "-" | Some k -> join "." sz k) mk
let p_mkey s = List.map (fun c -> if c = "-" then None else Some (List.map z_of_string (split_on '.' c))) (String.split_on_char '/' s)
let fmt_evk = function EvIns -> "I" | EvUpd -> "U" | EvDel -> "D"
(* ivm <nq> {query} <nsteps> {dbdump} : first dump = state at the initial query *)
let c11_ivm t =
  let nq = ti t in
  let qs = tlist t nq p_query in
  let ns = ti t in
  let dumps = tlist t ns (fun t -> p_dbdump (tok t)) in
  match dumps with
  | [] -> ""
  | d0 :: rest ->
    let ms = ref (List.map (fun q -> (q, m_init q d0)) qs) in
    let fmt_mv m = String.concat ";" (List.sort compare (List.map (fun (_, (mk, c)) -> fmt_mkey mk ^ ":" ^ fmt_cells c) m.m_rows)) in
    let outs = ref [String.concat " ; " (List.map (fun (_, m) -> "cid=" ^ sz m.m_cid ^ " mv=" ^ fmt_mv m ^ " ev=") !ms)] in
    let prev = ref d0 in
    List.iter (fun d ->
        let step = List.map (fun (q, m) ->
            let (m', evs) = handle_candidates q d m (cands_of q !prev d) in
            let es = List.sort compare (List.map (fun (((k, _), mk), c) -> fmt_evk k ^ ":" ^ fmt_mkey mk ^ ":" ^ fmt_cells c) evs) in
            ((q, m'), "cid=" ^ sz m'.m_cid ^ " mv=" ^ fmt_mv m' ^ " ev=" ^ String.concat ";" es)) !ms in
        ms := List.map fst step;
        outs := String.concat " ; " (List.map snd step) :: !outs;
        prev := d) rest;
    String.concat " # " (List.rev !outs)
(* chk_sub {query} <dbprev> <dbcur> <nev> {kind mkey cells} : events = exact difference of the query results *)
let c11_chk t =
  let q = p_query t in
  let dp = p_dbdump (tok t) in
  let dc = p_dbdump (tok t) in
  let n = ti t in
  let evs = tlist t n (fun t ->
      let k = (match tok t with "I" -> EvIns | "U" -> EvUpd | "D" -> EvDel | x -> failwith ("bad kind " ^ x)) in
      let mk = p_mkey (tok t) in
      let c = List.map p_cell (split_on ',' (tok t)) in
      ((k, mk), c)) in
  "ok=" ^ sb (diff_ok (eval q dp) (eval q dc) evs)


(* ---------- C14: update notifications ---------- *)
let p_ukey s = List.map z_of_string (split_on '.' s)
let fmt_ukey k = join "." sz k
(* updm <nops> { R <n> {key cl} | F } : notifications per F, in order *)
let c14_updm t =
  let nops = ti t in
  let st = ref u_init in
  let outs = ref [] in
  for _ = 1 to nops do
    (match tok t with
     | "R" -> let n = ti t in
       let cs = tlist t n (fun t -> let k = p_ukey (tok t) in let cl = tz t in (k, cl)) in
       st := recv !st cs
     | "F" -> let (st', ns) = flush !st in
       st := st';
       outs := join "," (fun (k, key) -> (match k with NUpd -> "U" | NDel -> "D") ^ ":" ^ fmt_ukey key) ns :: !outs
     | x -> failwith ("bad op " ^ x))
  done;
  String.concat " # " (List.rev !outs)
(* chk_upd <npresent> {key} <nchanged> {key} <nnotes> {U|D key} *)
let c14_chk t =
  let np = ti t in let present = tlist t np (fun t -> p_ukey (tok t)) in
  let nc = ti t in let changed = tlist t nc (fun t -> p_ukey (tok t)) in
  let nn = ti t in
  let notes = tlist t nn (fun t -> let k = (match tok t with "U" -> NUpd | "D" -> NDel | x -> failwith ("bad kind " ^ x)) in
                           let key = p_ukey (tok t) in (k, key)) in
  "ok=" ^ sb (fate_ok present changed notes)


(* ---------- C15: schema submissions ---------- *)
let name_code s = let n = ref 0 in String.iter (fun c -> n := !n * 256 + Char.code c) s; z_of_string (string_of_int !n)
let name_str z = let n = ref (int_of_string (string_of_z z)) in let b = Buffer.create 4 in
  let rec go () = if !n > 0 then begin let c = !n mod 256 in n := !n / 256; go (); Buffer.add_char b (Char.chr c) end in go (); Buffer.contents b
let dflt_code = function "-" -> 0 | "0" -> 1 | "1" -> 2 | "s" -> 3 | "n" -> 4 | x -> failwith ("bad default " ^ x)
let dflt_str z = match int_of_z z with 0 -> "-" | 1 -> "0" | 2 -> "1" | 3 -> "s" | _ -> "n"
let type_code = function "I" -> 1 | "T" -> 2 | "R" -> 3 | "B" -> 4 | _ -> 5
let type_str z = match int_of_z z with 1 -> "I" | 2 -> "T" | 3 -> "R" | 4 -> "B" | _ -> "R"
let p_tab t = match tok t with
  | "B" -> None
  | "T" ->
    let name = name_code (tok t) in
    let nc = ti t in
    let raw = tlist t nc (fun t -> let n = tok t in let ty = tok t in let nn = ti t = 1 in let d = tok t in let fk = ti t = 1 in (n, ty, nn, d, fk)) in
    let npk = ti t in
    let pk = tlist t npk tok in
    let pkstyle = ti t in
    let ni = ti t in
    let idxs = tlist t ni (fun t -> let n = name_code (tok t) in let u = ti t = 1 in let k = ti t in
                            { i_name = n; i_unique = u; i_cols = tlist t k (fun t -> name_code (tok t)) }) in
    let cols = List.map (fun (n, ty, nn, d, fk) ->
        let ispk = List.mem n pk in
        { c_name = name_code n; c_type = z_of_small (type_code ty); c_notnull = nn; c_dflt = z_of_small (dflt_code d); c_fk = fk;
          c_inlinepk = (pkstyle = 1 && npk = 1 && ispk); c_pk = ispk }) raw in
    Some { t_name = name; t_cols = cols; t_pk = List.map name_code pk; t_idxs = idxs }
  | x -> failwith ("bad table token " ^ x)
let fmt_tab (tb : tab) =
  let cols = List.sort compare (List.map (fun c ->
      name_str c.c_name ^ ":" ^ type_str c.c_type ^ ":" ^ sb c.c_notnull ^ ":" ^ dflt_str c.c_dflt ^ ":" ^ sb c.c_pk) tb.t_cols) in
  let idx = List.sort compare (List.map (fun i -> name_str i.i_name ^ ":" ^ sb i.i_unique ^ ":" ^ join "." name_str i.i_cols) tb.t_idxs) in
  name_str tb.t_name ^ "[" ^ String.concat "," cols ^ "](pk=" ^ join "." name_str tb.t_pk ^ ")(idx=" ^ String.concat ";" idx ^ ")"
let fmt_val = function None -> "n" | Some z -> let n = int_of_z z in if n = -1000 then "t" else string_of_int n
let c15_rows st =
  String.concat "|" (List.sort compare (List.map (fun d ->
      let names = List.sort compare (List.map (fun c -> name_str c.c_name) d.d_tab.t_cols) in
      let pkn = List.map name_str d.d_tab.t_pk in
      let get r n = (try List.assoc (name_code n) r with Not_found -> None) in
      let key r = List.map (fun n -> match get r n with Some z -> int_of_z z | None -> min_int) pkn in
      let rs = List.sort (fun a b -> compare (key a) (key b)) d.d_rows in
      name_str d.d_tab.t_name ^ "=" ^ String.concat ";" (List.map (fun r -> String.concat "," (List.map (fun n -> fmt_val (get r n)) names)) rs)) st.s_db))
let c15_schema t =
  let ns = ti t in
  let st = ref { s_mem = []; s_db = [] } in
  let outs = ref [] in
  for _ = 1 to ns do
    (match tok t with
     | "S" -> let n = ti t in let sub = tlist t n p_tab in
       let (ok, st') = exec !st sub in
       st := st';
       let mem = String.concat "|" (List.sort compare (List.map fmt_tab st'.s_mem)) in
       let db = String.concat "|" (List.sort compare (List.map (fun d -> fmt_tab d.d_tab) st'.s_db)) in
       let rows = c15_rows st' in
       outs := ("ok=" ^ sb ok ^ " mem=" ^ mem ^ " db=" ^ db ^ " rows=" ^ rows) :: !outs
     | "W" -> let tb = name_code (tok t) in let k = ti t in
       let kv = tlist t k (fun t -> let c = name_code (tok t) in let v = tz t in (c, v)) in
       (match find_dtab tb !st.s_db with
        | None -> outs := ("w=0 rows=" ^ c15_rows !st) :: !outs
        | Some d ->
          if List.for_all (fun (c, _) -> List.exists (fun cc -> cc.c_name = c) d.d_tab.t_cols) kv then begin
            let r = List.map (fun c -> (c.c_name, (try Some (List.assoc c.c_name kv) with Not_found -> default_val c))) d.d_tab.t_cols in
            if List.exists (fun c -> c.c_notnull && (List.assoc c.c_name r) = None) d.d_tab.t_cols
            then outs := ("w=0 rows=" ^ c15_rows !st) :: !outs
            else begin st := insert_row !st tb r; outs := ("w=1 rows=" ^ c15_rows !st) :: !outs end end
          else outs := ("w=0 rows=" ^ c15_rows !st) :: !outs)
     | x -> failwith ("bad op " ^ x))
  done;
  String.concat " # " (List.rev !outs)


(* ---------- C17: API authorization ---------- *)
let c17_token = "s3cr3t-Tok3n"
let zs_of_string s = List.init (String.length s) (fun i -> z_of_small (Char.code s.[i]))
let string_of_zs l = String.concat "" (List.map (fun z -> String.make 1 (Char.chr (int_of_z z))) l)
let c17_route = function
  | 0 -> (MPost, "/v1/transactions") | 1 -> (MPost, "/v1/queries") | 2 -> (MPost, "/v1/subscriptions")
  | 3 -> (MPost, "/v1/updates/tests") | 4 -> (MGet, "/v1/subscriptions/00000000-0000-0000-0000-000000000000")
  | 5 -> (MPost, "/v1/migrations") | 6 -> (MPost, "/v1/table_stats") | 7 -> (MGet, "/v1/nonexistent")
  | 8 -> (MGet, "/v1/transactions") | 9 -> (MPost, "/") | 10 -> (MDelete, "/v1/migrations")
  | _ -> failwith "bad route"
(* the Authorization header as the typed extractor of the `headers` crate delivers it
   (scheme compared case-insensitively, optional whitespace around the token trimmed, first header wins) *)
let c17_hdr shape =
  let t = c17_token in
  match shape with
  | 0 | 12 -> HNone
  | 1 | 5 | 6 | 10 -> HBearer (zs_of_string t)
  | 2 -> HBearer (zs_of_string (t ^ "x"))
  | 3 -> HBearer (zs_of_string (String.sub t 0 (String.length t - 1)))
  | 4 | 7 | 8 -> HMalformed
  | 9 | 11 -> HBearer (zs_of_string "wrongtoken")
  | 13 -> HBearer (zs_of_string (String.uppercase_ascii t))
  | _ -> failwith "bad header shape"
(* axum path patterns: a `{name}` segment matches any one segment *)
let pattern_matches pat path =
  let a = String.split_on_char '/' pat and b = String.split_on_char '/' path in
  List.length a = List.length b &&
  List.for_all2 (fun x y -> (String.length x > 1 && x.[0] = '{' && y <> "") || x = y) a b
let c17_authzm t =
  let cfg = if ti t = 1 then Some (zs_of_string c17_token) else None in
  let n = ti t in
  let reqs = tlist t n (fun t -> let r = ti t in let h = ti t in (r, h)) in
  let patterns = List.filter_map (function RRoute (p, _) -> Some (string_of_zs p) | _ -> None) api_router in
  join " " (fun (r, h) ->
      let (m, path) = c17_route r in
      let pat = (match List.find_opt (fun p -> pattern_matches p path) patterns with Some p -> p | None -> path) in
      match api_serve authz_malformed_is_absent api_router cfg (zs_of_string pat) m (c17_hdr h) with
      | O401 -> "401" | O400 -> "400" | OHandler _ -> "handler" | OFallback -> "fallback") reqs


(* ---------- C12: catch-up ---------- *)
(* catchup <from|-1> <first> <peek|-> <watch> <nreads> {r} <nq> {id} <nlive> {id}  -> ids | stopped *)
let c12_catchup t =
  let from = tz t in let first = tz t in
  let from = if int_of_z from < 0 then first else from in
  let peek = (match tok t with "-" -> None | x -> Some (z_of_string x)) in
  let watch = tz t in
  let nr = ti t in let reads = tlist t nr tz in
  let nq = ti t in let q = tlist t nq tz in
  let nl = ti t in let live = tlist t nl tz in
  let (d, stopped) = catch_up catchup_attempts forward_filters
      { ci_from = from; ci_first = first; ci_peek = peek; ci_watch = watch; ci_reads = reads; ci_qrest = q; ci_live = live } in
  "ids=" ^ join "," sz d ^ " stopped=" ^ sb stopped
(* chk_stream <start> <n> {id} *)
let c12_chk t =
  let start = tz t in let n = ti t in let ids = tlist t n tz in
  "ok=" ^ sb (consecutive_from start ids)


(* ---------- C13: subscription life cycle ---------- *)
(* sublife <n> {op}  ops: CR IN W B CA0 CA1 UN TR DD RR ; prints the state after every "|" marker *)
let c13_sublife t =
  let n = ti t in
  let st = ref s_init in
  let outs = ref [] in
  let fmt s =
    "meta=" ^ (match s.s_meta with MAbsent -> "absent" | MCreated -> "created" | MRunning -> "running" | MCancelled -> "cancelled" | MCompleted -> "completed") ^
    " restored=" ^ sb (restored_at_start s) ^ " sound=" ^ sb (restore_is_sound s) in
  for _ = 1 to n do
    (match tok t with
     | "|" -> outs := fmt !st :: !outs
     | "ST" -> st := start_node cancel_returns !st
     | x ->
       let o = (match x with
           | "CR" -> LCreate | "IN" -> LInitial | "W" -> LWrite | "B" -> LBatch
           | "CA0" -> LCancel false | "CA1" -> LCancel true | "UN" -> LUnregister
           | "TR" -> LTrip | "DD" -> LDrainDone | "RR" -> LRestoreRun
           | y -> failwith ("bad op " ^ y)) in
       st := lrun cancel_returns [o] !st)
  done;
  String.concat " # " (List.rev !outs)


(* ---------- C19: backup / restore ---------- *)
(* backupm <nsites> {ord site} <nclock> {ord} <seq> <keep|-1>  -> bak sites/clock ; dst sites/clock *)
let c19_backupm t =
  let ns = ti t in let sites = tlist t ns (fun t -> let o = tz t in let s = tz t in (o, s)) in
  let nc = ti t in let clock = tlist t nc (fun t -> tz t) in
  let seq = tz t in
  let keep = (let k = tz t in if int_of_z k < 0 then None else Some k) in
  let d = { b_sites = sites; b_clock = List.mapi (fun i o -> (z_of_small i, o)) clock; b_members = [z_of_small 1]; b_subs = [] } in
  let fmt (x : bdb) = "sites=" ^ join "," (fun (o, s) -> sz o ^ ":" ^ sz s) (List.sort compare x.b_sites) ^
                      " clock=" ^ join "," (fun (_, o) -> sz o) x.b_clock ^ " members=" ^ string_of_int (List.length x.b_members) in
  match backup seq d with
  | None -> "backup-fails"
  | Some bak ->
    let dst = restore keep bak in
    let same = List.for_all2 (fun r r' -> author d r = author dst r') d.b_clock dst.b_clock in
    "bak " ^ fmt bak ^ " # dst " ^ fmt dst ^ " authors_same=" ^ sb same


(* ---------- C20: write pool ---------- *)
(* pool <nops> { H | R | Q p id | L p id | C id | W ms } : the dispatcher runs whenever it can; a Q
   task that was granted the connection releases it before the next operation; an L task keeps
   it until it is cancelled *)
let c20_poolm t =
  let nops = ti t in
  let st = ref pool_init in
  let held0 = ref false in
  let longs = ref [] in
  let rec settle () =
    match !st.holder with
    | Some h -> if (int_of_z h = 0 && !held0) || List.mem (int_of_z h) !longs then () else begin st := wp_step !st Release; settle () end
    | None ->
      if int_of_nat (waiting !st) > 0 then begin st := wp_step !st Dispatch; settle () end in
  let prio () = (match ti t with 0 -> PHigh | 1 -> PNormal | _ -> PLow) in
  for _ = 1 to nops do
    (match tok t with
     | "H" -> st := wp_step !st (Req (PHigh, Z0)); held0 := true; settle ()
     | "R" -> if !held0 then begin held0 := false; (match !st.holder with Some h when int_of_z h = 0 -> st := wp_step !st Release | _ -> ()) end; settle ()
     | "Q" -> let p = prio () in let id = tz t in
       st := wp_step !st (Req (p, id)); settle ()
     | "L" -> let p = prio () in let id = tz t in
       longs := int_of_z id :: !longs;
       st := wp_step !st (Req (p, id)); settle ()
     | "C" -> let id = tz t in st := wp_step !st (Cancel id); settle ()
     | "W" -> let _ = ti t in ()
     | x -> failwith ("bad op " ^ x))
  done;
  if !held0 then begin held0 := false; (match !st.holder with Some h when int_of_z h = 0 -> st := wp_step !st Release | _ -> ()) end;
  settle ();
  (match !st.holder with Some _ -> failwith "script ends with an L task holding" | None -> ());
  "grants=" ^ join "," sz !st.grants ^ " waiting=" ^ string_of_int (int_of_nat (waiting !st))

(* walm <n> <held mask> <wal 0|1> : readers inside a read transaction hold a read lock on their
   read mark (WAL: reader i sits on mark i+1 = byte 124+i) or on SHARED (rollback journal); does
   lock_all (its calls generated from the source) get through? *)
let c19_walm t =
  let n = ti t in let mask = ti t in let wal = ti t = 1 in
  let tbl = List.concat (List.init n (fun i ->
      if mask land (1 lsl i) <> 0 then
        [((z_of_small (if wal then 124 + i else 1073741826), z_of_small (10 + i)), LRead)]
      else [])) in
  let calls = if wal then lock_all_probe @ lock_all_wal else lock_all_probe @ lock_all_rollback in
  (* the probe runs on the database file, the WAL locks on the -shm file: different lock tables *)
  let through =
    if wal then (match run_locks [] (z_of_small 1) lock_all_probe, run_locks tbl (z_of_small 1) lock_all_wal with
        | Some _, Some _ -> true | _ -> false)
    else (match run_locks tbl (z_of_small 1) calls with Some _ -> true | None -> false) in
  "blocked=" ^ (if through then "0" else "1")

(* ---------- dispatch ---------- *)
let handlers : (string * (toks -> string)) list ref = ref [
  "chunks", c08_chunks;
  "range", c08_range;
  "chk_chunks", c08_chk_chunks;
  "chk_range", c08_chk_range;
  "book", c02_book;
  "chk_bstate", c02_chk_state;
  "needs", c04_needs;
  "chk_needs", c04_chk;
  "members", c18_members;
  "chk_members", c18_chk;
  "crdtm", c01_crdtm;
  "chk_spec", c01_chk_spec;
  "chk_cluster", c01_chk_cluster;
  "ivm", c11_ivm;
  "pool", c20_poolm;
  "backupm", c19_backupm;
  "walm", c19_walm;
  "sublife", c13_sublife;
  "catchup", c12_catchup;
  "chk_stream", c12_chk;
  "authz", c17_authzm;
  "schema", c15_schema;
  "updm", c14_updm;
  "chk_upd", c14_chk;
  "chk_sub", c11_chk;
  "fromconn", c06_fromconn;
  "chk_reload", c06_chk;
  "ltxm", c07_ltxm;
  "srvq", c05_srvq;
  "chk_srv", c05_chk;
  "part", c03_part;
  "chk_part", c03_chk;
  "chk_seqrows", c03_chk_rows;
  "ingest", c10_ingest;
  "uni", c16_uni;
  "serve", c16_serve;
  "partners", c16_partners;
  "bcast", c16_bcast;
  "wire", c09_wire;
  "decode", c09_decode;
  "pack", c09_pack;
  "unpack", c09_unpack;
  "utf8", c09_utf8;
]

let () =
  (try
     while true do
       let line = input_line stdin in
       let t = toks_of_line line in
       if not (eot t) then begin
         let kind = tok t in
         let res =
           match List.assoc_opt kind !handlers with
           | None -> "ERR unknown-kind " ^ kind
           | Some h -> (try h t with Failure m -> "ERR " ^ m | Not_found -> "ERR not-found"
                                   | Stack_overflow -> "ERR stack-overflow")
         in
         print_string res; print_char '\n'
       end else print_char '\n'
     done
   with End_of_file -> ());
  Stdlib.flush stdout
