(* C03: atomic visibility of a remote version ingested chunk by chunk (Model/Partial.v).
   For every well-formed sequence of deliveries (any cut, order, duplication, overlap), of
   apply and clear steps: nothing of the version is merged until the delivered ranges cover
   0..=last, what is merged is the whole transaction, coverage triggers the apply, and the
   apply yields the whole transaction. *)
From Coq Require Import List ZArith Bool Lia.
From Corro Require Import Lib.Ivl Model.Book Model.SeqRows Model.Partial Proofs.SeqRowsProofs.
Import ListNotations.
Open Scope Z_scope.

Lemma buf_insert_sub r b x : In x (buf_insert r b) -> In x b \/ x = r.
Proof.
  induction b as [|h t IH]; cbn [buf_insert].
  - intros [<-|[]]. right. reflexivity.
  - destruct (fst r =? fst h); [intros H; left; exact H|].
    destruct (fst r <? fst h).
    + intros [<-|H]; [right; reflexivity|left; exact H].
    + intros [<-|H]; [left; left; reflexivity|]. destruct (IH H) as [H'|H']; [left; right; exact H'|right; exact H'].
Qed.

Lemma buf_insert_keeps r b x : In x b -> In x (buf_insert r b).
Proof.
  induction b as [|h t IH]; cbn [buf_insert]; [intros []|].
  destruct (fst r =? fst h); [intros H; exact H|].
  destruct (fst r <? fst h).
  - intros H. right. exact H.
  - intros [<-|H]; [left; reflexivity|right; apply IH, H].
Qed.

Lemma buf_insert_adds r b : In r (buf_insert r b) \/ exists y, In y b /\ fst y = fst r.
Proof.
  induction b as [|h t IH]; cbn [buf_insert].
  - left. left. reflexivity.
  - destruct (fst r =? fst h) eqn:E1.
    + apply Z.eqb_eq in E1. right. exists h. split; [left; reflexivity|symmetry; exact E1].
    + destruct (fst r <? fst h).
      * left. left. reflexivity.
      * destruct IH as [H|[y [Hy He]]]; [left; right; exact H|right; exists y; split; [right; exact Hy|exact He]].
Qed.

Section Atomic.
  Context (last : Z) (tx : list row).
  Context (Hlast : 0 <= last).
  Context (Htx : forall r, In r tx -> 0 <= fst r <= last).
  Context (Hnd : NoDup (map fst tx)).

  (* the changes a chunk s..=e of this transaction carries *)
  Definition chunk (s e : Z) : list row := filter (fun r => (s <=? fst r) && (fst r <=? e)) tx.

  Definition wf_op (op : pop) : Prop :=
    match op with
    | Deliver s e l c => l = last /\ 0 <= s /\ e <= last /\ c = chunk s e
    | _ => True
    end.

  Definition cov (ops : list pop) (x : Z) : Prop :=
    exists s e l c, In (Deliver s e l c) ops /\ s <= x <= e.
  Definition all_cov (ops : list pop) : Prop := forall x, 0 <= x <= last -> cov ops x.
  Definition same_as_tx (l : list row) : Prop := forall r, In r l <-> In r tx.
  Definition buf_is (S : iset) (b : list row) : Prop := forall r, In r b <-> In r tx /\ mem (fst r) S.

  Lemma tx_unique : forall r1 r2, In r1 tx -> In r2 tx -> fst r1 = fst r2 -> r1 = r2.
  Proof.
    clear Htx. induction tx as [|h t IH]; [intros r1 r2 []|].
    cbn [map] in Hnd. inversion Hnd as [|? ? Hni Hnd']. subst.
    intros r1 r2 [<-|H1] [<-|H2] He.
    - reflexivity.
    - exfalso. apply Hni. rewrite He. apply in_map, H2.
    - exfalso. apply Hni. rewrite <- He. apply in_map, H1.
    - apply IH; assumption.
  Qed.

  Lemma chunk_in s e r : In r (chunk s e) <-> In r tx /\ s <= fst r <= e.
  Proof.
    unfold chunk. rewrite filter_In, andb_true_iff, Z.leb_le, Z.leb_le. tauto.
  Qed.

  Lemma chunk_full : chunk 0 last = tx.
  Proof.
    unfold chunk. clear Hnd. induction tx as [|h t IH]; [reflexivity|]. cbn [filter].
    destruct (Htx h (or_introl eq_refl)) as [H1 H2].
    rewrite (proj2 (Z.leb_le _ _) H1), (proj2 (Z.leb_le _ _) H2). cbn [andb]. f_equal.
    apply IH. intros r Hr. apply Htx. right. exact Hr.
  Qed.

  Lemma buf_fold_in changes : forall b,
    (forall r, In r b -> In r tx) -> (forall r, In r changes -> In r tx) ->
    forall x, In x (fold_left (fun b r => buf_insert r b) changes b) <-> In x b \/ In x changes.
  Proof.
    induction changes as [|c cs IH]; intros b Hb Hc x; cbn [fold_left].
    - split; [intros H; left; exact H|intros [H|[]]; exact H].
    - rewrite IH.
      + split.
        * intros [H|H]; [|right; right; exact H]. apply buf_insert_sub in H. destruct H as [H| ->]; [left; exact H|right; left; reflexivity].
        * intros [H|[<-|H]]; [left; apply buf_insert_keeps, H| |right; exact H].
          destruct (buf_insert_adds c b) as [H|[y [Hy He]]]; [left; exact H|].
          left. apply buf_insert_keeps.
          rewrite <- (tx_unique y c (Hb y Hy) (Hc c (or_introl eq_refl)) He). exact Hy.
      + intros r Hr. apply buf_insert_sub in Hr. destruct Hr as [Hr| ->]; [apply Hb, Hr|apply Hc; left; reflexivity].
      + intros r Hr. apply Hc. right. exact Hr.
  Qed.

  Lemma covered_iff p : canonical (p_seqs p) -> p_last p = last ->
    (covered p = true <-> forall x, 0 <= x <= last -> mem x (p_seqs p)).
  Proof.
    intros [lo Hc] Hl. unfold covered. rewrite Hl.
    pose proof (gaps_nil_iff (p_seqs p) 0 last lo Hc Hlast) as Hg.
    destruct (gaps 0 last (p_seqs p)) as [|g gs] eqn:E.
    - split; [intros _; apply Hg; reflexivity|intros _; reflexivity].
    - split; [discriminate|]. intros H. apply Hg in H. discriminate.
  Qed.

  Lemma gaps_sub S s e : canonical S -> (forall x, 0 <= x <= last -> mem x S) ->
    0 <= s -> e <= last -> gaps s e S = [].
  Proof.
    intros [lo Hc] Hall Hs He. destruct (Z.le_gt_cases s e) as [Hse|Hse].
    - apply (gaps_nil_iff S s e lo Hc Hse). intros x Hx. apply Hall. lia.
    - rewrite gaps_unfold. destruct (e <? s) eqn:E; [reflexivity|apply Z.ltb_ge in E; lia].
  Qed.

  Lemma cov_app ops op x : cov ops x -> cov (ops ++ [op]) x.
  Proof.
    intros [s [e [l [c [Hin Hx]]]]]. exists s, e, l, c. split; [apply in_or_app; left; exact Hin|exact Hx].
  Qed.

  Lemma cov_new ops s e l c x : s <= x <= e -> cov (ops ++ [Deliver s e l c]) x.
  Proof. intros Hx. exists s, e, l, c. split; [apply in_or_app; right; left; reflexivity|exact Hx]. Qed.

  Lemma cov_snoc_inv ops op x : cov (ops ++ [op]) x ->
    cov ops x \/ exists s e l c, op = Deliver s e l c /\ s <= x <= e.
  Proof.
    intros [s [e [l [c [Hin Hx]]]]]. apply in_app_or in Hin. destruct Hin as [Hin|[Hin|[]]].
    - left. exists s, e, l, c. split; assumption.
    - right. exists s, e, l, c. split; [exact Hin|exact Hx].
  Qed.

  Lemma all_cov_app ops op : all_cov ops -> all_cov (ops ++ [op]).
  Proof. intros H x Hx. apply cov_app, H, Hx. Qed.

  Definition quiet (st : pst) : Prop := ps_clear st = true \/ (ps_rows st = [] /\ ps_buf st = []).

  (* the invariant, by phase of the version's life *)
  Inductive PInv (ops : list pop) (st : pst) : Prop :=
  | PhA : ps_mem st = None -> ps_known st = false -> ps_rows st = [] -> ps_buf st = [] -> ps_db st = [] ->
          ps_clear st = false -> 0 <= ps_trig st -> (forall x, ~ cov ops x) -> PInv ops st
  | PhB p : ps_mem st = Some p -> ps_known st = true -> p_last p = last -> canonical (p_seqs p) ->
          (forall x, mem x (p_seqs p) -> 0 <= x <= last) ->
          (forall x, mem x (p_seqs p) <-> cov ops x) ->
          ps_db st = [] -> ps_clear st = false -> rows_ok (ps_rows st) -> rset (ps_rows st) = p_seqs p ->
          buf_is (p_seqs p) (ps_buf st) -> 0 <= ps_trig st -> (covered p = true -> 1 <= ps_trig st) -> PInv ops st
  | PhC p : ps_mem st = Some p -> ps_known st = true -> p_last p = last -> canonical (p_seqs p) ->
          covered p = true -> all_cov ops -> same_as_tx (ps_db st) -> (forall r, In r (ps_buf st) -> In r tx) ->
          1 <= ps_trig st -> quiet st -> PInv ops st
  | PhD : ps_mem st = None -> ps_known st = true ->
          ((same_as_tx (ps_db st) /\ all_cov ops) \/ (ps_db st = [] /\ In DeliverEmpty ops)) ->
          quiet st -> PInv ops st.

  Lemma quiet_mk rows buf mem known db trig clear :
    quiet (mkPst rows buf mem known db trig (clear || negb (match rows, buf with [], [] => true | _, _ => false end))).
  Proof.
    unfold quiet. cbn [ps_clear ps_rows ps_buf].
    destruct rows as [|r rows]; [destruct buf as [|b buf]|].
    - right. split; reflexivity.
    - left. apply orb_true_r.
    - left. apply orb_true_r.
  Qed.

  Lemma nocov_quiet_op ops op : (forall x, ~ cov ops x) ->
    (forall s e l c, op = Deliver s e l c -> e < s) -> forall x, ~ cov (ops ++ [op]) x.
  Proof.
    intros Hn Hop x Hc. apply cov_snoc_inv in Hc. destruct Hc as [Hc|[s [e [l [c [Heq Hx]]]]]]; [exact (Hn x Hc)|].
    specialize (Hop _ _ _ _ Heq). lia.
  Qed.

  Lemma mem_single x s e : mem x [(s, e)] <-> s <= x <= e.
  Proof. cbn [mem]. tauto. Qed.

  Lemma stepA ops st op :
    ps_mem st = None -> ps_known st = false -> ps_rows st = [] -> ps_buf st = [] -> ps_db st = [] ->
    ps_clear st = false -> 0 <= ps_trig st -> (forall x, ~ cov ops x) ->
    wf_op op -> PInv (ops ++ [op]) (fst (pstep st op)).
  Proof.
    destruct st as [rows buf mem0 known db trig clear]. cbn [ps_mem ps_known ps_rows ps_buf ps_db ps_clear ps_trig].
    intros -> -> -> -> -> -> Htrig Hnc Hwf.
    destruct op as [|s e l c| |]; unfold pstep; cbn [ps_mem ps_known ps_rows ps_buf ps_db ps_clear ps_trig andb orb fst].
    - (* an Empty changeset: the version is known, nothing to show *)
      apply PhD; cbn [ps_mem ps_known ps_db fst]; [reflexivity|reflexivity| |right; split; reflexivity].
      right. split; [reflexivity|apply in_or_app; right; left; reflexivity].
    - destruct Hwf as [-> [Hs [He ->]]].
      destruct ((s =? 0) && (e =? last)) eqn:Efull.
      + apply andb_true_iff in Efull. destruct Efull as [E1 E2]. apply Z.eqb_eq in E1, E2. subst s e.
        assert (Hall : all_cov (ops ++ [Deliver 0 last last (chunk 0 last)])) by (intros x Hx; apply cov_new; exact Hx).
        pose proof chunk_full as Hcf. revert Hall. generalize (ops ++ [Deliver 0 last last (chunk 0 last)]). intros ops' Hall.
        destruct (chunk 0 last) as [|c0 cs]; cbn [fst].
        * apply PhD; cbn [ps_mem ps_known ps_db]; [reflexivity|reflexivity| |right; split; reflexivity].
          left. split; [unfold same_as_tx; rewrite <- Hcf; intros r; tauto|exact Hall].
        * apply PhD; cbn [ps_mem ps_known ps_db app]; [reflexivity|reflexivity| |right; split; reflexivity].
          left. split; [unfold same_as_tx; rewrite <- Hcf; intros r; tauto|exact Hall].
      + destruct (e <? s) eqn:Einv; cbn [fst].
        * apply Z.ltb_lt in Einv. apply PhA; cbn [ps_mem ps_known ps_rows ps_buf ps_db ps_clear ps_trig]; try reflexivity; [exact Htrig|].
          apply nocov_quiet_op; [exact Hnc|]. intros s' e' l' c' Heq. injection Heq as <- <- _ _. exact Einv.
        * apply Z.ltb_ge in Einv.
          destruct (incomplete_rows_ok [] s e last rows_ok_nil (conj Hs Einv)) as [rows' [a [b [Heq [Hok [Hrs [Ha [Hb Hin]]]]]]]].
          rewrite Heq. cbn [fst].
          assert (Hab : (a, b) = (s, e)).
          { rewrite Hrs in Hin. cbn in Hin. destruct Hin as [Hin|[]]. symmetry. exact Hin. }
          injection Hab as -> ->.
          assert (Hrs' : rset rows' = [(s, e)]) by (rewrite Hrs; reflexivity).
          eapply (PhB _ _ (mkPartial [(s, e)] last)); cbn [ps_mem ps_known ps_rows ps_buf ps_db ps_clear ps_trig p_seqs p_last]; try reflexivity.
          -- exists s. cbn. lia.
          -- intros x Hx. apply mem_single in Hx. lia.
          -- intros x. rewrite mem_single. split; [apply cov_new|].
             intros Hc. apply cov_snoc_inv in Hc. destruct Hc as [Hc|[s' [e' [l' [c' [Heq' Hx]]]]]]; [exfalso; exact (Hnc x Hc)|].
             injection Heq' as <- <- _ _. exact Hx.
          -- exact Hok.
          -- exact Hrs'.
          -- intros r. rewrite buf_fold_in; [|intros r0 []|intros r0 Hr0; apply chunk_in in Hr0; apply Hr0].
             rewrite chunk_in, mem_single. cbn [In]. tauto.
          -- destruct (covered (mkPartial [(s, e)] last)); lia.
          -- intros Hcov. rewrite Hcov. lia.
    - apply PhA; cbn [ps_mem ps_known ps_rows ps_buf ps_db ps_clear ps_trig fst]; try reflexivity; [exact Htrig|].
      apply nocov_quiet_op; [exact Hnc|]. intros s e l c Heq. discriminate Heq.
    - apply PhA; cbn [ps_mem ps_known ps_rows ps_buf ps_db ps_clear ps_trig fst]; try reflexivity; [exact Htrig|].
      apply nocov_quiet_op; [exact Hnc|]. intros s e l c Heq. discriminate Heq.
  Qed.

  Lemma cov_quiet ops op x : (forall s e l c, op <> Deliver s e l c) -> (cov (ops ++ [op]) x <-> cov ops x).
  Proof.
    intros Hop. split; [|apply cov_app].
    intros Hc. apply cov_snoc_inv in Hc. destruct Hc as [Hc|[s [e [l [c [Heq _]]]]]]; [exact Hc|]. exfalso. exact (Hop _ _ _ _ Heq).
  Qed.

  Lemma ins_block S s e a b : canonical S -> s <= e -> a <= s -> e <= b -> In (a, b) (ins s e S) -> ins a b S = ins s e S.
  Proof.
    intros Hc Hse Ha Hb Hin. apply canonical_ext.
    - apply ins_canonical; [lia|exact Hc].
    - apply ins_canonical; [lia|exact Hc].
    - intros x. rewrite !ins_mem by lia. split.
      + intros [Hx|Hx]; [|right; exact Hx]. apply (ins_mem S s e x Hse). apply (In_mem (a, b)); [exact Hin|exact Hx].
      + intros [Hx|Hx]; [left; lia|right; exact Hx].
  Qed.

  Lemma stepB ops st op p :
    ps_mem st = Some p -> ps_known st = true -> p_last p = last -> canonical (p_seqs p) ->
    (forall x, mem x (p_seqs p) -> 0 <= x <= last) ->
    (forall x, mem x (p_seqs p) <-> cov ops x) ->
    ps_db st = [] -> ps_clear st = false -> rows_ok (ps_rows st) -> rset (ps_rows st) = p_seqs p ->
    buf_is (p_seqs p) (ps_buf st) -> 0 <= ps_trig st -> (covered p = true -> 1 <= ps_trig st) ->
    wf_op op -> PInv (ops ++ [op]) (fst (pstep st op)).
  Proof.
    destruct st as [rows buf mem0 known db trig clear]. cbn [ps_mem ps_known ps_rows ps_buf ps_db ps_clear ps_trig].
    intros -> -> Hpl Hcan Hrange Hcov -> -> Hrok Hrs Hbuf Htrig Htrig1 Hwf.
    assert (Hstay : forall op', (forall x, cov (ops ++ [op']) x <-> cov ops x) ->
                    PInv (ops ++ [op']) (mkPst rows buf (Some p) true [] trig false)).
    { intros op' Hq. apply (PhB _ _ p); cbn [ps_mem ps_known ps_rows ps_buf ps_db ps_clear ps_trig]; try reflexivity; try assumption.
      intros x. rewrite Hq. apply Hcov. }
    destruct op as [|s e l c| |]; unfold pstep; cbn [ps_mem ps_known ps_rows ps_buf ps_db ps_clear ps_trig andb orb].
    - destruct (covered p) eqn:Ec; cbn [fst].
      + apply Hstay. intros x. apply cov_quiet. intros; discriminate.
      + apply PhD; cbn [ps_mem ps_known ps_db]; [reflexivity|reflexivity| |exact (quiet_mk _ _ _ _ _ _ false)].
        right. split; [reflexivity|apply in_or_app; right; left; reflexivity].
    - destruct Hwf as [-> [Hs [He ->]]].
      destruct (gaps s e (p_seqs p)) as [|g gs] eqn:Eg; cbn [fst].
      + (* everything in s..=e is already held: skipped *)
        apply Hstay. intros x. split; [|apply cov_app].
        intros Hc. apply cov_snoc_inv in Hc. destruct Hc as [Hc|[s' [e' [l' [c' [Heq Hx]]]]]]; [exact Hc|].
        injection Heq as <- <- _ _. apply Hcov. destruct Hcan as [lo Hlo].
        apply (proj1 (gaps_nil_iff (p_seqs p) s e lo Hlo ltac:(lia)) Eg). exact Hx.
      + destruct ((s =? 0) && (e =? last)) eqn:Efull.
        * apply andb_true_iff in Efull. destruct Efull as [E1 E2]. apply Z.eqb_eq in E1, E2. subst s e.
          assert (Hall : all_cov (ops ++ [Deliver 0 last last (chunk 0 last)])) by (intros x Hx; apply cov_new; exact Hx).
          pose proof chunk_full as Hcf. revert Hall. generalize (ops ++ [Deliver 0 last last (chunk 0 last)]). intros ops' Hall.
          destruct (chunk 0 last) as [|c0 cs]; cbn [fst].
          -- apply PhD; cbn [ps_mem ps_known ps_db]; [reflexivity|reflexivity| |exact (quiet_mk _ _ _ _ _ _ false)].
             left. split; [unfold same_as_tx; rewrite <- Hcf; intros r; tauto|exact Hall].
          -- apply PhD; cbn [ps_mem ps_known ps_db app]; [reflexivity|reflexivity| |exact (quiet_mk _ _ _ _ _ _ false)].
             left. split; [unfold same_as_tx; rewrite <- Hcf; intros r; tauto|exact Hall].
        * destruct (e <? s) eqn:Einv; cbn [fst].
          -- apply Z.ltb_lt in Einv. apply Hstay. intros x. split; [|apply cov_app].
             intros Hc. apply cov_snoc_inv in Hc. destruct Hc as [Hc|[s' [e' [l' [c' [Heq Hx]]]]]]; [exact Hc|].
             injection Heq as <- <- _ _. lia.
          -- apply Z.ltb_ge in Einv.
             destruct (incomplete_rows_ok rows s e last Hrok (conj Hs Einv)) as [rows' [a [b [Heq [Hok [Hrs' [Ha [Hb Hin]]]]]]]].
             rewrite Heq. cbn [fst]. unfold ins_all. cbn [fold_left fst snd].
             rewrite Hrs in Hrs'. rewrite Hrs' in Hin.
             rewrite (ins_block _ _ _ _ _ Hcan Einv Ha Hb Hin), Hpl.
             assert (Hmem' : forall x, mem x (ins s e (p_seqs p)) <-> s <= x <= e \/ mem x (p_seqs p)) by (intros x; apply ins_mem, Einv).
             eapply (PhB _ _ (mkPartial (ins s e (p_seqs p)) last)); cbn [ps_mem ps_known ps_rows ps_buf ps_db ps_clear ps_trig p_seqs p_last]; try reflexivity.
             ++ apply ins_canonical; assumption.
             ++ intros x Hx. apply Hmem' in Hx. destruct Hx as [Hx|Hx]; [lia|apply Hrange, Hx].
             ++ intros x. rewrite Hmem'. split.
                ** intros [Hx|Hx]; [apply cov_new, Hx|apply cov_app, Hcov, Hx].
                ** intros Hc. apply cov_snoc_inv in Hc. destruct Hc as [Hc|[s' [e' [l' [c' [Heq' Hx]]]]]]; [right; apply Hcov, Hc|].
                   injection Heq' as <- <- _ _. left. exact Hx.
             ++ exact Hok.
             ++ exact Hrs'.
             ++ intros r. rewrite buf_fold_in; [|intros r0 Hr0; apply Hbuf in Hr0; apply Hr0|intros r0 Hr0; apply chunk_in in Hr0; apply Hr0].
                rewrite chunk_in, Hmem', (Hbuf r). tauto.
             ++ destruct (covered (mkPartial (ins s e (p_seqs p)) last)); lia.
             ++ intros Hcv. rewrite Hcv. lia.
    - destruct (covered p) eqn:Ec; cbn [fst].
      + assert (Hall : forall x, 0 <= x <= last -> mem x (p_seqs p)) by (apply covered_iff; assumption).
        apply (PhC _ _ p); cbn [ps_mem ps_known ps_rows ps_buf ps_db ps_clear ps_trig app]; try reflexivity; try assumption.
        * intros x Hx. apply cov_app, Hcov, Hall, Hx.
        * intros r. rewrite (Hbuf r). split; [intros [H _]; exact H|]. intros H. split; [exact H|apply Hall, Htx, H].
        * intros r Hr. apply Hbuf in Hr. apply Hr.
        * apply Htrig1. reflexivity.
        * left. reflexivity.
      + apply Hstay. intros x. apply cov_quiet. intros; discriminate.
    - cbn [fst]. apply Hstay. intros x. apply cov_quiet. intros; discriminate.
  Qed.

  Lemma stepC ops st op p :
    ps_mem st = Some p -> ps_known st = true -> p_last p = last -> canonical (p_seqs p) ->
    covered p = true -> all_cov ops -> same_as_tx (ps_db st) -> (forall r, In r (ps_buf st) -> In r tx) ->
    1 <= ps_trig st -> quiet st ->
    wf_op op -> PInv (ops ++ [op]) (fst (pstep st op)).
  Proof.
    destruct st as [rows buf mem0 known db trig clear]. unfold quiet. cbn [ps_mem ps_known ps_rows ps_buf ps_db ps_clear ps_trig].
    intros -> -> Hpl Hcan Hcv Hall Hdb Hbuf Htrig Hq Hwf.
    assert (Hmem : forall x, 0 <= x <= last -> mem x (p_seqs p)) by (apply covered_iff; assumption).
    assert (Hstay : forall op', PInv (ops ++ [op']) (mkPst rows buf (Some p) true db trig clear)).
    { intros op'. apply (PhC _ _ p); cbn [ps_mem ps_known ps_rows ps_buf ps_db ps_clear ps_trig]; try reflexivity; try assumption.
      apply all_cov_app, Hall. }
    destruct op as [|s e l c| |]; unfold pstep; cbn [ps_mem ps_known ps_rows ps_buf ps_db ps_clear ps_trig andb].
    - rewrite Hcv. cbn [fst]. apply Hstay.
    - destruct Hwf as [-> [Hs [He ->]]]. rewrite (gaps_sub _ _ _ Hcan Hmem Hs He). cbn [fst]. apply Hstay.
    - rewrite Hcv. cbn [fst].
      apply (PhC _ _ p); cbn [ps_mem ps_known ps_rows ps_buf ps_db ps_clear ps_trig]; try reflexivity; try assumption.
      + apply all_cov_app, Hall.
      + intros r. rewrite in_app_iff, (Hdb r). split; [intros [H|H]; [exact H|apply Hbuf, H]|intros H; left; exact H].
      + left. reflexivity.
    - destruct clear; cbn [fst]; [|apply Hstay].
      apply (PhC _ _ p); cbn [ps_mem ps_known ps_rows ps_buf ps_db ps_clear ps_trig]; try reflexivity; try assumption.
      + apply all_cov_app, Hall.
      + intros r [].
      + right. split; reflexivity.
  Qed.

  Lemma stepD ops st op :
    ps_mem st = None -> ps_known st = true ->
    ((same_as_tx (ps_db st) /\ all_cov ops) \/ (ps_db st = [] /\ In DeliverEmpty ops)) -> quiet st ->
    wf_op op -> PInv (ops ++ [op]) (fst (pstep st op)).
  Proof.
    destruct st as [rows buf mem0 known db trig clear]. unfold quiet. cbn [ps_mem ps_known ps_rows ps_buf ps_db ps_clear ps_trig].
    intros -> -> Hdb Hq Hwf.
    assert (Hdb' : forall op', (same_as_tx db /\ all_cov (ops ++ [op'])) \/ (db = [] /\ In DeliverEmpty (ops ++ [op']))).
    { intros op'. destruct Hdb as [[H1 H2]|[H1 H2]]; [left; split; [exact H1|apply all_cov_app, H2]|right; split; [exact H1|apply in_or_app; left; exact H2]]. }
    assert (Hstay : forall op', PInv (ops ++ [op']) (mkPst rows buf None true db trig clear)).
    { intros op'. apply PhD; cbn [ps_mem ps_known ps_rows ps_buf ps_db ps_clear ps_trig]; try reflexivity; [apply Hdb'|exact Hq]. }
    destruct op as [|s e l c| |]; unfold pstep; cbn [ps_mem ps_known ps_rows ps_buf ps_db ps_clear ps_trig andb fst].
    - apply Hstay.
    - apply Hstay.
    - apply Hstay.
    - destruct clear; cbn [fst]; [|apply Hstay].
      apply PhD; cbn [ps_mem ps_known ps_rows ps_buf ps_db ps_clear ps_trig]; try reflexivity; [apply Hdb'|right; split; reflexivity].
  Qed.

  Lemma pinv_step ops st op : PInv ops st -> wf_op op -> PInv (ops ++ [op]) (fst (pstep st op)).
  Proof.
    intros [HA1 HA2 HA3 HA4 HA5 HA6 HA7 HA8|p HB1 HB2 HB3 HB4 HB5 HB6 HB7 HB8 HB9 HB10 HB11 HB12 HB13
           |p HC1 HC2 HC3 HC4 HC5 HC6 HC7 HC8 HC9 HC10|HD1 HD2 HD3 HD4] Hwf.
    - apply stepA; assumption.
    - eapply stepB; eassumption.
    - eapply stepC; eassumption.
    - apply stepD; assumption.
  Qed.

  Lemma pinv_init : PInv [] pst_init.
  Proof.
    apply PhA; try reflexivity; try (cbn; lia). intros x [s [e [l [c [[] _]]]]].
  Qed.

  Definition run_from (st : pst) (ops : list pop) : pst := fold_left (fun st op => fst (pstep st op)) ops st.

  Lemma pinv_run ops2 : forall ops1 st, PInv ops1 st -> Forall wf_op ops2 -> PInv (ops1 ++ ops2) (run_from st ops2).
  Proof.
    induction ops2 as [|op ops2 IH]; intros ops1 st HI Hwf; cbn [run_from fold_left].
    - rewrite app_nil_r. exact HI.
    - inversion Hwf as [|? ? Hop Hrest]. subst.
      replace (ops1 ++ op :: ops2) with ((ops1 ++ [op]) ++ ops2) by (rewrite <- app_assoc; reflexivity).
      apply IH; [apply pinv_step; assumption|exact Hrest].
  Qed.

  Theorem pinv_reachable ops : Forall wf_op ops -> PInv ops (prun ops).
  Proof. intros Hwf. exact (pinv_run ops [] pst_init pinv_init Hwf). Qed.

  (* ---------- what the invariant says ---------- *)
  (* all or nothing, and nothing before the delivered ranges cover 0..=last *)
  Theorem atomic_visibility ops : Forall wf_op ops ->
    ps_db (prun ops) = [] \/ (same_as_tx (ps_db (prun ops)) /\ all_cov ops).
  Proof.
    intros Hwf. destruct (pinv_reachable ops Hwf) as [HA1 HA2 HA3 HA4 HA5 HA6 HA7 HA8|p HB1 HB2 HB3 HB4 HB5 HB6 HB7 HB8 HB9 HB10 HB11 HB12 HB13|p HC1 HC2 HC3 HC4 HC5 HC6 HC7 HC8 HC9 HC10|HD1 HD2 HD3 HD4].
    - left. exact HA5.
    - left. exact HB7.
    - right. split; assumption.
    - destruct HD3 as [[H1 H2]|[H1 _]]; [right; split; assumption|left; exact H1].
  Qed.

  (* once the delivered ranges cover the version (and no peer declared it empty), it has been
     merged entirely, or the apply was triggered and applying merges it entirely *)
  Theorem covered_is_applied ops : Forall wf_op ops -> ~ In DeliverEmpty ops -> all_cov ops ->
    same_as_tx (ps_db (prun ops)) \/
    (1 <= ps_trig (prun ops) /\ same_as_tx (ps_db (fst (pstep (prun ops) ApplyBuffered)))).
  Proof.
    intros Hwf Hne Hall.
    pose proof (pinv_reachable ops Hwf) as HI.
    pose proof (pinv_step _ _ ApplyBuffered HI I) as HI'.
    destruct HI as [HA1 HA2 HA3 HA4 HA5 HA6 HA7 HA8|p HB1 HB2 HB3 HB4 HB5 HB6 HB7 HB8 HB9 HB10 HB11 HB12 HB13|p HC1 HC2 HC3 HC4 HC5 HC6 HC7 HC8 HC9 HC10|HD1 HD2 HD3 HD4].
    - exfalso. apply (HA8 0). apply Hall. lia.
    - right. assert (Hcv : covered p = true).
      { apply covered_iff; [exact HB4|exact HB3|]. intros x Hx. apply HB6, Hall, Hx. }
      split; [apply HB13, Hcv|].
      destruct (prun ops) as [rows buf mem0 known db trig clear]. cbn [ps_mem ps_db ps_buf] in *. subst mem0 db.
      unfold pstep. cbn [ps_mem ps_known ps_rows ps_buf ps_db ps_clear ps_trig]. rewrite Hcv. cbn [fst ps_db app].
      assert (Hmem : forall x, 0 <= x <= last -> mem x (p_seqs p)) by (apply covered_iff; assumption).
      intros r. rewrite (HB11 r). split; [intros [H _]; exact H|]. intros H. split; [exact H|apply Hmem, Htx, H].
    - left. exact HC7.
    - destruct HD3 as [[H1 _]|[_ H2]]; [left; exact H1|contradiction].
  Qed.

  (* whatever was buffered is scheduled for removal once the version is merged or discarded,
     and the clear step removes it *)
  Theorem buffered_copies_removed ops : Forall wf_op ops ->
    let st := prun ops in
    ps_db st <> [] \/ ps_mem st = None /\ ps_known st = true ->
    (ps_clear st = true /\ ps_rows (fst (pstep st Clear)) = [] /\ ps_buf (fst (pstep st Clear)) = [])
    \/ (ps_rows st = [] /\ ps_buf st = []).
  Proof.
    intros Hwf st Hdone. subst st.
    destruct (pinv_reachable ops Hwf) as [HA1 HA2 HA3 HA4 HA5 HA6 HA7 HA8|p HB1 HB2 HB3 HB4 HB5 HB6 HB7 HB8 HB9 HB10 HB11 HB12 HB13|p HC1 HC2 HC3 HC4 HC5 HC6 HC7 HC8 HC9 HC10|HD1 HD2 HD3 HD4].
    - right. split; assumption.
    - exfalso. destruct Hdone as [Hd|[Hd _]]; [exact (Hd HB7)|congruence].
    - destruct HC10 as [Hq|Hq]; [left|right; exact Hq].
      split; [exact Hq|]. destruct (prun ops) as [rows buf mem0 known db trig clear]. cbn [ps_clear] in Hq. subst clear.
      unfold pstep. cbn [ps_clear fst ps_rows ps_buf]. split; reflexivity.
    - destruct HD4 as [Hq|Hq]; [left|right; exact Hq].
      split; [exact Hq|]. destruct (prun ops) as [rows buf mem0 known db trig clear]. cbn [ps_clear] in Hq. subst clear.
      unfold pstep. cbn [ps_clear fst ps_rows ps_buf]. split; reflexivity.
  Qed.

  (* the reference: the unchunked transaction, delivered alone *)
  Theorem unchunked_result : ps_db (prun [Deliver 0 last last (chunk 0 last)]) = tx.
  Proof.
    unfold prun. cbn [fold_left]. unfold pstep. cbn [pst_init ps_mem ps_known ps_rows ps_buf ps_db ps_clear ps_trig andb].
    rewrite !Z.eqb_refl. cbn [andb]. rewrite chunk_full. destruct tx; reflexivity.
  Qed.
End Atomic.
