(* Proofs about Model/Book.v: insert_db keeps the persisted gap rows equal to
   the in-memory needed set, never errs, deletes exactly one row per removed
   range, and realises the set-level spec
       needed' = (needed ∪ [max+1, s] for inserted starts s beyond max+1) \ inserted. *)
From Coq Require Import List ZArith Bool Lia.
From Corro Require Import Lib.Ivl Model.Book.
Import ListNotations.
Open Scope Z_scope.

Ltac zb := repeat match goal with
  | H : (_ <? _) = true |- _ => apply Z.ltb_lt in H
  | H : (_ <? _) = false |- _ => apply Z.ltb_ge in H
  | H : (_ <=? _) = true |- _ => apply Z.leb_le in H
  | H : (_ <=? _) = false |- _ => apply Z.leb_gt in H
  | H : (_ =? _) = true |- _ => apply Z.eqb_eq in H
  | H : (_ =? _) = false |- _ => apply Z.eqb_neq in H
  end.

(* ------------------------------------------------------------------ *)
(* small list / pair facts                                             *)

Lemma pair_eqb_eq a b : pair_eqb a b = true <-> a = b.
Proof.
  destruct a, b; unfold pair_eqb; cbn. rewrite andb_true_iff, !Z.eqb_eq.
  split; [intros [-> ->]; reflexivity|inversion 1; auto].
Qed.

Lemma pair_eqb_refl a : pair_eqb a a = true.
Proof. apply pair_eqb_eq; reflexivity. Qed.

Lemma pair_eqb_neq a b : pair_eqb a b = false <-> a <> b.
Proof.
  split.
  - intros H E. apply pair_eqb_eq in E. congruence.
  - intros H. destruct (pair_eqb a b) eqn:E; [apply pair_eqb_eq in E; contradiction|reflexivity].
Qed.

Lemma existsb_pair r l : existsb (pair_eqb r) l = true <-> In r l.
Proof.
  rewrite existsb_exists. split.
  - intros (x & Hx & E). apply pair_eqb_eq in E. subst. exact Hx.
  - intros H. exists r. split; [exact H|apply pair_eqb_refl].
Qed.

(* ranges of a canonical set: [x in range t of s] *)
Definition inr (x : Z) (t : Z * Z) : Prop := fst t <= x <= snd t.

Lemma mem_iff_In x s : mem x s <-> exists t, In t s /\ inr x t.
Proof.
  split; [apply mem_In|]. intros (t & Ht & Hx). eapply In_mem; eassumption.
Qed.

Lemma canon_In_ok lo s t : canon_from lo s -> In t s -> fst t <= snd t /\ lo <= fst t.
Proof.
  revert lo; induction s as [|[a b] s IH]; intros lo Hc Hin; [destruct Hin|].
  cbn in Hc. destruct Hc as (H1 & H2 & H3). destruct Hin as [<-|Hin]; [cbn; lia|].
  destruct (IH _ H3 Hin). lia.
Qed.

Lemma canonical_In_ok s t : canonical s -> In t s -> fst t <= snd t.
Proof. intros [lo Hc] Hin. eapply canon_In_ok; eassumption. Qed.

(* two ranges of a canonical set that are within distance 1 are the same range *)
Lemma canon_near_eq : forall s lo t1 t2 x y, canon_from lo s ->
  In t1 s -> In t2 s -> inr x t1 -> inr y t2 -> x <= y <= x + 1 -> t1 = t2.
Proof.
  induction s as [|[a b] s IH]; intros lo t1 t2 x y Hc H1 H2 Hx Hy Hxy; [destruct H1|].
  cbn in Hc. destruct Hc as (Hlo & Hab & Ht).
  assert (Hlow : forall t z, In t s -> inr z t -> b + 2 <= z).
  { intros t z Hin Hz. apply (canon_from_lower _ _ _ Ht). eapply In_mem; eassumption. }
  unfold inr in *.
  destruct H1 as [<-|H1], H2 as [<-|H2]; cbn in *.
  - reflexivity.
  - specialize (Hlow _ _ H2 Hy). lia.
  - specialize (Hlow _ _ H1 Hx). lia.
  - eapply IH; eassumption.
Qed.

Lemma canonical_near_eq s t1 t2 x y : canonical s ->
  In t1 s -> In t2 s -> inr x t1 -> inr y t2 -> x <= y <= x + 1 -> t1 = t2.
Proof. intros [lo Hc]. eapply canon_near_eq; eassumption. Qed.

Lemma canon_NoDup lo s : canon_from lo s -> NoDup s.
Proof.
  revert lo; induction s as [|[a b] s IH]; intros lo Hc; [constructor|].
  cbn in Hc. destruct Hc as (H1 & H2 & H3). constructor; [|eapply IH; exact H3].
  intros Hin. destruct (canon_In_ok _ _ _ H3 Hin). cbn in *. lia.
Qed.

(* boundaries of a range of a canonical set are not members *)
Lemma canon_edges : forall s lo t, canon_from lo s -> In t s ->
  ~ mem (fst t - 1) s /\ ~ mem (snd t + 1) s.
Proof.
  intros s lo t Hc Hin.
  pose proof (canon_In_ok _ _ _ Hc Hin) as [Hok _].
  split; intros Hm; apply mem_In in Hm; destruct Hm as (t' & Hin' & Hx).
  - assert (t' = t) as ->
      by (eapply (canon_near_eq s lo t' t (fst t - 1) (fst t)); eauto; unfold inr; lia).
    unfold inr in Hx. lia.
  - assert (t = t') as <-
      by (eapply (canon_near_eq s lo t t' (snd t) (snd t + 1)); eauto; unfold inr; lia).
    unfold inr in Hx. lia.
Qed.

(* ------------------------------------------------------------------ *)
(* filter on canonical lists                                           *)

Lemma canon_filter f : forall s lo, canon_from lo s -> canon_from lo (filter f s).
Proof.
  induction s as [|[a b] s IH]; intros lo Hc; [exact I|].
  cbn in Hc. destruct Hc as (H1 & H2 & H3). cbn [filter].
  destruct (f (a, b)).
  - cbn. csplit. apply IH; exact H3.
  - eapply canon_from_weaken; [|apply IH; exact H3]. lia.
Qed.

Lemma rem_beyond : forall s lo a b, canon_from lo s -> b < lo ->
  rem a b s = s /\ filter (fun x => negb (pair_eqb (a, b) x)) s = s.
Proof.
  induction s as [|[p q] s IH]; intros lo a b Hc Hb; [split; reflexivity|].
  cbn in Hc. destruct Hc as (H1 & H2 & H3). cbn [rem filter].
  assert (pair_eqb (a, b) (p, q) = false) as ->.
  { apply pair_eqb_neq. intros E. injection E as -> ->. lia. }
  cbn [negb]. destruct (IH (q + 2) a b H3 ltac:(lia)) as [IH1 IH2]. rewrite IH2.
  split; [|reflexivity].
  destruct (q <? a) eqn:E1; [rewrite IH1; reflexivity|].
  destruct (b <? p) eqn:E2; [reflexivity|zb; lia].
Qed.

Lemma rem_exact : forall s lo a b, canon_from lo s -> In (a, b) s ->
  rem a b s = filter (fun x => negb (pair_eqb (a, b) x)) s.
Proof.
  induction s as [|[p q] s IH]; intros lo a b Hc Hin; [destruct Hin|].
  cbn in Hc. destruct Hc as (H1 & H2 & H3).
  cbn [rem filter].
  destruct Hin as [E|Hin].
  - injection E as -> ->. rewrite pair_eqb_refl. cbn [negb].
    destruct (b <? a) eqn:E1; [zb; lia|]. destruct (b <? a) eqn:E2; [zb; lia|].
    destruct (a <? a) eqn:E3; [zb; lia|]. destruct (b <? b) eqn:E4; [zb; lia|].
    cbn [app].
    (* nothing else is touched: all later ranges start after b+1 *)
    destruct (rem_beyond s (b + 2) a b H3 ltac:(lia)) as [R1 R2]. rewrite R1, R2. reflexivity.
  - destruct (canon_In_ok _ _ _ H3 Hin) as [Hab Hlo]. cbn in Hab, Hlo.
    assert (pair_eqb (a, b) (p, q) = false) as ->.
    { apply pair_eqb_neq. intros E. injection E as -> ->. lia. }
    cbn [negb]. destruct (q <? a) eqn:E1; [|zb; lia].
    f_equal. eapply IH; eassumption.
Qed.

Lemma filter_count_one : forall s lo r, canon_from lo s -> In r s ->
  length (filter (pair_eqb r) s) = 1%nat.
Proof.
  intros s lo r Hc Hin. pose proof (canon_NoDup _ _ Hc) as Hnd.
  clear Hc. induction s as [|x s IH]; [destruct Hin|].
  inversion Hnd as [|? ? Hx Hnd']; subst. cbn [filter]. destruct Hin as [->|Hin].
  - rewrite pair_eqb_refl. cbn. f_equal.
    assert (filter (pair_eqb r) s = []) as ->; [|reflexivity].
    clear -Hx. induction s as [|y s IH]; [reflexivity|]. cbn.
    destruct (pair_eqb r y) eqn:E; [apply pair_eqb_eq in E; subst; exfalso; apply Hx; left; reflexivity|].
    apply IH. intros H. apply Hx. right. exact H.
  - destruct (pair_eqb r x) eqn:E; [apply pair_eqb_eq in E; subst; contradiction|].
    apply IH; assumption.
Qed.

(* ------------------------------------------------------------------ *)
(* ins on separated ranges = sorted insertion = row_insert             *)

Definition sep (a b : Z) (s : iset) : Prop := forall x, a - 1 <= x <= b + 1 -> ~ mem x s.

Lemma ins_row_insert : forall s lo a b, canon_from lo s -> a <= b -> sep a b s ->
  row_insert (a, b) s = Some (ins a b s).
Proof.
  induction s as [|[p q] s IH]; intros lo a b Hc Hab Hsep; [reflexivity|].
  cbn in Hc. destruct Hc as (H1 & H2 & H3).
  assert (Hpq : q < a - 1 \/ b + 1 < p).
  { destruct (Z_lt_le_dec q (a - 1)) as [|Hq]; [left; assumption|right].
    destruct (Z_lt_le_dec (b + 1) p) as [|Hp]; [assumption|exfalso].
    (* [p,q] meets [a-1,b+1] *)
    apply (Hsep (Z.max p (a - 1))); [lia|]. cbn. left. lia. }
  cbn [row_insert ins fst snd].
  destruct Hpq as [Hq|Hp].
  - destruct (q + 1 <? a) eqn:E1; [|zb; lia].
    destruct (a =? p) eqn:E2; [zb; lia|]. destruct (a <? p) eqn:E3; [zb; lia|].
    rewrite (IH (q + 2) a b H3 Hab); [reflexivity|].
    intros x Hx Hm. apply (Hsep x Hx). cbn. right. exact Hm.
  - destruct (q + 1 <? a) eqn:E1; [zb; lia|].
    destruct (b + 1 <? p) eqn:E2; [|zb; lia].
    destruct (a =? p) eqn:E3; [zb; lia|]. destruct (a <? p) eqn:E4; [reflexivity|zb; lia].
Qed.

Lemma insert_fold_ok : forall I lo n loI,
  canon_from lo n -> canon_from loI I ->
  (forall r, In r I -> sep (fst r) (snd r) n) ->
  fold_left idb_insert I (Some (n, n)) = Some (ins_all I n, ins_all I n).
Proof.
  induction I as [|[a b] I IH]; intros lo n loI Hn HI Hsep; [reflexivity|].
  cbn in HI. destruct HI as (H1 & H2 & H3).
  cbn [fold_left idb_insert fst snd ins_all].
  rewrite (ins_row_insert n lo a b Hn H2 (Hsep (a, b) (or_introl eq_refl))).
  change (fold_left (fun acc r => ins (fst r) (snd r) acc) I (ins a b n)) with (ins_all I (ins a b n)).
  eapply IH.
  - apply ins_canon; eassumption.
  - exact H3.
  - intros r Hr x Hx Hm. apply ins_mem in Hm; [|exact H2].
    destruct (canon_In_ok _ _ _ H3 Hr) as [Hok Hlo].
    destruct Hm as [Hm|Hm]; [lia|]. eapply (Hsep r (or_intror Hr)); eassumption.
Qed.

(* ------------------------------------------------------------------ *)
(* sorted association lists                                            *)

Lemma keys_sorted_weaken lo lo' (m : list (Z * partial)) :
  lo' <= lo -> keys_sorted lo m = true -> keys_sorted lo' m = true.
Proof.
  destruct m as [|[k w] m]; [reflexivity|]. cbn. rewrite !andb_true_iff, !Z.leb_le. intuition lia.
Qed.

Lemma keys_sorted_filter f : forall (m : list (Z * partial)) lo,
  keys_sorted lo m = true -> keys_sorted lo (filter f m) = true.
Proof.
  induction m as [|[k w] m IH]; intros lo H; [reflexivity|].
  cbn in H. apply andb_true_iff in H as [H1 H2]. cbn [filter].
  destruct (f (k, w)).
  - cbn. rewrite H1. cbn. apply IH; exact H2.
  - eapply keys_sorted_weaken; [|apply IH; exact H2]. zb. lia.
Qed.

Lemma keys_sorted_lower : forall (m : list (Z * partial)) lo v p,
  keys_sorted lo m = true -> aget v m = Some p -> lo <= v.
Proof.
  induction m as [|[k w] m IH]; intros lo v p H Hg; [discriminate|].
  cbn in H, Hg. apply andb_true_iff in H as [H1 H2]. zb.
  destruct (v =? k) eqn:E; [zb; lia|]. specialize (IH _ _ _ H2 Hg). lia.
Qed.

Lemma keys_sorted_aset : forall (m : list (Z * partial)) lo v p,
  keys_sorted lo m = true -> lo <= v -> keys_sorted lo (aset v p m) = true.
Proof.
  induction m as [|[k w] m IH]; intros lo v p H Hv.
  - cbn. apply andb_true_iff. split; [apply Z.leb_le; lia|reflexivity].
  - cbn in H. apply andb_true_iff in H as [H1 H2]. zb. cbn [aset].
    destruct (v =? k) eqn:E1.
    + zb. subst. cbn. rewrite H2. apply andb_true_iff. split; [apply Z.leb_le; lia|reflexivity].
    + destruct (v <? k) eqn:E2.
      * zb. cbn. rewrite !andb_true_iff, !Z.leb_le. repeat split; try lia. exact H2.
      * zb. cbn. rewrite andb_true_iff, Z.leb_le. split; [lia|]. apply IH; [exact H2|lia].
Qed.

Lemma aget_aset_same : forall (m : list (Z * partial)) v p, aget v (aset v p m) = Some p.
Proof.
  induction m as [|[k w] m IH]; intros v p; cbn; [rewrite Z.eqb_refl; reflexivity|].
  destruct (v =? k) eqn:E1; [cbn; rewrite Z.eqb_refl; reflexivity|].
  destruct (v <? k) eqn:E2; cbn; [rewrite Z.eqb_refl; reflexivity|]. rewrite E1. apply IH.
Qed.

Lemma aget_aset_other : forall (m : list (Z * partial)) v u p, u <> v -> aget u (aset v p m) = aget u m.
Proof.
  induction m as [|[k w] m IH]; intros v u p Hne; cbn.
  - destruct (u =? v) eqn:E; [zb; contradiction|reflexivity].
  - destruct (v =? k) eqn:E1.
    + zb. subst. cbn. destruct (u =? k) eqn:E; [zb; contradiction|reflexivity].
    + destruct (v <? k) eqn:E2; cbn.
      * destruct (u =? v) eqn:E; [zb; contradiction|reflexivity].
      * destruct (u =? k); [reflexivity|apply IH; exact Hne].
Qed.

(* with strictly increasing keys, lookup commutes with filter+map *)
Lemma aget_filter_map {B} (g : Z * partial -> bool) (f : Z * partial -> B) :
  forall (m : list (Z * partial)) lo v,
  keys_sorted lo m = true ->
  aget v (map (fun kv => (fst kv, f kv)) (filter g m)) =
  match aget v m with
  | Some p => if g (v, p) then Some (f (v, p)) else None
  | None => None
  end.
Proof.
  induction m as [|[k w] m IH]; intros lo v H; [reflexivity|].
  cbn in H. apply andb_true_iff in H as [H1 H2]. cbn [filter aget].
  destruct (v =? k) eqn:E.
  - zb. subst k. destruct (g (v, w)) eqn:Eg.
    + cbn. rewrite Z.eqb_refl. reflexivity.
    + rewrite (IH (v + 1) v H2).
      destruct (aget v m) as [p'|] eqn:Eget; [|reflexivity].
      apply (keys_sorted_lower _ _ _ _ H2) in Eget. lia.
  - destruct (g (k, w)); [cbn; rewrite E|]; apply (IH (k + 1) v H2).
Qed.

(* ------------------------------------------------------------------ *)
(* the removal fold                                                    *)

Definition keep_not (rr : list (Z * Z)) (t : Z * Z) : bool := negb (existsb (pair_eqb t) rr).

Lemma remove_fold_ok : forall rr N lo p,
  canon_from lo N -> NoDup rr -> (forall t, In t rr -> In t N) ->
  exists p1,
    fold_left idb_remove rr (N, p, N, false) =
      (filter (keep_not rr) N, p1, filter (keep_not rr) N, false) /\
    (forall v q, aget v p1 = Some q -> aget v p = Some q) /\
    (forall l, keys_sorted l p = true -> keys_sorted l p1 = true).
Proof.
  induction rr as [|r rr IH]; intros N lo p Hc Hnd Hsub.
  - exists p. split; [|auto]. cbn [fold_left].
    assert (filter (keep_not []) N = N) as ->; [|reflexivity].
    clear. induction N as [|x N IH]; [reflexivity|cbn; f_equal; exact IH].
  - inversion Hnd as [|? ? Hr Hnd']; subst.
    cbn [fold_left idb_remove].
    assert (In r N) as HrN by (apply Hsub; left; reflexivity).
    unfold row_delete.
    rewrite (filter_count_one N lo r Hc HrN). cbn [Z.of_nat Pos.of_succ_nat Z.eqb Pos.eqb negb orb].
    destruct r as [a b]. cbn [fst snd].
    rewrite (rem_exact N lo a b Hc HrN).
    set (N' := filter (fun x => negb (pair_eqb (a, b) x)) N).
    assert (canon_from lo N') as Hc' by (apply canon_filter; exact Hc).
    destruct (IH N' lo (adel_range a b p) Hc' Hnd') as (p1 & Hf & Hp & Hks).
    { intros t Ht. unfold N'. apply filter_In. split; [apply Hsub; right; exact Ht|].
      apply negb_true_iff, pair_eqb_neq. intros <-. contradiction. }
    exists p1. split; [|split; [|intros l Hl; apply Hks, keys_sorted_filter, Hl]].
    + refine (eq_trans Hf _).
      assert (filter (keep_not rr) N' = filter (keep_not ((a, b) :: rr)) N) as ->; [|reflexivity].
      unfold N'. clear. induction N as [|x N IH]; [reflexivity|].
      cbn [filter]. unfold keep_not at 2. cbn [existsb].
      replace (pair_eqb x (a, b)) with (pair_eqb (a, b) x)
        by (unfold pair_eqb; rewrite (Z.eqb_sym (fst x)), (Z.eqb_sym (snd x)); reflexivity).
      destruct (pair_eqb (a, b) x); cbn [negb orb filter].
      * exact IH.
      * fold (keep_not rr x). destruct (keep_not rr x); [f_equal|]; exact IH.
    + intros v q Hq. specialize (Hp v q Hq).
      clear -Hp. induction p as [|[k w] p IH]; [discriminate|].
      unfold adel_range in Hp. cbn [filter fst] in Hp. cbn [aget].
      destruct ((a <=? k) && (k <=? b)) eqn:E; cbn [negb] in Hp.
      * destruct (v =? k) eqn:Ev; [|apply IH; exact Hp].
        (* v = k was removed: it cannot be found later since keys ... we only need soundness *)
        exfalso. zb. subst k.
        (* aget v (filter ..) = Some q with v filtered everywhere *)
        clear IH. revert Hp. generalize p. intros p0. induction p0 as [|[k' w'] p0 IH0]; [discriminate|].
        cbn [filter fst]. destruct ((a <=? k') && (k' <=? b)) eqn:E'; cbn [negb]; [exact IH0|].
        cbn [aget]. destruct (v =? k') eqn:Ev'; [|exact IH0].
        zb. subst k'. rewrite E in E'. discriminate.
      * cbn [aget] in Hp. destruct (v =? k); [exact Hp|apply IH; exact Hp].
Qed.

(* ------------------------------------------------------------------ *)
(* get on canonical sets                                               *)

Lemma get_In_Some : forall s lo t x, canon_from lo s -> In t s -> inr x t -> get x s = Some t.
Proof.
  intros s lo t x Hc Hin Hx.
  destruct (get x s) as [t'|] eqn:E.
  - apply get_Some in E. destruct E as [Hin' Hx'].
    f_equal. eapply (canon_In_unique s lo t' t x); eauto.
  - apply get_None in E. exfalso. apply E. eapply In_mem; eassumption.
Qed.

(* ------------------------------------------------------------------ *)
(* add_ranges                                                          *)

Lemma add_range_spec (a : acc) (t : Z * Z) : fst t <= snd t ->
  (forall x, mem x (fst (add_range a t)) <-> inr x t \/ mem x (fst a)) /\
  (forall u, In u (snd (add_range a t)) <-> u = t \/ In u (snd a)) /\
  (NoDup (snd a) -> NoDup (snd (add_range a t))) /\
  (canonical (fst a) -> canonical (fst (add_range a t))).
Proof.
  intros Hok. destruct a as [i r]. unfold add_range. cbn [fst snd].
  split; [intros x; apply ins_mem; exact Hok|].
  split.
  - intros u. destruct (existsb (pair_eqb t) r) eqn:E.
    + apply existsb_pair in E. split; [auto|intros [->|H]; assumption].
    + rewrite in_app_iff. cbn. split; [intros [H|[H|[]]]; auto|intros [->|H]; auto].
  - split.
    + intros Hnd. destruct (existsb (pair_eqb t) r) eqn:E; [exact Hnd|].
      assert (~ In t r) as Hn by (intros H; apply existsb_pair in H; congruence).
      clear E. induction r as [|y r IH]; cbn; [constructor; [intros []|constructor]|].
      inversion Hnd; subst. constructor.
      * rewrite in_app_iff. cbn. intros [H|[H|[]]]; [contradiction|subst; apply Hn; left; reflexivity].
      * apply IH; [assumption|]. intros H. apply Hn. right. exact H.
    + apply ins_canonical. exact Hok.
Qed.

Lemma add_ranges_spec : forall (ts : list (Z * Z)) (a : acc),
  (forall t, In t ts -> fst t <= snd t) ->
  (forall x, mem x (fst (add_ranges ts a)) <-> (exists t, In t ts /\ inr x t) \/ mem x (fst a)) /\
  (forall u, In u (snd (add_ranges ts a)) <-> In u ts \/ In u (snd a)) /\
  (NoDup (snd a) -> NoDup (snd (add_ranges ts a))) /\
  (canonical (fst a) -> canonical (fst (add_ranges ts a))).
Proof.
  induction ts as [|t ts IH]; intros a Hok.
  - cbn. repeat split; try tauto. intros [(t & [] & _)|H]; exact H.
  - cbn [add_ranges fold_left].
    change (fold_left add_range ts (add_range a t)) with (add_ranges ts (add_range a t)).
    destruct (add_range_spec a t (Hok t (or_introl eq_refl))) as (S1 & S2 & S3 & S4).
    destruct (IH (add_range a t) (fun u Hu => Hok u (or_intror Hu))) as (I1 & I2 & I3 & I4).
    split; [|split; [|split]].
    + intros x. rewrite I1, S1. split.
      * intros [(u & Hu & Hx)|[Hx|Hx]]; [left; exists u; split; [right|]; assumption
                                         |left; exists t; split; [left; reflexivity|exact Hx]|right; exact Hx].
      * intros [(u & [<-|Hu] & Hx)|Hx]; [right; left; exact Hx|left; exists u; tauto|right; right; exact Hx].
    + intros u. rewrite I2, S2. cbn. intuition (subst; auto).
    + intros H. apply I3, S3, H.
    + intros H. apply I4, S4, H.
Qed.

(* ------------------------------------------------------------------ *)
(* compute_gaps_change                                                 *)

Section Gaps.
  Variable b : bv.
  Let N := needed b.
  Let M := max0 (maxv b).
  Hypothesis HcN : canonical N.

  (* range t of N is selected by the inserted range v *)
  Definition sel (t v : Z * Z) : Prop :=
    (fst t <= snd v + 1 /\ fst v - 1 <= snd t) \/
    (M + 1 < fst v /\ fst t <= fst v /\ M + 1 <= snd t).

  Definition gapx (x : Z) (v : Z * Z) : Prop := M + 1 < fst v /\ M + 1 <= x <= fst v.

  Definition GInv (vs1 : list (Z * Z)) (st : option Z * acc) : Prop :=
    let '(mx, (i, r)) := st in
    canonical i /\ NoDup r /\
    (forall t, In t r <-> In t N /\ exists v, In v vs1 /\ sel t v) /\
    (forall x, mem x i <-> (exists t, In t r /\ inr x t) \/ exists v, In v vs1 /\ gapx x v) /\
    max0 (maxv b) <= max0 mx /\ (forall v, In v vs1 -> snd v <= max0 mx) /\
    (mx = None -> maxv b = None /\ vs1 = []) /\
    (forall z, max0 (maxv b) <= z -> (forall v, In v vs1 -> snd v <= z) -> max0 mx <= z).

  Lemma N_ok t : In t N -> fst t <= snd t.
  Proof. apply canonical_In_ok. exact HcN. Qed.

  Lemma gaps_step_inv vs1 st v :
    1 <= fst v <= snd v -> GInv vs1 st -> GInv (vs1 ++ [v]) (gaps_step b st v).
  Proof.
    destruct st as [mx [i r]]. destruct v as [s e]. cbn [fst snd]. intros [Hs1 Hse] (Hci & Hnd & Hr & Hi & Hm1 & Hm2 & Hm3 & Hm4).
    unfold gaps_step.
    fold N. fold M.
    set (a0 := (i, r)).
    set (a1 := add_ranges (overlapping s e N) a0).
    set (a2 := add_ranges (opt_list (get (s - 1) N)) a1).
    set (a3 := add_ranges (opt_list (get (e + 1) N)) a2).
    assert (Hov : forall p q t, In t (overlapping p q N) -> fst t <= snd t)
      by (intros p q t Ht; apply overlapping_In in Ht; apply N_ok; tauto).
    assert (Hgt : forall z t, In t (opt_list (get z N)) -> fst t <= snd t).
    { intros z t Ht. destruct (get z N) eqn:E; cbn in Ht; [|destruct Ht].
      destruct Ht as [<-|[]]. apply get_Some in E. apply N_ok; tauto. }
    destruct (add_ranges_spec (overlapping s e N) a0 (Hov s e)) as (A1 & B1 & C1 & D1).
    destruct (add_ranges_spec (opt_list (get (s - 1) N)) a1 (Hgt (s - 1))) as (A2 & B2 & C2 & D2).
    destruct (add_ranges_spec (opt_list (get (e + 1) N)) a2 (Hgt (e + 1))) as (A3 & B3 & C3 & D3).
    fold a1 in A1, B1, C1, D1. fold a2 in A2, B2, C2, D2. fold a3 in A3, B3, C3, D3.
    destruct HcN as [lo HcN'].
    (* membership of t in the three lookups <-> t in N within distance 1 of [s,e] *)
    assert (Hnear : forall t, (In t (overlapping s e N) \/ In t (opt_list (get (s - 1) N)) \/
                               In t (opt_list (get (e + 1) N)))
                              <-> In t N /\ fst t <= e + 1 /\ s - 1 <= snd t).
    { intros t. split.
      - intros [H|[H|H]].
        + apply overlapping_In in H. intuition lia.
        + destruct (get (s - 1) N) eqn:E; cbn in H; [|destruct H]. destruct H as [<-|[]].
          apply get_Some in E. unfold inr in *. intuition lia.
        + destruct (get (e + 1) N) eqn:E; cbn in H; [|destruct H]. destruct H as [<-|[]].
          apply get_Some in E. unfold inr in *. intuition lia.
      - intros (HtN & H1 & H2). pose proof (N_ok t HtN) as Hok.
        destruct (Z_le_gt_dec (fst t) e) as [Hfe|Hfe].
        + destruct (Z_le_gt_dec s (snd t)) as [Hst|Hst].
          * left. apply overlapping_In. tauto.
          * right; left. rewrite (get_In_Some N lo t (s - 1) HcN' HtN) by (unfold inr; lia).
            left; reflexivity.
        + right; right. rewrite (get_In_Some N lo t (e + 1) HcN' HtN) by (unfold inr; lia).
          left; reflexivity. }
    assert (Hm1' : max0 (maxv b) <= max0 (omax mx e)).
    { destruct mx as [m|]; cbn [omax max0] in *; [lia|].
      destruct (Hm3 eq_refl) as [Hb _]. rewrite Hb. cbn. lia. }
    assert (Hm2' : forall v, In v (vs1 ++ [(s, e)]) -> snd v <= max0 (omax mx e)).
    { intros v Hv. apply in_app_iff in Hv. destruct Hv as [Hv|[<-|[]]].
      - specialize (Hm2 v Hv). destruct mx; cbn [omax max0] in *; [lia|].
        destruct (Hm3 eq_refl) as [_ Hv0]. subst vs1. destruct Hv.
      - destruct mx; cbn [omax max0 snd]; lia. }
    assert (Hm3' : omax mx e = None -> maxv b = None /\ vs1 ++ [(s, e)] = [])
      by (destruct mx; discriminate).
    assert (Hm4' : forall z, max0 (maxv b) <= z -> (forall v, In v (vs1 ++ [(s, e)]) -> snd v <= z) ->
                             max0 (omax mx e) <= z).
    { intros z Hz Hall.
      assert (max0 mx <= z) by (apply Hm4; [exact Hz|intros v Hv; apply Hall, in_app_iff; left; exact Hv]).
      assert (e <= z) by (apply (Hall (s, e)), in_app_iff; right; left; reflexivity).
      destruct mx; cbn [omax max0] in *; lia. }
    destruct (M + 1 <? s) eqn:Eg.
    - (* a gap range [M+1, s] is added *)
      zb.
      set (a3' := (ins (M + 1) s (fst a3), snd a3)).
      destruct (add_ranges_spec (overlapping (M + 1) s N) a3' (Hov (M + 1) s)) as (A4 & B4 & C4 & D4).
      set (a4 := add_ranges (overlapping (M + 1) s N) a3') in *.
      destruct a4 as [i4 r4] eqn:Ea4. cbn [fst snd] in A4, B4, C4, D4.
      unfold GInv. split; [|split; [|split; [intros t; split; [intros Ht0; split; revert Ht0|]|split; [intros x; split|split; [|split; [|split; [intros H; split|]]]]]]].
      + apply D4. unfold a3'. cbn [fst]. apply ins_canonical; [lia|]. apply D3, D2, D1. exact Hci.
      + apply C4. unfold a3'. cbn [snd]. apply C3, C2, C1. exact Hnd.
      + (* r4 -> *)
        intros Ht. apply B4 in Ht. unfold a3' in Ht. cbn [snd] in Ht.
        destruct Ht as [Ht|Ht].
        * apply overlapping_In in Ht. tauto.
        * apply B3 in Ht. destruct Ht as [Ht|Ht]; [apply (proj1 (Hnear t)); tauto|].
          apply B2 in Ht. destruct Ht as [Ht|Ht]; [apply (proj1 (Hnear t)); tauto|].
          apply B1 in Ht. destruct Ht as [Ht|Ht]; [apply (proj1 (Hnear t)); tauto|].
          apply Hr in Ht. tauto.
      + intros Ht. apply B4 in Ht. unfold a3' in Ht. cbn [snd] in Ht.
        assert (Hsel : In t N /\ fst t <= e + 1 /\ s - 1 <= snd t -> exists v, In v (vs1 ++ [(s, e)]) /\ sel t v).
        { intros (_ & H1 & H2). exists (s, e). split; [apply in_app_iff; right; left; reflexivity|].
          left. cbn. lia. }
        destruct Ht as [Ht|Ht].
        * apply overlapping_In in Ht. exists (s, e). split; [apply in_app_iff; right; left; reflexivity|].
          right. cbn. fold M. lia.
        * apply B3 in Ht. destruct Ht as [Ht|Ht]; [apply Hsel, (proj1 (Hnear t)); tauto|].
          apply B2 in Ht. destruct Ht as [Ht|Ht]; [apply Hsel, (proj1 (Hnear t)); tauto|].
          apply B1 in Ht. destruct Ht as [Ht|Ht]; [apply Hsel, (proj1 (Hnear t)); tauto|].
          apply Hr in Ht. destruct Ht as (_ & v & Hv & Hs). exists v. split; [apply in_app_iff; left; exact Hv|exact Hs].
      + intros (HtN & v & Hv & Hs). apply B4. unfold a3'. cbn [snd].
        apply in_app_iff in Hv. destruct Hv as [Hv|[<-|[]]].
        * right. apply B3. right. apply B2. right. apply B1. right. apply Hr. split; [exact HtN|]. exists v. tauto.
        * destruct Hs as [Hs|Hs]; cbn [fst snd] in Hs.
          -- right. assert (Hn := proj2 (Hnear t) (conj HtN Hs)).
             apply B3. destruct Hn as [Hn|[Hn|Hn]]; [right; apply B2; right; apply B1; left; exact Hn
                                                   |right; apply B2; left; exact Hn|left; exact Hn].
          -- left. apply overlapping_In. fold M in Hs. intuition lia.
      + (* i4 -> *)
        intros Hx. apply A4 in Hx. unfold a3' in Hx. cbn [fst] in Hx.
        destruct Hx as [(t & Ht & Hx)|Hx].
        * left. exists t. split; [apply B4; left; exact Ht|exact Hx].
        * apply ins_mem in Hx; [|lia]. destruct Hx as [Hx|Hx].
          -- right. exists (s, e). split; [apply in_app_iff; right; left; reflexivity|]. unfold gapx. cbn. fold M. lia.
          -- apply A3 in Hx. destruct Hx as [(t & Ht & Hx)|Hx];
               [left; exists t; split; [apply B4; right; apply B3; left; exact Ht|exact Hx]|].
             apply A2 in Hx. destruct Hx as [(t & Ht & Hx)|Hx];
               [left; exists t; split; [apply B4; right; apply B3; right; apply B2; left; exact Ht|exact Hx]|].
             apply A1 in Hx. destruct Hx as [(t & Ht & Hx)|Hx];
               [left; exists t; split; [apply B4; right; apply B3; right; apply B2; right; apply B1; left; exact Ht|exact Hx]|].
             unfold a0 in Hx. cbn [fst] in Hx. apply Hi in Hx. destruct Hx as [(t & Ht & Hx)|(v & Hv & Hx)].
             ++ left. exists t. split; [|exact Hx].
                apply B4; right; apply B3; right; apply B2; right; apply B1; right. exact Ht.
             ++ right. exists v. split; [apply in_app_iff; left; exact Hv|exact Hx].
      + intros [(t & Ht & Hx)|(v & Hv & Hx)]; apply A4; unfold a3'; cbn [fst].
        * apply B4 in Ht. unfold a3' in Ht. cbn [snd] in Ht. destruct Ht as [Ht|Ht]; [left; exists t; tauto|].
          right. apply ins_mem; [lia|]. right.
          apply A3. apply B3 in Ht. destruct Ht as [Ht|Ht]; [left; exists t; tauto|]. right.
          apply A2. apply B2 in Ht. destruct Ht as [Ht|Ht]; [left; exists t; tauto|]. right.
          apply A1. apply B1 in Ht. destruct Ht as [Ht|Ht]; [left; exists t; tauto|]. right.
          unfold a0. cbn [fst]. apply Hi. left. exists t. tauto.
        * right. apply ins_mem; [lia|].
          apply in_app_iff in Hv. destruct Hv as [Hv|[<-|[]]].
          -- right. apply A3; right; apply A2; right; apply A1; right. unfold a0. cbn [fst].
             apply Hi. right. exists v. tauto.
          -- left. unfold gapx in Hx. cbn in Hx. fold M in Hx. lia.
      + exact Hm1'.
      + exact Hm2'.
      + apply (proj1 (Hm3' H)).
      + apply (proj2 (Hm3' H)).
      + exact Hm4'.
    - (* no gap range *)
      zb.
      destruct a3 as [i3 r3] eqn:Ea3. cbn [fst snd] in A3, B3, C3, D3.
      unfold GInv. split; [|split; [|split; [intros t; split; [intros Ht0; split; revert Ht0|]|split; [intros x; split|split; [|split; [|split; [intros H; split|]]]]]]].
      + apply D3, D2, D1. exact Hci.
      + apply C3, C2, C1. exact Hnd.
      + intros Ht.
        apply B3 in Ht. destruct Ht as [Ht|Ht]; [apply (proj1 (Hnear t)); tauto|].
        apply B2 in Ht. destruct Ht as [Ht|Ht]; [apply (proj1 (Hnear t)); tauto|].
        apply B1 in Ht. destruct Ht as [Ht|Ht]; [apply (proj1 (Hnear t)); tauto|].
        apply Hr in Ht. tauto.
      + intros Ht.
        assert (Hsel : In t N /\ fst t <= e + 1 /\ s - 1 <= snd t -> exists v, In v (vs1 ++ [(s, e)]) /\ sel t v).
        { intros (_ & H1 & H2). exists (s, e). split; [apply in_app_iff; right; left; reflexivity|].
          left. cbn. lia. }
        apply B3 in Ht. destruct Ht as [Ht|Ht]; [apply Hsel, (proj1 (Hnear t)); tauto|].
        apply B2 in Ht. destruct Ht as [Ht|Ht]; [apply Hsel, (proj1 (Hnear t)); tauto|].
        apply B1 in Ht. destruct Ht as [Ht|Ht]; [apply Hsel, (proj1 (Hnear t)); tauto|].
        apply Hr in Ht. destruct Ht as (_ & v & Hv & Hs). exists v. split; [apply in_app_iff; left; exact Hv|exact Hs].
      + intros (HtN & v & Hv & Hs).
        apply in_app_iff in Hv. destruct Hv as [Hv|[<-|[]]].
        * apply B3. right. apply B2. right. apply B1. right. apply Hr. split; [exact HtN|]. exists v. tauto.
        * destruct Hs as [Hs|Hs]; cbn [fst snd] in Hs; [|fold M in Hs; lia].
          assert (Hn := proj2 (Hnear t) (conj HtN Hs)).
          apply B3. destruct Hn as [Hn|[Hn|Hn]]; [right; apply B2; right; apply B1; left; exact Hn
                                                |right; apply B2; left; exact Hn|left; exact Hn].
      + intros Hx.
        apply A3 in Hx. destruct Hx as [(t & Ht & Hx)|Hx];
          [left; exists t; split; [apply B3; left; exact Ht|exact Hx]|].
        apply A2 in Hx. destruct Hx as [(t & Ht & Hx)|Hx];
          [left; exists t; split; [apply B3; right; apply B2; left; exact Ht|exact Hx]|].
        apply A1 in Hx. destruct Hx as [(t & Ht & Hx)|Hx];
          [left; exists t; split; [apply B3; right; apply B2; right; apply B1; left; exact Ht|exact Hx]|].
        unfold a0 in Hx. cbn [fst] in Hx. apply Hi in Hx. destruct Hx as [(t & Ht & Hx)|(v & Hv & Hx)].
        * left. exists t. split; [|exact Hx]. apply B3; right; apply B2; right; apply B1; right. exact Ht.
        * right. exists v. split; [apply in_app_iff; left; exact Hv|exact Hx].
      + intros [(t & Ht & Hx)|(v & Hv & Hx)].
        * apply A3. apply B3 in Ht. destruct Ht as [Ht|Ht]; [left; exists t; tauto|]. right.
          apply A2. apply B2 in Ht. destruct Ht as [Ht|Ht]; [left; exists t; tauto|]. right.
          apply A1. apply B1 in Ht. destruct Ht as [Ht|Ht]; [left; exists t; tauto|]. right.
          unfold a0. cbn [fst]. apply Hi. left. exists t. tauto.
        * apply in_app_iff in Hv. destruct Hv as [Hv|[<-|[]]].
          -- apply A3; right; apply A2; right; apply A1; right. unfold a0. cbn [fst].
             apply Hi. right. exists v. tauto.
          -- unfold gapx in Hx. cbn in Hx. fold M in Hx. lia.
      + exact Hm1'.
      + exact Hm2'.
      + apply (proj1 (Hm3' H)).
      + apply (proj2 (Hm3' H)).
      + exact Hm4'.
  Qed.

  Lemma gaps_fold_inv : forall vs vs0 st,
    Forall (fun v => 1 <= fst v <= snd v) vs ->
    GInv vs0 st -> GInv (vs0 ++ vs) (fold_left (gaps_step b) vs st).
  Proof.
    induction vs as [|v vs IH]; intros vs0 st Hok Hinv; cbn [fold_left].
    - rewrite app_nil_r. exact Hinv.
    - inversion Hok; subst.
      replace (vs0 ++ v :: vs) with ((vs0 ++ [v]) ++ vs) by (rewrite <- app_assoc; reflexivity).
      apply IH; [assumption|]. apply gaps_step_inv; assumption.
  Qed.

  Lemma GInv_init : GInv [] (maxv b, ([], [])).
  Proof.
    unfold GInv.
    split; [apply canonical_nil|]. split; [constructor|].
    split; [intros t; split; [intros []|intros (_ & v & [] & _)]|].
    split; [intros x; split; [intros []|intros [(t & [] & _)|(v & [] & _)]]|].
    split; [lia|]. split; [intros v []|]. split; [intros H; split; [exact H|reflexivity]|].
    intros z Hz _. exact Hz.
  Qed.
End Gaps.

(* ------------------------------------------------------------------ *)
(* the invariant and the main theorem about insert_db                  *)

Record Inv (b : bv) (rs : rows) : Prop := mkInv {
  inv_canon : canonical (needed b);
  inv_rows : rs = needed b;
  inv_max : 0 <= max0 (maxv b);
  inv_range : forall x, mem x (needed b) -> 1 <= x < max0 (maxv b);
  inv_part : forall v p, aget v (partials b) = Some p ->
             1 <= v <= max0 (maxv b) /\ ~ mem v (needed b);
  inv_keys : keys_sorted 1 (partials b) = true }.

Definition wf_vs (vs : iset) : Prop := canonical vs /\ Forall (fun v => 1 <= fst v) vs.

Lemma wf_vs_ranges vs : wf_vs vs -> Forall (fun v => 1 <= fst v <= snd v) vs.
Proof.
  intros [Hc H1]. rewrite Forall_forall in *. intros v Hv. split; [apply H1, Hv|].
  eapply canonical_In_ok; eassumption.
Qed.

Lemma mem_filter_keep rr N x :
  mem x (filter (keep_not rr) N) <-> exists u, In u N /\ ~ In u rr /\ inr x u.
Proof.
  rewrite mem_iff_In. split.
  - intros (u & Hu & Hx). apply filter_In in Hu. destruct Hu as [Hu Hk].
    exists u. split; [exact Hu|]. split; [|exact Hx]. intros Hr. unfold keep_not in Hk.
    apply negb_true_iff in Hk. apply existsb_pair in Hr. congruence.
  - intros (u & Hu & Hn & Hx). exists u. split; [|exact Hx]. apply filter_In. split; [exact Hu|].
    unfold keep_not. apply negb_true_iff. destruct (existsb (pair_eqb u) rr) eqn:E; [|reflexivity].
    apply existsb_pair in E. contradiction.
Qed.

Lemma gap_sel b x u v : gapx b x v -> inr x u -> sel b u v.
Proof. unfold gapx, inr, sel. intros. right. lia. Qed.

Theorem insert_db_ok b rs vs : Inv b rs -> wf_vs vs ->
  exists b',
    insert_db b rs vs = IdbOk b' (needed b') false /\
    Inv b' (needed b') /\
    (forall x, mem x (needed b') <->
               (mem x (needed b) \/ exists v, In v vs /\ gapx b x v) /\ ~ mem x vs) /\
    max0 (maxv b) <= max0 (maxv b') /\
    (forall v, In v vs -> snd v <= max0 (maxv b')) /\
    (forall v p, aget v (partials b') = Some p -> aget v (partials b) = Some p) /\
    (forall z, max0 (maxv b) <= z -> (forall v, In v vs -> snd v <= z) -> max0 (maxv b') <= z).
Proof.
  intros [HcN Hrows HM Hrange Hpart Hkeys] Hwf.
  pose proof (wf_vs_ranges vs Hwf) as Hvs. destruct Hwf as [Hcvs Hvs1].
  unfold insert_db, compute_gaps_change.
  pose proof (gaps_fold_inv b HcN vs [] (maxv b, ([], [])) Hvs (GInv_init b)) as HG.
  cbn [app] in HG.
  destruct (fold_left (gaps_step b) vs (maxv b, ([], []))) as [mx [i r]].
  destruct HG as (Hci & Hnd & Hr & Hi & Hm1 & Hm2 & Hm3 & Hm4).
  set (N := needed b) in *. set (M := max0 (maxv b)) in *.
  destruct HcN as [lo HcN'].
  assert (HcNc : canonical N) by (exists lo; exact HcN').
  (* removal phase *)
  subst rs.
  destruct (remove_fold_ok r N lo (partials b) HcN' Hnd (fun t Ht => proj1 (proj1 (Hr t) Ht)))
    as (p1 & Hrem & Hp1 & Hks1).
  match goal with |- context [fold_left idb_remove r ?st] =>
    replace (fold_left idb_remove r st)
      with (filter (keep_not r) N, p1, filter (keep_not r) N, false) by (symmetry; exact Hrem) end.
  set (n1 := filter (keep_not r) N).
  assert (Hcn1 : canon_from lo n1) by (apply canon_filter; exact HcN').
  (* insertion phase *)
  assert (Hokvs : ranges_ok vs).
  { unfold ranges_ok. rewrite Forall_forall in *. intros v Hv. specialize (Hvs v Hv). lia. }
  set (I := rem_all vs i).
  assert (HcI : canonical I) by (apply rem_all_canonical; assumption).
  assert (HmI : forall x, mem x I <-> mem x i /\ ~ mem x vs) by (intros x; apply rem_all_mem; assumption).
  assert (Huniq : forall u w x, In u N -> In w N -> inr x u -> inr x w -> u = w)
    by (intros u w x Hu Hw Hxu Hxw; eapply (canon_In_unique N lo u w x); eauto).
  assert (Hnear : forall u w x y, In u N -> In w N -> inr x u -> inr y w -> x <= y <= x + 1 -> u = w)
    by (intros; eapply (canon_near_eq N lo); eauto).
  assert (Hsel_r : forall u v, In u N -> In v vs -> sel b u v -> In u r)
    by (intros u v Hu Hv Hs; apply Hr; split; [exact Hu|exists v; tauto]).
  (* a point of i lying in a range u of N that is not selected is impossible *)
  assert (Hcontra : forall x u, mem x i -> In u N -> ~ In u r -> inr x u -> False).
  { intros x u Hxi Hu Hnr Hxu. apply Hi in Hxi. destruct Hxi as [(w & Hw & Hxw)|(v & Hv & Hg)].
    - assert (u = w) by (apply (Huniq u w x); try assumption; apply Hr in Hw; tauto). subst. contradiction.
    - apply Hnr. eapply Hsel_r; [exact Hu|exact Hv|]. eapply gap_sel; eassumption. }
  assert (Hsep : forall t, In t I -> sep (fst t) (snd t) n1).
  { intros [a c] HtI x Hx Hmx. cbn [fst snd] in Hx.
    apply mem_filter_keep in Hmx. destruct Hmx as (u & Hu & Hnr & Hxu).
    destruct HcI as [loI HcI'].
    destruct (canon_In_ok _ _ _ HcI' HtI) as [Hac _]. cbn [fst snd] in Hac.
    destruct (canon_edges I loI (a, c) HcI' HtI) as [Hea Hec]. cbn [fst snd] in Hea, Hec.
    assert (Hin : forall y, a <= y <= c -> mem y I) by (intros y Hy; eapply In_mem; [exact HtI|exact Hy]).
    destruct (Z_lt_le_dec x a) as [Hxa|Hxa]; [|destruct (Z_le_gt_dec x c) as [Hxc|Hxc]].
    - (* x = a - 1 *)
      assert (x = a - 1) by lia. subst x.
      pose proof (proj1 (HmI a) (Hin a ltac:(lia))) as [Hai Hav].
      apply Hi in Hai. destruct Hai as [(w & Hw & Haw)|(v & Hv & Hg)].
      + assert (u = w) by (apply (Hnear u w (a - 1) a); try assumption; [apply Hr in Hw; tauto|lia]).
        subst. contradiction.
      + destruct (Z_le_gt_dec (M + 1) (a - 1)) as [Hge|Hlt].
        * apply Hnr. eapply Hsel_r; [exact Hu|exact Hv|]. apply (gap_sel b (a - 1)); [|exact Hxu].
          unfold gapx in *. fold M in Hg |- *. lia.
        * unfold gapx in Hg. fold M in Hg. assert (a - 1 = M) by lia.
          assert (mem (a - 1) N) as HmN by (eapply In_mem; eassumption).
          apply Hrange in HmN. fold M in HmN. lia.
    - (* inside *)
      pose proof (proj1 (HmI x) (Hin x ltac:(lia))) as [Hxi _].
      eapply Hcontra; eassumption.
    - (* x = c + 1 *)
      assert (x = c + 1) by lia. subst x.
      pose proof (proj1 (HmI c) (Hin c ltac:(lia))) as [Hcii Hcv].
      apply Hi in Hcii. destruct Hcii as [(w & Hw & Hcw)|(v & Hv & Hg)].
      + assert (w = u) by (apply (Hnear w u c (c + 1)); try assumption; [apply Hr in Hw; tauto|lia]).
        subst. contradiction.
      + rewrite Forall_forall in Hvs. specialize (Hvs v Hv).
        assert (c <> fst v).
        { intros ->. apply Hcv. eapply In_mem; [exact Hv|]. lia. }
        apply Hnr. eapply Hsel_r; [exact Hu|exact Hv|]. apply (gap_sel b (c + 1)); [|exact Hxu].
        unfold gapx in *. fold M in Hg |- *. lia. }
  destruct HcI as [loI HcI'].
  pose proof (insert_fold_ok I lo n1 loI Hcn1 HcI' Hsep) as Hins.
  match goal with |- context [fold_left idb_insert ?l ?st] =>
    replace (fold_left idb_insert l st)
      with (Some (ins_all I n1, ins_all I n1)) by (symmetry; exact Hins) end.
  set (n2 := ins_all I n1).
  assert (HokI : ranges_ok I) by (eapply canon_ranges_ok; exact HcI').
  assert (Hmn2 : forall x, mem x n2 <-> mem x I \/ mem x n1) by (intros x; apply ins_all_mem; exact HokI).
  exists (mkBv n2 p1 mx). cbn [needed partials maxv].
  split; [reflexivity|].
  assert (Hspec : forall x, mem x n2 <-> (mem x N \/ exists v, In v vs /\ gapx b x v) /\ ~ mem x vs).
  { intros x. rewrite Hmn2. split.
    - intros [HxI|Hxn].
      + apply HmI in HxI. destruct HxI as [Hxi Hxv]. split; [|exact Hxv].
        apply Hi in Hxi. destruct Hxi as [(w & Hw & Hxw)|Hg]; [left|right; exact Hg].
        eapply In_mem; [|exact Hxw]. apply Hr in Hw. tauto.
      + apply mem_filter_keep in Hxn. destruct Hxn as (u & Hu & Hnr & Hxu).
        split; [left; eapply In_mem; eassumption|].
        intros Hxv. apply mem_In in Hxv. destruct Hxv as (v & Hv & Hxv').
        apply Hnr. eapply Hsel_r; [exact Hu|exact Hv|]. unfold sel, inr in *. left. lia.
    - intros [[HxN|Hg] Hnv].
      + apply mem_In in HxN. destruct HxN as (u & Hu & Hxu).
        assert (In u r \/ ~ In u r) as [Hur|Hur].
        { destruct (existsb (pair_eqb u) r) eqn:E; [left; apply existsb_pair; exact E|right].
          intros H. apply existsb_pair in H. congruence. }
        * left. apply HmI. split; [|exact Hnv]. apply Hi. left. exists u. exact (conj Hur Hxu).
        * right. apply mem_filter_keep. exists u. exact (conj Hu (conj Hur Hxu)).
      + left. apply HmI. split; [|exact Hnv]. apply Hi. right. exact Hg. }
  assert (Hrange' : forall x, mem x n2 -> 1 <= x < max0 mx).
  { intros x Hx. apply Hspec in Hx. destruct Hx as [[HxN|(v & Hv & Hg)] Hnv].
    - apply Hrange in HxN. fold M in HxN. lia.
    - pose proof (Hm2 v Hv). rewrite Forall_forall in Hvs. specialize (Hvs v Hv).
      unfold gapx in Hg. fold M in Hg.
      assert (x <> fst v) by (intros ->; apply Hnv; eapply In_mem; [exact Hv|lia]). lia. }
  split; [|split; [exact Hspec|split; [exact Hm1|split; [exact Hm2|split; [exact Hp1|exact Hm4]]]]].
  - constructor; cbn [needed partials maxv].
    + unfold n2. apply ins_all_canonical; [exact HokI|exists lo; exact Hcn1].
    + reflexivity.
    + lia.
    + exact Hrange'.
    + intros v q Hq. apply Hp1 in Hq. apply Hpart in Hq. fold M N in Hq. destruct Hq as [Hv1 Hv2].
      split; [lia|]. intros Hm. apply Hspec in Hm. destruct Hm as [[HvN|(w & Hw & Hg)] _]; [contradiction|].
      unfold gapx in Hg. fold M in Hg. lia.
    + apply Hks1, Hkeys.
Qed.

(* ------------------------------------------------------------------ *)
(* reachable states of the bookkeeping                                 *)
From Corro Require Import Model.SeqRows Model.BookOps.

Lemma Inv_init : Inv bv_empty [].
Proof.
  constructor; cbn.
  - apply canonical_nil.
  - reflexivity.
  - lia.
  - intros x [].
  - intros v p H. discriminate.
  - reflexivity.
Qed.

Lemma canonical_fst_ge s k : canonical s -> (forall x, mem x s -> k <= x) -> Forall (fun v => k <= fst v) s.
Proof.
  intros Hc Hm. apply Forall_forall. intros t Ht. apply Hm.
  eapply In_mem; [exact Ht|]. pose proof (canonical_In_ok s t Hc Ht). lia.
Qed.

Lemma insert_partial_inv b rs v p :
  Inv b rs -> 1 <= v <= max0 (maxv b) -> ~ mem v (needed b) ->
  Inv (fst (insert_partial b v p)) rs.
Proof.
  intros [HcN Hrows HM Hrange Hpart Hkeys] Hv Hnm. unfold insert_partial.
  assert (Hmax : max0 (omax (maxv b) v) = max0 (maxv b)).
  { destruct (maxv b) as [m|]; cbn in *; lia. }
  destruct (aget v (partials b)) as [got|] eqn:Eg; cbn [fst]; constructor; cbn [needed partials maxv];
    try assumption; try (rewrite Hmax; assumption).
  - intros u q Hq. destruct (Z.eq_dec u v) as [->|Hne]; [split; assumption|].
    rewrite aget_aset_other in Hq by exact Hne. apply Hpart in Hq. exact Hq.
  - apply keys_sorted_aset; [exact Hkeys|lia].
  - intros u q Hq. rewrite Hmax. destruct (Z.eq_dec u v) as [->|Hne]; [split; assumption|].
    rewrite aget_aset_other in Hq by exact Hne. apply Hpart in Hq. exact Hq.
  - apply keys_sorted_aset; [exact Hkeys|lia].
Qed.

Definition op_ok (op : bop) : Prop :=
  match op with
  | OpInsert raw => Forall (fun r => 1 <= fst r <= snd r) raw
  | OpPartial v s e last => 1 <= v /\ 0 <= s <= e
  | OpReload => False
  end.

Definition out_fine (o : bout) : Prop :=
  match o with OutIdbErr | OutBadDelete => False | _ => True end.

Lemma bstep_inv st op :
  Inv (st_bv st) (st_rows st) -> op_ok op ->
  Inv (st_bv (fst (bstep st op))) (st_rows (fst (bstep st op))) /\ out_fine (snd (bstep st op)).
Proof.
  intros HI Hop. destruct op as [raw|v s e last|]; [| |destruct Hop]; cbn [bstep].
  - cbn in Hop.
    assert (Hokraw : ranges_ok raw).
    { unfold ranges_ok. rewrite Forall_forall in *. intros r Hr. specialize (Hop r Hr). lia. }
    assert (Hwf : wf_vs (ins_all raw [])).
    { split; [apply norm_canonical; exact Hokraw|].
      apply canonical_fst_ge; [apply norm_canonical; exact Hokraw|].
      intros x Hx. apply (norm_mem raw x Hokraw) in Hx. apply mem_In in Hx.
      destruct Hx as (t & Ht & Hx). rewrite Forall_forall in Hop. specialize (Hop t Ht). lia. }
    destruct (insert_db_ok _ _ _ HI Hwf) as (b' & Heq & HI' & _).
    rewrite Heq. cbn. split; [exact HI'|exact I].
  - cbn in Hop. destruct Hop as [Hv Hse].
    destruct (incomplete_rows _ s e last) as [rows' seqs| |]; cbn; try (split; [exact HI|exact I]).
    assert (Hwf : wf_vs [(v, v)]).
    { split; [exists v; cbn; lia|constructor; [cbn; lia|constructor]]. }
    destruct (insert_db_ok _ _ _ HI Hwf) as (b' & Heq & HI' & Hspec & Hm1 & Hm2 & _).
    rewrite Heq.
    assert (Hvle : 1 <= v <= max0 (maxv b')) by (specialize (Hm2 (v, v) (or_introl eq_refl)); cbn in Hm2; lia).
    assert (Hvn : ~ mem v (needed b')) by (intros Hm; apply Hspec in Hm; destruct Hm as [_ Hn]; apply Hn; cbn; lia).
    pose proof (insert_partial_inv b' (needed b') v (mkPartial seqs last) HI' Hvle Hvn) as HI''.
    destruct (insert_partial b' v (mkPartial seqs last)) as [b'' q]. cbn in *. split; [exact HI''|exact I].
Qed.

Theorem bruns_inv : forall ops st,
  Inv (st_bv st) (st_rows st) -> Forall op_ok ops ->
  Forall (fun r => Inv (st_bv (fst r)) (st_rows (fst r)) /\ out_fine (snd r)) (bruns st ops).
Proof.
  induction ops as [|op ops IH]; intros st HI Hops; [constructor|].
  inversion Hops; subst. cbn [bruns].
  destruct (bstep_inv st op HI ltac:(assumption)) as [HI' Ho].
  constructor; [split; assumption|]. apply IH; assumption.
Qed.

(* ------------------------------------------------------------------ *)
(* what generate_sync advertises is the exact partition                *)

Lemma is_complete_fully p : Gen.Consts.partial_full_range_start = 0 -> is_complete p = fully_buffered p.
Proof. intros H. unfold is_complete, fully_buffered. rewrite H. reflexivity. Qed.

Theorem adv_exact b rs v :
  Gen.Consts.partial_full_range_start = 0 ->
  Inv b rs -> 1 <= v ->
  adv_class (sync_actor b) v = classify b v /\
  (classify b v = PartialC ->
   exists p, aget v (partials b) = Some p /\
     exists a, sync_actor b = Some a /\
       aget v (a_partial a) = Some (gaps 0 (p_last p) (p_seqs p))).
Proof.
  intros Hfr [HcN Hrows HM Hrange Hpart Hkeys] Hv.
  unfold sync_actor, classify, adv_class.
  destruct (maxv b) as [head|] eqn:Emax; cbn [max0 a_head a_need a_partial].
  - pose proof (aget_filter_map (B := list (Z * Z)) (fun kv => negb (is_complete (snd kv)))
                  (fun kv => gaps 0 (p_last (snd kv)) (p_seqs (snd kv))) (partials b) 1 v Hkeys) as Hget.
    cbn [fst snd] in Hget.
    destruct (memb v (needed b)) eqn:Emem.
    + (* needed: v < head *)
      apply memb_iff in Emem. apply Hrange in Emem. cbn in Emem.
      destruct (v <=? head) eqn:E; [|zb; lia]. cbn [negb]. split; [reflexivity|discriminate].
    + destruct (v <=? head) eqn:E; cbn [negb]; [|split; [reflexivity|discriminate]].
      match goal with |- context [@aget ?V v (@map ?A ?B ?f ?l)] =>
        set (look := @aget V v (@map A B f l)) in * end.
      assert (Hlook : look = match aget v (partials b) with
                             | Some p => if negb (is_complete p) then Some (gaps 0 (p_last p) (p_seqs p)) else None
                             | None => None end) by (exact Hget).
      clearbody look. subst look.
      destruct (aget v (partials b)) as [p|] eqn:Eg; [|split; [reflexivity|discriminate]].
      rewrite (is_complete_fully p Hfr). destruct (fully_buffered p) eqn:Ef; cbn [negb].
      * split; [reflexivity|discriminate].
      * split; [reflexivity|]. intros _. exists p. split; [reflexivity|].
        eexists. split; [reflexivity|]. cbn [a_partial].
        etransitivity; [exact Hget|]. rewrite (is_complete_fully p Hfr), Ef. reflexivity.
  - cbn [max0] in *. destruct (memb v (needed b)) eqn:Emem.
    + apply memb_iff in Emem. apply Hrange in Emem. cbn in Emem. lia.
    + destruct (v <=? 0) eqn:E; [zb; lia|]. cbn. split; [reflexivity|discriminate].
Qed.

(* ------------------------------------------------------------------ *)
(* the boolean oracle implies the invariant                            *)

Lemma ranges_eqb_eq : forall x y, ranges_eqb x y = true -> x = y.
Proof.
  induction x as [|a x IH]; intros [|c y]; cbn; try discriminate; [reflexivity|].
  intros H. apply andb_true_iff in H as [H1 H2]. apply pair_eqb_eq in H1. subst. f_equal. apply IH, H2.
Qed.

Lemma aget_In : forall (m : list (Z * partial)) v p, aget v m = Some p -> In (v, p) m.
Proof.
  induction m as [|[k w] m IH]; intros v p H; [discriminate|]. cbn in H.
  destruct (v =? k) eqn:E; [zb; subst; injection H as ->; left; reflexivity|right; apply IH, H].
Qed.

Lemma inv_b_sound b rs : inv_b b rs = true -> Inv b rs.
Proof.
  unfold inv_b. rewrite !andb_true_iff. intros [[[[[H1 H2] H3] H4] H5] H6].
  constructor.
  - apply canonicalb_iff, H1.
  - apply ranges_eqb_eq, H2.
  - zb. exact H3.
  - intros x Hx. apply mem_In in Hx. destruct Hx as (t & Ht & Hx).
    rewrite forallb_forall in H4. specialize (H4 t Ht). apply andb_true_iff in H4 as [A B]. zb. lia.
  - intros v p Hg. apply aget_In in Hg. rewrite forallb_forall in H5. specialize (H5 _ Hg).
    unfold partial_ok in H5. cbn [fst snd] in H5. rewrite !andb_true_iff in H5.
    destruct H5 as [[[[A B] C] _] _]. zb. split; [lia|].
    intros Hm. apply memb_iff in Hm. rewrite Hm in C. discriminate.
  - exact H6.
Qed.
