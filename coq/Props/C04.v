(* C04 — Sync requests ask for everything the peer can give and nothing it cannot.
   Model: Model/Needs.v (transcription of SyncStateV1::compute_available_needs).
   Proofs: Proofs/NeedsProofs.v. *)
From Coq Require Import List ZArith Bool Lia.
From Corro Require Import Lib.Ivl Model.Book Model.BookOps Model.Needs Proofs.BookProofs Proofs.NeedsProofs Proofs.SessionProofs.
Import ListNotations.
Open Scope Z_scope.

(* every requested version range stays within the peer's advertised head, and
   nothing is ever requested for the node's own actor id *)
Theorem C04_within_head_never_self : forall us other a v,
  wf_state other -> (forall a h, In (a, h) (ss_heads us) -> 0 <= h) ->
  req_full (compute_available_needs us other) a v ->
  a <> ss_actor us /\ exists head, In (a, head) (ss_heads other) /\ 1 <= v <= head.
Proof. exact needs_within_head. Qed.
Print Assumptions C04_within_head_never_self.

(* every version the peer advertises as fully held and the node lacks (listed
   as needed, beyond its head, or actor unknown) is requested -- for any number
   of actors, any heads, any need ranges, any partial maps *)
Theorem C04_complete_full : forall us other a v,
  wf_state other -> a <> ss_actor us ->
  peer_holds other a v -> we_lack us a v ->
  req_full (compute_available_needs us other) a v.
Proof. exact needs_complete_full. Qed.
Check C04_complete_full : forall us other a v,
  wf_state other -> a <> ss_actor us ->
  (exists head, In (a, head) (ss_heads other) /\ 1 <= v <= head /\
     ~ (exists ns, zget a (ss_need other) = Some ns /\ mem v ns) /\
     ~ (exists ps, zget a (ss_partial other) = Some ps /\ exists q, In (v, q) ps)) ->
  (zget a (ss_heads us) = None \/
   (exists h, zget a (ss_heads us) = Some h /\ h < v) \/
   (exists ns, zget a (ss_need us) = Some ns /\ mem v ns)) ->
  exists l s e, In (a, l) (compute_available_needs us other) /\ In (Full s e) l /\ s <= v <= e.
Print Assumptions C04_complete_full.

(* a version the node holds partially and the peer holds fully: the requested
   sequence numbers are exactly the node's missing ones *)
Theorem C04_partial_exact : forall us other a v seqs ours q,
  wf_state other -> a <> ss_actor us ->
  zget a (ss_partial us) = Some ours -> uniq_keys ours -> In (v, seqs) ours ->
  peer_holds other a v ->
  (req_seq (compute_available_needs us other) a v q <-> mem q seqs).
Proof. exact needs_partial_held. Qed.
Print Assumptions C04_partial_exact.

(* Composition with C02 (the advertisement is the exact partition of the bookkeeping): stated
   on the bookkeeping states themselves.  bA = the requester's bookkeeping for origin actor a,
   bB = the server's, both satisfying the invariant every reachable state satisfies (C02);
   ss_of = the SyncStateV1 each node generates from it.  Every version the server holds and the
   requester lists as needed or has not heard of is requested in full ... *)
Theorem C04_request_covers_what_peer_holds : forall meA meB a bA rsA bB rsB v,
  Inv bA rsA -> Inv bB rsB -> a <> meA -> 1 <= v ->
  classify bB v = Held ->
  (classify bA v = Needed \/ classify bA v = Beyond) ->
  req_full (compute_available_needs (ss_of meA a (sync_actor bA)) (ss_of meB a (sync_actor bB))) a v.
Proof.
  intros meA meB a bA rsA bB rsB v. apply request_covers_what_peer_holds. vm_compute. reflexivity.
Qed.
Print Assumptions C04_request_covers_what_peer_holds.

(* ... and of a version the requester holds partially, exactly its missing seqs are requested *)
Theorem C04_partial_request_is_exactly_the_missing_seqs : forall meA meB a bA rsA bB rsB v p q,
  Inv bA rsA -> Inv bB rsB -> a <> meA -> 1 <= v ->
  classify bB v = Held -> classify bA v = PartialC -> aget v (partials bA) = Some p ->
  (req_seq (compute_available_needs (ss_of meA a (sync_actor bA)) (ss_of meB a (sync_actor bB))) a v q
   <-> mem q (gaps 0 (p_last p) (p_seqs p))).
Proof.
  intros meA meB a bA rsA bB rsB v p q. apply partial_request_is_exactly_the_missing_seqs. vm_compute. reflexivity.
Qed.
Print Assumptions C04_partial_request_is_exactly_the_missing_seqs.

(* the hypotheses of the composition are met by reachable states: the requester applied
   versions 1-2 and 5 of actor 7 (so 3-4 are needed), the server applied 1-5 *)
Example C04_composition_nonvacuous :
  let bA := st_bv (fst (bstep (fst (bstep bstate_init (OpInsert [(1, 2)]))) (OpInsert [(5, 5)]))) in
  let bB := st_bv (fst (bstep bstate_init (OpInsert [(1, 5)]))) in
  inv_b bA (needed bA) = true /\ inv_b bB (needed bB) = true /\
  classify bB 3 = Held /\ classify bA 3 = Needed /\ classify bA 9 = Beyond /\
  compute_available_needs (ss_of 1 7 (sync_actor bA)) (ss_of 2 7 (sync_actor bB)) = [(7, [Full 3 4])].
Proof. vm_compute. repeat split; reflexivity. Qed.

Example C04_nonvacuous :
  let us := mkSstate 1 [(2, 10)] [(2, [(3, 5)])] [(2, [(7, [(0, 2)])])] in
  let other := mkSstate 9 [(2, 13)] [(2, [(4, 4)])] [(2, [(7, [(0, 0); (5, 9)])])] in
  compute_available_needs us other =
    [(2, [Full 3 3; Full 5 5; Partial 7 [(1, 2)]; Full 11 13])].
Proof. vm_compute. reflexivity. Qed.
