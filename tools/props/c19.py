"""C19 — backup and restore reproduce the replicated data with correct authorship."""
import random, re
import vlib, flow


def parse(impl_obs):
    if not impl_obs or impl_obs.startswith(("PANIC", "ERR", "CRASH")):
        return None
    d = {"readers": []}
    for part in impl_obs.split(" # "):
        part = part.strip()
        k = part.split(" ", 1)[0]
        f = dict(re.findall(r"(\w+)=(\S*)", part))
        if k == "reader":
            d["readers"].append(f)
        elif k in ("backup", "restore", "src", "bak", "dst"):
            d[k] = f
        elif k.startswith("stderr"):
            d["stderr"] = part
    return d


def sites(s):
    return [(int(x.split(":")[0]), x.split(":")[1]) for x in s.split(",") if x]


class C19(flow.Spec):
    pid = "C19"
    shards = 8
    needs_cli = True
    rule = ("source databases built by real agents: transactions on two nodes (upserts, overwrites, deletes), the second node's "
            "changes delivered to the first, so the source holds clock rows authored by itself (ordinal 0) and by another actor, "
            "plus a member row; the REAL `corrosion backup` and `corrosion restore` binaries (built from /repo) are run: "
            "destination absent / empty file / another agent's WAL database (with and without --self-actor-id) / the other "
            "author's own database with --self-actor-id (its rows become 'self') / a plain rollback-journal database; 3 reader "
            "threads hammer the destination while the restore runs. Checked: crsql_changes incl. site ids of backup and of the "
            "restored database == source's; backup has no ordinal 0 and no member rows; kept actor id is ordinal 0 afterwards; "
            "crsql_site_id and every clock row's ordinal == the Coq model's prediction; every successful read during the "
            "restore is the old or the new content. Plus `walread`: reader connections inside read transactions on up to four "
            "different snapshots of a live WAL destination (so on read marks 1..4), or on a rollback-journal one, any subset of "
            "them still inside when the real restore runs in another process: each read transaction must see both tables from "
            "the same generation or be refused, the restore must wait exactly when the lock-table model (lock calls generated "
            "from sqlite3_restore.rs) says lock_all is refused, and the destination ends entirely new (or untouched if the "
            "restore failed). non-trivial = distinct (history, destination, keep) combinations")
    assumptions = ["PARTIAL for the locked copy: fcntl/shm semantics, std::io::copy and what SQLite reader connections do after the file changed under them are runtime behaviour sampled by reader threads, the model has the lock table only",
                   "SQLite gives the k-th reader on a new snapshot read mark k (walTryBeginRead takes the first mark it can lock exclusively); checked by the model/real agreement on which readers make the restore wait",
                   "the snapshot given to restore was produced by `backup` (no ordinal-0 row): necessary, see restore_with_self_row_refuted",
                   "the parent directory of the backup path exists (the command creates it only after VACUUM INTO needed it)"]

    def cases(self, tier, seed):
        rnd = random.Random(seed)
        out = []
        N = 40 if tier == "quick" else 1200
        for i in range(N):
            tags = set()
            ops = []
            for _ in range(rnd.randrange(3, 9)):
                x = rnd.random()
                if x < 0.35:
                    k = rnd.randrange(1, 4)
                    ops.append("A %d %s" % (k, " ".join("%d %d" % (rnd.randrange(1, 7), rnd.randrange(0, 50)) for _ in range(k))))
                elif x < 0.65:
                    k = rnd.randrange(1, 4)
                    ops.append("B %d %s" % (k, " ".join("%d %d" % (rnd.randrange(1, 7), rnd.randrange(0, 50)) for _ in range(k))))
                elif x < 0.75:
                    ops.append("XA %d" % rnd.randrange(1, 7)); tags.add("delete")
                elif x < 0.85:
                    ops.append("XB %d" % rnd.randrange(1, 7)); tags.add("delete")
                else:
                    ops.append("D")
            ops.append("D")
            dest = [0, 1, 2, 5, 3, 4, 5][i % 7]
            keep = 1 if (dest in (2, 4, 5) and rnd.random() < 0.7) else 0
            tags.add("dest-%d" % dest); tags.add("keep-%d" % keep)
            out.append(("backup %d %s %d %d 3" % (len(ops), " ".join(ops), dest, keep), tags))
        # readers inside a read transaction on n different snapshots (WAL: n different read marks)
        combos = [(n, m, 1) for n in (1, 2, 3, 4) for m in range(0, 1 << n)] + [(1, 1, 0), (1, 0, 0), (2, 3, 0), (2, 2, 0)]
        rnd.shuffle(combos)
        K = 10 if tier == "quick" else len(combos)
        # the youngest reader alone on each mark is always there: these are the windows a missing lock opens
        must = [(1, 1, 1), (2, 2, 1), (3, 4, 1), (4, 8, 1), (1, 1, 0)]
        for (n, m, w) in must + [c for c in combos if c not in must][:max(0, K - len(must))]:
            out.append(("walread %d %d %d" % (n, m, w), {"reader-in-transaction", "wal" if w else "rollback-journal", "held-%d" % bin(m).count("1")}))
        return out

    def model_lines(self, case, impl_obs):
        if case.startswith("walread"):
            return ["walm " + case.split(" ", 1)[1]]
        d = parse(impl_obs)
        if not d or "src" not in d or "dst" not in d:
            return []
        src = sites(d["src"]["sites"])
        names = {}
        for _, x in src:
            names.setdefault(x, 10 + len(names))
        keep_id = -1
        if d["restore"].get("keep") == "1":
            k = d["dst"].get("site0_dst_before", "")
            names.setdefault(k, 10 + len(names))
            keep_id = names[k]
        clock = [x for x in d["src"]["clock"].split(",") if x]
        self._names = names
        return ["backupm %d %s %d %s %s %d" % (len(src), " ".join("%d %d" % (o, names[x]) for o, x in src), len(clock), " ".join(clock), d["src"]["seq"], keep_id)]

    def agree(self, case, impl_obs, model_obs):
        if case.startswith("walread"):
            f = dict(re.findall(r"(\w+)=(\S*)", impl_obs))
            if "early" not in f:
                return False
            if case.split()[2] == "0":
                return True            # nobody inside: nothing to wait for
            # lock_all gets through in the model <=> the real restore finished while a reader was inside
            return (f["early"] == "1") == ("blocked=0" in model_obs)
        d = parse(impl_obs)
        if not d or "dst" not in d:
            return False
        m = re.match(r"bak sites=(\S*) clock=(\S*) members=(\d+) # dst sites=(\S*) clock=(\S*) members=(\d+) authors_same=(\d)", model_obs.strip())
        if not m:
            return False
        # rebuild the naming used for the model input
        src = sites(d["src"]["sites"])
        names = {}
        for _, x in src:
            names.setdefault(x, 10 + len(names))
        if d["restore"].get("keep") == "1":
            names.setdefault(d["dst"].get("site0_dst_before", ""), 10 + len(names))
        def named(s):
            return sorted((o, names.get(x, -1)) for o, x in sites(s))
        def msites(s):
            return sorted((int(a.split(":")[0]), int(a.split(":")[1])) for a in s.split(",") if a)
        if named(d["bak"]["sites"]) != msites(m.group(1)) or d["bak"]["clock"] != m.group(2) or d["bak"]["members"] != m.group(3):
            return False
        real_dst = named(d["dst"]["sites"])
        if d["restore"].get("keep") != "1":
            # a node restored without keeping an id gets a fresh identity from cr-sqlite at first open
            real_dst = [x for x in real_dst if x[0] != 0]
        if real_dst != msites(m.group(4)) or d["dst"]["clock"] != m.group(5):
            return False
        return m.group(7) == "1"

    def nontrivial(self, case, model_obs):
        return True

    def impl_verdict(self, case, impl_obs):
        if case.startswith("walread"):
            f = dict(re.findall(r"(\w+)=(\S*)", impl_obs))
            if "rc" not in f:
                return False
            for r in [x for x in f.get("readers", "").split(",") if x]:
                t1, t2 = r.split(":")[1].split("/")
                if t2 != "E" and t1 != t2:
                    return False       # one read transaction saw part old, part new
                if len(t1) != 1 or (t2 != "E" and len(t2) != 1):
                    return False
            if f["rc"] == "0" and f.get("final") != "nn":
                return False
            if f["rc"] != "0" and f.get("final") != "oo":
                return False           # a failed restore must leave the destination untouched
            return None
        d = parse(impl_obs)
        if not d:
            return False
        if d.get("backup", {}).get("rc") != "0" or d.get("restore", {}).get("rc") != "0":
            return False
        bak, dst = d["bak"], d["dst"]
        if bak["same_changes"] != "1" or dst["same_changes"] != "1":
            return False                       # rows, metadata or authorship differ from the source
        if any(o == 0 for o, _ in sites(bak["sites"])):
            return False
        if bak["members"] != "0" or dst["members"] != "0":
            return False
        if dst["new"] != dst["src"]:
            return False
        if d["restore"].get("keep") == "1" and dst["site0_after"] != dst["site0_dst_before"]:
            return False
        if d["restore"].get("keep") != "1" and dst["site0_after"] in (dst["site0_src"], ""):
            return False                       # the restored node must not become the source's actor
        for r in d["readers"]:
            seen = [x for x in r.get("seen", "").split("+") if x]
            if any(x not in (dst["old"], dst["new"]) for x in seen):
                return False                   # a read that was neither the old nor the new database
            if r.get("after") not in (dst["old"], dst["new"]):
                return False
        return None


SPEC = C19
