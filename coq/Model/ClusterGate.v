(* Decision rules of cluster isolation:
     agent/uni.rs          : a broadcast frame is applied iff its cluster id equals the node's
     api/peer/mod.rs       : serve_sync rejects a client of another cluster before anything else
     agent/handlers.rs     : handle_sync only picks same-cluster members
     broadcast/mod.rs      : broadcast targets are same-cluster members (ring0(cluster) first)
   A frame without the trailing cluster id decodes to cluster 0 (default_on_eof). *)
From Coq Require Import List ZArith Bool.
Import ListNotations.
Open Scope Z_scope.

(* cluster id carried by a frame: None = field absent in the frame *)
Definition frame_cluster (c : option Z) : Z := match c with Some x => x | None => 0 end.

Definition accept_uni (mine : Z) (c : option Z) : bool := mine =? frame_cluster c.

(* changes delivered from one uni stream: accepted frames, in reverse order *)
Definition uni_deliver (mine : Z) (frames : list (option Z * Z)) : list Z :=
  rev (map snd (filter (fun f => accept_uni mine (fst f)) frames)).

Inductive first_msg := FirstState | FirstRejectDifferentCluster.

Definition serve_first (mine theirs : Z) : first_msg :=
  if mine =? theirs then FirstState else FirstRejectDifferentCluster.

Record member := mkMember { mb_id : Z; mb_cluster : Z; mb_ring0 : bool }.

Definition sync_candidates (mine self : Z) (ms : list member) : list Z :=
  map mb_id (filter (fun m => negb (mb_id m =? self) && (mb_cluster m =? mine)) ms).

Definition bcast_allowed (mine self : Z) (ms : list member) : list Z :=
  map mb_id (filter (fun m => negb (mb_id m =? self) && (mb_cluster m =? mine)) ms).

Definition bcast_priority (mine : Z) (ms : list member) : list Z :=
  map mb_id (filter (fun m => (mb_cluster m =? mine) && mb_ring0 m) ms).
