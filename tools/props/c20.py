"""C20 — database writers are mutually exclusive, prioritised and never deadlock."""
import random, re
import vlib, flow


class C20(flow.Spec):
    pid = "C20"
    shards = 16
    rule = ("the real SplitPool of a real agent: scripted sequences of hold / request (three priorities; tasks that drop the "
            "connection at once and tasks that keep it until cancelled) / cancel (requesting task aborted while queued or while "
            "holding) / release, the harness waiting after each operation until the pool is stable so that the script decides "
            "what waits at each release; every granted task registers in a live counter while it "
            "holds the connection (and uses it); observed: grant order, the largest number of WriteConn values alive at once, "
            "whether every non-cancelled task finished and the pool still serves all three priorities afterwards; the grant "
            "order must equal the Coq model's. `cancelwin`: a requester dropped in the windows between granted and holding "
            "(the grant in its mailbox but not polled again; parked on the write permit while somebody else has it), all "
            "priorities: three later requests must be served. Plus watchdog runs on a real agent mixing, concurrently, local transactions, "
            "remote batches for three actors (in both actor orders), partial versions completed and applied from the buffer, "
            "sync-state generation and background write requests: everything must complete. non-trivial = distinct scripts "
            "with at least two priorities waiting at a release")
    assumptions = ["PARTIAL: tokio scheduling, the 5-minute timeouts of write_inner and the semaphore's own fairness are runtime; the watchdog run samples schedules, it does not enumerate them",
                   "which locks each function takes, in which order and for how long, is read from the source by tools/lockorder2coq.py (textual guard-lifetime rule); the older activity table in Props/C20.v is hand-written",
                   "starvation of lower priorities by a continuous stream of higher ones is allowed by the property (it only asks for deadlock freedom and priority)"]

    def cases(self, tier, seed):
        rnd = random.Random(seed)
        out = []
        N = 120 if tier == "quick" else 4000
        for _ in range(N):
            tags = set()
            ops = []
            nid = 1
            for _ in range(rnd.randrange(1, 4)):
                longs = []          # L tasks not yet cancelled
                queued = []
                blocker = None
                if rnd.random() < 0.6:
                    ops.append("H")
                else:
                    blocker = nid
                    ops.append("L %d %d" % (rnd.choice([0, 1, 2]), nid)); longs.append(nid); nid += 1
                    tags.add("long-holder-blocks")
                for _ in range(rnd.randrange(2, 9)):
                    p = rnd.choice([0, 0, 1, 1, 2])
                    if rnd.random() < 0.15:
                        ops.append("L %d %d" % (p, nid)); longs.append(nid); tags.add("long-queued")
                    else:
                        ops.append("Q %d %d" % (p, nid))
                    queued.append(nid); nid += 1
                    tags.add("prio-%d" % p)
                    if queued and rnd.random() < 0.2:
                        c = rnd.choice([q for q in queued if q != blocker])
                        ops.append("C %d" % c); tags.add("cancel-queued")
                        if c in longs:
                            longs.remove(c)
                if blocker is None:
                    ops.append("R")
                else:
                    ops.append("C %d" % blocker); longs.remove(blocker); tags.add("cancel-holder")
                # every L task still around holds the connection in its turn until it is cancelled
                while longs:
                    if rnd.random() < 0.4:
                        ops.append("Q %d %d" % (rnd.choice([0, 1, 2]), nid)); nid += 1; tags.add("request-behind-long-holder")
                    c = longs.pop(rnd.randrange(len(longs)))
                    ops.append("C %d" % c); tags.add("cancel-holder-or-queued-long")
                if rnd.random() < 0.3:
                    ops.append("Q %d %d" % (rnd.choice([0, 1, 2]), nid)); nid += 1; tags.add("uncontended")
            out.append(("pool %d %s" % (len(ops), " ".join(ops)), tags))
        # a requester cancelled in the windows between "granted" and "holding" (at the grant, while
        # parked on the write permit): the pool must go on serving (model: Cancel of the holder frees)
        for v in (0, 1):
            for p in (0, 1, 2):
                for p2 in (0, 1, 2):
                    out.append(("cancelwin %d %d %d" % (v, p, p2), {"cancelled-between-grant-and-hold", "window-%d" % v}))
        M = 6 if tier == "quick" else 60
        for i in range(M):
            out.append(("mix %d %d" % (rnd.randrange(1, 10 ** 6), rnd.randrange(3, 7)), {"watchdog-mix"}))
        return out

    def model_lines(self, case, impl_obs):
        return [case] if case.startswith("pool ") else []

    def agree(self, case, impl_obs, model_obs):
        if case.startswith("cancelwin "):
            return not impl_obs.startswith(("PANIC", "ERR", "CRASH"))
        if case.startswith("mix "):
            return not impl_obs.startswith(("PANIC", "ERR", "CRASH"))
        a = dict(re.findall(r"(\w+)=(\S*)", impl_obs))
        b = dict(re.findall(r"(\w+)=(\S*)", model_obs))
        return a.get("grants") == b.get("grants")

    def nontrivial(self, case, model_obs):
        return True

    def impl_verdict(self, case, impl_obs):
        if impl_obs.startswith(("PANIC", "ERR", "CRASH")):
            return False
        f = dict(re.findall(r"(\w+)=(\S*)", impl_obs))
        if case.startswith("mix "):
            return None if f.get("done") == "1" else False
        if case.startswith("cancelwin "):
            return None if f.get("served") == "3" else False
        if f.get("maxlive") != "1" or f.get("stuck") != "0":
            return False
        # priority and progress, following the observed grants: replay the script; whenever nobody
        # holds the connection the next observed grants must each go to a waiting, live request of
        # the best waiting priority, until nothing waits or an L task took the connection
        t = case.split()
        grants = [x for x in f.get("grants", "").split(",") if x]
        gi = 0
        waiting = {}          # id -> priority
        longs, holder = set(), None     # holder: "0" scripted hold, or the id of a holding L task

        def drain():
            nonlocal gi, holder
            while holder is None and waiting:
                if gi >= len(grants):
                    return False                      # a live request was never served
                g = grants[gi]; gi += 1
                if g not in waiting or waiting[g] != min(waiting.values()):
                    return False                      # granted to nobody waiting, or past a better priority
                del waiting[g]
                if g in longs:
                    holder = g
            return True

        i = 2
        while i < len(t):
            o = t[i]
            if o == "H":
                if gi >= len(grants) or grants[gi] != "0" or holder is not None:
                    return False
                gi += 1; holder = "0"; i += 1
            elif o == "R":
                if holder == "0":
                    holder = None
                i += 1
            elif o in ("Q", "L"):
                waiting[t[i + 2]] = int(t[i + 1])
                if o == "L":
                    longs.add(t[i + 2])
                i += 3
            elif o == "C":
                waiting.pop(t[i + 1], None)
                if holder == t[i + 1]:
                    holder = None
                i += 2
            else:
                i += 2
            if not drain():
                return False
        if gi != len(grants):
            return False                              # more grants than requests
        return None


SPEC = C20
