(* Model of the ingest front end, crates/klukai-agent/src/agent/handlers.rs:
   handle_changes (self filter, seen cache, bookkeeping check, drop-oldest load
   shedding with eviction, batches in flight, forget on failed batch, trim).
   The bookkeeping is abstracted to what handle_changes asks of it
   (contains_all); actors and versions are integers. *)
From Coq Require Import List ZArith Bool.
From Corro Require Import Lib.Ivl.
Import ListNotations.
Open Scope Z_scope.

Record chg := mkChg {
  g_actor : Z;
  g_lo : Z; g_hi : Z;                (* versions(): lo..=hi; a Full changeset has lo = hi *)
  g_seqs : option (Z * Z);           (* Some seqs for Full, None for Empty *)
  g_last : Z }.                      (* last_seq of a Full changeset (0 for Empty) *)

Definition key := (Z * Z)%type.      (* (actor, version) *)
Definition key_eqb (a b : key) : bool := (fst a =? fst b) && (snd a =? snd b).

(* IndexMap<(ActorId, Version), RangeInclusiveSet<Seq>>, oldest first *)
Definition seen_t := list (key * iset).

Fixpoint sget (k : key) (s : seen_t) : option iset :=
  match s with
  | [] => None
  | (k', v) :: t => if key_eqb k k' then Some v else sget k t
  end.

Fixpoint sset (k : key) (v : iset) (s : seen_t) : seen_t :=
  match s with
  | [] => [(k, v)]
  | (k', v') :: t => if key_eqb k k' then (k, v) :: t else (k', v') :: sset k v t
  end.

Fixpoint sdel (k : key) (s : seen_t) : seen_t :=
  match s with
  | [] => []
  | (k', v') :: t => if key_eqb k k' then sdel k t else (k', v') :: sdel k t
  end.

Definition versions_of (c : chg) : list Z :=
  map (fun i => g_lo c + Z.of_nat i) (seq 0 (Z.to_nat (g_hi c - g_lo c + 1))).

(* what the bookkeeping knows: per (actor, version) either everything or a set of seqs *)
Inductive vstate := Whole | Part (p : iset) (last : Z).
Definition book := list (key * vstate).

Fixpoint bget (k : key) (b : book) : option vstate :=
  match b with
  | [] => None
  | (k', v) :: t => if key_eqb k k' then Some v else bget k t
  end.

(* BookedVersions::contains_all(versions, seqs) *)
Definition known (b : book) (c : chg) : bool :=
  forallb (fun v =>
    match bget (g_actor c, v) b with
    | None => false
    | Some Whole => true
    | Some (Part p last) =>
      match g_seqs c with
      | None => match gaps 0 last p with [] => true | _ => false end   (* an empty changeset is news for an incomplete partial *)
      | Some (s, e) => match gaps s e p with [] => true | _ => false end
      end
    end) (versions_of c).

(* a successfully processed change *)
Definition store_one (b : book) (c : chg) : book :=
  match g_seqs c with
  | None => fold_left (fun b v => ((g_actor c, v), Whole) :: b) (versions_of c) b   (* cleared: a partial is dropped *)
  | Some (s, e) =>
    let k := (g_actor c, g_lo c) in
    let complete := (s =? 0) && (e =? g_last c) in     (* Changeset::is_complete *)
    match bget k b with
    | Some Whole => b
    | Some (Part p last) => if complete then (k, Whole) :: b     (* applied as a whole: the partial is dropped *)
                            else (k, Part (ins s e p) last) :: b
    | None => if complete then (k, Whole) :: b else (k, Part [(s, e)] (g_last c)) :: b
    end
  end.

Record ist := mkIst {
  queue : list chg;
  seen : seen_t;
  inflight : list (list chg);
  bk : book;
  stored : list chg }.               (* ghost: every change of a successful batch *)

Definition ist_init : ist := mkIst [] [] [] [] [].

(* the duplicate test against the seen cache *)
Definition seen_dup (s : seen_t) (c : chg) : bool :=
  match g_seqs c with
  | Some (a, b) =>
    match sget (g_actor c, g_lo c) s with
    | Some ss => match gaps a b ss with [] => true | _ => false end
    | None => false
    end
  | None =>
    (* a duplicate only if an empty changeset -- and no chunk of the version -- was recorded *)
    forallb (fun v => match sget (g_actor c, v) s with Some [] => true | _ => false end)
            (versions_of c)
  end.

(* forget_seen *)
Definition forget (s : seen_t) (c : chg) : seen_t :=
  fold_left (fun s v =>
    let k := (g_actor c, v) in
    match sget k s with
    | None => s
    | Some ss =>
      match g_seqs c with
      | Some (a, b) => let ss' := rem a b ss in
                       match ss' with [] => sdel k s | _ => sset k ss' s end
      | None => sdel k s
      end
    end) (versions_of c) s.

(* recording an accepted change *)
Definition record (s : seen_t) (c : chg) : seen_t :=
  fold_left (fun s v =>
    let k := (g_actor c, v) in
    let cur := match sget k s with Some ss => ss | None => [] end in
    sset k (match g_seqs c with Some (a, b) => ins a b cur | None => cur end) s)
    (versions_of c) s.

Inductive outcome := SkipSelf | SkipSeen | SkipKnown | Accepted (dropped : option chg).

Definition offer (self maxq : Z) (st : ist) (c : chg) : ist * outcome :=
  if g_actor c =? self then (st, SkipSelf)
  else if seen_dup (seen st) c then (st, SkipSeen)
  else if known (bk st) c then (st, SkipKnown)
  else
    let '(q1, s1, d) :=
      if maxq <=? Z.of_nat (length (queue st)) then
        match queue st with
        | d :: q' => (q', forget (seen st) d, Some d)
        | [] => ([], seen st, None)
        end
      else (queue st, seen st, None) in
    (mkIst (q1 ++ [c]) (record s1 c) (inflight st) (bk st) (stored st), Accepted d).

Inductive iop :=
| Offer (c : chg)
| Spawn (n : nat)                  (* the first n queued changes become a batch *)
| Done (i : nat) (ok : bool)       (* batch i finished *)
| Trim (keep : nat).               (* seen.drain(..len - keep) *)

Fixpoint remove_nth {A} (i : nat) (l : list A) : list A :=
  match l, i with
  | [], _ => []
  | _ :: t, O => t
  | x :: t, S i' => x :: remove_nth i' t
  end.

Definition istep (self maxq : Z) (st : ist) (op : iop) : ist :=
  match op with
  | Offer c => fst (offer self maxq st c)
  | Spawn n =>
    match firstn n (queue st) with
    | [] => st
    | b => mkIst (skipn n (queue st)) (seen st) (inflight st ++ [b]) (bk st) (stored st)
    end
  | Done i ok =>
    match nth_error (inflight st) i with
    | None => st
    | Some b =>
      if ok then mkIst (queue st) (seen st) (remove_nth i (inflight st))
                       (fold_left store_one b (bk st)) (stored st ++ b)
      else mkIst (queue st) (fold_left forget b (seen st)) (remove_nth i (inflight st))
                 (bk st) (stored st)
    end
  | Trim keep => mkIst (queue st) (skipn (length (seen st) - keep) (seen st))
                       (inflight st) (bk st) (stored st)
  end.

Definition irun (self maxq : Z) (ops : list iop) : ist := fold_left (istep self maxq) ops ist_init.

(* ---------- the invariant, decidable form (oracle) -------------------------- *)
Definition live (st : ist) : list chg := queue st ++ concat (inflight st) ++ stored st.

Definition about (a v : Z) (c : chg) : bool :=
  (g_actor c =? a) && (g_lo c <=? v) && (v <=? g_hi c).

Definition carries (a v q : Z) (c : chg) : bool :=
  about a v c && match g_seqs c with Some (s, e) => (s <=? q) && (q <=? e) | None => false end.

(* every seen entry is backed by a change that is queued, in flight or stored;
   every seq recorded for (a,v) is carried by such a change *)
Definition seen_inv_b (st : ist) : bool :=
  forallb (fun kv : key * iset =>
    let '((a, v), ss) := kv in
    existsb (about a v) (live st) &&
    forallb (fun r : Z * Z =>
      forallb (fun i => existsb (carries a v (fst r + Z.of_nat i)) (live st))
              (seq 0 (Z.to_nat (snd r - fst r + 1)))) ss) (seen st).
