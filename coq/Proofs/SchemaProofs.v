From Coq Require Import List ZArith Bool Lia.
From Corro Require Import Model.SchemaDiff.
Import ListNotations.
Open Scope Z_scope.

Lemma zlist_eqb_refl l : zlist_eqb l l = true.
Proof. induction l as [|x l IH]; cbn; [reflexivity|]. rewrite Z.eqb_refl. exact IH. Qed.

Lemma zlist_eqb_eq : forall a b, zlist_eqb a b = true -> a = b.
Proof.
  induction a as [|x a IH]; destruct b as [|y b]; cbn; intros H; try reflexivity; try discriminate.
  apply andb_true_iff in H as [H1 H2]. apply Z.eqb_eq in H1. subst. f_equal. apply IH. exact H2.
Qed.

Lemma col_eqb_refl c : col_eqb c c = true.
Proof. unfold col_eqb. rewrite !Z.eqb_refl, !Bool.eqb_reflx. reflexivity. Qed.

(* ---------- a rejected submission changes nothing ---------- *)
Theorem exec_atomic st sub : fst (exec st sub) = false -> snd (exec st sub) = st.
Proof.
  unfold exec. destruct (parse sub) as [tabs|]; [|reflexivity].
  destruct (constrain (merge (s_mem st) tabs) && apply_ok (has_rows (s_db st)) (s_mem st) (merge (s_mem st) tabs)); [discriminate|reflexivity].
Qed.

(* ---------- names ---------- *)
Definition names (l : list tab) : list Z := map t_name l.

Lemma find_tab_some n l t : find_tab n l = Some t -> In t l /\ t_name t = n.
Proof. unfold find_tab. intros H. apply find_some in H as [H1 H2]. apply Z.eqb_eq in H2. auto. Qed.

Lemma find_tab_unique l o : NoDup (names l) -> In o l -> find_tab (t_name o) l = Some o.
Proof.
  unfold find_tab, names. induction l as [|x l IH]; cbn; intros Hn Hi; [contradiction|].
  inversion Hn as [|? ? Hnot Hn']; subst. destruct Hi as [->|Hi].
  - rewrite Z.eqb_refl. reflexivity.
  - destruct (t_name x =? t_name o) eqn:E; [|apply IH; assumption].
    apply Z.eqb_eq in E. exfalso. apply Hnot. rewrite E. apply in_map. exact Hi.
Qed.

Lemma put_tab_names t l : In (t_name t) (names l) -> names (put_tab t l) = names l.
Proof.
  unfold names. induction l as [|x l IH]; cbn; intros Hi; [contradiction|].
  destruct (t_name x =? t_name t) eqn:E; cbn.
  - apply Z.eqb_eq in E. rewrite E. reflexivity.
  - f_equal. apply IH. destruct Hi as [Hi|Hi]; [apply Z.eqb_neq in E; congruence|exact Hi].
Qed.

Lemma put_tab_names_new t l : ~ In (t_name t) (names l) -> names (put_tab t l) = names l ++ [t_name t].
Proof.
  unfold names. induction l as [|x l IH]; cbn; intros Hi; [reflexivity|].
  destruct (t_name x =? t_name t) eqn:E; cbn.
  - apply Z.eqb_eq in E. exfalso. apply Hi. left. exact E.
  - f_equal. apply IH. intros H. apply Hi. right. exact H.
Qed.

Lemma in_dec_Z (x : Z) l : In x l \/ ~ In x l.
Proof. destruct (in_dec Z.eq_dec x l); auto. Qed.

Lemma NoDup_snoc_Z (l : list Z) x : NoDup l -> ~ In x l -> NoDup (l ++ [x]).
Proof.
  induction l as [|a l IH]; cbn; intros Hn Hx; [constructor; [intros []|constructor]|].
  inversion Hn as [|? ? Ha Hl]; subst. constructor.
  - rewrite in_app_iff. intros [H|[H|[]]]; [contradiction|subst; apply Hx; left; reflexivity].
  - apply IH; [exact Hl|intros H; apply Hx; right; exact H].
Qed.

Lemma put_tab_nodup t l : NoDup (names l) -> NoDup (names (put_tab t l)).
Proof.
  intros Hn. destruct (in_dec_Z (t_name t) (names l)) as [H|H].
  - rewrite put_tab_names by exact H. exact Hn.
  - rewrite put_tab_names_new by exact H. apply NoDup_snoc_Z; assumption.
Qed.

Lemma put_tab_keeps t l n : In n (names l) -> In n (names (put_tab t l)).
Proof.
  intros Hi. destruct (in_dec_Z (t_name t) (names l)) as [H|H].
  - rewrite put_tab_names by exact H. exact Hi.
  - rewrite put_tab_names_new by exact H. apply in_app_iff. left. exact Hi.
Qed.

Lemma merge_nodup sub : forall old, NoDup (names old) -> NoDup (names (merge old sub)).
Proof.
  unfold merge. induction sub as [|t sub IH]; intros old Hn; cbn; [exact Hn|]. apply IH. apply put_tab_nodup. exact Hn.
Qed.

Lemma merge_keeps sub : forall old n, In n (names old) -> In n (names (merge old sub)).
Proof.
  unfold merge. induction sub as [|t sub IH]; intros old n Hi; cbn; [exact Hi|]. apply IH. apply put_tab_keeps. exact Hi.
Qed.

(* ---------- an accepted submission is additive for the schema the node works with ---------- *)
Definition tab_extends (o t : tab) : Prop :=
  t_name t = t_name o /\ t_pk t = t_pk o /\
  forall c, In c (t_cols o) -> exists c', In c' (t_cols t) /\ col_eqb c c' = true.

Lemma alter_ok_extends ne o t : t_name t = t_name o -> alter_ok ne o t = true -> tab_extends o t.
Proof.
  intros Hname H. unfold alter_ok in H.
  repeat (apply andb_true_iff in H as [H ?]).
  split; [exact Hname|]. split.
  - symmetry. apply zlist_eqb_eq. assumption.
  - intros c Hc.
    match goal with Hf : forallb _ (t_cols o) = true |- _ => rewrite forallb_forall in Hf; specialize (Hf c Hc) end.
    destruct (find_col (c_name c) (t_cols t)) as [c'|] eqn:E; [|discriminate].
    exists c'. split; [|assumption]. unfold find_col in E. apply find_some in E as [E _]. exact E.
Qed.

Theorem exec_ok_mem_additive st sub : NoDup (names (s_mem st)) -> fst (exec st sub) = true ->
  NoDup (names (s_mem (snd (exec st sub)))) /\
  forall o, In o (s_mem st) -> exists t, In t (s_mem (snd (exec st sub))) /\ tab_extends o t.
Proof.
  intros Hn. unfold exec. destruct (parse sub) as [tabs|]; [|discriminate].
  destruct (constrain (merge (s_mem st) tabs) && apply_ok (has_rows (s_db st)) (s_mem st) (merge (s_mem st) tabs)) eqn:E; [|discriminate].
  intros _. cbn [snd s_mem]. apply andb_true_iff in E as [_ Hap].
  split; [apply merge_nodup; exact Hn|].
  intros o Ho.
  assert (Hin : In (t_name o) (names (merge (s_mem st) tabs))).
  { apply merge_keeps. unfold names. apply in_map. exact Ho. }
  unfold names in Hin. apply in_map_iff in Hin as [t [Hname Ht]].
  exists t. split; [exact Ht|].
  unfold apply_ok in Hap. rewrite forallb_forall in Hap. specialize (Hap t Ht).
  rewrite Hname, (find_tab_unique _ _ Hn Ho) in Hap.
  eapply alter_ok_extends; eassumption.
Qed.

(* ---------- ... and for the database: every table, key, column and row is kept ---------- *)
Definition dtab_extends (d d' : dtab) : Prop :=
  t_name (d_tab d') = t_name (d_tab d) /\ t_pk (d_tab d') = t_pk (d_tab d) /\
  (exists extra, t_cols (d_tab d') = t_cols (d_tab d) ++ extra) /\
  (exists fill, d_rows d' = map (fun r => r ++ fill) (d_rows d)).

Theorem exec_ok_db_additive st sub : fst (exec st sub) = true ->
  forall d, In d (s_db st) -> exists d', In d' (s_db (snd (exec st sub))) /\ dtab_extends d d'.
Proof.
  unfold exec. destruct (parse sub) as [tabs|]; [|discriminate].
  destruct (constrain (merge (s_mem st) tabs) && apply_ok (has_rows (s_db st)) (s_mem st) (merge (s_mem st) tabs)); [|discriminate].
  intros _ d Hd. cbn [snd s_db]. unfold db_apply.
  destruct (find_tab (t_name (d_tab d)) (merge (s_mem st) tabs)) as [t|] eqn:E.
  - exists (alter_dtab d t). split.
    + apply in_app_iff. left. apply in_map_iff. exists d. rewrite E. auto.
    + apply find_tab_some in E as [_ En]. unfold alter_dtab, dtab_extends. cbn. repeat split; eauto.
  - exists d. split.
    + apply in_app_iff. left. apply in_map_iff. exists d. rewrite E. auto.
    + unfold dtab_extends. repeat split; [exists []; rewrite app_nil_r; reflexivity|exists []].
      induction (d_rows d) as [|r l IH]; cbn; [reflexivity|]. rewrite app_nil_r. f_equal. exact IH.
Qed.

(* ---------- re-submitting an accepted submission ---------- *)
Lemma put_tab_same t l : find_tab (t_name t) l = Some t -> put_tab t l = l.
Proof.
  unfold find_tab. induction l as [|x l IH]; cbn; [discriminate|].
  destruct (t_name x =? t_name t) eqn:E; [intros H; injection H as ->; reflexivity|].
  intros H. f_equal. apply IH. exact H.
Qed.

Lemma find_put_same t l : find_tab (t_name t) (put_tab t l) = Some t.
Proof.
  unfold find_tab. induction l as [|x l IH]; cbn; [rewrite Z.eqb_refl; reflexivity|].
  destruct (t_name x =? t_name t) eqn:E; cbn; [rewrite Z.eqb_refl; reflexivity|rewrite E; exact IH].
Qed.

Lemma find_put_other t l n : n <> t_name t -> find_tab n (put_tab t l) = find_tab n l.
Proof.
  intros Hne. unfold find_tab. induction l as [|x l IH]; cbn.
  - destruct (t_name t =? n) eqn:E; [apply Z.eqb_eq in E; congruence|reflexivity].
  - destruct (t_name x =? t_name t) eqn:E; cbn.
    + apply Z.eqb_eq in E. destruct (t_name t =? n) eqn:E1; [apply Z.eqb_eq in E1; congruence|].
      destruct (t_name x =? n) eqn:E2; [apply Z.eqb_eq in E2; congruence|reflexivity].
    + destruct (t_name x =? n); [reflexivity|exact IH].
Qed.

Lemma merge_finds sub : NoDup (names sub) -> forall old t, In t sub -> find_tab (t_name t) (merge old sub) = Some t.
Proof.
  unfold merge. induction sub as [|x sub IH]; intros Hn old t Hi; [contradiction|]. cbn.
  inversion Hn as [|? ? Hnot Hn']; subst. destruct Hi as [->|Hi]; [|apply IH; assumption].
  assert (G : forall l, find_tab (t_name t) l = Some t -> ~ In (t_name t) (names sub) ->
              find_tab (t_name t) (fold_left (fun acc t0 => put_tab t0 acc) sub l) = Some t).
  { clear. induction sub as [|y sub IH]; intros l Hf Hni; cbn; [exact Hf|].
    apply IH; [|intros H; apply Hni; right; exact H].
    rewrite find_put_other; [exact Hf|]. intros H. apply Hni. left. symmetry. exact H. }
  apply G; [apply find_put_same|exact Hnot].
Qed.

Lemma merge_idem sub old : NoDup (names sub) -> merge (merge old sub) sub = merge old sub.
Proof.
  intros Hn. set (M := merge old sub).
  assert (H : forall l, (forall t, In t l -> find_tab (t_name t) M = Some t) -> fold_left (fun acc t => put_tab t acc) l M = M).
  { induction l as [|t l IH]; intros Hl; cbn; [reflexivity|].
    rewrite put_tab_same by (apply Hl; left; reflexivity). apply IH. intros t' Ht'. apply Hl. right. exact Ht'. }
  apply H. intros t Ht. apply merge_finds; assumption.
Qed.

Lemma nodupb_spec l : nodupb l = true -> NoDup l.
Proof.
  induction l as [|x l IH]; cbn; intros H; [constructor|]. apply andb_true_iff in H as [H1 H2].
  constructor; [|apply IH; exact H2]. intros Hi. apply negb_true_iff in H1.
  assert (existsb (Z.eqb x) l = true) by (apply existsb_exists; exists x; split; [exact Hi|apply Z.eqb_refl]). congruence.
Qed.

Lemma find_col_unique l c : NoDup (map c_name l) -> In c l -> find_col (c_name c) l = Some c.
Proof.
  unfold find_col. induction l as [|x l IH]; cbn; intros Hn Hi; [contradiction|].
  inversion Hn as [|? ? Hnot Hn']; subst. destruct Hi as [->|Hi]; [rewrite Z.eqb_refl; reflexivity|].
  destruct (c_name x =? c_name c) eqn:E; [|apply IH; assumption].
  apply Z.eqb_eq in E. exfalso. apply Hnot. rewrite E. apply in_map. exact Hi.
Qed.

Lemma alter_self ne t : shape_ok t = true -> idx_cols_ok t = true -> alter_ok ne t t = true.
Proof.
  intros Hs Hi. unfold alter_ok. rewrite Hs, Hi, zlist_eqb_refl. cbn [andb].
  assert (Hnd : NoDup (map c_name (t_cols t))).
  { unfold shape_ok in Hs. apply andb_true_iff in Hs as [Hs _]. apply andb_true_iff in Hs as [Hs _]. apply nodupb_spec. exact Hs. }
  assert (H1 : forallb (fun c => match find_col (c_name c) (t_cols t) with Some c' => col_eqb c c' | None => false end) (t_cols t) = true).
  { apply forallb_forall. intros c Hc. rewrite (find_col_unique _ _ Hnd Hc). apply col_eqb_refl. }
  assert (H2 : added_cols t t = []).
  { unfold added_cols.
    assert (G : forall l', (forall c, In c l' -> In c (t_cols t)) ->
                filter (fun c => match find_col (c_name c) (t_cols t) with None => true | Some _ => false end) l' = []).
    { induction l' as [|c' l' IH']; intros Hsub; cbn; [reflexivity|].
      rewrite (find_col_unique _ _ Hnd (Hsub c' (or_introl eq_refl))).
      apply IH'. intros c0 H0. apply Hsub. right. exact H0. }
    apply G. auto. }
  rewrite H1, H2. reflexivity.
Qed.

Lemma ok_tables_shape hr old new t : apply_ok hr old new = true -> In t new -> shape_ok t = true /\ idx_cols_ok t = true.
Proof.
  unfold apply_ok. rewrite forallb_forall. intros H Ht. specialize (H t Ht).
  destruct (find_tab (t_name t) old) as [o|].
  - unfold alter_ok in H. destruct (shape_ok t); [|discriminate]. destruct (idx_cols_ok t); [auto|].
    rewrite andb_false_r in H. discriminate.
  - unfold create_ok in H. destruct (shape_ok t); [|discriminate]. destruct (idx_cols_ok t); [auto|].
    rewrite andb_false_r in H. discriminate.
Qed.

Theorem resubmit_accepted st sub tabs : NoDup (names (s_mem st)) -> parse sub = Some tabs -> NoDup (names tabs) ->
  fst (exec st sub) = true ->
  fst (exec (snd (exec st sub)) sub) = true /\
  s_mem (snd (exec (snd (exec st sub)) sub)) = s_mem (snd (exec st sub)).
Proof.
  intros Hn Hp Hnt. unfold exec. rewrite Hp.
  destruct (constrain (merge (s_mem st) tabs) && apply_ok (has_rows (s_db st)) (s_mem st) (merge (s_mem st) tabs)) eqn:E; [|discriminate].
  intros _. cbn [snd s_mem fst]. rewrite merge_idem by exact Hnt.
  apply andb_true_iff in E as [Hc Hap]. rewrite Hc. cbn [andb].
  set (M := merge (s_mem st) tabs) in *.
  assert (HnM : NoDup (names M)) by (apply merge_nodup; exact Hn).
  assert (Hself : forall hr, apply_ok hr M M = true).
  { intros hr. unfold apply_ok. apply forallb_forall. intros t Ht. rewrite (find_tab_unique _ _ HnM Ht).
    destruct (ok_tables_shape _ _ _ t Hap Ht). apply alter_self; assumption. }
  rewrite Hself. cbn. split; reflexivity.
Qed.
