(* Cluster-level model (C01): nodes that hold a CRDT database (Model/Crdt.v), the set of
   versions they know in full, and the log of acknowledged transactions.  Granularity: a
   version becomes visible at a node as a whole (that is C03's theorem about the chunked
   ingest path); who serves what is what C02/C04/C05 are about: a server answers a request
   for a version it holds with the records of that version that are still LIVE in its
   database (crsql_changes shows a clock row only for the record that currently owns it;
   overwritten records are gone, a version with none left is answered as "cleared").
   Definitions only; proofs in Proofs/ClusterProofs.v. *)
From Coq Require Import List ZArith Bool.
From Corro Require Import Model.Crdt.
Import ListNotations.
Open Scope Z_scope.

Record ver := mkVer { v_actor : Z; v_num : Z; v_recs : list rec }.
Record node := mkNode { n_db : db; n_merged : list rec; n_known : list nat }.
(* a version is identified by its position in the log of acknowledged transactions (the map
   to (actor, version number) is injective: C07) *)
Record cstate := mkC { c_log : list ver; c_nodes : list node }.

Definition clk_eqb (a b : clk) : bool :=
  (k_site a =? k_site b) && (k_dbv a =? k_dbv b) && (k_seq a =? k_seq b).

(* does the row state still attribute a clock row to record r?  (what
   SELECT ... FROM crsql_changes WHERE site_id = ? AND db_version = ? finds) *)
Definition live_row (o : option rowst) (r : rec) : bool :=
  match o with
  | None => false
  | Some s =>
    if r_sent r || Z.even (r_cl r)
    then match rw_sent s with Some k => clk_eqb k (rclk r) | None => false end
    else match rw_col s with Some c => clk_eqb (c_clk c) (rclk r) | None => false end
  end.
Definition live (d : db) (r : rec) : bool := live_row (dget (r_row r) d) r.

Definition knows (n : node) (x : nat) : bool := existsb (Nat.eqb x) (n_known n).

Definition next_version (a : Z) (l : list ver) : Z :=
  1 + Z.of_nat (length (filter (fun x => v_actor x =? a) l)).

Definition empty_node : node := mkNode [] [] [].
Definition cinit (n : nat) : cstate := mkC [] (repeat empty_node n).

Fixpoint set_nth {A} (i : nat) (x : A) (l : list A) : list A :=
  match l, i with
  | [], _ => []
  | _ :: t, O => x :: t
  | h :: t, S i' => h :: set_nth i' x t
  end.

Definition absorb (n : node) (rs : list rec) (x : nat) : node :=
  mkNode (merge_all (n_db n) rs) (n_merged n ++ rs) (x :: n_known n).

Inductive cop :=
| Local (i : nat) (rs : list rec)
    (* node i commits a transaction whose change records are rs (what cr-sqlite produced);
       it becomes the next version of actor i *)
| Pull (i j : nat) (x : nat) (extra : list Z)
    (* node i obtains version number x of the log from node j, which knows it: j hands out the records
       of the version that are live in its database, plus possibly some superseded ones
       (seqs in extra: a broadcast carries the original records).  Re-delivery of a version
       i already knows is ignored. *)

| PullMix (i : nat) (x : nat) (srv : list nat)
    (* node i assembles version x from chunks obtained from SEVERAL nodes (C03's buffer accepts
       chunks from any supplier): the record at position p of the version lies in a chunk served
       by node (nth p srv), which knows the version; it arrives iff it is live there *).

Definition served (srv : node) (x : ver) (extra : list Z) : list rec :=
  filter (fun r => live (n_db srv) r || existsb (Z.eqb (r_seq r)) extra) (v_recs x).

Fixpoint mix (nodes : list node) (x : nat) (rs : list rec) (srv : list nat) : option (list rec) :=
  match rs, srv with
  | [], _ => Some []
  | r :: rs', j :: srv' =>
    match nth_error nodes j with
    | Some m => if knows m x
                then match mix nodes x rs' srv' with
                     | Some l => Some (if live (n_db m) r then r :: l else l)
                     | None => None end
                else None
    | None => None
    end
  | _ :: _, [] => None
  end.

Definition cstep (s : cstate) (o : cop) : cstate :=
  match o with
  | Local i rs =>
    match nth_error (c_nodes s) i with
    | None => s
    | Some n =>
      let a := Z.of_nat i in
      let v := next_version a (c_log s) in
      mkC (c_log s ++ [mkVer a v rs]) (set_nth i (absorb n rs (length (c_log s))) (c_nodes s))
    end
  | Pull i j x extra =>
    match nth_error (c_nodes s) i, nth_error (c_nodes s) j, nth_error (c_log s) x with
    | Some n, Some m, Some vx =>
      if knows m x && negb (knows n x)
      then mkC (c_log s) (set_nth i (absorb n (served m vx extra) x) (c_nodes s))
      else s
    | _, _, _ => s
    end
  | PullMix i x srv =>
    match nth_error (c_nodes s) i, nth_error (c_log s) x with
    | Some n, Some vx =>
      if negb (knows n x)
      then match mix (c_nodes s) x (v_recs vx) srv with
           | Some l => mkC (c_log s) (set_nth i (absorb n l x) (c_nodes s))
           | None => s end
      else s
    | _, _ => s
    end
  end.

Definition crun (n : nat) (ops : list cop) : cstate := fold_left cstep ops (cinit n).

Definition all_recs (l : list ver) : list rec := flat_map v_recs l.

(* quiescence as the nodes can observe it: node n knows every acknowledged version
   (heads equal, nothing needed, nothing partial) *)
Definition knows_all (l : list ver) (n : node) : bool :=
  forallb (knows n) (seq 0 (length l)).

(* r is strictly below r': an older generation; or the same (odd) generation and r is only a
   marker while r' carries a value, or both carry a value and r' has the greater
   (column version, value, site) *)
Definition key3_lt (r r' : rec) : bool :=
  (r_colv r <? r_colv r') ||
  ((r_colv r =? r_colv r') && ((r_val r <? r_val r') || ((r_val r =? r_val r') && (r_site r <? r_site r')))).
Definition is_data (r : rec) : bool := negb (r_sent r) && Z.odd (r_cl r).
Definition sdom (r r' : rec) : bool :=
  (r_cl r <? r_cl r') ||
  ((r_cl r =? r_cl r') && Z.odd (r_cl r) &&
   ((negb (is_data r) && is_data r') || (is_data r && is_data r' && key3_lt r r'))).

(* the class of histories the convergence theorem excludes (known finding
   concurrent-deletes): two different records for one row with the same causal length that
   the merge cannot order -- two deletes (even causal length; the first one merged keeps the
   clock row), or two values with the same column version, value and site *)
Definition rec_eqb (r r' : rec) : bool :=
  (r_row r =? r_row r') && Bool.eqb (r_sent r) (r_sent r') && (r_val r =? r_val r') && (r_colv r =? r_colv r') &&
  (r_cl r =? r_cl r') && (r_site r =? r_site r') && (r_dbv r =? r_dbv r') && (r_seq r =? r_seq r').
Definition tie (r r' : rec) : bool :=
  (r_row r =? r_row r') && (r_cl r =? r_cl r') && negb (rec_eqb r r') &&
  (Z.even (r_cl r) ||
   (is_data r && is_data r' && (r_colv r =? r_colv r') && (r_val r =? r_val r') && (r_site r =? r_site r'))).
Definition no_tie (rs : list rec) : bool :=
  forallb (fun r => forallb (fun r' => negb (tie r r')) rs) rs.
(* a clock position (site, db_version, seq) names one record *)
Definition clk_clash (r r' : rec) : bool := clk_eqb (rclk r) (rclk r') && negb (rec_eqb r r').
Definition clk_unique (rs : list rec) : bool :=
  forallb (fun r => forallb (fun r' => negb (clk_clash r r')) rs) rs.
