"""C08 — chunk tiling: case generation and oracle glue."""
import itertools, random, re, subprocess
import vlib, flow


class C08(flow.Spec):
    pid = "C08"
    rule = ("cases: committed corpus; exhaustive small scope = every subset of seqs in [0,5] x every "
            "(start<=min, last>=max, last<=6) x constant limit schedules {0,1,size,2*size,huge} plus "
            "varying schedules; random long lists (<=300 changes, holes, sizes base..base+40, per-call "
            "limits 0..4*size); ill-formed inputs (unsorted / beyond last) are compared impl-vs-model only; "
            "chunk_range: all (s,e,k) with 1<=s<=e<=14,1<=k<=5 plus random up to 2^62. "
            "non-trivial = distinct case whose model output has >=2 chunks/blocks")
    assumptions = ["estimated_byte_size is abstracted to an arbitrary size >= 0 per change (sizes exercised: base..base+40)",
                   "inputs violating the hypothesis (seq not strictly increasing / outside [start,last], start>last, k=0, values >= 2^63) are outside the quantifier",
                   "rusqlite row errors (Some(Err)) are not modelled"]

    def __init__(self):
        self.base = None

    def base_size(self):
        if self.base is None:
            out = subprocess.run([vlib.HARNESS_BIN, "c08-base-size"], stdout=subprocess.PIPE, env=vlib.ENV).stdout
            self.base = int(out.decode().strip())
        return self.base

    def normalize(self, obs):
        return re.sub(r"\|wf=\d", "", obs)

    def mk(self, start, last, seqs, sizes, lims):
        parts = ["chunks", str(start), str(last), str(len(seqs))]
        for s, z in zip(seqs, sizes):
            parts += [str(s), str(z)]
        parts.append(str(len(lims)))
        parts += [str(l) for l in lims]
        return " ".join(parts)

    def cases(self, tier, seed):
        rnd = random.Random(seed)
        B = self.base_size()
        out = []
        thorough = tier == "thorough"
        # exhaustive small scope
        U = 6 if not thorough else 7
        for mask in range(1 << U):
            seqs = [i for i in range(U) if mask >> i & 1]
            lo = seqs[0] if seqs else 0
            hi = seqs[-1] if seqs else 0
            for start in range(0, lo + 1):
                for last in range(max(hi, start), U + 1):
                    n = len(seqs)
                    sizes = [B] * n
                    for lim in (0, 1, B, 2 * B, 10 ** 9):
                        out.append((self.mk(start, last, seqs, sizes, [lim] * (n + 1)), {"exhaustive", "const-limit"}))
                    for _ in range(2 if not thorough else 6):
                        lims = [rnd.choice([0, 1, B, B + 1, 2 * B, 3 * B, 10 ** 9]) for _ in range(n + 1)]
                        sz = [B + rnd.randrange(0, 3) for _ in range(n)]
                        out.append((self.mk(start, last, seqs, sz, lims), {"exhaustive", "varying-limit"}))
        # random long
        N = 300 if not thorough else 20000
        for _ in range(N):
            n = rnd.randrange(0, 60 if rnd.random() < 0.8 else 300)
            start = rnd.randrange(0, 50)
            seqs, s = [], start
            for _ in range(n):
                s += rnd.choice([0, 0, 0, 1, 2, 5]) if seqs or rnd.random() < 0.5 else 0
                seqs.append(s); s += 1
            last = (seqs[-1] if seqs else start) + rnd.choice([0, 0, 1, 3, 100])
            sizes = [B + rnd.randrange(0, 41) for _ in range(n)]
            k = rnd.choice([1, 2, 3, 5, 9, 20])
            mode = rnd.random()
            if mode < 0.4:
                lims = [k * B] * (n + 1)
            else:
                lims = [rnd.choice([0, B, k * B, k * B // 2, 4 * k * B]) for _ in range(n + 1)]
            out.append((self.mk(start, last, seqs, sizes, lims), {"random-long"}))
        # short limit schedule (iterator not finished) -- still compared
        for _ in range(200):
            n = rnd.randrange(2, 12)
            seqs = sorted(rnd.sample(range(0, 30), n))
            out.append((self.mk(0, 30, seqs, [B] * n, [B] * rnd.randrange(1, n)), {"short-schedule"}))
        # ill-formed (outside the quantifier; impl-vs-model only)
        for _ in range(400 if not thorough else 5000):
            n = rnd.randrange(1, 8)
            seqs = [rnd.randrange(0, 12) for _ in range(n)]
            start = rnd.randrange(0, 6); last = rnd.randrange(0, 12)
            lims = [rnd.choice([0, B, 2 * B, 10 ** 9]) for _ in range(n + 1)]
            out.append((self.mk(start, last, seqs, [B] * n, lims), {"ill-formed"}))
        # two rows under one seq (what a relay holds after a resurrecting merge: known finding
        # resurrect-duplicate-seq); outside the quantifier, impl-vs-model only -- the model's
        # exact answer is C08_served_is_prefix_up_to_last_seq
        for last in range(0, 4):
            for dup in range(0, last + 1):
                seqs = []
                for q in range(0, last + 1):
                    seqs += [q, q] if q == dup else [q]
                for lim in (0, B, 2 * B, 10 ** 9):
                    out.append((self.mk(0, last, seqs, [B] * len(seqs), [lim] * (len(seqs) + 1)), {"ill-formed", "duplicate-seq"}))
        # chunk_range
        R = 14 if not thorough else 40
        for s in range(1, R + 1):
            for e in range(s, R + 1):
                for k in range(1, 6 if not thorough else 12):
                    out.append(("range %d %d %d" % (s, e, k), {"range-exhaustive"}))
        for _ in range(300 if not thorough else 5000):
            s = rnd.randrange(1, 1 << rnd.choice([4, 10, 40, 61]))
            e = s + rnd.randrange(0, 1 << rnd.choice([3, 8, 12]))
            k = rnd.choice([1, 2, 10, 10, 10, 17, 1000, rnd.randrange(1, 1 << 20)])
            if (e - s) // k > 3000:
                continue
            out.append(("range %d %d %d" % (s, e, k), {"range-random"}))
        return out

    def nontrivial(self, case, model_obs):
        if case.startswith("chunks"):
            return model_obs.count(";") >= 1
        return model_obs.count(" ") >= 1

    def oracle_line(self, case, impl_obs):
        if impl_obs.startswith(("ERR", "PANIC", "CRASH")):
            # a panic/crash on an input inside the quantifier is a failure: let the oracle see an empty output
            impl_obs = "|done=0" if case.startswith("chunks") else ""
        if case.startswith("chunks "):
            t = case.split()
            n = int(t[3])
            head = t[1:4 + 2 * n]
            m = int(t[4 + 2 * n])
            chunks_part = impl_obs.split("|")[0]
            done = "done=1" in impl_obs
            if n >= m:
                return None     # schedule too short: outside the theorem's hypothesis
            chunks = [c for c in chunks_part.split(";") if c]
            parts = ["chk_chunks"] + head + [str(len(chunks))]
            for c in chunks:
                mm = re.match(r"(\d+)-(\d+)\[([^\]]*)\]", c)
                if not mm:
                    return None
                ids = mm.group(3).split()
                parts += [mm.group(1), mm.group(2), str(len(ids))] + ids
            if not done:
                # not finished within |cs|+1 calls: force a failing verdict
                parts = ["chk_chunks"] + head + ["0"]
            else:
                parts += t[4 + 2 * n:5 + 2 * n + m]          # the limit schedule: <m> {limit}
            return " ".join(parts)
        if case.startswith("range "):
            _, s, e, k = case.split()
            if int(e) - int(s) > 5000:
                return None
            bs = impl_obs.split()
            parts = ["chk_range", s, e, str(len(bs))]
            for b in bs:
                a, bb = b.split("-")
                parts += [a, bb]
            parts.append(k)
            return " ".join(parts)
        return None


SPEC = C08
