(* Extraction of the executable models.  ExtrOcamlBasic only: bool, option,
   list, prod, unit, sumbool map to OCaml's; Z/positive/N/nat stay inductive.
   No Extract Constant. *)
From Coq Require Import Extraction ExtrOcamlBasic ZArith List.
From Corro Require Import Gen.Consts Lib.Ivl Model.Chunk Model.Book Model.SeqRows Model.BookOps Model.Needs Model.Members Lib.Utf8 Model.Pack Model.Wire Model.WireDescs Model.Ingest Model.IngestSched Model.ClusterGate Model.Partial Model.Serve Model.LocalTx Model.Crdt Model.CrdtSpec Model.Cluster Model.Ivm Model.Updates Model.SchemaDiff Model.Authz Gen.Router Model.Catchup Gen.CatchupCfg Model.SubLife Gen.SubLifeCfg Model.Backup Model.RestoreLock Gen.RestoreLocks Model.WritePool.
Extraction Language OCaml.
Extraction "model.ml"
  Z.add Z.mul Z.sub Z.opp Z.div_eucl Z.of_nat Z.to_nat Z.compare Z.eqb Z.ltb Z.leb
  Chunk.run Chunk.start_cursor Chunk.next Chunk.chunk_range
  Chunk.wf_input Chunk.check_chunks Chunk.check_chunk_range Chunk.rtiles_b Chunk.sizes_ok_b
  Ivl.ins Ivl.rem Ivl.gaps Ivl.overlapping Ivl.get Ivl.memb Ivl.canonicalb Ivl.ins_all Ivl.rem_all
  Book.insert_db Book.insert_partial Book.contains_version Book.contains Book.contains_all
  Book.sync_actor Book.from_conn Book.inv_b Book.is_complete Book.fully_buffered
  SeqRows.incomplete_rows
  BookOps.bstep BookOps.bruns BookOps.bstate_init BookOps.reload BookOps.adv_exact_b BookOps.state_ok BookOps.bv_eqb
  BookOps.seqrows_flat
  Needs.compute_available_needs Needs.check_needs
  Members.mstep Members.members_empty Members.ring0 Members.spec_step Members.op_allowed Members.view_matches Members.add_member Members.remove_member Members.ba_inv_b Members.zlist_eqb Members.bucket_of Members.sumz Members.mget Consts.ring_buckets
  Utf8.utf8_valid Pack.pack Pack.unpack Pack.sval_ok Wire.enc Wire.dec Wire.wt Wire.read_from_buffer Wire.desc_ok WireDescs.desc_by_id
  Ingest.known Ingest.seen_inv_b Ingest.istep Ingest.offer IngestSched.sstep IngestSched.sst_init
  ClusterGate.uni_deliver ClusterGate.serve_first ClusterGate.sync_candidates ClusterGate.bcast_allowed ClusterGate.bcast_priority
  Partial.pstep Partial.pst_init Partial.covered Partial.atomic_vis
  Serve.serve Serve.check_serve
  LocalTx.lruns LocalTx.lst_init
  Crdt.merge Crdt.merge_all Crdt.table Crdt.versions
  CrdtSpec.row_spec CrdtSpec.wf_row CrdtSpec.on_row
  Cluster.no_tie Cluster.clk_unique Cluster.crun Cluster.all_recs Cluster.knows_all
  Ivm.eval Ivm.m_init Ivm.handle_candidates Ivm.cands_of Ivm.diff_ok
  Updates.urun Updates.u_init Updates.recv Updates.flush Updates.fate_ok
  SchemaDiff.exec SchemaDiff.insert_row SchemaDiff.find_dtab SchemaDiff.default_val
  Authz.api_serve Authz.all_guarded Router.api_router Router.authz_malformed_is_absent
  Catchup.catch_up Catchup.consecutive_from Catchup.client_run CatchupCfg.catchup_attempts CatchupCfg.forward_filters
  SubLife.lrun SubLife.start_node SubLife.s_init SubLife.restored_at_start SubLife.restore_is_sound SubLifeCfg.cancel_returns
  Backup.backup Backup.restore Backup.author
  RestoreLock.run_locks RestoreLocks.lock_all_probe RestoreLocks.lock_all_rollback RestoreLocks.lock_all_wal
  WritePool.wp_step WritePool.pool_init WritePool.waiting.
