//! C08: ChunkedChanges::next and chunk_range driven on generated cases.
use crate::util::Toks;
use klukai_types::{
    base::CrsqlSeq,
    change::{Change, ChunkedChanges},
};

fn mk_change(seq: u64, pk_len: usize, id: i64) -> Change {
    Change {
        pk: vec![0u8; pk_len],
        seq: CrsqlSeq(seq),
        cl: id,
        ..Default::default()
    }
}

/// estimated_byte_size of a change with an empty pk: sizes in a case are
/// `base + pk_len`, computed by the real estimated_byte_size().
pub fn base_size() -> usize {
    mk_change(0, 0, 0).estimated_byte_size()
}

/// case: chunks <start> <last> <n> {<seq> <size>}*n <m> {<lim>}*m
/// `size` must be >= base_size(); the change gets a pk of size-base bytes.
/// One next() call per limit, set_max_buf_size before each call.
pub fn chunks(t: &mut Toks) -> String {
    let start = t.u64();
    let last = t.u64();
    let n = t.usize();
    let base = base_size();
    let mut cs = Vec::with_capacity(n);
    for i in 0..n {
        let seq = t.u64();
        let size = t.usize();
        assert!(size >= base, "size below base");
        let c = mk_change(seq, size - base, i as i64);
        assert_eq!(c.estimated_byte_size(), size);
        cs.push(Ok(c));
    }
    let m = t.usize();
    let lims: Vec<usize> = (0..m).map(|_| t.usize()).collect();
    let mut chunker = ChunkedChanges::new(
        cs.into_iter(),
        CrsqlSeq(start),
        CrsqlSeq(last),
        lims.first().copied().unwrap_or(0),
    );
    let mut parts = vec![];
    let mut done = true;
    for (i, lim) in lims.iter().enumerate() {
        chunker.set_max_buf_size(*lim);
        match chunker.next() {
            None => break,
            Some(Err(e)) => return format!("ERR {e}"),
            Some(Ok((changes, range))) => {
                let ids: Vec<String> = changes.iter().map(|c| c.cl.to_string()).collect();
                parts.push(format!("{}-{}[{}]", range.start().0, range.end().0, ids.join(" ")));
            }
        }
        if i + 1 == lims.len() {
            // out of limits: is the iterator finished?
            done = chunker.next().is_none();
        }
    }
    format!("{}|done={}", parts.join(";"), if done { 1 } else { 0 })
}

/// case: range <s> <e> <k>
pub fn range(t: &mut Toks) -> String {
    let s = t.u64();
    let e = t.u64();
    let k = t.usize();
    let bs = klukai_agent::api::peer::verif_hooks::chunk_range_u64(s..=e, k);
    bs.iter()
        .map(|r| format!("{}-{}", r.start(), r.end()))
        .collect::<Vec<_>>()
        .join(" ")
}
