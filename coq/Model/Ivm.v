(* Model of a subscription's incremental view maintenance,
   crates/klukai-types/src/pubsub.rs: Matcher::new (query rewrite: primary keys
   of every source table are added to the projection, one pk-restricted
   statement per table, LEFT JOIN -> INNER JOIN when the restricted table is the
   joined one), Matcher::run (initial query) and Matcher::handle_candidates
   (state_results; INSERT ... SELECT ... EXCEPT ... ON CONFLICT DO UPDATE ...;
   DELETE ... WHERE pks IN (... EXCEPT ...); one `changes` row per RETURNING row).

   SQL is modelled for the query family the harness generates: integer primary
   keys (single or composite), nullable integer columns, expressions over
   columns/constants with SQLite's three-valued logic, one table or two tables
   joined INNER or LEFT.  The matview (`query` table) is keyed by the primary
   keys of all source tables (None = the NULL of a LEFT JOIN's missing side,
   which the code coalesces to "" - indistinguishable here because keys are
   integers). *)
From Coq Require Import List ZArith Bool.
Import ListNotations.
Open Scope Z_scope.

(* ---------- values, rows, tables ---------- *)
Definition val := option Z.                      (* None = NULL *)
Definition key := list Z.
Definition row := (key * list val)%type.
Definition table := list row.                    (* primary keys are unique *)
Definition db := list table.

Definition tbl (d : db) (t : nat) : table := nth t d [].

Fixpoint key_eqb (a b : key) : bool :=
  match a, b with
  | [], [] => true
  | x :: a', y :: b' => (x =? y) && key_eqb a' b'
  | _, _ => false
  end.

Definition val_eqb (a b : val) : bool :=
  match a, b with
  | None, None => true
  | Some x, Some y => x =? y
  | _, _ => false
  end.

Fixpoint cells_eqb (a b : list val) : bool :=
  match a, b with
  | [], [] => true
  | x :: a', y :: b' => val_eqb x y && cells_eqb a' b'
  | _, _ => false
  end.

Definition okey_eqb (a b : option key) : bool :=
  match a, b with
  | None, None => true
  | Some x, Some y => key_eqb x y
  | _, _ => false
  end.

Definition mkey := list (option key).            (* one component per FROM position *)
Fixpoint mkey_eqb (a b : mkey) : bool :=
  match a, b with
  | [], [] => true
  | x :: a', y :: b' => okey_eqb x y && mkey_eqb a' b'
  | _, _ => false
  end.

Definition tfind (k : key) (t : table) : option (list val) :=
  match find (fun r => key_eqb (fst r) k) t with Some r => Some (snd r) | None => None end.

(* ---------- expressions (SQLite three-valued logic on integers) ---------- *)
Inductive expr :=
| ECol (pos col : nat)        (* column `col` (pk columns first) of FROM position `pos` *)
| EConst (z : Z)
| ENull
| EAdd (a b : expr)
| EEq (a b : expr)
| ELt (a b : expr)
| EAnd (a b : expr)
| EOr (a b : expr)
| ENot (a : expr)
| EIsNull (a : expr).

Definition env := list (option row).             (* None = NULL-padded side *)

Definition colval (r : option row) (c : nat) : val :=
  match r with
  | None => None
  | Some (k, vs) => nth c (map Some k ++ vs) None
  end.

Definition b2v (b : bool) : val := Some (if b then 1 else 0).
Definition truthy (v : val) : bool := match v with Some z => negb (z =? 0) | None => false end.

Fixpoint ev (e : expr) (en : env) : val :=
  match e with
  | ECol p c => colval (nth p en None) c
  | EConst z => Some z
  | ENull => None
  | EAdd a b => match ev a en, ev b en with Some x, Some y => Some (x + y) | _, _ => None end
  | EEq a b => match ev a en, ev b en with Some x, Some y => b2v (x =? y) | _, _ => None end
  | ELt a b => match ev a en, ev b en with Some x, Some y => b2v (x <? y) | _, _ => None end
  | EAnd a b =>
      match ev a en, ev b en with
      | Some x, Some y => b2v (negb (x =? 0) && negb (y =? 0))
      | Some x, None => if x =? 0 then b2v false else None
      | None, Some y => if y =? 0 then b2v false else None
      | None, None => None
      end
  | EOr a b =>
      match ev a en, ev b en with
      | Some x, Some y => b2v (negb (x =? 0) || negb (y =? 0))
      | Some x, None => if x =? 0 then None else b2v true
      | None, Some y => if y =? 0 then None else b2v true
      | None, None => None
      end
  | ENot a => match ev a en with Some x => b2v (x =? 0) | None => None end
  | EIsNull a => match ev a en with Some _ => b2v false | None => b2v true end
  end.

(* ---------- queries ---------- *)
Inductive jkind := JSingle | JInner | JLeft.
Record query := mkQ {
  q_kind : jkind;
  q_t0 : nat;                 (* table of FROM position 0 *)
  q_t1 : nat;                 (* table of FROM position 1 (joins) *)
  q_on : expr;
  q_where : expr;
  q_proj : list expr }.

Definition mrow := (mkey * list val)%type.

Definition out1 (q : query) (en : env) (mk : mkey) : list mrow :=
  if truthy (ev (q_where q) en) then [(mk, map (fun e => ev e en) (q_proj q))] else [].

(* `sel0`, `sel1`: which rows of position 0 / 1 take part (all of them for the
   user's query; the candidates' rows for a restricted statement).
   `inner1`: evaluate a LEFT JOIN as INNER (the rewrite for the joined table). *)
Definition eval_gen (q : query) (d : db) (sel0 sel1 : key -> bool) (inner1 : bool) : list mrow :=
  let t0 := filter (fun r => sel0 (fst r)) (tbl d (q_t0 q)) in
  match q_kind q with
  | JSingle => flat_map (fun r0 => out1 q [Some r0] [Some (fst r0)]) t0
  | JInner =>
      let t1 := filter (fun r => sel1 (fst r)) (tbl d (q_t1 q)) in
      flat_map (fun r0 =>
        flat_map (fun r1 =>
          if truthy (ev (q_on q) [Some r0; Some r1])
          then out1 q [Some r0; Some r1] [Some (fst r0); Some (fst r1)] else []) t1) t0
  | JLeft =>
      flat_map (fun r0 =>
        let ms := filter (fun r1 => truthy (ev (q_on q) [Some r0; Some r1])) (tbl d (q_t1 q)) in
        if inner1 then
          flat_map (fun r1 => out1 q [Some r0; Some r1] [Some (fst r0); Some (fst r1)])
                   (filter (fun r => sel1 (fst r)) ms)
        else
          match ms with
          | [] => out1 q [Some r0; None] [Some (fst r0); None]
          | _ => flat_map (fun r1 => out1 q [Some r0; Some r1] [Some (fst r0); Some (fst r1)]) ms
          end) t0
  end.

Definition all_keys (_ : key) : bool := true.
Definition eval (q : query) (d : db) : list mrow := eval_gen q d all_keys all_keys false.

Definition kin (ks : list key) (k : key) : bool := existsb (key_eqb k) ks.

(* the statement prepared for FROM position `pos`, restricted to candidate keys *)
Definition eval_restricted (q : query) (d : db) (pos : nat) (ks : list key) : list mrow :=
  match pos with
  | O => eval_gen q d (kin ks) all_keys false
  | _ => eval_gen q d all_keys (kin ks) true
  end.

(* ---------- the matview and one handle_candidates pass ---------- *)
Section Pass.
  Variables (K C : Type) (keqb : K -> K -> bool) (ceqb : C -> C -> bool).

  Definition ment := (Z * (K * C))%type.            (* __corro_rowid, key, cells *)
  Inductive evk := EvIns | EvUpd | EvDel.
  Definition event := (evk * Z * K * C)%type.

  Fixpoint mfind (k : K) (l : list ment) : option (Z * C) :=
    match l with
    | [] => None
    | (rid, (k', c)) :: t => if keqb k' k then Some (rid, c) else mfind k t
    end.

  Fixpoint mset (k : K) (c : C) (l : list ment) : list ment :=
    match l with
    | [] => []
    | (rid, (k', c')) :: t => if keqb k' k then (rid, (k', c)) :: t else (rid, (k', c')) :: mset k c t
    end.

  Definition pstate := (list ment * Z * list event)%type.   (* rows, next rowid, events *)

  (* INSERT ... ON CONFLICT(pks) DO UPDATE SET cols WHERE cols IS NOT excluded.cols RETURNING *)
  Definition upsert1 (st : pstate) (kc : K * C) : pstate :=
    let '(rows, nxt, evs) := st in
    let (k, c) := kc in
    match mfind k rows with
    | Some (rid, c0) => if ceqb c0 c then st else (mset k c rows, nxt, evs ++ [(EvUpd, rid, k, c)])
    | None => (rows ++ [(nxt, (k, c))], nxt + 1, evs ++ [(EvIns, nxt, k, c)])
    end.

  Definition row_mem (kc : K * C) (l : list (K * C)) : bool :=
    existsb (fun x => keqb (fst x) (fst kc) && ceqb (snd x) (snd kc)) l.

  (* DELETE FROM query WHERE pks IN (restricted old EXCEPT state_results) RETURNING *)
  Definition doomed (sel : K -> bool) (newr : list (K * C)) (e : ment) : bool :=
    sel (fst (snd e)) && negb (row_mem (snd e) newr).

  Definition pass (st : pstate) (sel : K -> bool) (newr : list (K * C)) : pstate :=
    let '(rows, nxt, evs) := fold_left upsert1 newr st in
    let dead := filter (doomed sel newr) rows in
    (filter (fun e => negb (doomed sel newr e)) rows, nxt,
     evs ++ map (fun e => (EvDel, fst e, fst (snd e), snd (snd e))) dead).

  (* what a client does with the event stream *)
  Definition apply_event (l : list (Z * C)) (e : event) : list (Z * C) :=
    let '(k, rid, _, c) := e in
    match k with
    | EvIns => l ++ [(rid, c)]
    | EvUpd => map (fun x => if fst x =? rid then (rid, c) else x) l
    | EvDel => filter (fun x => negb (fst x =? rid)) l
    end.
  Definition replay (l : list (Z * C)) (evs : list event) : list (Z * C) := fold_left apply_event evs l.
  Definition client_view (rows : list ment) : list (Z * C) := map (fun e => (fst e, snd (snd e))) rows.
End Pass.


(* ---------- the matcher ---------- *)
Record mstate := mkM {
  m_rows : list (ment mkey (list val));
  m_next : Z;                    (* next __corro_rowid (AUTOINCREMENT: never reused) *)
  m_cid : Z }.                   (* last change id *)

Definition comp (pos : nat) (mk : mkey) : option key := nth pos mk None.
Definition sel_pos (pos : nat) (ks : list key) (mk : mkey) : bool :=
  match comp pos mk with Some k => kin ks k | None => false end.

(* initial query: every result row gets a fresh rowid; change id stays 0 *)
Definition m_init (q : query) (d : db) : mstate :=
  let rows := eval q d in
  mkM (combine (map Z.of_nat (seq 1 (length rows))) rows) (Z.of_nat (length rows) + 1) 0.

(* candidates: (FROM position, changed primary keys), in the order the tables
   first appeared in the batch *)
Definition cands := list (nat * list key).

Definition handle_candidates (q : query) (d : db) (m : mstate) (cs : cands)
  : mstate * list (event mkey (list val)) :=
  let '(rows, nxt, evs) :=
    fold_left (fun st c =>
      pass mkey (list val) mkey_eqb cells_eqb st (sel_pos (fst c) (snd c))
           (eval_restricted q d (fst c) (snd c)))
      cs (m_rows m, m_next m, []) in
  (mkM rows nxt (m_cid m + Z.of_nat (length evs)), evs).

(* change ids are assigned in emission order *)
Definition stamp (base : Z) (evs : list (event mkey (list val))) : list (Z * event mkey (list val)) :=
  combine (map (fun i => base + Z.of_nat i) (seq 1 (length evs))) evs.

(* ---------- which keys a batch must re-evaluate ---------- *)
Definition row_changed (told tnew : table) (k : key) : bool :=
  negb (match tfind k told, tfind k tnew with
        | None, None => true
        | Some a, Some b => cells_eqb a b
        | _, _ => false
        end).

Definition changed_keys (told tnew : table) : list key :=
  filter (row_changed told tnew) (map fst told ++ map fst tnew).

Definition positions (q : query) : list (nat * nat) :=       (* (position, table) *)
  match q_kind q with JSingle => [(0%nat, q_t0 q)] | _ => [(0%nat, q_t0 q); (1%nat, q_t1 q)] end.

(* candidates as the fixed code produces them: every changed row of a table
   the query reads (filter_matchable_change keeps all columns of those tables) *)
Definition cands_of (q : query) (dold dnew : db) : cands :=
  filter (fun c => negb (match snd c with [] => true | _ => false end))
    (map (fun pt => (fst pt, changed_keys (tbl dold (snd pt)) (tbl dnew (snd pt)))) (positions q)).

(* ---------- oracle: the events of a batch are exactly the difference ---------- *)
Definition mfind_row (mk : mkey) (l : list mrow) : option (list val) :=
  match find (fun r => mkey_eqb (fst r) mk) l with Some r => Some (snd r) | None => None end.

Definition diff_ok (prev cur : list mrow) (evs : list (evk * mkey * list val)) : bool :=
  forallb (fun e =>
    let '(k, mk, c) := e in
    match k with
    | EvIns => match mfind_row mk prev, mfind_row mk cur with None, Some c' => cells_eqb c c' | _, _ => false end
    | EvUpd => match mfind_row mk prev, mfind_row mk cur with
               | Some c0, Some c' => cells_eqb c c' && negb (cells_eqb c0 c') | _, _ => false end
    | EvDel => match mfind_row mk prev, mfind_row mk cur with Some c0, None => cells_eqb c c0 | _, _ => false end
    end) evs
  && forallb (fun r =>            (* every difference has its event *)
       match mfind_row (fst r) prev with
       | None => existsb (fun e => match e with (EvIns, mk, _) => mkey_eqb mk (fst r) | _ => false end) evs
       | Some c0 => cells_eqb c0 (snd r)
                    || existsb (fun e => match e with (EvUpd, mk, _) => mkey_eqb mk (fst r) | _ => false end) evs
       end) cur
  && forallb (fun r =>
       match mfind_row (fst r) cur with
       | None => existsb (fun e => match e with (EvDel, mk, _) => mkey_eqb mk (fst r) | _ => false end) evs
       | Some _ => true
       end) prev.
