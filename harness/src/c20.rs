//! C20: the real SplitPool of a real agent under scripted request / cancel / release sequences,
//! and a watchdog run mixing the agent's writers and bookkeeping readers.
use crate::{agentkit, c11, util::Toks};
use klukai_agent::agent::{process_multiple_changes, util::process_fully_buffered_changes};
use klukai_types::{
    actor::ActorId,
    api::Statement,
    base::{CrsqlDbVersion, CrsqlSeq},
    broadcast::{ChangeSource, ChangeV1, Changeset, Timestamp},
    sync::generate_sync,
};
use std::sync::{atomic::{AtomicI64, Ordering::SeqCst}, Arc, Mutex};
use std::time::{Duration, Instant};

/// case: pool <nops> { H | R | Q <0|1|2> <id> | L <0|1|2> <id> | C <id> | W <ms> }
///   H   take the write connection (priority) and keep it          R   release it
///   Q   a task requests the connection with priority 0 = client, 1 = sync, 2 = background; once
///       granted it uses it, holds it for 2 ms and drops it
///   L   the same, but the task keeps the connection until it is cancelled
///   C   the requesting task <id> is aborted (while queued or while holding)
/// After every operation the harness waits until the pool is stable: every task is finished, or
/// is queued behind a holder (its first poll -- which sends the request into its queue -- has
/// returned), or is an `L` task holding the connection.  So the script, not the scheduler,
/// decides what is waiting at each release.
/// obs: grants=<ids in grant order> maxlive=<most WriteConn values alive at once> stuck=<0/1>
pub fn pool(t: &mut Toks) -> String {
    use std::future::Future;
    use std::pin::Pin;
    use std::sync::atomic::AtomicU8;
    use std::task::{Context, Poll};
    const SPAWNED: u8 = 0;
    const QUEUED: u8 = 1;
    const GRANTED: u8 = 2;
    const DONE: u8 = 3;
    /// marks the task as queued once its first poll has returned without a grant
    struct FirstPoll<F> { f: Pin<Box<F>>, st: Arc<AtomicU8> }
    impl<F: Future> Future for FirstPoll<F> {
        type Output = F::Output;
        fn poll(mut self: Pin<&mut Self>, cx: &mut Context<'_>) -> Poll<F::Output> {
            let r = self.f.as_mut().poll(cx);
            let _ = self.st.compare_exchange(SPAWNED, QUEUED, SeqCst, SeqCst);
            r
        }
    }
    struct T { id: i64, long: bool, st: Arc<AtomicU8>, h: Option<tokio::task::JoinHandle<()>> }

    let rt = tokio::runtime::Builder::new_multi_thread().worker_threads(4).enable_all().build().unwrap();
    let nops = t.usize();
    enum Op { H, R, Q(u8, i64, bool), C(i64), W(u64) }
    let mut ops = vec![];
    for _ in 0..nops {
        ops.push(match t.tok() {
            "H" => Op::H,
            "R" => Op::R,
            "Q" => Op::Q(t.u64() as u8, t.i64(), false),
            "L" => Op::Q(t.u64() as u8, t.i64(), true),
            "C" => Op::C(t.i64()),
            "W" => Op::W(t.u64()),
            x => panic!("bad op {x}"),
        });
    }
    let out = rt.block_on(async move {
        let kit = agentkit::new_agent(|_| {}).await;
        let pool = kit.agent.pool().clone();
        let live = Arc::new(AtomicI64::new(0));
        let maxlive = Arc::new(AtomicI64::new(0));
        let grants: Arc<Mutex<Vec<i64>>> = Arc::new(Mutex::new(vec![]));
        let mut held = None;
        let mut tasks: Vec<T> = vec![];
        let mut stuck = false;
        for op in ops {
            match op {
                Op::H => {
                    match tokio::time::timeout(Duration::from_secs(15), pool.write_priority()).await {
                        Ok(Ok(c)) => {
                            let n = live.fetch_add(1, SeqCst) + 1;
                            maxlive.fetch_max(n, SeqCst);
                            grants.lock().unwrap().push(0);
                            held = Some(c);
                        }
                        _ => stuck = true,
                    }
                }
                Op::R => {
                    if held.is_some() {
                        live.fetch_sub(1, SeqCst);
                        held = None;
                    }
                }
                Op::Q(p, id, long) => {
                    let pool = pool.clone();
                    let live = live.clone();
                    let maxlive = maxlive.clone();
                    let grants = grants.clone();
                    let st = Arc::new(AtomicU8::new(SPAWNED));
                    let st2 = st.clone();
                    let fut = async move {
                        let c = match p { 0 => pool.write_priority().await, 1 => pool.write_normal().await, _ => pool.write_low().await };
                        if let Ok(c) = c {
                            struct Guard(Arc<AtomicI64>);
                            impl Drop for Guard { fn drop(&mut self) { self.0.fetch_sub(1, SeqCst); } }
                            let n = live.fetch_add(1, SeqCst) + 1;
                            let _g = Guard(live.clone());
                            maxlive.fetch_max(n, SeqCst);
                            grants.lock().unwrap().push(id);
                            st2.store(GRANTED, SeqCst);
                            // use the connection while holding it
                            let _ = tokio::task::block_in_place(|| c.query_row("SELECT 1", [], |r| r.get::<_, i64>(0)));
                            tokio::time::sleep(if long { Duration::from_secs(3600) } else { Duration::from_millis(2) }).await;
                            drop(c);
                        }
                        st2.store(DONE, SeqCst);
                    };
                    let h = tokio::spawn(FirstPoll { f: Box::pin(fut), st: st.clone() });
                    tasks.push(T { id, long, st, h: Some(h) });
                }
                Op::C(id) => {
                    for t in tasks.iter_mut() {
                        if t.id == id {
                            if let Some(h) = t.h.take() {
                                h.abort();
                                // the task (and the WriteConn or the queued request it owns) is dropped
                                let _ = tokio::time::timeout(Duration::from_secs(15), h).await;
                                t.st.store(DONE, SeqCst);
                            }
                        }
                    }
                }
                Op::W(ms) => tokio::time::sleep(Duration::from_millis(ms)).await,
            }
            // wait until the pool is stable
            let t0 = Instant::now();
            loop {
                let holding = held.is_some() || tasks.iter().any(|t| t.long && t.st.load(SeqCst) == GRANTED);
                let mut stable = true;
                for t in tasks.iter() {
                    match t.st.load(SeqCst) {
                        SPAWNED => stable = false,
                        QUEUED => if !holding { stable = false },
                        GRANTED => if !t.long { stable = false },
                        _ => {}
                    }
                }
                if stable { break; }
                if t0.elapsed() > Duration::from_secs(15) { stuck = true; break; }
                tokio::time::sleep(Duration::from_micros(300)).await;
            }
            if stuck { break; }
        }
        drop(held.take());
        // `L` tasks still holding are cancelled; everything else must finish
        for t in tasks.iter_mut() {
            if t.long { if let Some(h) = t.h.take() { h.abort(); let _ = h.await; } }
        }
        let t0 = Instant::now();
        for t in tasks.iter_mut() {
            if let Some(h) = t.h.take() {
                let left = Duration::from_secs(15).saturating_sub(t0.elapsed());
                if tokio::time::timeout(left, h).await.is_err() { stuck = true; }
            }
        }
        // and the pool must still serve a request of every priority
        for p in 0..3 {
            let r = tokio::time::timeout(Duration::from_secs(5), async { match p { 0 => pool.write_priority().await, 1 => pool.write_normal().await, _ => pool.write_low().await } }).await;
            if !matches!(r, Ok(Ok(_))) { stuck = true; }
        }
        format!("grants={} maxlive={} stuck={}", grants.lock().unwrap().iter().map(|x| x.to_string()).collect::<Vec<_>>().join(","), maxlive.load(SeqCst), if stuck { 1 } else { 0 })
    });
    rt.shutdown_background();
    out
}

/// case: cancelwin <variant 0|1> <prio 0|1|2> <prio of the later requests 0|1|2>
///   a requester is cancelled (its future dropped) in the windows between "granted" and "holding":
///   variant 0: it waits behind a holder; the holder releases, the dispatcher hands it the turn
///              (the grant sits in its mailbox), and it is dropped before it is polled again;
///   variant 1: the write permit is momentarily taken by somebody else; the requester gets the
///              turn and the pooled connection and parks on the permit; it is dropped there.
///   Afterwards three more requests must be served (the model: Cancel of the holder frees the
///   connection, C20_cancelled_holder_frees).
/// obs: parked=<1 if the requester was still pending when dropped> served=<0..3>
pub fn cancelwin(t: &mut Toks) -> String {
    use std::task::Poll;
    let rt = tokio::runtime::Builder::new_multi_thread().worker_threads(4).enable_all().build().unwrap();
    let variant = t.u64();
    let p = t.u64();
    let p2 = t.u64();
    let out = rt.block_on(async move {
        let kit = agentkit::new_agent(|_| {}).await;
        let pool = kit.agent.pool().clone();
        async fn settle() {
            for _ in 0..50 { tokio::task::yield_now().await; }
            tokio::time::sleep(Duration::from_millis(20)).await;
        }
        async fn req(pool: &klukai_types::agent::SplitPool, p: u64) -> Result<klukai_types::agent::WriteConn, klukai_types::agent::PoolError> {
            match p { 0 => pool.write_priority().await, 1 => pool.write_normal().await, _ => pool.write_low().await }
        }
        let mut parked = true;
        if variant == 0 {
            let holder = match tokio::time::timeout(Duration::from_secs(15), pool.write_priority()).await { Ok(Ok(c)) => c, _ => return "parked=0 served=0 holder=0".to_string() };
            let mut queued = Box::pin(req(&pool, p));
            if !matches!(futures::poll!(queued.as_mut()), Poll::Pending) { parked = false; }
            settle().await;
            if !matches!(futures::poll!(queued.as_mut()), Poll::Pending) { parked = false; }
            drop(holder);
            settle().await;          // the dispatcher hands the turn to the queued request ...
            drop(queued);            // ... which goes away before it runs again
        } else {
            let permit = kit.agent.write_sema().clone().acquire_owned().await.unwrap();
            let mut granted = Box::pin(req(&pool, p));
            for _ in 0..5 {
                if !matches!(futures::poll!(granted.as_mut()), Poll::Pending) { parked = false; }
                settle().await;
            }
            drop(granted);           // owns the turn and the connection, parked on the permit
            drop(permit);
        }
        let mut served = 0;
        for _ in 0..3 {
            match tokio::time::timeout(Duration::from_secs(5), req(&pool, p2)).await {
                Ok(Ok(c)) => { let _ = tokio::task::block_in_place(|| c.query_row("SELECT 1", [], |r| r.get::<_, i64>(0))); served += 1; }
                _ => break,
            }
        }
        format!("parked={} served={}", if parked { 1 } else { 0 }, served)
    });
    rt.shutdown_background();
    out
}

fn change(actor: ActorId, v: u64, seq: u64, id: i64) -> klukai_types::change::Change {
    agentkit::mk_change(actor, v, seq, id, &format!("w{v}-{seq}"), 1, 1)
}

/// case: mix <seed> <n>
///   n rounds of: local transactions, remote complete versions of 3 actors, partial versions later
///   completed and applied from the buffer, sync-state generation, background write requests -- all
///   concurrently.  obs: done=<0/1> within the watchdog, rows=<count>
pub fn mix(t: &mut Toks) -> String {
    let rt = tokio::runtime::Builder::new_multi_thread().worker_threads(6).enable_all().build().unwrap();
    let seed = t.u64();
    let n = t.usize();
    let out = rt.block_on(async move {
        let mut node = c11::new_node().await;
        let agent = node.kit.agent.clone();
        let bookie = node.bookie.clone();
        let mut rng = crate::util::Rng(seed);
        let actors: Vec<ActorId> = (0..3).map(|i| ActorId(uuid::Uuid::from_u128(0xabc000 + i as u128))).collect();
        let mut hs: Vec<tokio::task::JoinHandle<()>> = vec![];
        for round in 0..n {
            // local writers
            for k in 0..3 {
                let agent = agent.clone();
                let id = (round * 10 + k) as i64;
                hs.push(tokio::spawn(async move {
                    let _ = klukai_agent::api::public::api_v1_transactions(axum::Extension(agent), axum::extract::Query(klukai_agent::api::public::TimeoutParams { timeout: None }),
                        axum::extract::Json(vec![Statement::Simple(format!("INSERT INTO tests (id, text) VALUES ({id}, 'l') ON CONFLICT (id) DO UPDATE SET text = 'l2'"))])).await;
                }));
            }
            // remote complete versions, several actors in one batch, batches concurrently
            for b in 0..2 {
                let agent = agent.clone();
                let bookie = bookie.clone();
                let v = (round * 2 + b + 1) as u64;
                let batch: Vec<(ChangeV1, ChangeSource, Instant)> = actors.iter().enumerate().map(|(ai, a)| {
                    (agentkit::full(*a, v, vec![change(*a, v, 0, 1000 + (ai as i64) * 100 + v as i64)], 0, 0, 0, v), ChangeSource::Sync, Instant::now())
                }).collect();
                let batch = if rng.below(2) == 0 { batch } else { batch.into_iter().rev().collect() };
                hs.push(tokio::spawn(async move {
                    let _ = process_multiple_changes(agent, bookie, batch, Duration::from_secs(20)).await;
                }));
            }
            // a partial version: first half, then the second half, then apply from the buffer
            {
                let agent = agent.clone();
                let bookie = bookie.clone();
                let a = actors[round % 3];
                let v = 1000 + round as u64;
                hs.push(tokio::spawn(async move {
                    let c1 = ChangeV1 { actor_id: a, changeset: Changeset::Full { version: CrsqlDbVersion(v), changes: vec![change(a, v, 0, 5000 + v as i64)], seqs: CrsqlSeq(0)..=CrsqlSeq(0), last_seq: CrsqlSeq(1), ts: Timestamp::from(v) } };
                    let c2 = ChangeV1 { actor_id: a, changeset: Changeset::Full { version: CrsqlDbVersion(v), changes: vec![change(a, v, 1, 6000 + v as i64)], seqs: CrsqlSeq(1)..=CrsqlSeq(1), last_seq: CrsqlSeq(1), ts: Timestamp::from(v) } };
                    let _ = process_multiple_changes(agent.clone(), bookie.clone(), vec![(c1, ChangeSource::Sync, Instant::now())], Duration::from_secs(20)).await;
                    let _ = process_multiple_changes(agent.clone(), bookie.clone(), vec![(c2, ChangeSource::Sync, Instant::now())], Duration::from_secs(20)).await;
                    let _ = process_fully_buffered_changes(&agent, &bookie, a, CrsqlDbVersion(v), Duration::from_secs(20)).await;
                }));
            }
            // readers of the bookkeeping and background writers
            {
                let bookie = bookie.clone();
                let me = agent.actor_id();
                hs.push(tokio::spawn(async move { for _ in 0..3 { let _ = generate_sync(&bookie, me).await; tokio::task::yield_now().await; } }));
                let pool = agent.pool().clone();
                hs.push(tokio::spawn(async move { if let Ok(c) = pool.write_low().await { let _ = tokio::task::block_in_place(|| c.execute_batch("DELETE FROM __corro_buffered_changes WHERE 0")); } }));
            }
        }
        let t0 = Instant::now();
        let mut done = true;
        for h in hs {
            let left = Duration::from_secs(40).saturating_sub(t0.elapsed());
            if tokio::time::timeout(left, h).await.is_err() { done = false; }
        }
        // drain the apply queue notifications so nothing is left blocked on a full channel
        while node.kit.opts.rx_apply.try_recv().is_ok() {}
        let rows: i64 = agent.pool().read().await.unwrap().query_row("SELECT COUNT(*) FROM tests", [], |r| r.get(0)).unwrap_or(-1);
        format!("done={} rows={}", if done { 1 } else { 0 }, rows)
    });
    rt.shutdown_background();
    out
}
