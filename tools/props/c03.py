"""C03 — a remote transaction becomes visible atomically, exactly when all chunks arrived."""
import itertools, random, re
import vlib, flow


def cuts(last, maxparts):
    """all ways to cut 0..=last into <= maxparts contiguous chunks"""
    n = last + 1
    out = []
    for k in range(1, maxparts + 1):
        for pts in itertools.combinations(range(1, n), k - 1):
            b = [0] + list(pts) + [n]
            out.append([(b[i], b[i + 1] - 1) for i in range(k)])
    return out


class C03(flow.Spec):
    pid = "C03"
    shards = 16
    rule = ("one foreign actor, versions 2..4, last_seq 1..5: every way of cutting 0..=last_seq into <=3 contiguous chunks, "
            "every arrival order, optionally with a duplicated / overlapping / widened chunk, delivered one per batch through the "
            "real process_multiple_changes; A = process_fully_buffered_changes, C = the real clear loop; random scripts mix two "
            "versions, relay chunks that carry only some of their seqs, chunks with a different last_seq, re-deliveries after "
            "apply and clear. Observation after every step per version: visible rows, buffered seqs, seq rows, in-memory partial, "
            "known, apply triggers. Oracle atomic_vis (Coq): nothing visible before the received ranges cover 0..=last_seq, then "
            "everything. non-trivial = distinct script with >=2 chunks")
    # a version that an Empty changeset declared cleared is out of the atomic-visibility oracle
    assumptions = ["cr-sqlite's merge is abstracted to 'the change row becomes visible' (payloads are distinct rows, one per seq)",
                   "arrivals grouped one per batch in the exhaustive part; multi-change batches are exercised through C10/C01",
                   "KNOWN FINDING candidates are not raised here: see DESIGN.md (Empty changeset for a partially held version)"]

    def d(self, v, s, e, last, seqs=None):
        seqs = list(range(s, e + 1)) if seqs is None else seqs
        return "D %d %d %d %d %d %s" % (v, s, e, last, len(seqs), " ".join(map(str, seqs)))

    def cases(self, tier, seed):
        rnd = random.Random(seed)
        thorough = tier == "thorough"
        out = []
        allc = []
        for last in range(1, 5 if not thorough else 7):
            for cut in cuts(last, 3 if not thorough else 4):
                for perm in itertools.permutations(cut):
                    allc.append((last, list(perm)))
        if not thorough:
            allc = rnd.sample(allc, min(len(allc), 110))
        for last, perm in allc:
            v = 2
            ops = [self.d(v, s, e, last) for s, e in perm]
            variant = rnd.random()
            tags = {"exhaustive-cut-order"}
            if variant < 0.3 and len(perm) > 1:
                s, e = rnd.choice(perm)
                ops.insert(rnd.randrange(len(ops) + 1), self.d(v, s, e, last)); tags.add("duplicate")
            elif variant < 0.5 and len(perm) > 1:
                s, e = rnd.choice(perm)
                ops.insert(rnd.randrange(len(ops) + 1), self.d(v, max(0, s - 1), min(last, e + 1), last)); tags.add("overlap")
            ops += ["A %d" % v, "C", self.d(v, 0, last, last), "A %d" % v]
            out.append(("part %d %s" % (len(ops), " ".join(ops)), tags))
        # two disjoint recorded ranges, then a chunk that starts and ends INSIDE them and spans the
        # hole in between (and variants touching only one side)
        bridges = []
        for last in (range(4, 8) if not thorough else range(4, 12)):
            for a in range(0, last - 2):
                for b in range(a + 2, last + 1):
                    for s in range(0, a + 1):
                        for e in range(b, last + 1):
                            bridges.append((last, a, b, s, e))
        if not thorough:
            bridges = rnd.sample(bridges, min(len(bridges), 30))
        for last, a, b, s, e in bridges:
            v = 2
            first = [self.d(v, 0, a, last), self.d(v, b, last, last)]
            rnd.shuffle(first)
            ops = first + [self.d(v, s, e, last), "A %d" % v, "C"]
            out.append(("part %d %s" % (len(ops), " ".join(ops)), {"bridging-chunk-over-a-hole"}))
        for _ in range(60 if not thorough else 3000):
            ops, tags = [], {"random"}
            lasts = {v: rnd.randrange(0, 6) for v in (2, 3)}
            for _ in range(rnd.randrange(2, 12)):
                x = rnd.random()
                v = rnd.choice([2, 2, 3])
                last = lasts[v]
                if x < 0.7:
                    s = rnd.randrange(0, last + 1); e = rnd.randrange(s, last + 1)
                    seqs = list(range(s, e + 1))
                    if rnd.random() < 0.25:
                        seqs = [q for q in seqs if rnd.random() < 0.6]; tags.add("relay-subset")
                    l2 = last
                    if rnd.random() < 0.08:
                        l2 = max(e, last - 1); tags.add("other-last")
                    ops.append(self.d(v, s, e, l2, seqs))
                elif x < 0.8:
                    ops.append("A %d" % v)
                elif x < 0.88:
                    ops.append("Z %d" % v); tags.add("empty-over-partial")
                else:
                    ops.append("C")
            out.append(("part %d %s" % (len(ops), " ".join(ops)), tags))
        return out

    def nontrivial(self, case, model_obs):
        return case.count(" D ") >= 2

    def normalize(self, obs):
        return obs.strip()

    def oracle_lines(self, case, impl_obs):
        if impl_obs.startswith(("ERR", "PANIC", "CRASH")):
            return ["chk_part 0 1 0 1 0"]
        # only scripts whose chunks carry all their seqs and agree on last_seq are inside the oracle's scope
        t = case.split()
        i = 2
        ops = []
        while i < len(t):
            if t[i] == "D":
                v, s, e, last, k = map(int, t[i + 1:i + 6])
                seqs = list(map(int, t[i + 6:i + 6 + k]))
                ops.append(("D", v, s, e, last, seqs)); i += 6 + k
            elif t[i] in ("A", "Z"):
                ops.append((t[i], int(t[i + 1]))); i += 2
            else:
                ops.append(("C",)); i += 1
        steps = impl_obs.split(" # ")
        if len(steps) != len(ops):
            return ["chk_part 0 1 0 1 0"]
        lines = []
        versions = sorted({o[1] for o in ops if o[0] == "D"})
        for v in versions:
            dl = [o for o in ops if o[0] == "D" and o[1] == v]
            lasts = {o[4] for o in dl}
            if len(lasts) != 1 or any(o[5] != list(range(o[2], o[3] + 1)) for o in dl):
                continue
            if any(o[0] == "Z" and o[1] == v for o in ops):
                continue
            last = lasts.pop()
            got = set()
            toks = []
            n = 0
            for o, st in zip(ops, steps):
                if o[0] == "D" and o[1] == v:
                    got |= set(range(o[2], o[3] + 1))
                m = re.search(r"v%d db=(\S*) " % v, st + " ")
                if not m:
                    continue
                ids = [x for x in m.group(1).split(",") if x]
                cov = all(q in got for q in range(0, last + 1))
                toks += ["1" if cov else "0", str(len(ids))] + ids
                n += 1
            lines.append("chk_part %d %d %s" % (last, n, " ".join(toks)))
        # the recorded seq ranges of every version (whose chunks agree on last_seq), at every step:
        # disjoint, non-adjacent, inside 0..=last
        wf = {}
        for v in versions:
            dl = [o for o in ops if o[0] == "D" and o[1] == v]
            lasts = {o[4] for o in dl}
            if len(lasts) == 1 and all(o[5] == list(range(o[2], o[3] + 1)) for o in dl):
                wf[v] = lasts.pop()
        for st in steps:
            for m in re.finditer(r"v(\d+) db=\S* buf=\S* rows=(\S*) ", st + " "):
                v = int(m.group(1))
                rows = [x for x in m.group(2).split(",") if x]
                if not rows or v not in wf:
                    continue
                rs = sorted((int(x.split(":")[0].split("-")[0]), int(x.split(":")[0].split("-")[1])) for x in rows)
                lines.append("chk_seqrows %d %d %s" % (wf[v], len(rs), " ".join("%d %d" % (a, b) for a, b in rs)))
        return lines


    def impl_verdict(self, case, impl_obs):
        """'exactly when all chunks arrived': after an apply step for a version whose delivered
        chunks (well-formed: all their seqs, one last_seq, no Empty changeset) cover 0..=last,
        every change of the version must be in the tables"""
        if impl_obs.startswith(("ERR", "PANIC", "CRASH")):
            return False
        t = case.split()
        i = 2
        ops = []
        while i < len(t):
            if t[i] == "D":
                v, s, e, last, k = map(int, t[i + 1:i + 6])
                seqs = list(map(int, t[i + 6:i + 6 + k]))
                ops.append(("D", v, s, e, last, seqs)); i += 6 + k
            elif t[i] in ("A", "Z"):
                ops.append((t[i], int(t[i + 1]))); i += 2
            else:
                ops.append(("C",)); i += 1
        steps = impl_obs.split(" # ")
        if len(steps) != len(ops):
            return False
        got = {}            # version -> set of delivered seqs
        lasts = {}
        bad = set()
        for o, st in zip(ops, steps):
            if o[0] == "D":
                _, v, s, e, last, seqs = o
                if seqs != list(range(s, e + 1)) or lasts.setdefault(v, last) != last or s > e:
                    bad.add(v)
                got.setdefault(v, set()).update(seqs)
            elif o[0] == "Z":
                bad.add(o[1])
            elif o[0] == "A":
                v = o[1]
                if v in bad or v not in lasts:
                    continue
                if got.get(v, set()) >= set(range(0, lasts[v] + 1)):
                    m = re.search(r"v%d db=(\S*) " % v, st + " ")
                    db = [x for x in (m.group(1).split(",") if m else []) if x]
                    if sorted(map(int, db)) != list(range(0, lasts[v] + 1)):
                        return False
        return None


SPEC = C03
