(* Threads running acquire / release sequences (Model/LockSeq.v) under mutual exclusion of
   every lock: if at every acquire the requested lock ranks above everything the thread holds
   (the `ordered` test of Model/WritePool.v at every point of the sequence) and every sequence
   releases what it took, then no mix of threads is ever stuck, every step shortens the work
   left, and so every mix completes. *)
From Coq Require Import List ZArith Bool Lia.
From Corro Require Import Model.WritePool Model.LockSeq.
Import ListNotations.
Open Scope Z_scope.

Record thr := mkThr { th_rest : list lstep; th_held : list Z }.

Definition rel_lock (x : Z) (held : list Z) : list Z := filter (fun h => negb (h =? x)) held.

Definition thr_step (t : thr) : thr :=
  match th_rest t with
  | [] => t
  | Acq l :: r => mkThr r (th_held t ++ [l])
  | Rel l :: r => mkThr r (rel_lock l (th_held t))
  end.

(* what the thread still holds when its sequence is over *)
Fixpoint end_held (a : list lstep) (held : list Z) : list Z :=
  match a with
  | [] => held
  | Acq x :: t => end_held t (held ++ [x])
  | Rel x :: t => end_held t (rel_lock x held)
  end.

Definition thr_ok (rank : Z -> Z) (t : thr) : Prop :=
  forallb (ordered rank) (points (th_rest t) (th_held t)) = true /\
  end_held (th_rest t) (th_held t) = [].

(* the next step of t is possible next to the other threads: an acquire needs the lock free *)
Definition enabled_in (others : list thr) (t : thr) : bool :=
  match th_rest t with
  | [] => false
  | Acq l :: _ => forallb (fun o => negb (existsb (Z.eqb l) (th_held o))) others
  | Rel _ :: _ => true
  end.

Definition work (ts : list thr) : nat := fold_right (fun t n => (length (th_rest t) + n)%nat) 0%nat ts.
Definition all_done (ts : list thr) : bool := forallb (fun t => match th_rest t with [] => true | _ => false end) ts.

Lemma thr_step_ok rank t : thr_ok rank t -> thr_ok rank (thr_step t).
Proof.
  intros [Ho He]. unfold thr_step. destruct (th_rest t) as [|[l|l] r] eqn:E.
  - split; rewrite ?E; assumption.
  - cbn [points forallb end_held] in *. apply andb_true_iff in Ho as [_ Ho]. split; assumption.
  - cbn [points end_held] in *. split; assumption.
Qed.

Lemma work_split pre t post : work (pre ++ t :: post) = (length (th_rest t) + work (pre ++ post))%nat.
Proof. induction pre as [|p pre IH]; cbn; [reflexivity|]. unfold work in IH. rewrite IH. lia. Qed.

Lemma step_shortens pre t post : th_rest t <> [] ->
  (work (pre ++ thr_step t :: post) + 1 = work (pre ++ t :: post))%nat.
Proof.
  intros Hne. rewrite !work_split. unfold thr_step.
  destruct (th_rest t) as [|[l|l] r]; [contradiction| |]; cbn; lia.
Qed.

Lemma max_rank (rank : Z -> Z) (l : list Z) : l <> [] ->
  exists m, In m l /\ forall x, In x l -> rank x <= rank m.
Proof.
  induction l as [|a l IH]; [contradiction|]. intros _.
  destruct l as [|b l'].
  - exists a. split; [left; reflexivity|]. intros x [<-|[]]. lia.
  - destruct (IH ltac:(discriminate)) as [m [Hm Hmax]].
    destruct (Z_le_gt_dec (rank a) (rank m)) as [Hle|Hgt].
    + exists m. split; [right; exact Hm|]. intros x [<-|Hx]; [exact Hle|apply Hmax; exact Hx].
    + exists a. split; [left; reflexivity|]. intros x [<-|Hx]; [lia|]. specialize (Hmax x Hx). lia.
Qed.

Lemma all_done_false ts : all_done ts = false -> exists pre t post, ts = pre ++ t :: post /\ th_rest t <> [].
Proof.
  induction ts as [|t ts IH]; cbn; [discriminate|].
  destruct (th_rest t) eqn:E.
  - cbn. intros H. destruct (IH H) as (pre & t' & post & -> & Hne). exists (t :: pre), t', post. split; [reflexivity|exact Hne].
  - intros _. exists [], t, ts. split; [reflexivity|]. rewrite E. discriminate.
Qed.

(* PROGRESS: while somebody has work left, somebody's next step is possible *)
Theorem ordered_threads_progress (rank : Z -> Z) (ts : list thr) :
  Forall (thr_ok rank) ts -> all_done ts = false ->
  exists pre t post, ts = pre ++ t :: post /\ enabled_in (pre ++ post) t = true.
Proof.
  intros Hok Hnd. rewrite Forall_forall in Hok.
  destruct (flat_map th_held ts) as [|h0 hs] eqn:EH.
  - (* nobody holds anything *)
    destruct (all_done_false ts Hnd) as (pre & t & post & -> & Hne).
    exists pre, t, post. split; [reflexivity|]. unfold enabled_in.
    destruct (th_rest t) as [|[l|l] r]; [contradiction| |reflexivity].
    apply forallb_forall. intros o Ho.
    assert (th_held o = []) as ->; [|reflexivity].
    assert (In o (pre ++ t :: post)) as Hin by (apply in_app_iff in Ho as [Ho|Ho]; apply in_app_iff; [left|right; right]; exact Ho).
    destruct (th_held o) as [|x xs] eqn:Eo; [reflexivity|].
    assert (In x (flat_map th_held (pre ++ t :: post))) as Hx by (apply in_flat_map; exists o; split; [exact Hin|rewrite Eo; left; reflexivity]).
    rewrite EH in Hx. destruct Hx.
  - destruct (max_rank rank (flat_map th_held ts) ltac:(rewrite EH; discriminate)) as [lm [Hlm Hmax]].
    apply in_flat_map in Hlm as [t [Ht Hl]].
    destruct (in_split _ _ Ht) as (pre & post & ->).
    exists pre, t, post. split; [reflexivity|].
    destruct (Hok t Ht) as [Hord Hend]. unfold enabled_in.
    destruct (th_rest t) as [|[l|l] r] eqn:E.
    + cbn in Hend. rewrite Hend in Hl. destruct Hl.
    + cbn [points forallb] in Hord. apply andb_true_iff in Hord as [Ho _].
      unfold ordered in Ho. cbn in Ho. rewrite forallb_forall in Ho. specialize (Ho lm Hl). apply Z.ltb_lt in Ho.
      apply forallb_forall. intros o Hin. apply negb_true_iff.
      destruct (existsb (Z.eqb l) (th_held o)) eqn:Ex; [|reflexivity]. exfalso.
      apply existsb_exists in Ex as [l' [Hl' He]]. apply Z.eqb_eq in He. subst l'.
      assert (In l (flat_map th_held (pre ++ t :: post))) as Hx.
      { apply in_flat_map. exists o. split; [|exact Hl'].
        apply in_app_iff in Hin as [Hin|Hin]; apply in_app_iff; [left|right; right]; exact Hin. }
      specialize (Hmax l Hx). lia.
    + reflexivity.
Qed.

(* PRESERVATION: a possible step keeps every thread inside its discipline and shortens the work *)
Theorem ordered_threads_step (rank : Z -> Z) pre t post :
  Forall (thr_ok rank) (pre ++ t :: post) -> enabled_in (pre ++ post) t = true ->
  Forall (thr_ok rank) (pre ++ thr_step t :: post) /\
  (work (pre ++ thr_step t :: post) + 1 = work (pre ++ t :: post))%nat.
Proof.
  intros Hok Hen. split.
  - apply Forall_app in Hok as [Hp Hq]. inversion Hq as [|? ? Ht Hpost]; subst.
    apply Forall_app. split; [exact Hp|]. constructor; [apply thr_step_ok; exact Ht|exact Hpost].
  - apply step_shortens. unfold enabled_in in Hen. destruct (th_rest t); [discriminate|discriminate].
Qed.

(* COMPLETION: from every such mix there is a run of possible steps to the end; and since every
   possible step shortens the work by one (ordered_threads_step) and a stuck state with work
   left does not exist (ordered_threads_progress), EVERY maximal run is such a run *)
Inductive runs : list thr -> list thr -> Prop :=
| runs_refl ts : runs ts ts
| runs_step pre t post ts' : enabled_in (pre ++ post) t = true ->
    runs (pre ++ thr_step t :: post) ts' -> runs (pre ++ t :: post) ts'.

Theorem ordered_threads_complete (rank : Z -> Z) : forall n ts,
  work ts = n -> Forall (thr_ok rank) ts -> exists ts', runs ts ts' /\ all_done ts' = true.
Proof.
  induction n as [n IH] using lt_wf_ind. intros ts Hw Hok.
  destruct (all_done ts) eqn:Hd.
  - exists ts. split; [constructor|exact Hd].
  - destruct (ordered_threads_progress rank ts Hok Hd) as (pre & t & post & -> & Hen).
    destruct (ordered_threads_step rank pre t post Hok Hen) as [Hok' Hw'].
    destruct (IH (work (pre ++ thr_step t :: post)) ltac:(lia) _ eq_refl Hok') as (ts' & Hr & Hd').
    exists ts'. split; [econstructor; eassumption|exact Hd'].
Qed.

(* a thread at the start of a sequence whose every point is ordered and which is balanced *)
Lemma start_ok rank a :
  forallb (ordered rank) (points a []) = true -> end_held a [] = [] -> thr_ok rank (mkThr a []).
Proof. intros H1 H2. split; assumption. Qed.
