"""C07 — local transactions are all-or-nothing and get gap-free consecutive versions."""
import random, re
import vlib, flow


class C07(flow.Spec):
    pid = "C07"
    shards = 16
    rule = ("sequences of write requests through the real api_v1_transactions handler on a real agent: inserts, upserts, "
            "updates, no-op updates, deletes, re-inserts, bulk requests of 60-220 statements (several broadcast chunks), requests "
            "whose first / middle / last statement fails (duplicate key, bad SQL, wrong parameter count), empty requests; plus "
            "requests issued concurrently. Observed per request: status, version, table + crsql_changes digest before/after, "
            "the records of the new version, the broadcast changesets on rx_bcast, the node's own need. The model gets the "
            "statement outcomes (oracle input: ok flag predicted from the script, records read back from the database) and "
            "predicts version, effect, chunking and need. non-trivial = distinct sequence with a failing or empty request "
            "between successful ones")
    assumptions = ["SQLite / cr-sqlite statement semantics are an oracle: which statements fail and which change records a transaction produces are inputs of the model",
                   "statement timeouts (interrupt) are not exercised",
                   "concurrent requests are checked against the property directly (versions are a gap-free set), serialisation itself is C20"]

    def gen_req(self, rnd, keys, fresh):
        """returns (tokens, will_fail, new_keys)"""
        k = rnd.choice([1, 1, 2, 3, 4])
        toks, fail = [], False
        cur = set(keys)
        kinds = "IIUSNXBPM"
        n = 0
        for i in range(k):
            c = rnd.choice(kinds)
            if c == "I":
                idv = rnd.choice(list(cur)) if cur and rnd.random() < 0.3 else fresh[0]
                if idv == fresh[0]:
                    fresh[0] += 1
                if idv in cur:
                    fail = True
                cur.add(idv)
                toks += ["I", str(idv)]
            elif c == "U":
                idv = rnd.choice(list(cur)) if cur and rnd.random() < 0.6 else fresh[0]
                if idv == fresh[0]:
                    fresh[0] += 1
                cur.add(idv)
                toks += ["U", str(idv), str(rnd.randrange(100))]
            elif c == "S":
                idv = rnd.choice(list(cur)) if cur else 999
                toks += ["S", str(idv), str(rnd.randrange(100))]
            elif c == "N":
                idv = rnd.choice(list(cur)) if cur else 999
                toks += ["N", str(idv)]
            elif c == "X":
                idv = rnd.choice(list(cur)) if cur and rnd.random() < 0.8 else 998
                cur.discard(idv)
                toks += ["X", str(idv)]
            elif c == "B" and rnd.random() < 0.5:
                toks += ["B"]; fail = True
            elif c == "P" and rnd.random() < 0.5:
                toks += ["P"]; fail = True
            elif c == "M" and rnd.random() < 0.35:
                cnt = rnd.choice([60, 100, 220])
                toks += ["M", str(cnt), str(fresh[0])]
                for j in range(cnt):
                    cur.add(fresh[0] + j)
                fresh[0] += cnt
            else:
                continue
            n += 1
        if n == 0:
            return ["0"], True, keys          # empty request: rejected
        return [str(n)] + toks, fail, (keys if fail else cur)

    def cases(self, tier, seed):
        rnd = random.Random(seed)
        out = []
        N = 70 if tier == "quick" else 2500
        for _ in range(N):
            keys, fresh = set(), [1]
            reqs, oks = [], []
            for _ in range(rnd.randrange(2, 9)):
                toks, fail, keys = self.gen_req(rnd, keys, fresh)
                reqs.append(" ".join(toks)); oks.append(0 if fail else 1)
            tags = {"sequential"}
            if 0 in oks and 1 in oks:
                tags.add("has-failed-request")
            out.append(("ltx %d %s" % (len(reqs), " ".join(reqs)), tags))
            self.expected_ok = getattr(self, "expected_ok", {})
            self.expected_ok[out[-1][0]] = oks
        for _ in range(12 if tier == "quick" else 300):
            n = rnd.randrange(2, 7)
            reqs = []
            for i in range(n):
                x = rnd.random()
                if x < 0.6:
                    reqs.append("1 U %d %d" % (rnd.randrange(1, 4), i))
                elif x < 0.8:
                    reqs.append("2 U %d %d B" % (rnd.randrange(1, 4), i))
                else:
                    reqs.append("1 N 77")
            out.append(("ctx %d %s" % (n, " ".join(reqs)), {"concurrent"}))
        return out

    expected_ok = {}

    def replay_aux(self, cases):
        """what a replay needs besides the case line: which requests were generated to fail"""
        return {c: self.expected_ok.get(c) for c in cases if c in self.expected_ok}

    def load_aux(self, aux):
        self.expected_ok = dict(self.expected_ok)
        self.expected_ok.update({k: v for k, v in (aux or {}).items() if v is not None})

    def model_lines(self, case, impl_obs):
        if not case.startswith("ltx") or impl_obs.startswith(("ERR", "PANIC", "CRASH")):
            return []
        oks = self.expected_ok.get(case)
        steps = impl_obs.split(" # ")
        if oks is None or len(oks) != len(steps):
            return []
        t = ["ltxm", str(len(steps))]
        for ok, st in zip(oks, steps):
            m = re.search(r"recs=(\S*)", st)
            recs = [x for x in (m.group(1).split(",") if m else []) if x]
            t += [str(ok), str(len(recs))] + [y for x in recs for y in x.split(":")]
        return [" ".join(t)]

    def agree(self, case, impl_obs, model_obs):
        if impl_obs.startswith(("ERR", "PANIC", "CRASH")):
            return False
        if case.startswith("ctx"):
            return True                 # judged by impl_verdict only
        oks = self.expected_ok.get(case, [])
        isteps = impl_obs.split(" # ")
        msteps = model_obs.split(" # ")
        if len(isteps) != len(msteps) or len(oks) != len(isteps):
            return False
        for ok, a, b in zip(oks, isteps, msteps):
            ia = dict(x.split("=", 1) for x in a.strip().split(" ") if "=" in x)
            mb = dict(x.split("=", 1) for x in b.strip().split(" ") if "=" in x)
            if int(ia["ok"]) != ok:
                return False
            ichunks = ",".join(re.sub(r"v\d+l\d+$", "", c) for c in ia["chunks"].split(",") if c)
            if ia["v"] != mb["v"] or ia["same"] != mb["same"] or ichunks != mb["chunks"] or ia["need"] != mb["need"]:
                return False
        return True

    def impl_verdict(self, case, impl_obs):
        if impl_obs.startswith(("ERR", "PANIC", "CRASH")):
            return False
        if case.startswith("ctx"):
            m = re.match(r"versions=(\S*) fails=(\d+) maxv=(\d+) need=(\d)", impl_obs.strip())
            if not m:
                return False
            vs = [int(x) for x in m.group(1).split(",") if x]
            if vs != list(range(1, len(vs) + 1)) or int(m.group(3)) != len(vs) or m.group(4) != "1":
                return False
            return None
        prev = 0
        for st in impl_obs.split(" # "):
            d = dict(x.split("=", 1) for x in st.strip().split(" ") if "=" in x)
            if d["need"] != "1":
                return False
            if d["ok"] == "0" and (d["v"] != "-" or d["same"] != "1" or d["chunks"]):
                return False
            # all or nothing: a request with a statement reported as failed has no effect at all
            if d.get("errs", "0") != "0" and (d["v"] != "-" or d["same"] != "1" or d["chunks"]):
                return False
            if d["v"] != "-":
                if int(d["v"]) != prev + 1:
                    return False
                prev = int(d["v"])
                # every broadcast changeset belongs to this version and its last_seq
                recs = [x for x in d["recs"].split(",") if x]
                last = max(int(x.split(":")[0]) for x in recs)
                tot = 0
                exp = 0
                for c in [x for x in d["chunks"].split(",") if x]:
                    mm = re.match(r"(\d+)-(\d+)\[(\d+)\]v(\d+)l(\d+)", c)
                    if not mm or int(mm.group(4)) != prev or int(mm.group(5)) != last or int(mm.group(1)) != exp:
                        return False
                    exp = int(mm.group(2)) + 1; tot += int(mm.group(3))
                if exp != last + 1 or tot != len(recs):
                    return False
            elif d["ok"] == "1" and d["same"] != "1":
                return False
        return None

    def nontrivial(self, case, model_obs):
        return "v=-" in model_obs and bool(re.search(r"v=\d", model_obs)) or case.startswith("ctx")


SPEC = C07
