From Coq Require Import List ZArith Bool Lia.
From Corro Require Import Model.Crdt.
Import ListNotations.
Open Scope Z_scope.

Lemma dget_dset_same d k v : dget k (dset k v d) = Some v.
Proof.
  induction d as [|[k' v'] d IH]; cbn; [rewrite Z.eqb_refl; reflexivity|].
  destruct (k =? k') eqn:E; [cbn; rewrite Z.eqb_refl; reflexivity|].
  destruct (k <? k'); cbn; [rewrite Z.eqb_refl; reflexivity|rewrite E; exact IH].
Qed.

Lemma dget_dset_other d k k' v : k' <> k -> dget k' (dset k v d) = dget k' d.
Proof.
  intros Hne. induction d as [|[k0 v0] d IH]; cbn.
  - destruct (k' =? k) eqn:E; [apply Z.eqb_eq in E; contradiction|reflexivity].
  - destruct (k =? k0) eqn:E1.
    + apply Z.eqb_eq in E1. subst. cbn. destruct (k' =? k0) eqn:E; [apply Z.eqb_eq in E; contradiction|reflexivity].
    + destruct (k <? k0); cbn.
      * destruct (k' =? k) eqn:E; [apply Z.eqb_eq in E; contradiction|reflexivity].
      * destruct (k' =? k0); [reflexivity|exact IH].
Qed.

(* what merge does to the row it touches, as a function of that row's state *)
Definition merge_row (o : option rowst) (r : rec) : option rowst :=
  let lcl := local_cl o in
  if r_cl r <? lcl then o
  else if Z.even (r_cl r) then
    if r_cl r =? lcl then o else Some (mkRow (r_cl r) (Some (rclk r)) None)
  else if r_sent r then
    if r_cl r =? lcl then o
    else Some (mkRow (r_cl r) (Some (rclk r))
                 (match o with
                  | Some s => match rw_col s with Some c => Some (mkCell (c_val c) 0 (c_clk c)) | None => None end
                  | None => None end))
  else if lcl <? r_cl r then
    Some (mkRow (r_cl r) (if r_cl r =? 1 then None else Some (rclk r)) (Some (mkCell (r_val r) (r_colv r) (rclk r))))
  else match o with
       | None => None
       | Some s => if cid_wins (rw_col s) r
                   then Some (mkRow (rw_cl s) (rw_sent s) (Some (mkCell (r_val r) (r_colv r) (rclk r))))
                   else o
       end.

Lemma merge_get d r k :
  dget k (merge d r) = if k =? r_row r then merge_row (dget (r_row r) d) r else dget k d.
Proof.
  unfold merge, merge_row. destruct (k =? r_row r) eqn:Ek.
  - apply Z.eqb_eq in Ek. subst k.
    destruct (r_cl r <? local_cl (dget (r_row r) d)); [reflexivity|].
    destruct (Z.even (r_cl r)).
    { destruct (r_cl r =? local_cl (dget (r_row r) d)); [reflexivity|apply dget_dset_same]. }
    destruct (r_sent r).
    { destruct (r_cl r =? local_cl (dget (r_row r) d)); [reflexivity|apply dget_dset_same]. }
    destruct (local_cl (dget (r_row r) d) <? r_cl r); [apply dget_dset_same|].
    destruct (dget (r_row r) d) as [s|] eqn:E; [|exact E].
    destruct (cid_wins (rw_col s) r); [apply dget_dset_same|exact E].
  - apply Z.eqb_neq in Ek.
    destruct (r_cl r <? local_cl (dget (r_row r) d)); [reflexivity|].
    destruct (Z.even (r_cl r)).
    { destruct (r_cl r =? local_cl (dget (r_row r) d)); [reflexivity|apply dget_dset_other, Ek]. }
    destruct (r_sent r).
    { destruct (r_cl r =? local_cl (dget (r_row r) d)); [reflexivity|apply dget_dset_other, Ek]. }
    destruct (local_cl (dget (r_row r) d) <? r_cl r); [apply dget_dset_other, Ek|].
    destruct (dget (r_row r) d) as [s|]; [|reflexivity].
    destruct (cid_wins (rw_col s) r); [apply dget_dset_other, Ek|reflexivity].
Qed.

(* merging the same record twice changes nothing the second time *)
Theorem merge_row_idem o r : 1 <= r_cl r -> merge_row (merge_row o r) r = merge_row o r.
Proof.
  intros Hcl. unfold merge_row at 2 3.
  destruct (r_cl r <? local_cl o) eqn:E1.
  - unfold merge_row. rewrite E1. reflexivity.
  - apply Z.ltb_ge in E1.
    destruct (Z.even (r_cl r)) eqn:Eev.
    + destruct (r_cl r =? local_cl o) eqn:E2.
      * unfold merge_row. rewrite (proj2 (Z.ltb_ge _ _) E1), Eev, E2. reflexivity.
      * unfold merge_row. cbn [local_cl rw_cl]. rewrite Z.ltb_irrefl, Eev, Z.eqb_refl. reflexivity.
    + destruct (r_sent r) eqn:Es.
      * destruct (r_cl r =? local_cl o) eqn:E2.
        -- unfold merge_row. rewrite (proj2 (Z.ltb_ge _ _) E1), Eev, Es, E2. reflexivity.
        -- unfold merge_row. cbn [local_cl rw_cl]. rewrite Z.ltb_irrefl, Eev, Es, Z.eqb_refl. reflexivity.
      * destruct (local_cl o <? r_cl r) eqn:E3.
        -- unfold merge_row. cbn [local_cl rw_cl rw_col]. rewrite !Z.ltb_irrefl, Eev, Es.
           unfold cid_wins. cbn [c_colv c_val c_clk k_site rclk]. rewrite !Z.ltb_irrefl. reflexivity.
        -- destruct o as [s|].
           ++ destruct (cid_wins (rw_col s) r) eqn:Ew.
              ** unfold merge_row. cbn [local_cl rw_cl rw_col] in *. rewrite (proj2 (Z.ltb_ge _ _) E1), Eev, Es, E3.
                 unfold cid_wins. cbn [c_colv c_val c_clk k_site rclk]. rewrite !Z.ltb_irrefl. reflexivity.
              ** unfold merge_row. cbn [local_cl] in *. rewrite (proj2 (Z.ltb_ge _ _) E1), Eev, Es, E3, Ew. reflexivity.
           ++ unfold merge_row. cbn [local_cl] in *. rewrite (proj2 (Z.ltb_ge _ _) E1), Eev, Es, E3. reflexivity.
Qed.

Theorem merge_idem d r k : 1 <= r_cl r -> dget k (merge (merge d r) r) = dget k (merge d r).
Proof.
  intros Hcl. rewrite !merge_get. destruct (k =? r_row r) eqn:E; [|reflexivity].
  rewrite Z.eqb_refl. apply merge_row_idem, Hcl.
Qed.

(* changes to different rows commute *)
Theorem merge_comm_rows d r1 r2 k : r_row r1 <> r_row r2 ->
  dget k (merge (merge d r1) r2) = dget k (merge (merge d r2) r1).
Proof.
  intros Hne. rewrite !merge_get.
  destruct (k =? r_row r2) eqn:E2; destruct (k =? r_row r1) eqn:E1; try reflexivity.
  - apply Z.eqb_eq in E1, E2. congruence.
  - destruct (r_row r2 =? r_row r1) eqn:E; [apply Z.eqb_eq in E; congruence|reflexivity].
  - destruct (r_row r1 =? r_row r2) eqn:E; [apply Z.eqb_eq in E; congruence|reflexivity].
Qed.

(* the causal length of a row never decreases *)
Theorem merge_cl_monotone o r : local_cl o <= local_cl (merge_row o r).
Proof.
  unfold merge_row.
  destruct (r_cl r <? local_cl o) eqn:E1; [lia|]. apply Z.ltb_ge in E1.
  destruct (Z.even (r_cl r)); [destruct (r_cl r =? local_cl o); cbn; lia|].
  destruct (r_sent r); [destruct (r_cl r =? local_cl o); cbn; lia|].
  destruct (local_cl o <? r_cl r) eqn:E3; [cbn; lia|].
  destruct o as [s|]; [|cbn; lia]. destruct (cid_wins (rw_col s) r); cbn; lia.
Qed.

(* no value from nowhere: the value a row shows after a merge is the value it
   showed before or the value carried by the merged record *)
Theorem merge_value_origin o r s' c' :
  merge_row o r = Some s' -> rw_col s' = Some c' ->
  c_val c' = r_val r \/ exists s c, o = Some s /\ rw_col s = Some c /\ c_val c = c_val c'.
Proof.
  unfold merge_row.
  destruct (r_cl r <? local_cl o); [intros -> Hc; right; eauto|].
  destruct (Z.even (r_cl r)).
  { destruct (r_cl r =? local_cl o); [intros -> Hc; right; eauto|intros H; injection H as <-; discriminate]. }
  destruct (r_sent r).
  { destruct (r_cl r =? local_cl o); [intros -> Hc; right; eauto|].
    intros H; injection H as <-. cbn. destruct o as [s|]; [|discriminate].
    destruct (rw_col s) as [c|] eqn:Ec; [|discriminate]. intros H; injection H as <-. right. exists s, c. auto. }
  destruct (local_cl o <? r_cl r); [intros H; injection H as <-; cbn; intros H; injection H as <-; left; reflexivity|].
  destruct o as [s|]; [|discriminate].
  destruct (cid_wins (rw_col s) r).
  - intros H; injection H as <-. cbn. intros H; injection H as <-. left; reflexivity.
  - intros H; injection H as <-. intros Hc. right. eauto.
Qed.

(* A data record whose causal length is above the local one (and not 1) resurrects the row:
   the model -- as the real extension, checked by the crdtsim layer of C01 on the clock rows'
   site/db_version/seq -- stamps BOTH the sentinel it creates and the column clock with the
   position (site, db_version, seq) of that one record. *)
Lemma resurrect_two_records_one_position d r :
  r_sent r = false -> Z.odd (r_cl r) = true -> r_cl r <> 1 ->
  local_cl (dget (r_row r) d) < r_cl r ->
  exists c, dget (r_row r) (merge d r) = Some (mkRow (r_cl r) (Some (rclk r)) (Some c)) /\
            c_clk c = rclk r /\ c_val c = r_val r /\ c_colv c = r_colv r.
Proof.
  intros Hs Ho H1 Hl. unfold merge.
  assert (Z.even (r_cl r) = false) as He by (rewrite <- Z.negb_odd, Ho; reflexivity).
  destruct (r_cl r <? local_cl (dget (r_row r) d)) eqn:E1; [apply Z.ltb_lt in E1; lia|].
  rewrite He, Hs.
  destruct (local_cl (dget (r_row r) d) <? r_cl r) eqn:E2; [|apply Z.ltb_ge in E2; lia].
  destruct (r_cl r =? 1) eqn:E3; [apply Z.eqb_eq in E3; contradiction|].
  rewrite dget_dset_same. eexists. split; [reflexivity|]. cbn. auto.
Qed.
