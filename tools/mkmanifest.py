#!/usr/bin/env python3
"""writes MANIFEST.json from the table below (single source of truth)."""
import json, os
HERE = os.path.dirname(os.path.dirname(os.path.abspath(__file__)))
CHECKS = {
 "C08": dict(
   text="Theorems (Coq, unbounded): for every ordered change list inside [start,last] and every per-call limit stream the modelled ChunkedChanges iterator finishes in <=|cs|+1 calls and its chunks tile [start,last] with every change exactly once, in order, inside its range; chunk_range's union is exactly [s,e] for every k>=1 (k at the call site regenerated from source). The hand model is tied to the code by an impl-vs-model diff over exhaustive small scopes + random cases on every run.",
   note="Trusted: Coq kernel; hand-written Gallina transcription of ChunkedChanges::next / chunk_range (tied by differential testing only); extraction (ExtrOcamlBasic) + OCaml driver; consts2coq translator; harness. estimated_byte_size abstracted to arbitrary size>=0; rusqlite row errors not modelled.",
   technique="Coq proof by induction over the row list (unbounded) + extracted-model vs real iterator differential check + Coq-extracted exact oracle",
   design="Part II C08"),
}
CHECKS["C02"] = dict(
   text="Theorems (Coq, unbounded): from any state satisfying Inv, insert_db of ANY canonical set of version ranges never errs, each DELETE hits exactly one row, the persisted gap rows stay literally equal to the in-memory needed set (disjoint, non-adjacent, inside 1..head-1) and needed' = (needed ∪ gap beyond old head) \\ inserted; Inv holds in every state reachable by insertions and partial-chunk insertions; generate_sync's per-actor output is the exact partition held/needed/partial(+exact missing seqs)/beyond. Model tied to the real BookedVersions/VersionsSnapshot/process_incomplete_version/generate_sync/from_conn on an in-memory migrated database by a step-by-step state diff; the Coq oracle state_ok (proved to imply Inv) also judges every implementation state incl. reload=live.",
   note="Trusted: Coq kernel; hand transcription of compute_gaps_change/insert_db/insert_partial/generate_sync/from_conn and of the seq-row SQL (tied by differential testing); Lib/Ivl.v as model of rangemap (checked by the same diff); extraction+driver; harness. Not yet proved (only checked on implementation states by the oracle): from_conn(reload) = live state. v=0 / >=2^63 outside the quantifier.",
   technique="Coq invariant proof by induction over operation sequences (unbounded) + differential check of every step against the real bookkeeping on SQLite + extracted oracle",
   design="Part II C02")
CHECKS["C04"] = dict(
   text="Theorems (Coq, unbounded): for every pair of well-formed sync states with any number of actors, compute_available_needs (modelled) never requests the node's own actor, keeps every Full request inside 1..peer head, requests every version the peer fully holds and the node lacks (needed / beyond head / unknown actor), and for a version partial here and held there requests exactly the node's missing seqs. Model tied to the real function by differential testing on generated state pairs; the extracted oracle check_needs sweeps soundness+completeness (incl. both-partial case) over the implementation's output.",
   note="Trusted: Coq kernel; hand transcription of compute_available_needs (tied by differential testing); Lib/Ivl.v for rangemap; extraction+driver; harness. Both-sides-partial completeness is checked by the oracle, not yet a theorem; client-side request de-duplication in parallel_sync is not covered.",
   technique="Coq proof over association-list states (unbounded actors/ranges) + differential check against the real compute_available_needs + extracted oracle sweep",
   design="Part II C04")
NA = {}
ALL = ["C%02d" % i for i in range(1, 21)]
def main():
    checks = []
    for pid in ALL:
        if pid not in CHECKS: continue
        c = CHECKS[pid]
        checks.append({
            "property_id": pid,
            "quick_cmd": "./check %s --tier quick" % pid,
            "thorough_cmd": "./check %s --tier thorough" % pid,
            "evidence_file": "/verif/evidence/%s.json" % pid,
            "replay_cmd_template": "./check %s --replay {path}" % pid,
            "engine": "coq+harness",
            "level_claimed": {"category": c.get("category", "proof"), "text": c["text"], "design_ref": c["design"]},
            "level_note": c["note"],
            "technique": c["technique"],
        })
    na = [{"property_id": p, "reason": NA.get(p, "not yet built in this round: no check is registered for it (work in progress, see DESIGN.md Part V); the proof technique does apply")} for p in ALL if p not in CHECKS]
    m = {
      "version": 1,
      "setup_cmd": "./setup.sh",
      "hooks": {
        "guard": "--cfg corro_verif",
        "enable": "the harness crate /verif/harness builds /repo's crates as path dependencies with rustflags --cfg corro_verif (see harness/.cargo/config.toml)",
        "baseline_off_cmd": "cd /repo && cargo nextest run --workspace --no-fail-fast --test-threads 8 --offline || cargo test --workspace --no-fail-fast --offline",
        "source_commits": json.load(open(os.path.join(HERE, "hooks.json")))["source_commits"],
        "add_only": True,
      },
      "engines": [{"name": "coq+harness", "path": "/verif/check", "serves_properties": sorted(CHECKS),
                   "kind_free_text": "Coq 8.16.1 theorems over hand-written Gallina models (coq/), extracted to OCaml (extract/) and compared with the real crates driven by a Rust harness (harness/); python orchestration (tools/)"}],
      "checks": checks,
      "not_applicable": na,
      "notes": "See DESIGN.md. KNOWN_FINDINGS.txt lists genuine defects (finding:/fixed: lines).",
    }
    json.dump(m, open(os.path.join(HERE, "MANIFEST.json"), "w"), indent=1)
if __name__ == "__main__":
    main()
