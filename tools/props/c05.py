"""C05 — a sync server only sends what it holds and never declares unknown versions empty."""
import random, re
import vlib, flow


def grp(items):
    """'v:seq/id' items -> [(v, [(seq,id)])] preserving order"""
    out, idx = [], {}
    for it in items:
        v, r = it.split(":")
        q, i = r.split("/")
        if v not in idx:
            idx[v] = len(out); out.append((v, []))
        out[idx[v]][1].append((q, i))
    return out


def tok_state(st):
    m = re.match(r"live=(\S*) gaps=(\S*) buf=(\S*) seq=(\S*) needed=(\S*) max=(\S+) size=(\d+)", st.strip())
    if not m:
        return None
    t = []
    for g in (m.group(1),):
        L = grp([x for x in g.split(",") if x])
        t.append(str(len(L)))
        for v, rows in L:
            t += [v, str(len(rows))] + [x for r in rows for x in r]
    gaps = [x for x in m.group(2).split(",") if x]
    t.append(str(len(gaps))); t += [y for x in gaps for y in x.split("-")]
    B = grp([x for x in m.group(3).split(",") if x])
    t.append(str(len(B)))
    for v, rows in B:
        t += [v, str(len(rows))] + [x for r in rows for x in r]
    S, idx = [], {}
    for it in [x for x in m.group(4).split(",") if x]:
        v, rng, last = it.split(":")
        a, b = rng.split("-")
        if v not in idx:
            idx[v] = len(S); S.append((v, []))
        S[idx[v]][1].append((a, b, last))
    t.append(str(len(S)))
    for v, rows in S:
        t += [v, str(len(rows))] + [x for r in rows for x in r]
    nd = [x for x in m.group(5).split(",") if x and x != "?"]
    t.append(str(len(nd))); t += [y for x in nd for y in x.split("-")]
    t.append("-1" if m.group(6) in ("-", "?") else m.group(6))
    t.append(m.group(7) if m.group(7) != "0" else "75")
    return t


def tok_msgs(msgs):
    items = [x for x in msgs.strip().split(" ") if x and x != "ERR"]
    t = [str(len(items))]
    for it in items:
        if it.startswith("F"):
            m = re.match(r"F(\d+):(\d+)-(\d+):(\d+)\[(.*)\]", it)
            rows = [x for x in m.group(5).split(",") if x]
            t += ["F", m.group(1), m.group(2), m.group(3), m.group(4), str(len(rows))] + [y for x in rows for y in x.split("/")]
        elif it.startswith("E") and it != "ES":
            a, b = it[1:].split("-")
            t += ["E", a, b]
        else:
            return None
    return t


class C05(flow.Spec):
    pid = "C05"
    shards = 16
    rule = ("server databases for one origin actor built by the REAL ingest path: W = a complete version writing given rows "
            "(later versions overwrite rows of earlier ones -> versions with some or all changes no longer live), D = an "
            "incomplete chunk (partially buffered versions, several disjoint seq rows), E = empty changesets, A = apply a fully "
            "buffered version, skipped versions (gaps); then Full needs over every kind of sub-range and Partial needs with "
            "several seq ranges, each answered by the real process_sync + handle_need. abs(D) (live rows, gap rows, buffered "
            "rows, seq rows, bookkeeping) is read from the database and fed to the model; answers compared message by message; "
            "oracle check_serve (Coq). non-trivial = distinct (state, need) with at least one answer")
    assumptions = ["one need per process_sync run (answers of concurrent needs interleave nondeterministically)",
                   "a chunk with zero changes is never the first thing stored about a version (only a byzantine peer produces that; such a partial version would be declared Empty)",
                   "the adaptive halving of the chunk size on slow peers is timing dependent and not modelled",
                   "QUIC framing / serve_sync handshake are exercised in C16, not here"]

    def cases(self, tier, seed):
        rnd = random.Random(seed)
        out = []
        N = 160 if tier == "quick" else 5000
        for _ in range(N):
            ops, tags = [], set()
            hi = rnd.randrange(3, 10)
            partial = {}
            for v in range(1, hi + 1):
                x = rnd.random()
                if x < 0.12:
                    tags.add("gap"); continue
                if x < 0.5:
                    k = rnd.randrange(1, 5)
                    ids = rnd.sample(range(1, 8), k)
                    ops.append("W %d %d %s" % (v, k, " ".join(map(str, ids)))); tags.add("complete")
                elif x < 0.62:
                    lo = v; ops.append("E %d %d" % (lo, lo)); tags.add("empty")
                else:
                    last = rnd.randrange(1, 7)
                    nchunks = rnd.randrange(1, 4)
                    first = True
                    for _ in range(nchunks):
                        s = rnd.randrange(0, last + 1); e = rnd.randrange(s, last + 1)
                        if s == 0 and e == last:
                            e = last - 1 if last > 0 else 0
                            if e < s:
                                continue
                        seqs = [q for q in range(s, e + 1) if first or rnd.random() < 0.8]
                        first = False
                        ops.append("D %d %d %d %d %d %s" % (v, s, e, last, len(seqs), " ".join(map(str, seqs))))
                    partial[v] = last; tags.add("partial")
                    if rnd.random() < 0.2:
                        ops.append("D %d 0 %d %d %d %s" % (v, last, last, last + 1, " ".join(map(str, range(last + 1))))); tags.add("completed-later")
                    if rnd.random() < 0.3:
                        ops.append("A %d" % v)
            if rnd.random() < 0.6:
                # another actor has versions with the same numbers (versions are per actor)
                for v in rnd.sample(range(1, hi + 1), rnd.randrange(1, min(4, hi) + 1)):
                    k = rnd.randrange(1, 4)
                    ops.append("O %d %d %s" % (v, k, " ".join(map(str, rnd.sample(range(1, 8), k)))))
                tags.add("other-actor-same-version-numbers")
            if rnd.random() < 0.5:
                # interleave the versions' operations, keeping each version's own order
                groups = {}
                for o in ops:
                    groups.setdefault(o.split()[1], []).append(o)
                seqs = list(groups.values())
                ops = []
                while seqs:
                    g = rnd.choice(seqs)
                    ops.append(g.pop(0))
                    if not g:
                        seqs.remove(g)
                tags.add("interleaved")
            needs = []
            for _ in range(rnd.randrange(2, 6)):
                if rnd.random() < 0.55 or not partial:
                    s = rnd.randrange(1, hi + 1); e = min(hi, s + rnd.choice([0, 0, 1, 2, 5, 9]))
                    needs.append("NF %d %d" % (s, e))
                else:
                    v = rnd.choice(list(partial) + list(range(1, hi + 1)))
                    last = partial.get(v, 3)
                    k = rnd.randrange(1, 3)
                    rs = []
                    for _ in range(k):
                        s = rnd.randrange(0, last + 1); e = rnd.randrange(s, last + 1)
                        rs.append("%d %d" % (s, e))
                    needs.append("NP %d %d %s" % (v, k, " ".join(rs)))
            out.append(("srv %d %s %d %s" % (len(ops), " ".join(ops), len(needs), " ".join(needs)), tags))
        return out

    def split(self, impl_obs):
        parts = impl_obs.split(" || ")
        return parts[0], [p.split(" => ") for p in parts[1:]]

    def model_lines(self, case, impl_obs):
        if impl_obs.startswith(("ERR", "PANIC", "CRASH")):
            return []
        st, qs = self.split(impl_obs)
        ts = tok_state(st)
        if ts is None:
            return []
        return [" ".join(["srvq"] + ts + [q[0]]) for q in qs]

    def agree(self, case, impl_obs, model_obs):
        if impl_obs.startswith(("ERR", "PANIC", "CRASH")):
            return False
        st, qs = self.split(impl_obs)
        mo = model_obs.split(" || ") if model_obs != "" or qs else []
        if len(qs) == 1 and model_obs == "":
            mo = [""]
        if len(mo) != len(qs):
            return False
        return all((q[1] if len(q) > 1 else "").strip() == m.strip() for q, m in zip(qs, mo))

    def oracle_lines(self, case, impl_obs):
        if impl_obs.startswith(("ERR", "PANIC", "CRASH")):
            return ["chk_srv 0 0 0 0 0 -1 75 NF 1 1 1 E 1 1"]
        st, qs = self.split(impl_obs)
        ts = tok_state(st)
        if ts is None:
            return ["chk_srv 0 0 0 0 0 -1 75 NF 1 1 1 E 1 1"]
        lines = []
        for q in qs:
            tm = tok_msgs(q[1] if len(q) > 1 else "")
            if tm is None or (len(q) > 1 and q[1].strip().endswith("ERR")):
                lines.append("chk_srv 0 0 0 0 0 -1 75 NF 1 1 1 E 1 1")
            else:
                lines.append(" ".join(["chk_srv"] + ts + [q[0]] + tm))
        return lines

    def nontrivial(self, case, model_obs):
        return bool(re.search(r"[FE]\d", model_obs))


SPEC = C05
