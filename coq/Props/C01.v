(* C01 — Replicas converge under any delivery order, duplication, chunking and loss.
   PARTIAL: what is proved here is the CRDT layer (Model/Crdt.v, a model of
   cr-sqlite's merge earned by differential testing against the real extension):
   CONVERGENCE of that layer -- two nodes that merged the same change records, in any
   order and any number of times each, show identical tables and identical per-cell
   versions, and what they show is an order-free function of the record set
   (Model/CrdtSpec.v); records that were superseded may even be missing on one side --
   plus: duplication is harmless, changes to different rows are independent of order, a
   row's causal length never goes back, and a node never shows a value that no
   merged record carried.  The replication layers the cluster-level argument rests on
   are the theorems of C02 (exact advertisement), C03 (seq ranges), C04 (requests
   are complete), C05 (answers are exact), C06 (restart), C07 (local versions),
   C08 (tiling), C10 (nothing lost for good).  CLUSTER LEVEL (Model/Cluster.v: nodes holding
   a CRDT database and the set of versions they know in full; a server hands out the records
   of a version that are still live in its database, versions become visible as a whole):
   in every reachable state a node that knows every acknowledged version shows exactly the
   merge of all acknowledged records, whoever served it what (C01_cluster_quiescent_node_shows_the_merge),
   so all such nodes agree; a version a node lacks can always be fetched from a node that
   knows it.  The theorem excludes histories in which two records for one row cannot be
   ordered by the merge -- two DELETEs of the same row by different nodes at the same causal
   length -- and that exclusion is necessary: C01_concurrent_deletes_refuted is a history
   of the model in which every node knows everything and one node keeps the row; it replays
   on three real agents (known finding concurrent-deletes, corpus/C01).  The cluster model's
   serve rule and whole-version visibility are tied to the code by C03/C05 and by the
   cluster runs on real agents (see the evidence). *)
From Coq Require Import List ZArith Bool Lia.
From Corro Require Import Model.Crdt Model.CrdtSpec Model.Cluster Proofs.CrdtProofs Proofs.ConvergeProofs Proofs.LiveProofs Proofs.ClusterProofs.
Import ListNotations.
Open Scope Z_scope.

(* CONVERGENCE of the CRDT layer.  rs1 and rs2 are the change records two nodes have merged,
   in the order each node merged them: the same records (as sets -- any permutation, any
   duplication), well-formed (causal lengths from 1, data records with a column version from
   1, the newest generation of a live row carries the column's value: cr-sqlite writes every
   column of an inserted row and Corrosion applies a version only as a whole).  Then both
   nodes show byte-identical tables and identical (causal length, column version) per cell. *)
Theorem C01_same_records_same_state : forall rs1 rs2,
  wf rs1 -> (forall r, In r rs1 <-> In r rs2) ->
  table (merge_all [] rs1) = table (merge_all [] rs2) /\
  versions (merge_all [] rs1) = versions (merge_all [] rs2).
Proof. exact converge_tables. Qed.
Print Assumptions C01_same_records_same_state.

(* ... and what they show is "the merge of everything acknowledged": per row, the greatest
   causal length; deleted if it is even; otherwise the greatest (column version, value) among
   the data records of that generation -- a function of the record set alone *)
Theorem C01_state_is_the_order_free_merge : forall rs k,
  wf rs -> option_map row_obs (dget k (merge_all [] rs)) = row_spec (on_row k rs).
Proof. exact merge_all_spec. Qed.
Print Assumptions C01_state_is_the_order_free_merge.

Theorem C01_spec_ignores_order_and_multiplicity : forall P1 P2,
  (forall r, In r P1 <-> In r P2) -> forallb rec_ok P1 = true -> row_spec P1 = row_spec P2.
Proof. exact row_spec_members. Qed.
Print Assumptions C01_spec_ignores_order_and_multiplicity.

(* loss of superseded records: a node that only ever received the records that survive at
   their origin (overwritten cells are not kept, their versions are served as cleared) shows
   the same state as a node that saw every intermediate record *)
Theorem C01_superseded_records_may_be_missing : forall rs1 rs2,
  wf rs1 -> wf rs2 ->
  (forall r, In r rs2 -> In r rs1) ->
  (forall r, In r rs1 -> In r rs2 \/ exists r', In r' rs2 /\ r_row r' = r_row r /\ dominated r r') ->
  table (merge_all [] rs1) = table (merge_all [] rs2) /\
  versions (merge_all [] rs1) = versions (merge_all [] rs2).
Proof. exact converge_superseded. Qed.
Print Assumptions C01_superseded_records_may_be_missing.

(* duplication: merging a record a second time changes nothing, whatever was
   merged in between -- for every database state and every record *)
Theorem C01_duplicate_delivery_is_harmless : forall d r k,
  1 <= r_cl r -> dget k (merge (merge d r) r) = dget k (merge d r).
Proof. exact merge_idem. Qed.
Print Assumptions C01_duplicate_delivery_is_harmless.

(* reordering: records about different rows commute *)
Theorem C01_rows_are_independent : forall d r1 r2 k,
  r_row r1 <> r_row r2 ->
  dget k (merge (merge d r1) r2) = dget k (merge (merge d r2) r1).
Proof. exact merge_comm_rows. Qed.
Print Assumptions C01_rows_are_independent.

(* a row's causal length never decreases (a delete is never undone by an older write) *)
Theorem C01_causal_length_monotone : forall o r, local_cl o <= local_cl (merge_row o r).
Proof. exact merge_cl_monotone. Qed.
Print Assumptions C01_causal_length_monotone.

(* no value from nowhere *)
Theorem C01_no_value_from_nowhere : forall o r s' c',
  merge_row o r = Some s' -> rw_col s' = Some c' ->
  c_val c' = r_val r \/ exists s c, o = Some s /\ rw_col s = Some c /\ c_val c = c_val c'.
Proof. exact merge_value_origin. Qed.
Print Assumptions C01_no_value_from_nowhere.

(* merge only touches the row of the record *)
Theorem C01_merge_is_local : forall d r k,
  dget k (merge d r) = if k =? r_row r then merge_row (dget (r_row r) d) r else dget k d.
Proof. exact merge_get. Qed.
Print Assumptions C01_merge_is_local.

(* the hypotheses are satisfiable by a history with conflicting writes, a delete, a
   re-insert and an update after it, merged in two different orders with duplicates; and the
   well-formedness condition matters: a lone re-insert marker (its value never delivered)
   leaves an order-dependent leftover *)
Example C01_convergence_nonvacuous :
  let a := mkRec 1 false 5 1 1 0 1 0 in      (* site 0 writes 5 *)
  let b := mkRec 1 false 7 1 1 1 1 0 in      (* site 1 writes 7 concurrently *)
  let x := mkRec 1 true 0 2 2 0 2 0 in       (* site 0 deletes *)
  let s := mkRec 1 true 0 3 3 1 2 0 in       (* site 1 re-inserts: marker ... *)
  let c := mkRec 1 false 9 1 3 1 2 1 in      (* ... and value 9 *)
  let u := mkRec 1 false 4 2 3 0 3 0 in      (* site 0 updates to 4 *)
  let o := mkRec 2 false 1 1 1 0 4 0 in      (* another row *)
  let rs1 := [a; b; x; s; c; u; o] in
  let rs2 := [u; o; c; c; a; s; x; b; b; u] in
  (forall k, wf_row (on_row k rs1) = true) /\
  table (merge_all [] rs1) = [(1, Some 4); (2, Some 1)] /\
  table (merge_all [] rs2) = [(1, Some 4); (2, Some 1)] /\
  versions (merge_all [] rs1) = versions (merge_all [] rs2) /\
  wf_row [a; s] = false /\
  table (merge_all [] [a; s]) <> table (merge_all [] [s; a]).
Proof.
  cbv zeta. split.
  - intros k. destruct (Z.eq_dec k 1) as [->|H1]; [vm_compute; reflexivity|].
    destruct (Z.eq_dec k 2) as [->|H2]; [vm_compute; reflexivity|].
    unfold on_row. cbn [filter r_row].
    destruct (1 =? k) eqn:E1; [apply Z.eqb_eq in E1; congruence|].
    destruct (2 =? k) eqn:E2; [apply Z.eqb_eq in E2; congruence|]. reflexivity.
  - vm_compute. repeat split; try reflexivity. intros H; discriminate H.
Qed.

Example C01_nonvacuous :
  let a := mkRec 1 false 5 1 1 0 1 0 in      (* site 0 writes 5 *)
  let b := mkRec 1 false 7 1 1 1 1 0 in      (* site 1 writes 7 concurrently *)
  let x := mkRec 1 true 0 2 2 0 2 0 in       (* site 0 deletes *)
  table (merge_all [] [a; b]) = table (merge_all [] [b; a]) /\
  table (merge_all [] [a; b]) = [(1, Some 7)] /\
  table (merge_all [] [a; x; b]) = [] /\ table (merge_all [] [x; b; a]) = [].
Proof. vm_compute. repeat split; reflexivity. Qed.

(* Where the cluster-level statement FAILS on the unchanged code (known finding
   resurrect-duplicate-seq, replayed on three real agents: corpus/C01/found.cases).
   Step 1, proved here for every database and every record: a data record whose causal
   length is above the local one resurrects the row and leaves TWO clock rows -- the new
   sentinel and the column -- under the position (site, db_version, seq) of that one
   record.  Step 2 (C08_served_is_prefix_up_to_last_seq): a relay serving that version
   hands out the rows only up to the first one whose seq is last_seq, so the column record
   is not sent when it is the version's last.  Step 3 (C04/C02): the receiver marks the
   version known and never asks again. *)
Theorem C01_resurrecting_merge_stores_two_records_at_one_position : forall d r,
  r_sent r = false -> Z.odd (r_cl r) = true -> r_cl r <> 1 ->
  local_cl (dget (r_row r) d) < r_cl r ->
  exists c, dget (r_row r) (merge d r) = Some (mkRow (r_cl r) (Some (rclk r)) (Some c)) /\
            c_clk c = rclk r /\ c_val c = r_val r /\ c_colv c = r_colv r.
Proof. exact resurrect_two_records_one_position. Qed.
Print Assumptions C01_resurrecting_merge_stores_two_records_at_one_position.

(* the shape of the replayed history: node 0 holds row 2 at causal length 1 (its own insert),
   then merges node 1's record (text, col_version 2, causal length 3, db_version 3, seq 0) *)
Example C01_resurrect_shape :
  let own := mkRec 2 false 5601 1 1 0 1 0 in
  let r := mkRec 2 false 7517 2 3 1 3 0 in
  dget 2 (merge (merge [] own) r) =
    Some (mkRow 3 (Some (mkClk 1 3 0)) (Some (mkCell 7517 2 (mkClk 1 3 0)))).
Proof. vm_compute. reflexivity. Qed.

(* ---------------------------------------------------------------------------------------
   CLUSTER LEVEL.  crun n ops: n nodes, any sequence of local transactions (Local i rs: node i
   commits a transaction with change records rs) and of deliveries (Pull i j x extra: node i
   obtains version x from node j, which hands out the records of x that are still live in its
   own database -- a relay or a sync server -- plus possibly some superseded ones; a version
   becomes visible as a whole: C03; PullMix i x srv: node i assembles version x from chunks served
   by SEVERAL nodes -- the record at position p comes from node (nth p srv) and arrives iff it is
   live THERE, the case C03's ingest theorem leaves to the runs).
   U = every record of every acknowledged transaction.
   Hypotheses on U: wf (as above), clk_unique (a clock position names one record) and no_tie
   (no two different records for one row that the merge cannot order: two deletes with the
   same causal length, or two equal values from one site).
   A node that knows every acknowledged version -- heads equal, nothing needed, nothing
   partial: what generate_sync shows at quiescence -- shows the merge of ALL acknowledged
   records, although what it merged may lack every record that was superseded at whichever
   node served it. *)
Theorem C01_cluster_quiescent_node_shows_the_merge : forall n ops i nd,
  let s := crun n ops in
  let U := all_recs (c_log s) in
  wf U -> no_tie U = true -> clk_unique U = true ->
  nth_error (c_nodes s) i = Some nd -> knows_all (c_log s) nd = true ->
  table (n_db nd) = table (merge_all [] U) /\ versions (n_db nd) = versions (merge_all [] U).
Proof. exact cluster_quiescent_converges. Qed.
Print Assumptions C01_cluster_quiescent_node_shows_the_merge.

Theorem C01_cluster_quiescent_nodes_agree : forall n ops i1 nd1 i2 nd2,
  let s := crun n ops in
  let U := all_recs (c_log s) in
  wf U -> no_tie U = true -> clk_unique U = true ->
  nth_error (c_nodes s) i1 = Some nd1 -> knows_all (c_log s) nd1 = true ->
  nth_error (c_nodes s) i2 = Some nd2 -> knows_all (c_log s) nd2 = true ->
  table (n_db nd1) = table (n_db nd2) /\ versions (n_db nd1) = versions (n_db nd2).
Proof. exact cluster_quiescent_nodes_agree. Qed.
Print Assumptions C01_cluster_quiescent_nodes_agree.

(* no value from nowhere, cluster level, for EVERY history (no hypothesis): what a node shows
   is the merge of records of acknowledged transactions only *)
Theorem C01_cluster_nodes_merge_only_acknowledged_records : forall n ops i nd,
  nth_error (c_nodes (crun n ops)) i = Some nd ->
  n_db nd = merge_all [] (n_merged nd) /\ incl (n_merged nd) (all_recs (c_log (crun n ops))).
Proof. exact cluster_merged_is_acknowledged. Qed.
Print Assumptions C01_cluster_nodes_merge_only_acknowledged_records.

(* progress: a version a node lacks can be fetched in one session from any node that knows it
   (its origin always does), and nothing it knew is lost *)
Theorem C01_cluster_missing_version_can_be_fetched : forall s i j x n m vx,
  nth_error (c_nodes s) i = Some n -> nth_error (c_nodes s) j = Some m -> nth_error (c_log s) x = Some vx ->
  knows m x = true -> knows n x = false ->
  exists n', nth_error (c_nodes (cstep s (Pull i j x []))) i = Some n' /\ knows n' x = true /\
             (forall y, knows n y = true -> knows n' y = true) /\ c_log (cstep s (Pull i j x [])) = c_log s.
Proof. exact cluster_pull_makes_known. Qed.
Print Assumptions C01_cluster_missing_version_can_be_fetched.

(* the step the cluster theorem rests on, for every merge order: a record a node merged and no
   longer attributes a clock row to is strictly below another record it merged (or is a
   re-insert marker of the newest generation it has seen) *)
Theorem C01_a_record_no_longer_served_was_superseded : forall Q k r,
  (forall r, In r Q -> r_row r = k) -> forallb rec_ok Q = true ->
  pairwise tie Q -> pairwise clk_clash Q ->
  In r Q -> live_row (stL Q) r = false ->
  (exists r', In r' Q /\ sdom r r' = true) \/ pending Q r.
Proof. exact not_live_is_below. Qed.
Print Assumptions C01_a_record_no_longer_served_was_superseded.

Definition cd_ins := mkRec 1 false 100 1 1 0 1 0.     (* node 0 inserts row 1 *)
Definition cd_delA := mkRec 1 true 0 1 2 0 2 0.       (* node 0 deletes it *)
Definition cd_delB := mkRec 1 true 0 1 2 1 1 0.       (* node 1 deletes it concurrently *)
Definition cd_ops : list cop :=
  [Local 0 [cd_ins]; Pull 1 0 0 []; Pull 2 0 0 [];
   Local 0 [cd_delA]; Local 1 [cd_delB];
   Pull 1 0 1 []; Pull 0 1 2 [];       (* the two deleters exchange their deletes: each keeps its own *)
   Pull 2 0 2 [];                      (* node 2 asks node 0 for node 1's delete: not live there, "cleared" *)
   Pull 2 1 1 []].                     (* ... and node 1 for node 0's delete: not live there either *)

(* KNOWN FINDING concurrent-deletes: the no_tie hypothesis is necessary.  Every node knows
   every version, the record set is well-formed, and node 2 still shows the row that nodes
   0 and 1 deleted. *)
Theorem C01_concurrent_deletes_refuted :
  let s := crun 3 cd_ops in
  let U := all_recs (c_log s) in
  wf U /\ clk_unique U = true /\ no_tie U = false /\
  forallb (knows_all (c_log s)) (c_nodes s) = true /\
  map (fun nd => table (n_db nd)) (c_nodes s) = [[]; []; [(1, Some 100)]].
Proof.
  cbv zeta. split.
  - intros k. destruct (Z.eq_dec k 1) as [->|H1]; [vm_compute; reflexivity|].
    assert (E : all_recs (c_log (crun 3 cd_ops)) = [cd_ins; cd_delA; cd_delB]) by (vm_compute; reflexivity).
    rewrite E. unfold on_row. cbn [filter r_row cd_ins cd_delA cd_delB].
    destruct (1 =? k) eqn:E1; [apply Z.eqb_eq in E1; congruence|]. reflexivity.
  - vm_compute. repeat split; reflexivity.
Qed.
Print Assumptions C01_concurrent_deletes_refuted.

(* the cluster theorem's hypotheses are met by a history with conflicting writes on two nodes,
   a delete, a re-insert, and a third node that is served by relays which had already
   superseded part of what they hand out *)
Definition cv_a := mkRec 1 false 5 1 1 0 1 0.         (* node 0 writes 5 *)
Definition cv_b := mkRec 1 false 7 1 1 1 1 0.         (* node 1 writes 7 concurrently *)
Definition cv_x := mkRec 1 true 0 2 2 0 2 0.          (* node 0 deletes *)
Definition cv_s := mkRec 1 true 0 3 3 1 2 0.          (* node 1 re-inserts: marker ... *)
Definition cv_c := mkRec 1 false 9 1 3 1 2 1.         (* ... and value 9 *)
Definition cv_o := mkRec 2 false 1 1 1 0 3 0.         (* node 0 writes another row *)
Definition cv_ops : list cop :=
  [Local 0 [cv_a]; Local 1 [cv_b]; Pull 1 0 0 []; Pull 0 1 1 [];
   Local 0 [cv_x]; Pull 1 0 2 []; Local 1 [cv_s; cv_c]; Local 0 [cv_o];
   Pull 0 1 3 []; Pull 1 0 4 [];
   Pull 2 1 0 []; Pull 2 0 1 []; Pull 2 1 2 []; Pull 2 0 3 []; Pull 2 1 4 []].
Example C01_cluster_nonvacuous :
  let s := crun 3 cv_ops in
  let U := all_recs (c_log s) in
  no_tie U = true /\ clk_unique U = true /\
  forallb (knows_all (c_log s)) (c_nodes s) = true /\
  map (fun nd => length (n_merged nd)) (c_nodes s) = [6%nat; 6%nat; 3%nat] /\
  map (fun nd => table (n_db nd)) (c_nodes s) = [[(1, Some 9); (2, Some 1)]; [(1, Some 9); (2, Some 1)]; [(1, Some 9); (2, Some 1)]].
Proof. vm_compute. repeat split; reflexivity. Qed.

(* PROGRESS, for every reachable state and without any hypothesis on the records: with no further
   write, sessions with the versions' origins alone bring any node to know every acknowledged
   version (the acknowledged log is untouched) *)
Theorem C01_cluster_node_can_catch_up : forall n ops i nd,
  nth_error (c_nodes (crun n ops)) i = Some nd ->
  exists pulls, Forall is_pull pulls /\
    let s' := fold_left cstep pulls (crun n ops) in
    c_log s' = c_log (crun n ops) /\
    exists nd', nth_error (c_nodes s') i = Some nd' /\ knows_all (c_log s') nd' = true.
Proof. exact cluster_node_can_catch_up. Qed.
Print Assumptions C01_cluster_node_can_catch_up.

(* safety + progress together: once writes stop, every node of every reachable state can reach,
   by sessions alone, a state in which it shows exactly the merge of all acknowledged records *)
Theorem C01_cluster_every_node_can_converge : forall n ops i nd,
  let U := all_recs (c_log (crun n ops)) in
  wf U -> no_tie U = true -> clk_unique U = true ->
  nth_error (c_nodes (crun n ops)) i = Some nd ->
  exists pulls, Forall is_pull pulls /\
    let s' := crun n (ops ++ pulls) in
    c_log s' = c_log (crun n ops) /\
    exists nd', nth_error (c_nodes s') i = Some nd' /\
                table (n_db nd') = table (merge_all [] U) /\ versions (n_db nd') = versions (merge_all [] U).
Proof. exact cluster_every_node_can_converge. Qed.
Print Assumptions C01_cluster_every_node_can_converge.

(* NO VALUE FROM NOWHERE, as the property states it, for EVERY history of the cluster model and
   without any hypothesis: a value a node shows in its table was carried by a change record of an
   acknowledged transaction (for that row) *)
Theorem C01_cluster_shown_values_were_acknowledged : forall n ops i nd k v,
  nth_error (c_nodes (crun n ops)) i = Some nd -> In (k, Some v) (table (n_db nd)) ->
  exists r, In r (all_recs (c_log (crun n ops))) /\ r_row r = k /\ r_val r = v.
Proof. exact cluster_shown_values_were_acknowledged. Qed.
Print Assumptions C01_cluster_shown_values_were_acknowledged.

(* a version assembled from chunks of two relays that had superseded different parts of it:
   node 0 commits a two-row transaction; node 1 overwrites row 1, node 2 overwrites row 2, each
   after receiving the transaction; node 3 obtains the transaction's first record from node 1
   (where it is no longer live) and the second from node 2 (likewise): it receives NOTHING of
   version 0, then the two overwrites -- and shows what everybody shows *)
Definition mx_a := mkRec 1 false 5 1 1 0 1 0.
Definition mx_b := mkRec 2 false 6 1 1 0 1 1.
Definition mx_c := mkRec 1 false 7 2 1 1 1 0.         (* node 1 updates row 1 *)
Definition mx_d := mkRec 2 false 8 2 1 2 1 0.         (* node 2 updates row 2 *)
Definition mx_ops : list cop :=
  [Local 0 [mx_a; mx_b]; Pull 1 0 0 []; Pull 2 0 0 []; Local 1 [mx_c]; Local 2 [mx_d];
   Pull 1 2 2 []; Pull 2 1 1 [];
   PullMix 3 0 [1%nat; 2%nat]; Pull 3 1 1 []; Pull 3 2 2 []; Pull 0 1 1 []; Pull 0 2 2 []].
Example C01_cluster_mixed_suppliers :
  let s := crun 4 mx_ops in
  let U := all_recs (c_log s) in
  no_tie U = true /\ clk_unique U = true /\
  forallb (knows_all (c_log s)) (c_nodes s) = true /\
  map (fun nd => length (n_merged nd)) (c_nodes s) = [4%nat; 4%nat; 4%nat; 2%nat] /\
  map (fun nd => table (n_db nd)) (c_nodes s) =
    [[(1, Some 7); (2, Some 8)]; [(1, Some 7); (2, Some 8)]; [(1, Some 7); (2, Some 8)]; [(1, Some 7); (2, Some 8)]].
Proof. vm_compute. repeat split; reflexivity. Qed.
