//! C10: the real handle_changes (via cfg hook) + process_multiple_changes on a real
//! agent with a tiny queue, driven by a script; observation = which offered
//! changes the bookkeeping knows after every step.
use crate::{agentkit, c04::actor_of, util::Toks};
use klukai_agent::agent::verif_hooks::{handle_changes, VERIF_FAIL_BATCHES, VERIF_INGEST_LOOPS, VERIF_INGEST_STATE};
use klukai_types::{
    actor::ActorId,
    agent::Bookie,
    base::{CrsqlDbVersion, CrsqlSeq},
    broadcast::{ChangeSource, ChangeV1},
};
use std::{sync::atomic::Ordering, time::{Duration, Instant}};

#[derive(Clone)]
struct Off {
    actor: Option<u64>, // None = the agent's own actor id
    lo: u64,
    hi: u64,
    seqs: Option<(u64, u64, u64)>, // s, e, last
}

async fn known(bookie: &Bookie, actor: ActorId, o: &Off) -> bool {
    let booked = { bookie.read::<&str, _>("verif", None).await.get(&actor).cloned() };
    match booked {
        None => false,
        Some(b) => {
            let r = b.read::<&str, _>("verif", None).await;
            let seqs = o.seqs.map(|(s, e, _)| CrsqlSeq(s)..=CrsqlSeq(e));
            r.contains_all(CrsqlDbVersion(o.lo)..=CrsqlDbVersion(o.hi), seqs.as_ref())
        }
    }
}

/// case: ingest <maxq> <nops> { H | R | X n | O F a v s e last | O E a lo hi | O S v }   (a = 0 means own actor)
pub fn ingest(t: &mut Toks) -> String {
    let rt = tokio::runtime::Builder::new_multi_thread().worker_threads(3).enable_all().build().unwrap();
    let maxq = t.usize();
    let nops = t.usize();
    #[derive(Clone)]
    enum Op {
        Hold,
        Release,
        Fail(usize),
        Offer(Off),
    }
    let mut ops = vec![];
    for _ in 0..nops {
        ops.push(match t.tok() {
            "H" => Op::Hold,
            "R" => Op::Release,
            "X" => Op::Fail(t.usize()),
            "O" => match t.tok() {
                "F" => {
                    let a = t.u64();
                    let v = t.u64();
                    let s = t.u64();
                    let e = t.u64();
                    let last = t.u64();
                    Op::Offer(Off { actor: if a == 0 { None } else { Some(a) }, lo: v, hi: v, seqs: Some((s, e, last)) })
                }
                "E" => {
                    let a = t.u64();
                    let lo = t.u64();
                    let hi = t.u64();
                    Op::Offer(Off { actor: if a == 0 { None } else { Some(a) }, lo, hi, seqs: None })
                }
                x => panic!("bad offer {x}"),
            },
            x => panic!("bad op {x}"),
        });
    }
    rt.block_on(async move {
        VERIF_FAIL_BATCHES.store(0, Ordering::SeqCst);
        let kit = agentkit::new_agent(|c| {
            c.perf.apply_queue_len = 1_000_000;
            c.perf.apply_queue_timeout = 3_600_000;
            c.perf.processing_queue_len = maxq;
            c.perf.changes_channel_len = 64;
        })
        .await;
        let agent = kit.agent.clone();
        let bookie = Bookie::new(Default::default());
        let rx_changes = kit.opts.rx_changes;
        VERIF_INGEST_LOOPS.store(0, Ordering::SeqCst);
        let h = tokio::spawn(handle_changes(agent.clone(), bookie.clone(), rx_changes, kit.tripwire.clone()));
        // the handler's interval ticks once immediately: let that tick be consumed on an empty
        // queue (second round of the loop) before anything is offered, or it would later spawn a
        // batch next to the one in flight
        {
            let t0 = Instant::now();
            while VERIF_INGEST_LOOPS.load(Ordering::SeqCst) < 2 && t0.elapsed() < Duration::from_secs(20) {
                tokio::time::sleep(Duration::from_millis(1)).await;
            }
        }
        let me = agent.actor_id();
        let mut offered: Vec<Off> = vec![];
        let mut held = None;
        let mut outs = vec![];
        // deterministic quiescence: handle_changes publishes (received, queue length, batches in flight)
        // every time it is about to wait for the next event
        let wait_state = |want_received: u64, held: bool| async move {
            let t0 = Instant::now();
            loop {
                let w = VERIF_INGEST_STATE.load(Ordering::SeqCst);
                let (recv, q, infl) = (w >> 32, (w >> 16) & 0xffff, w & 0xffff);
                // while the connection is held: the first queued change has been spawned into the
                // (blocked) batch, everything else waits in the queue
                if recv == want_received && ((held && (infl == 1 || (q == 0 && infl == 0))) || (!held && q == 0 && infl == 0)) {
                    break;
                }
                if t0.elapsed() > Duration::from_secs(20) {
                    break;
                }
                tokio::time::sleep(Duration::from_millis(2)).await;
            }
        };
        VERIF_INGEST_STATE.store(0, Ordering::SeqCst);
        let mut n_offered: u64 = 0;
        for op in ops {
            match op {
                Op::Hold => {
                    held = Some(agent.pool().write_normal().await.unwrap());
                }
                Op::Release => {
                    wait_state(n_offered, true).await;
                    held = None;
                    wait_state(n_offered, false).await;
                }
                Op::Fail(n) => VERIF_FAIL_BATCHES.store(n, Ordering::SeqCst),
                Op::Offer(o) => {
                    let actor = o.actor.map(actor_of).unwrap_or(me);
                    let cv1: ChangeV1 = match o.seqs {
                        Some((s, e, last)) => {
                            let changes = (s..=e)
                                .map(|q| {
                                    agentkit::mk_change(
                                        actor,
                                        o.lo,
                                        q,
                                        (o.actor.unwrap_or(0) * 1_000_000 + o.lo * 1000 + q) as i64,
                                        "x",
                                        1,
                                        1,
                                    )
                                })
                                .collect();
                            agentkit::full(actor, o.lo, changes, s, e, last, 1)
                        }
                        None => agentkit::empty(actor, o.lo, o.hi, 1),
                    };
                    if !offered.iter().any(|x| x.actor == o.actor && x.lo == o.lo && x.hi == o.hi && x.seqs == o.seqs) {
                        offered.push(o.clone());
                    }
                    agent.tx_changes().send((cv1, ChangeSource::Sync)).await.unwrap();
                    n_offered += 1;
                    wait_state(n_offered, held.is_some()).await;
                }
            }
            // observation: which of the changes offered so far are known to the bookkeeping
            let mut bits = String::from("b");
            if held.is_none() {
                for o in &offered {
                    let actor = o.actor.map(actor_of).unwrap_or(me);
                    bits.push(if known(&bookie, actor, o).await { '1' } else { '0' });
                }
            } else {
                bits.push('-');
            }
            outs.push(bits);
        }
        drop(held);
        h.abort();
        VERIF_FAIL_BATCHES.store(0, Ordering::SeqCst);
        // durable content: every seq of an offered Full changeset is in the table or buffered
        let mut db = String::from("db=");
        {
            let conn = agent.pool().read().await.unwrap();
            for o in &offered {
                let actor = o.actor.map(actor_of).unwrap_or(me);
                let ok = match o.seqs {
                    None => false,
                    Some((s, e, _)) => (s..=e).all(|q| {
                        let id = (o.actor.unwrap_or(0) * 1_000_000 + o.lo * 1000 + q) as i64;
                        let in_table: bool = conn
                            .query_row("SELECT EXISTS (SELECT 1 FROM tests WHERE id = ?)", [id], |r| r.get(0))
                            .unwrap();
                        let buffered: bool = conn
                            .query_row(
                                "SELECT EXISTS (SELECT 1 FROM __corro_buffered_changes WHERE site_id = ? AND db_version = ? AND seq = ?)",
                                rusqlite::params![actor, o.lo as i64, q as i64],
                                |r| r.get(0),
                            )
                            .unwrap();
                        in_table || buffered
                    }),
                };
                db.push(if ok { '1' } else { '0' });
            }
        }
        format!("{} {}", outs.join(" "), db)
    })
}
