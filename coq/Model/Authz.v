(* Model of the HTTP API's authorization, crates/klukai-agent/src/agent/util.rs:
   the axum router (a `.layer(l)` wraps every route added BEFORE it and the fallback;
   `.route_layer` only the route it is attached to) and require_authz.
   The router term itself is generated from the source (Gen/Router.v). *)
From Coq Require Import List ZArith Bool.
Import ListNotations.
Open Scope Z_scope.

Inductive meth := MGet | MPost | MPut | MDelete | MPatch.
Inductive layer := LAuthz | LOther.
Inductive ritem := RRoute (path : list Z) (m : meth) | RLayer (l : layer) | RRouteLayer.

Definition meth_eqb (a b : meth) : bool :=
  match a, b with MGet, MGet | MPost, MPost | MPut, MPut | MDelete, MDelete | MPatch, MPatch => true | _, _ => false end.

Fixpoint zl_eqb (a b : list Z) : bool :=
  match a, b with
  | [], [] => true
  | x :: a', y :: b' => (x =? y) && zl_eqb a' b'
  | _, _ => false
  end.

(* routes with "is under the authorization layer" *)
Definition groute := (list Z * meth * bool)%type.

Definition add_item (acc : list groute * bool) (it : ritem) : list groute * bool :=
  match it with
  | RRoute p m => (fst acc ++ [(p, m, false)], snd acc)
  | RLayer LAuthz => (map (fun r => (fst r, true)) (fst acc), true)       (* wraps what exists, and the fallback *)
  | RLayer LOther => acc
  | RRouteLayer => acc
  end.

Definition build (items : list ritem) : list groute * bool := fold_left add_item items ([], false).

(* the Authorization header as require_authz sees it after typed extraction *)
Inductive hdr := HNone | HMalformed | HBearer (tok : list Z).

Inductive outcome :=
| O401                     (* refused by require_authz: the handler is not run *)
| O400                     (* refused by the header extractor: the handler is not run *)
| OHandler (route : nat)   (* the route's handler runs *)
| OFallback.               (* no such route / method: axum's 404 / 405 *)

Definition passes (malformed_is_absent : bool) (cfg : option (list Z)) (h : hdr) : option outcome :=
  (* None = let the request through *)
  match h with
  | HMalformed => if malformed_is_absent
                  then match cfg with None => None | Some _ => Some O401 end
                  else Some O400
  | HNone => match cfg with None => None | Some _ => Some O401 end
  | HBearer t => match cfg with None => None | Some tok => if zl_eqb t tok then None else Some O401 end
  end.

Fixpoint find_route (p : list Z) (m : meth) (rs : list groute) (i : nat) : option (nat * bool) :=
  match rs with
  | [] => None
  | (p', m', g) :: t => if zl_eqb p p' && meth_eqb m m' then Some (i, g) else find_route p m t (S i)
  end.

Definition api_serve (mia : bool) (items : list ritem) (cfg : option (list Z)) (p : list Z) (m : meth) (h : hdr) : outcome :=
  let (routes, fb_guarded) := build items in
  match find_route p m routes 0 with
  | Some (i, guarded) =>
    if guarded then match passes mia cfg h with Some o => o | None => OHandler i end else OHandler i
  | None =>
    if fb_guarded then match passes mia cfg h with Some o => o | None => OFallback end else OFallback
  end.

Definition all_guarded (items : list ritem) : bool :=
  forallb (fun r => snd r) (fst (build items)) && snd (build items).

(* the read endpoints: a statement runs only if it prepares and SQLite reports it read-only,
   and it runs on a connection opened read-only *)
Inductive rdecision := RRejected | RRunReadOnly.
Definition query_endpoint (prepares readonly : bool) : rdecision :=
  if prepares && readonly then RRunReadOnly else RRejected.
