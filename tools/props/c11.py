"""C11 — a subscription's rows and events always equal its query run on the database."""
import random, re
import vlib, flow

NCOL = [3, 3, 3]          # columns (pk first) of t1(id,a,b) t2(id,r,c) t3(x,y,d)
NPK = [1, 1, 2]


def rcol(rnd, pos, tabs, nonkey=False):
    t = tabs[pos]
    lo = NPK[t] if nonkey else 0
    return "c %d %d" % (pos, rnd.randrange(lo, NCOL[t]))


def rpred(rnd, tabs, depth=0):
    x = rnd.random()
    pos = rnd.randrange(len(tabs))
    if x < 0.2:
        return "k 1"
    if x < 0.5:
        return "< k %d %s" % (rnd.randrange(0, 8), rcol(rnd, pos, tabs))
    if x < 0.6:
        return "z %s" % rcol(rnd, pos, tabs, True)
    if x < 0.7:
        return "= %s k %d" % (rcol(rnd, pos, tabs), rnd.randrange(0, 6))
    if depth < 2:
        if x < 0.8:
            return "! %s" % rpred(rnd, tabs, depth + 1)
        if x < 0.9:
            return "& %s %s" % (rpred(rnd, tabs, depth + 1), rpred(rnd, tabs, depth + 1))
        return "| %s %s" % (rpred(rnd, tabs, depth + 1), rpred(rnd, tabs, depth + 1))
    return "k 1"


def rproj(rnd, tabs):
    n = rnd.randrange(1, 4)
    out = []
    style = rnd.random()
    for _ in range(n):
        pos = rnd.randrange(len(tabs))
        if style < 0.15:
            out.append("c %d %d" % (pos, rnd.randrange(0, NPK[tabs[pos]])))        # key columns only
        elif rnd.random() < 0.25:
            out.append("+ %s %s" % (rcol(rnd, pos, tabs, True), rcol(rnd, rnd.randrange(len(tabs)), tabs)))
        else:
            out.append(rcol(rnd, pos, tabs))
    return "%d %s" % (n, " ".join(out))


JOINS = [  # (t0, t1, on)
    (0, 1, "= c 0 0 c 1 1"),            # t1 JOIN t2 ON t1.id = t2.r
    (1, 0, "= c 0 1 c 1 0"),            # t2 JOIN t1 ON t2.r = t1.id
    (0, 2, "= c 0 0 c 1 0"),            # t1 JOIN t3 ON t1.id = t3.x   (composite key side)
    (2, 0, "= c 0 0 c 1 0"),            # t3 JOIN t1 ON t3.x = t1.id
    (0, 1, "& = c 0 0 c 1 1 < k 2 c 1 2"),  # extra condition in ON
    (1, 2, "= c 0 1 c 1 1"),            # t2 JOIN t3 ON t2.r = t3.y
]


def rquery(rnd, kind):
    if kind == 0:
        tabs = [rnd.randrange(3)]
        return "q 0 %d %s %s" % (tabs[0], rpred(rnd, tabs), rproj(rnd, tabs)), tabs
    t0, t1, on = rnd.choice(JOINS)
    tabs = [t0, t1]
    return "q %d %d %d %s %s %s" % (kind, t0, t1, on, rpred(rnd, tabs), rproj(rnd, tabs)), tabs


def rval(rnd, null=0.15):
    return "n" if rnd.random() < null else str(rnd.randrange(0, 8))


def rkey(rnd, t):
    return " ".join(str(rnd.randrange(1, 5)) for _ in range(NPK[t]))


def rstmt(rnd):
    t = rnd.randrange(3)
    x = rnd.random()
    if x < 0.5:
        vals = []
        for i in range(NCOL[t] - NPK[t]):
            if t == 1 and i == 0:
                vals.append("n" if rnd.random() < 0.1 else str(rnd.randrange(1, 5)))   # t2.r references small keys
            else:
                vals.append(rval(rnd))
        return "I %d %s %s" % (t, rkey(rnd, t), " ".join(vals)), "insert"
    if x < 0.72:
        ci = rnd.randrange(NCOL[t] - NPK[t])
        val = (("n" if rnd.random() < 0.1 else str(rnd.randrange(1, 5))) if (t == 1 and ci == 0) else rval(rnd))
        return "U %d %s %d %s" % (t, rkey(rnd, t), ci, val), "update"
    if x < 0.9:
        return "X %d %s" % (t, rkey(rnd, t)), "delete"
    return "K %d %s %s" % (t, rkey(rnd, t), rkey(rnd, t)), "key-change"


class C11(flow.Spec):
    pid = "C11"
    shards = 16
    rule = ("real SubsManager/Matcher subscriptions on a real agent: random queries from the modelled family (single table / "
            "INNER / LEFT join over t1(id,a,b), t2(id,r,c), t3((x,y),d); random WHERE/ON predicates with NULL logic; projections "
            "incl. key-only and computed columns), several subscriptions per history; histories of local transactions "
            "(api_v1_transactions) and transactions of a second real agent delivered through process_multiple_changes in 6 "
            "batchings (in order, reversed, one call per changeset, split chunks second-half-first = buffered path, duplicated); "
            "candidate batches cut by the harness at F. Per batch and subscription: matview == user's SELECT on the node db, "
            "client replay of the event stream == matview, change ids consecutive, events == exact difference of the query "
            "results (Coq oracle diff_ok), and matview/events/change id == the Coq model run on the same database states. "
            "non-trivial = distinct (query, batch) with at least one event")
    assumptions = ["integer keys and nullable integer columns only (text keys: NULL and '' are conflated by the code's coalesce and are not modelled)",
                   "no self-joins, no subqueries, no aggregates (the matcher rejects or ignores them)",
                   "batches are cut by the harness through the cfg(corro_verif) hook; the 600 ms / 1000-candidate batching timer itself is runtime",
                   "event order inside one batch is compared as a multiset (SQLite's RETURNING order is unspecified)"]

    def cases(self, tier, seed):
        rnd = random.Random(seed)
        out = []
        N = 96 if tier == "quick" else 3000
        for _ in range(N):
            tags = set()
            nq = rnd.randrange(2, 5)
            qs, seen = [], set()
            kinds = []
            while len(qs) < nq:
                kind = rnd.choice([0, 0, 1, 1, 2])
                q, tabs = rquery(rnd, kind)
                if q in seen:
                    continue
                seen.add(q); qs.append(q); kinds.append(kind)
                tags.add(["single", "inner", "left"][kind])
            nsteps = rnd.randrange(4, 12)
            ops = []
            qpos = rnd.randrange(0, 3)
            for s in range(nsteps):
                if s == qpos:
                    ops.append("Q")
                for _ in range(rnd.randrange(1, 4)):
                    k = rnd.randrange(1, 4)
                    st = [rstmt(rnd) for _ in range(k)]
                    for _, tg in st:
                        tags.add(tg)
                    if rnd.random() < 0.55:
                        ops.append("L %d %s" % (k, " ".join(x for x, _ in st))); tags.add("local")
                    else:
                        ops.append("R %d %s" % (k, " ".join(x for x, _ in st))); tags.add("remote")
                    if k > 1:
                        tags.add("multi-stmt-tx")
                if rnd.random() < 0.6:
                    mode = rnd.randrange(0, 6)
                    ops.append("D %d" % mode); tags.add("deliver-mode-%d" % mode)
                if s >= qpos:
                    ops.append("F")
            ops += ["D 0", "F"]
            out.append(("sub %d %s %d %s" % (nq, " ".join(qs), len(ops), " ".join(ops)), tags))
        return out

    # ---- parsing helpers
    def queries(self, case):
        t = case.split()
        nq = int(t[1])
        i = 2
        qs = []

        def expr(i):
            k = t[i]
            if k == "c":
                return i + 3
            if k == "k":
                return i + 2
            if k == "n":
                return i + 1
            if k in "+=<&|":
                return expr(expr(i + 1))
            if k in "!z":
                return expr(i + 1)
            raise ValueError(k)
        for _ in range(nq):
            s = i
            assert t[i] == "q"
            kind = int(t[i + 1]); i += 3
            t1 = None
            if kind != 0:
                t1 = int(t[i]); i += 1
                i = expr(i)
            i = expr(i)
            n = int(t[i]); i += 1
            for _ in range(n):
                i = expr(i)
            qs.append((" ".join(t[s:i]), kind, t1))
        return qs

    def steps(self, impl_obs):
        """[(dbdump, [sub fields dict])]"""
        if not impl_obs or impl_obs.startswith(("PANIC", "SUBERR", "ERR", "CRASH")):
            return None
        res = []
        for st in impl_obs.split(" # "):
            parts = st.split(" ; ")
            m = re.match(r"db=(\S*)", parts[0].strip())
            if not m:
                return None
            subs = []
            for p in parts[1:]:
                p = p.strip()
                if p == "FLUSH-TIMEOUT":
                    subs.append({"timeout": True}); continue
                f = dict(re.findall(r"(\w+)=(\S*)", p))
                subs.append(f)
            res.append((m.group(1), subs))
        return res

    def model_lines(self, case, impl_obs):
        st = self.steps(impl_obs)
        if not st:
            return []
        qs = self.queries(case)
        return ["ivm %d %s %d %s" % (len(qs), " ".join(q for q, _, _ in qs), len(st), " ".join(d for d, _ in st))]

    def in_class(self, qs, st, j, si):
        """subscription j at step si is inside the known-finding class: LEFT JOIN whose
        nullable-side table changed in some batch up to si"""
        _, kind, t1 = qs[j]
        if kind != 2:
            return False
        for k in range(1, si + 1):
            if st[k][0].split("|")[t1] != st[k - 1][0].split("|")[t1]:
                return True
        return False

    def agree(self, case, impl_obs, model_obs):
        st = self.steps(impl_obs)
        if not st:
            return False
        qs = self.queries(case)
        msteps = model_obs.split(" # ")
        if len(msteps) != len(st):
            return False
        ncid = None
        for si, ((_, subs), ms) in enumerate(zip(st, msteps)):
            msubs = [dict(re.findall(r"(\w+)=(\S*)", p)) for p in ms.split(" ; ")]
            subs = [s for s in subs if "timeout" not in s]
            if len(subs) != len(msubs):
                return False
            if ncid is None:
                ncid = [0] * len(subs)
            for j, (a, b) in enumerate(zip(subs, msubs)):
                if self.in_class(qs, st, j, si):
                    # inside the class the result depends on which unchanged rows happen to be
                    # candidates as well (the model is given the changed rows only)
                    continue
                if sorted(x for x in a.get("mv", "").split(";") if x) != sorted(x for x in b.get("mv", "").split(";") if x):
                    return False
                if si > 0:
                    ea = sorted(x for x in a.get("ev", "").split(";") if x)
                    eb = sorted(x for x in b.get("ev", "").split(";") if x)
                    if ea != eb:
                        return False
                    ncid[j] += len(ea)
                    if str(ncid[j]) != b.get("cid"):
                        return False
        return True

    def nontrivial(self, case, model_obs):
        return ("ev=I" in model_obs) or ("ev=U" in model_obs) or ("ev=D" in model_obs)

    def oracle_lines(self, case, impl_obs):
        st = self.steps(impl_obs)
        if not st:
            return []
        qs = self.queries(case)
        out = []
        for si in range(1, len(st)):
            for j, (q, _, _) in enumerate(qs):
                subs = [s for s in st[si][1] if "timeout" not in s]
                if j >= len(subs):
                    continue
                evs = [x for x in subs[j].get("ev", "").split(";") if x]
                toks = []
                ok = True
                for e in evs:
                    p = e.split(":")
                    if len(p) != 3 or p[0] not in "IUD" or p[1] == "?":
                        ok = False; break
                    toks += [p[0], p[1], p[2]]
                if not ok:
                    continue          # judged by impl_verdict
                out.append("chk_sub %s %s %s %d %s" % (q, st[si - 1][0], st[si][0], len(evs), " ".join(toks)))
        return out

    def failing(self, case, impl_obs):
        """[(step, sub index)] where the implementation's own observation breaks the property"""
        st = self.steps(impl_obs)
        if st is None:
            return None
        bad = []
        for si, (_, subs) in enumerate(st):
            j = 0
            for s in subs:
                if "timeout" in s:
                    bad.append((si, -1)); continue
                if s.get("eq") != "1" or s.get("cid") != "1" or s.get("replay") != "1" or "ERR" in s.get("ev", "") or "?" in s.get("ev", ""):
                    bad.append((si, j))
                j += 1
        return bad

    def impl_verdict(self, case, impl_obs):
        bad = self.failing(case, impl_obs)
        if bad is None:
            return False
        return False if bad else None

    def classify(self, case, impl_obs):
        st = self.steps(impl_obs)
        if st is None:
            return None
        qs = self.queries(case)
        bad = self.failing(case, impl_obs) or []
        for (si, sj) in bad:
            if sj < 0 or not self.in_class(qs, st, sj, si):
                return None
        # events judged by the oracle: every failure must be inside the class too
        lines, where = [], []
        for si in range(1, len(st)):
            subs = [s for s in st[si][1] if "timeout" not in s]
            for j, (q, kind, t1) in enumerate(qs):
                if self.in_class(qs, st, j, si):
                    continue
                if j >= len(subs):
                    return None
                evs = [x for x in subs[j].get("ev", "").split(";") if x]
                toks = []
                for e in evs:
                    p = e.split(":")
                    if len(p) != 3:
                        return None
                    toks += p
                lines.append("chk_sub %s %s %s %d %s" % (q, st[si - 1][0], st[si][0], len(evs), " ".join(toks)))
        if lines:
            outs = vlib.run_lines([vlib.MODELRUN], lines)
            if not all("ok=1" in o for o in outs):
                return None
        if any(self.in_class(qs, st, j, len(st) - 1) for j in range(len(qs))):
            return "left-join-nullable-side"
        return None


SPEC = C11
