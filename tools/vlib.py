"""Common machinery for the /verif checks (python3 stdlib only).

Flow of one check (DESIGN.md I.3):
  translators -> Coq build + gates -> extraction/modelrun build -> harness build
  -> correspondence (impl vs model on the same cases) -> verdict / violation search
"""
import os, sys, re, json, time, subprocess, hashlib, fcntl, glob, shutil, random

VERIF = os.path.dirname(os.path.dirname(os.path.abspath(__file__)))
REPO = os.environ.get("VERIF_REPO", "/repo")
CACHE = os.path.join(VERIF, ".cache")
COQ = os.path.join(VERIF, "coq")
EXTRACT = os.path.join(VERIF, "extract")
HARNESS = os.path.join(VERIF, "harness")
TARGET = os.path.join(CACHE, "target")
HARNESS_BIN = os.path.join(TARGET, "debug", "corro-verif-harness")
MODELRUN = os.path.join(CACHE, "modelrun", "modelrun")
REPLAYS = os.path.join(VERIF, "replays")
NCPU = os.cpu_count() or 4

FORBIDDEN = re.compile(
    r"\b(Admitted|admit|Axiom|Axioms|Parameter|Parameters|Conjecture|Conjectures|Admit Obligations)\b"
    r"|Unset\s+Guard|bypass_check|type-in-type|impredicative-set|Unset\s+Universe\s+Checking|Unset\s+Positivity")

ENV = dict(os.environ)
ENV.update({"CARGO_NET_OFFLINE": "true", "GOPROXY": "off", "PIP_NO_INDEX": "1"})


def log(msg):
    sys.stderr.write("[verif] %s\n" % msg)
    sys.stderr.flush()


class Lock:
    """serialise build phases between concurrently running checks"""
    def __init__(self, name):
        os.makedirs(CACHE, exist_ok=True)
        self.path = os.path.join(CACHE, name + ".lock")
    def __enter__(self):
        self.f = open(self.path, "w")
        fcntl.flock(self.f, fcntl.LOCK_EX)
        return self
    def __exit__(self, *a):
        fcntl.flock(self.f, fcntl.LOCK_UN)
        self.f.close()


def sh(cmd, cwd=None, timeout=3600, inp=None, env=None):
    e = dict(ENV)
    if env:
        e.update(env)
    try:
        p = subprocess.run(cmd, cwd=cwd, input=inp, stdout=subprocess.PIPE, stderr=subprocess.STDOUT,
                           timeout=timeout, env=e, shell=isinstance(cmd, str))
        return p.returncode, p.stdout.decode("utf-8", "replace")
    except subprocess.TimeoutExpired as ex:
        return 124, (ex.stdout or b"").decode("utf-8", "replace") + "\nTIMEOUT"


# --------------------------------------------------------------------------
# translators

def run_translators():
    """regenerate coq/Gen/*.v from /repo's working tree. Returns list of failures."""
    fails = []
    with Lock("coq"):
        for tool in sorted(glob.glob(os.path.join(VERIF, "tools", "*2coq.py"))):
            rc, out = sh([sys.executable, tool], cwd=VERIF, timeout=120)
            if rc != 0:
                fails.append({"translator": os.path.basename(tool), "output": out.strip()[-2000:]})
    return fails


# --------------------------------------------------------------------------
# Coq

def coq_project():
    files = []
    for d in ("Lib", "Model", "Gen", "Proofs", "Props"):
        files += sorted(glob.glob(os.path.join(COQ, d, "*.v")))
    rel = [os.path.relpath(f, COQ) for f in files]
    txt = "-Q . Corro\n-arg -w -arg -notation-overridden,-deprecated-hint-without-locality,-deprecated-syntactic-definition,-ambiguous-paths\n" + "\n".join(rel) + "\n"
    p = os.path.join(COQ, "_CoqProject")
    old = open(p).read() if os.path.exists(p) else None
    if old != txt or not os.path.exists(os.path.join(COQ, "Makefile")):
        open(p, "w").write(txt)
        rc, out = sh(["coq_makefile", "-f", "_CoqProject", "-o", "Makefile"], cwd=COQ)
        if rc != 0:
            raise RuntimeError("coq_makefile failed: " + out)
    return rel


def gate_sources():
    """grep every .v of the development for forbidden vernacular"""
    bad = []
    for f in glob.glob(os.path.join(COQ, "**", "*.v"), recursive=True) + glob.glob(os.path.join(EXTRACT, "*.v")):
        txt = open(f, encoding="utf-8").read()
        # strip comments (nested) before grepping
        out, depth, i = [], 0, 0
        while i < len(txt):
            if txt.startswith("(*", i):
                depth += 1; i += 2
            elif txt.startswith("*)", i) and depth > 0:
                depth -= 1; i += 2
            else:
                if depth == 0:
                    out.append(txt[i])
                i += 1
        depth_sec = 0
        for n, line in enumerate("".join(out).split("\n"), 1):
            if FORBIDDEN.search(line):
                bad.append("%s: %s" % (os.path.relpath(f, VERIF), line.strip()[:120]))
            st = line.strip()
            # a Variable / Hypothesis / Context outside a section declares an axiom-like assumption
            if re.match(r"(Section|Module)\s+\w+", st) and not re.match(r"Module\s+\w+\s*:=", st):
                depth_sec += 1
            elif re.match(r"End\s+\w+\s*\.", st):
                depth_sec = max(0, depth_sec - 1)
            elif depth_sec == 0 and re.match(r"(Variable|Variables|Hypothesis|Hypotheses|Context)\b", st):
                bad.append("%s: %s (outside a section)" % (os.path.relpath(f, VERIF), st[:120]))
    return bad


def coq_check(pid, allow_axioms=(), thorough=False):
    """Build Props/<pid>.v (and what it needs) from scratch-or-cache with full .vo
    compilation; parse Print Assumptions. Returns dict."""
    res = {"ok": False, "obligations": 0, "discharged": 0, "failed": [], "axioms": [], "log": "", "theorems": []}
    with Lock("coq"):
        coq_project()
        prop_v = os.path.join(COQ, "Props", pid + ".v")
        src = open(prop_v, encoding="utf-8").read()
        theorems = re.findall(r"^\s*(?:Theorem|Lemma|Corollary)\s+([A-Za-z0-9_']+)", src, re.M)
        n_pa = len(re.findall(r"^\s*Print Assumptions\s", src, re.M))
        n_check = len(re.findall(r"^\s*Check\s+[A-Za-z0-9_']+\s*:", src, re.M))
        n_ex = len(re.findall(r"^\s*Example\s", src, re.M))
        res["theorems"] = theorems
        res["obligations"] = len(theorems) + n_check + n_ex
        bad = gate_sources()
        if bad:
            res["failed"].append({"gate": "forbidden vernacular", "where": bad[:10]})
        for ext in (".vo", ".vok", ".vos", ".glob"):
            try:
                os.remove(os.path.join(COQ, "Props", pid + ext))
            except FileNotFoundError:
                pass
        rc, out = sh(["make", "-j%d" % NCPU, "Props/%s.vo" % pid], cwd=COQ, timeout=1500)
        res["log"] = out[-6000:]
        if rc != 0:
            m = re.search(r'File "([^"]+)", line (\d+)', out)
            where = "%s:%s" % (m.group(1), m.group(2)) if m else "?"
            # name the enclosing theorem/lemma of the failure
            name = "?"
            if m:
                try:
                    fpath = os.path.join(COQ, m.group(1)) if not os.path.isabs(m.group(1)) else m.group(1)
                    lines = open(fpath, encoding="utf-8").read().split("\n")[: int(m.group(2))]
                    for l in reversed(lines):
                        mm = re.match(r"\s*(?:Theorem|Lemma|Corollary|Example|Definition|Fixpoint|Check)\s+([A-Za-z0-9_']+)", l)
                        if mm:
                            name = mm.group(1); break
                except Exception:
                    pass
            err = out.strip().split("\n")[-12:]
            res["failed"].append({"proof": name, "where": where, "error": "\n".join(err)})
            return res
        closed = len(re.findall(r"Closed under the global context", out))
        axioms = []
        for blk in re.findall(r"Axioms:\n((?:.+\n?)+?)(?=\n\S|\Z)", out):
            for l in blk.split("\n"):
                mm = re.match(r"^([A-Za-z0-9_.']+)\s*:", l)
                if mm:
                    axioms.append(mm.group(1))
        res["axioms"] = sorted(set(axioms))
        notallowed = [a for a in res["axioms"] if a not in allow_axioms]
        n_axblocks = len(re.findall(r"^Axioms:", out, re.M))
        if notallowed:
            res["failed"].append({"gate": "axioms not in allowlist", "axioms": notallowed})
        if closed + n_axblocks != n_pa:
            res["failed"].append({"gate": "Print Assumptions count mismatch", "expected": n_pa, "closed": closed, "with_axioms": n_axblocks})
        if n_pa < len(theorems):
            res["failed"].append({"gate": "a theorem lacks Print Assumptions", "theorems": len(theorems), "print_assumptions": n_pa})
        if thorough and not res["failed"]:
            rc2, out2 = sh(["coqchk", "-silent", "-o", "-Q", ".", "Corro", "Corro.Props." + pid], cwd=COQ, timeout=1500)
            res["coqchk"] = out2.strip()[-1500:]
            if rc2 != 0:
                res["failed"].append({"gate": "coqchk", "output": out2[-1500:]})
        if not res["failed"]:
            res["ok"] = True
            res["discharged"] = res["obligations"]
    return res


# --------------------------------------------------------------------------
# extraction + OCaml driver

def _hash_files(paths):
    h = hashlib.sha256()
    for p in sorted(paths):
        h.update(p.encode()); h.update(open(p, "rb").read())
    return h.hexdigest()


def build_modelrun():
    """make Model/*.vo, extract, compile modelrun. Returns (ok, log)."""
    with Lock("coq"):
        coq_project()
        models = [os.path.relpath(f, COQ)[:-2] + ".vo" for f in
                  sorted(glob.glob(os.path.join(COQ, "Model", "*.v")) + glob.glob(os.path.join(COQ, "Lib", "*.v")) + glob.glob(os.path.join(COQ, "Gen", "*.v")))]
        rc, out = sh(["make", "-j%d" % NCPU] + models, cwd=COQ, timeout=1500)
        if rc != 0:
            return False, out[-4000:]
        srcs = [os.path.join(COQ, m[:-1]) for m in models] + [os.path.join(EXTRACT, "Extract.v"), os.path.join(EXTRACT, "modelrun.ml")]
        hv = _hash_files(srcs)
        bdir = os.path.join(CACHE, "modelrun")
        stamp = os.path.join(bdir, "stamp")
        if os.path.exists(MODELRUN) and os.path.exists(stamp) and open(stamp).read() == hv:
            return True, "cached"
        shutil.rmtree(bdir, ignore_errors=True)
        os.makedirs(bdir)
        shutil.copy(os.path.join(EXTRACT, "Extract.v"), os.path.join(bdir, "Extract.v"))
        rc, out = sh(["coqc", "-Q", COQ, "Corro", "Extract.v"], cwd=bdir, timeout=600)
        if rc != 0:
            return False, out[-4000:]
        shutil.copy(os.path.join(EXTRACT, "modelrun.ml"), os.path.join(bdir, "modelrun.ml"))
        rc, out2 = sh("ocamlfind ocamlopt -O2 -w -a -package str,unix -linkpkg model.mli model.ml modelrun.ml -o modelrun", cwd=bdir, timeout=600)
        if rc != 0:
            return False, (out + out2)[-4000:]
        open(stamp, "w").write(hv)
        return True, "built"


def build_harness():
    with Lock("cargo"):
        # keep the lock file in step with /repo's
        src_lock = os.path.join(REPO, "Cargo.lock")
        dst_lock = os.path.join(HARNESS, "Cargo.lock")
        if not os.path.exists(dst_lock):
            shutil.copy(src_lock, dst_lock)
        for f in ("rust-toolchain.toml",):
            s = os.path.join(REPO, f)
            if os.path.exists(s):
                d = os.path.join(HARNESS, f)
                if not os.path.exists(d) or open(s).read() != open(d).read():
                    shutil.copy(s, d)
        rc, out = sh(["cargo", "build", "--offline"], cwd=HARNESS, timeout=3000)
        if rc != 0 and "Cargo.lock" in out:
            shutil.copy(src_lock, dst_lock)
            rc, out = sh(["cargo", "build", "--offline"], cwd=HARNESS, timeout=3000)
        return rc == 0, out[-6000:]


CLI_BIN = os.path.join(VERIF, ".cache", "target-cli", "debug", "corrosion")


def build_cli():
    """the `corrosion` command line binary, built from /repo's working tree (C19 drives the real
    backup / restore commands)"""
    with Lock("cargo-cli"):
        rc, out = sh(["cargo", "build", "-p", "klukai", "--bin", "corrosion", "--offline",
                      "--target-dir", os.path.join(VERIF, ".cache", "target-cli")], cwd=REPO, timeout=3000,
                     env=dict(os.environ, CARGO_NET_OFFLINE="true"))
        return rc == 0, out[-6000:]


# --------------------------------------------------------------------------
# running cases

def run_lines(binary_cmd, lines, timeout=1800, shards=None):
    """feed case lines to a line-mode executable; returns list of output lines
    (same length). Sharded over processes."""
    if not lines:
        return []
    shards = shards or min(NCPU, max(1, len(lines) // 2000))
    chunks = [lines[i::shards] for i in range(shards)]
    procs = []
    for ch in chunks:
        p = subprocess.Popen(binary_cmd, stdin=subprocess.PIPE, stdout=subprocess.PIPE, stderr=subprocess.PIPE, env=ENV)
        procs.append((p, ch))
    outs = []
    import threading
    results = [None] * len(procs)
    def work(i, p, ch):
        try:
            o, e = p.communicate(("\n".join(ch) + "\n").encode(), timeout=timeout)
            results[i] = (p.returncode, o.decode("utf-8", "replace").split("\n"), e.decode("utf-8", "replace"))
        except subprocess.TimeoutExpired:
            p.kill()
            results[i] = (124, [], "TIMEOUT")
    ths = [threading.Thread(target=work, args=(i, p, ch)) for i, (p, ch) in enumerate(procs)]
    [t.start() for t in ths]
    [t.join() for t in ths]
    out = [None] * len(lines)
    for si, (rc, ol, err) in enumerate(results):
        ch = chunks[si]
        for j in range(len(ch)):
            v = ol[j] if j < len(ol) and (j < len(ol) - 1 or ol[j] != "") else "CRASH rc=%s %s" % (rc, err.strip()[-200:].replace("\n", " "))
            out[si + j * shards] = v
    return out


# --------------------------------------------------------------------------
# known findings

def known_findings(pid):
    p = os.path.join(VERIF, "KNOWN_FINDINGS.txt")
    res = []
    if os.path.exists(p):
        for l in open(p):
            l = l.strip()
            m = re.match(r"finding:\s+property=(\S+)\s+class=(\S+)\s+(.*)", l)
            if m and m.group(1) == pid:
                res.append({"class": m.group(2), "what": m.group(3)})
    return res


# --------------------------------------------------------------------------
# evidence + verdict

class Run:
    def __init__(self, pid, tier, seed):
        self.pid, self.tier, self.seed = pid, tier, seed
        self.t0 = time.time()
        self.violations = []     # dicts with 'replay'
        self.known_hits = []
        self.coverage = {}
        self.assumptions = []
        self.level = "proof"
        self.is_replay = False   # a --replay run is a diagnostic: it does not replace the evidence of the check

    def write_evidence(self):
        os.makedirs(os.path.join(VERIF, "evidence"), exist_ok=True)
        ev = {
            "property_id": self.pid, "tier": self.tier, "seed": self.seed, "level": self.level,
            "coverage": self.coverage, "assumptions": self.assumptions,
            "wall_s": round(time.time() - self.t0, 2), "violations": len(self.violations),
        }
        p = os.path.join(VERIF, "evidence", self.pid + ".json")
        with open(p + ".tmp", "w") as f:
            json.dump(ev, f, indent=1, sort_keys=True)
        os.replace(p + ".tmp", p)

    def replay_file(self, payload, tag="v"):
        d = os.path.join(REPLAYS, self.pid)
        os.makedirs(d, exist_ok=True)
        n = len(os.listdir(d))
        p = os.path.join(d, "%s%04d.json" % (tag, n))
        with open(p, "w") as f:
            json.dump(payload, f, indent=1)
        return p

    def violation(self, payload, found_input=True):
        p = self.replay_file(payload)
        self.violations.append(p)
        line = "VIOLATION property=%s replay=%s" % (self.pid, p)
        if not found_input:
            line += " no-failing-input-found"
        print(line)
        sys.stdout.flush()

    def finish(self):
        if not self.is_replay:
            self.write_evidence()
        for k in self.known_hits:
            print("KNOWN-FINDING: property=%s %s" % (self.pid, k))
        sys.stdout.flush()
        return 1 if self.violations else 0


def std_trusted_base(extra=()):
    return [
        "Coq 8.16.1 kernel (coqc, full .vo build) incl. its VM (vm_compute in Examples/finite sweeps); no native_compute",
        "no axioms: every Print Assumptions must say 'Closed under the global context' unless allow-listed per property",
        "extraction: ExtrOcamlBasic only, no Extract Constant; OCaml 4.13.1; hand-written driver extract/modelrun.ml",
        "translators tools/*2coq.py (fail closed)",
        "Rust harness /verif/harness (case parsing, canonical printing) built from /repo working tree with --cfg corro_verif",
    ] + list(extra)
