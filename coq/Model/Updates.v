(* Model of the per-table update feed, crates/klukai-types/src/updates.rs:
   batch_candidates (the cl cache: IndexMap in insertion order, skip a candidate
   whose cached causal length is greater, trim to the newest KEEP entries when
   more than MAX are cached; the buffer of pending notifications, also an
   IndexMap) and handle_candidates (causal length even => "deleted").
   Keys are the packed primary keys (opaque, compared for equality). *)
From Coq Require Import List ZArith Bool.
From Corro Require Import Gen.Consts.
Import ListNotations.
Open Scope Z_scope.

Definition ukey := list Z.

Fixpoint ukey_eqb (a b : ukey) : bool :=
  match a, b with
  | [], [] => true
  | x :: a', y :: b' => (x =? y) && ukey_eqb a' b'
  | _, _ => false
  end.

(* IndexMap: association list in insertion order; insert keeps the position of an existing key *)
Definition imap := list (ukey * Z).

Fixpoint iget (k : ukey) (m : imap) : option Z :=
  match m with
  | [] => None
  | (k', v) :: t => if ukey_eqb k' k then Some v else iget k t
  end.

Fixpoint iset (k : ukey) (v : Z) (m : imap) : imap :=
  match m with
  | [] => [(k, v)]
  | (k', v') :: t => if ukey_eqb k' k then (k', v) :: t else (k', v') :: iset k v t
  end.

Record ustate := mkU { u_cache : imap; u_buf : imap }.
Definition u_init : ustate := mkU [] [].

(* one candidate (pk, cl) of a received map *)
Definition recv1 (st : ustate) (c : ukey * Z) : ustate :=
  let (k, cl) := c in
  match iget k (u_cache st) with
  | Some cached => if cl <? cached then st            (* `if *o.get() > cl { continue }` *)
                   else mkU (iset k cl (u_cache st)) (iset k cl (u_buf st))
  | None => mkU (iset k cl (u_cache st)) (iset k cl (u_buf st))
  end.

(* cl_cache.split_off(len - KEEP) when len > MAX *)
Definition trim (maxn keep : Z) (m : imap) : imap :=
  if maxn <? Z.of_nat (length m) then skipn (length m - Z.to_nat keep) m else m.

Definition recv_with (maxn keep : Z) (st : ustate) (cands : list (ukey * Z)) : ustate :=
  let st' := fold_left recv1 cands st in
  mkU (trim maxn keep (u_cache st')) (u_buf st').

Definition recv := recv_with updates_max_cache_entries updates_keep_cache_entries.

Inductive nkind := NUpd | NDel.
Definition kind_of (cl : Z) : nkind := if Z.even cl then NDel else NUpd.

(* handle_candidates: one notification per buffered key, in buffer order *)
Definition flush (st : ustate) : ustate * list (nkind * ukey) :=
  (mkU (u_cache st) [], map (fun e => (kind_of (snd e), fst e)) (u_buf st)).

Inductive uop := URecv (cands : list (ukey * Z)) | UFlush.

Definition ustep_with (maxn keep : Z) (st : ustate) (o : uop) : ustate * list (nkind * ukey * Z) :=
  match o with
  | URecv cs => (recv_with maxn keep st cs, [])
  | UFlush => (mkU (u_cache st) [], map (fun e => (kind_of (snd e), fst e, snd e)) (u_buf st))
  end.

(* all notifications (with the causal length they were derived from) of a run *)
Fixpoint urun_with (maxn keep : Z) (st : ustate) (ops : list uop) : ustate * list (nkind * ukey * Z) :=
  match ops with
  | [] => (st, [])
  | o :: t => let (st1, n1) := ustep_with maxn keep st o in
              let (st2, n2) := urun_with maxn keep st1 t in (st2, n1 ++ n2)
  end.

Definition urun := urun_with updates_max_cache_entries updates_keep_cache_entries.

(* ---------- oracle: the final fate of every notified key ---------- *)
(* `exists_now k`: the row exists in the table.  The last notification for k must say
   deleted exactly when the row does not exist; every key in `changed` must have been notified. *)
Fixpoint last_kind (k : ukey) (ns : list (nkind * ukey)) (acc : option nkind) : option nkind :=
  match ns with
  | [] => acc
  | (nk, k') :: t => last_kind k t (if ukey_eqb k' k then Some nk else acc)
  end.

Definition fate_ok (present : list ukey) (changed : list ukey) (ns : list (nkind * ukey)) : bool :=
  forallb (fun k =>
    match last_kind k ns None with
    | None => false
    | Some NDel => negb (existsb (ukey_eqb k) present)
    | Some NUpd => existsb (ukey_eqb k) present
    end) changed &&
  forallb (fun n =>
    match last_kind (snd n) ns None with
    | Some NDel => negb (existsb (ukey_eqb (snd n)) present)
    | Some NUpd => existsb (ukey_eqb (snd n)) present
    | None => true
    end) ns.
