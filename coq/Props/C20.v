(* C20 — Database writers are mutually exclusive, prioritised and never deadlock.
   Model: Model/WritePool.v (the dispatcher over three queues with one guard at a time;
   tasks holding and requesting ranked locks).  Proofs: Proofs/WritePoolProofs.v.
   PARTIAL: tokio scheduling, timeouts (5 min per step of write_inner) and the fairness of the
   underlying semaphore are runtime.  Which locks each function of the agent takes, in which
   order and for how long, is READ FROM THE SOURCE on every run (tools/lockorder2coq.py ->
   Gen/LockOrder.v: every non-test function that takes the write connection, the bookie or a
   per-actor bookkeeping lock, as acquire / release steps; guard lifetimes approximated
   textually, erring towards "held longer"; nested lock-taking calls fail closed); the older
   hand-written activity table is kept below as a second reading and exercised by a watchdog
   run on a real agent. *)
From Coq Require Import List ZArith Bool Lia.
From Corro Require Import Model.WritePool Model.LockSeq Gen.LockOrder Proofs.WritePoolProofs.
Import ListNotations.
Open Scope Z_scope.

(* a connection is only handed out while nobody holds one (the guard is a single option in the
   model; that the real pool never has two live WriteConn values is what the harness samples) *)
Theorem C20_grant_needs_free : forall s o, grants (wp_step s o) <> grants s -> holder s = None /\ o = Dispatch.
Proof. exact grant_needs_free. Qed.
Print Assumptions C20_grant_needs_free.

(* when the connection is free a waiting client-priority request is served before any sync or
   background request, and a sync request before any background request; requests cancelled
   while queued are discarded without being served *)
Theorem C20_priority_first : forall s, holder s = None -> q_high s <> [] ->
  let s' := wp_step s Dispatch in
  q_normal s' = q_normal s /\ q_low s' = q_low s /\
  (holder s' = None \/ exists id, holder s' = Some id /\ In id (q_high s) /\ is_cancelled s id = false).
Proof. exact dispatch_prefers_high. Qed.
Print Assumptions C20_priority_first.

Theorem C20_normal_before_low : forall s, holder s = None -> q_high s = [] -> q_normal s <> [] ->
  let s' := wp_step s Dispatch in
  q_low s' = q_low s /\
  (holder s' = None \/ exists id, holder s' = Some id /\ In id (q_normal s) /\ is_cancelled s id = false).
Proof. exact dispatch_prefers_normal. Qed.
Print Assumptions C20_normal_before_low.

(* admission never gets stuck: a free connection with somebody queued always leads to a grant or
   to the removal of a dead entry, and a held connection is freed by its release or by the
   cancellation of its holder *)
Theorem C20_admission_progress : forall s, holder s = None -> (0 < waiting s)%nat ->
  (waiting (wp_step s Dispatch) < waiting s)%nat.
Proof. exact dispatch_progress. Qed.
Print Assumptions C20_admission_progress.

Theorem C20_cancelled_holder_frees : forall s id, holder s = Some id -> holder (wp_step s (Cancel id)) = None.
Proof. exact cancel_holder_frees. Qed.
Print Assumptions C20_cancelled_holder_frees.

(* lock ordering: any set of tasks that only request locks ranked above everything they hold can
   always make a step -- for every state, every number of tasks, every rank function *)
Theorem C20_ordered_locks_never_deadlock : forall (rank : Z -> Z) (ts : list task),
  ts <> [] -> forallb (ordered rank) ts = true ->
  exists i t, nth_error ts i = Some t /\ can_step ts i t = true.
Proof. exact ordered_locks_never_deadlock. Qed.
Print Assumptions C20_ordered_locks_never_deadlock.

(* the agent's activities, as read from the source (api/public/mod.rs make_broadcastable_changes,
   agent/util.rs process_multiple_changes / process_fully_buffered_changes / clear_buffered_meta_loop,
   types/sync.rs generate_sync), as sequences of acquire / release steps.  Locks: 0 = write
   connection (queue, guard, pooled connection), 1 = write permit, 2 = the bookie (the map of
   actors), 10+a = the bookkeeping of actor a.  The bookie lock is only ever held for the
   lookup `bookie.write(..).ensure(actor)` / the clone of the map and released before the next
   lock is requested, so it ranks ABOVE the per-actor locks: rank 0, 1, then 10+a by actor, then the
   bookie.  Every point of every activity is an ordered task, so no mix of them can deadlock. *)
Definition act_local_write := [Acq 0; Acq 1; Acq 10; Rel 10; Rel 1; Rel 0].
Definition per_actor (a : Z) := [Acq 2; Rel 2; Acq (10 + a); Rel (10 + a)].
Definition act_remote_apply :=                      (* a batch with changes of actors 0, 1, 2: three passes over the actors *)
  [Acq 0; Acq 1] ++ per_actor 0 ++ per_actor 1 ++ per_actor 2 ++ per_actor 0 ++ per_actor 1 ++ per_actor 2 ++
  per_actor 0 ++ per_actor 1 ++ per_actor 2 ++ [Rel 1; Rel 0].
(* (keeping the per-actor locks of earlier actors while going on would be ordered as well) *)
Definition act_remote_apply_holding :=
  [Acq 0; Acq 1; Acq 2; Rel 2; Acq 10; Acq 2; Rel 2; Acq 11; Acq 2; Rel 2; Acq 12; Rel 12; Rel 11; Rel 10; Rel 1; Rel 0].
Definition act_buffered_apply := [Acq 0; Acq 1; Acq 2; Rel 2; Acq 11; Rel 11; Rel 1; Rel 0].
Definition act_generate_sync := [Acq 2; Rel 2; Acq 10; Rel 10; Acq 11; Rel 11; Acq 12; Rel 12].
Definition act_clear_buffered := [Acq 0; Acq 1; Rel 1; Rel 0].
Definition agent_rank (l : Z) : Z := if l =? 2 then 1000 else l.

Fixpoint prefixes (l : list Z) (held : list Z) : list task :=
  match l with
  | [] => [mkTask held None]
  | x :: t => mkTask held (Some x) :: prefixes t (held ++ [x])
  end.

Example C20_agent_activities_are_ordered :
  forallb (ordered agent_rank)
    (flat_map (fun a => points a []) [act_local_write; act_remote_apply; act_remote_apply_holding; act_buffered_apply; act_generate_sync; act_clear_buffered]) = true.
Proof. vm_compute. reflexivity. Qed.

(* holding the bookie while asking for a per-actor lock, or asking for the connection while
   holding bookkeeping, is rejected by the same test *)
Example C20_bookie_held_across_is_not_ordered :
  forallb (ordered agent_rank) (points [Acq 0; Acq 1; Acq 2; Acq 10] []) = false /\
  forallb (ordered agent_rank) (points [Acq 10; Acq 0] []) = false.
Proof. vm_compute. split; reflexivity. Qed.

(* a swapped order is rejected by the same test *)
Example C20_swapped_order_is_not_ordered :
  forallb (ordered (fun x => x)) (prefixes [2; 0] []) = false.
Proof. vm_compute. reflexivity. Qed.

(* ---- the lock sites of the CURRENT source ---- *)
(* natural ranks: connection 0 < permit 1 < bookie 2 < per-actor bookkeeping 10, 11, .. *)
Definition src_rank (l : Z) : Z := l.
Definition src_points : list task := flat_map (fun a => points (snd a) []) src_activities.

(* at every acquire of every lock-taking function of the source, the requested lock ranks above
   everything the function holds at that point (this is the theorem a swapped or nested lock
   acquisition in the source breaks) *)
Theorem C20_source_lock_sites_are_ordered : forallb (ordered src_rank) src_points = true.
Proof. vm_compute. reflexivity. Qed.
Print Assumptions C20_source_lock_sites_are_ordered.

(* hence: any number of threads, each at any point of any of these functions, is never stuck *)
Theorem C20_source_activities_never_deadlock : forall ts : list task,
  ts <> [] -> (forall t, In t ts -> In t src_points) ->
  exists i t, nth_error ts i = Some t /\ can_step ts i t = true.
Proof.
  intros ts Hne Hin. apply (C20_ordered_locks_never_deadlock src_rank ts Hne).
  apply forallb_forall. intros t Ht.
  pose proof C20_source_lock_sites_are_ordered as H. rewrite forallb_forall in H. exact (H t (Hin t Ht)).
Qed.
Print Assumptions C20_source_activities_never_deadlock.

(* the generated table is not empty and contains the writers the property names *)
Example C20_source_table_nonvacuous :
  (10 <= length src_activities)%nat /\ (40 <= length src_points)%nat /\
  existsb (fun t => match t_wants t with Some 10 => existsb (Z.eqb 0) (t_holds t) | _ => false end) src_points = true.
Proof. vm_compute. repeat split; try reflexivity; apply Nat.leb_le; reflexivity. Qed.

Example C20_nonvacuous :
  (* the connection is held; low 1, normal 2, priority 3, priority 4 queue up; 3 is cancelled;
     after the release the grants are 4, 2, 1 *)
  let ops := [Req PHigh 9; Dispatch; Req PLow 1; Req PNormal 2; Req PHigh 3; Req PHigh 4; Cancel 3;
              Release; Dispatch; Dispatch; Release; Dispatch; Release; Dispatch; Release] in
  grants (wp_run ops pool_init) = [9; 4; 2; 1] /\ waiting (wp_run ops pool_init) = 0%nat.
Proof. vm_compute. split; reflexivity. Qed.
