"""C17 — the HTTP API enforces its token on every route; read endpoints cannot write."""
import random, re
import vlib, flow

NROUTES = 11
NSHAPES = 14
NSTMTS = 30
RIGHT = {1, 5, 6, 10}          # header shapes that deliver exactly the configured token to require_authz
LENIENT = {5, 6, 10, 11}       # shapes whose reading depends on HTTP / `headers`-crate normalisation


class C17(flow.Spec):
    pid = "C17"
    shards = 16
    rule = ("a live API listener (the real router, layers and require_authz) on a real agent, with and without a configured "
            "token: every route and method incl. unknown paths and wrong methods x 14 Authorization header shapes (missing, right, "
            "suffix, prefix, other scheme, lower-case scheme, extra / trailing whitespace, bare token, scheme only, wrong token, two "
            "headers, other header name, upper-cased token), with mutating bodies on the write routes; per request the status "
            "class must equal the model's outcome (generated router term) and a digest of tables, crsql_changes, schema, "
            "bookkeeping tables, pragmas and in-memory bookkeeping must be unchanged unless the request was admitted to a "
            "write route. Read endpoints (queries, subscriptions) with the right token x 30 statement classes (DML, DDL, PRAGMA "
            "writes, ATTACH, multi-statement, CTE-wrapped writes, RETURNING, cr-sqlite side-effecting functions, VACUUM/REINDEX/"
            "ANALYZE, BEGIN, writes to bookkeeping / crsql tables): digest unchanged and the node still answers a read. "
            "non-trivial = distinct (configuration, route, header shape) and (endpoint, statement)")
    assumptions = ["TLS / client certificates and the admin socket are separate interfaces, not part of this API",
                   "how the `headers` crate reads unusual Authorization values (scheme case, optional whitespace, repeated header) is observed, not proved; those shapes are only required to end in 'refused' or 'admitted with the exact token'",
                   "SQLite's own enforcement on a connection opened read-only is trusted for the read endpoints"]

    def cases(self, tier, seed):
        rnd = random.Random(seed)
        out = []
        # exhaustive matrix, one configuration per case, routes in random order
        pairs = [(r, h) for r in range(NROUTES) for h in range(NSHAPES)]
        for cfg in (1, 0):
            rnd.shuffle(pairs)
            k = 22
            for i in range(0, len(pairs), k):
                chunk = pairs[i:i + k]
                out.append(("authz %d %d %s" % (cfg, len(chunk), " ".join("%d %d" % p for p in chunk)), {"token-configured" if cfg else "no-token", "matrix"}))
        reps = 1 if tier == "quick" else 20
        for _ in range(reps):
            for ep in (0, 1):
                st = list(range(NSTMTS)); rnd.shuffle(st)
                for i in range(0, NSTMTS, 10):
                    chunk = st[i:i + 10]
                    out.append(("ro %d %s" % (len(chunk), " ".join("%d %d" % (ep, s) for s in chunk)), {"read-endpoint-%s" % ("queries" if ep == 0 else "subscriptions")}))
        if tier != "quick":
            for _ in range(200):
                cfg = rnd.randrange(2)
                n = rnd.randrange(5, 30)
                out.append(("authz %d %d %s" % (cfg, n, " ".join("%d %d" % (rnd.randrange(NROUTES), rnd.randrange(NSHAPES)) for _ in range(n))), {"random-sequence"}))
        return out

    def model_lines(self, case, impl_obs):
        return [case] if case.startswith("authz ") else []

    def agree(self, case, impl_obs, model_obs):
        if not case.startswith("authz "):
            return not impl_obs.startswith(("PANIC", "ERR", "CRASH"))
        a = impl_obs.split()
        b = model_obs.split()
        if len(a) != len(b):
            return False
        for x, y in zip(a, b):
            status = x.split(":")[0]
            if y == "401" and status != "401":
                return False
            if y == "400" and status != "400":
                return False
            if y in ("handler", "fallback"):
                if status in ("401", "0"):
                    return False
                if y == "fallback" and status not in ("404", "405"):
                    return False
                if y == "handler" and status in ("404", "405") :
                    # a handler may itself answer 404 (unknown subscription id)
                    pass
        return True

    def nontrivial(self, case, model_obs):
        return True

    def impl_verdict(self, case, impl_obs):
        if impl_obs.startswith(("PANIC", "ERR", "CRASH")):
            return False
        t = case.split()
        if t[0] == "authz":
            cfg = t[1] == "1"
            reqs = [(int(t[3 + 2 * i]), int(t[4 + 2 * i])) for i in range(int(t[2]))]
            obs = impl_obs.split()
            if len(obs) != len(reqs):
                return False
            for (r, h), o in zip(reqs, obs):
                status, chg = o.split(":")
                if status == "0":
                    return False
                if cfg:
                    if h in RIGHT and h not in LENIENT:
                        if status == "401":
                            return False
                    elif h not in LENIENT:
                        # not the token: a client-error status and no action
                        if not status.startswith("4") or chg != "0":
                            return False
                    else:
                        # reading depends on header normalisation: either refused without action, or admitted
                        if status == "401" and chg != "0":
                            return False
                else:
                    if status in ("401", "400") and r in (1, 2, 3, 6):
                        return False      # open API: read routes answer (400 is never how they answer these bodies)
                    if status == "401":
                        return False
                # only the write routes may change anything, and only when admitted
                if chg != "0" and r not in (0, 5):
                    return False
            return None
        if t[0] == "ro":
            obs = impl_obs.split()
            if not obs or obs[0] != "seed=200":
                return False
            for o in obs[1:]:
                status, chg, after = o.split(":")
                if chg != "0" or after != "200" or status == "0":
                    return False
            return None
        return None


SPEC = C17
