//! C07: local write requests through the real api_v1_transactions handler.
use crate::{agentkit, util::Toks};
use klukai_agent::api::public::{api_v1_transactions, TimeoutParams};
use klukai_types::{
    api::Statement,
    broadcast::{BroadcastInput, BroadcastV1, Changeset},
    sync::generate_sync,
};
use std::time::Duration;

/// statement kinds (row ids are small integers):
///   I id      INSERT INTO tests (id, text) VALUES (id, 't<id>')           (fails on duplicate key)
///   U id k    INSERT OR REPLACE ... text = 'u<k>' (upsert)
///   S id k    UPDATE tests SET text = 'u<k>' WHERE id = id
///   N id      UPDATE tests SET text = text WHERE id = id                  (changes nothing)
///   X id      DELETE FROM tests WHERE id = id
///   B         syntactically bad SQL
///   P         wrong number of parameters
///   M n base  n inserts of fresh rows base..base+n (one statement each)
fn stmts(t: &mut Toks) -> Vec<Statement> {
    let k = t.usize();
    let mut out = vec![];
    for _ in 0..k {
        match t.tok() {
            "I" => {
                let id = t.i64();
                out.push(Statement::Simple(format!("INSERT INTO tests (id, text) VALUES ({id}, 't{id}')")));
            }
            "U" => {
                let id = t.i64();
                let k = t.i64();
                out.push(Statement::WithParams(
                    "INSERT OR REPLACE INTO tests (id, text) VALUES (?, ?)".into(),
                    vec![id.into(), format!("u{k}").into()],
                ));
            }
            "S" => {
                let id = t.i64();
                let k = t.i64();
                out.push(Statement::Simple(format!("UPDATE tests SET text = 'u{k}' WHERE id = {id}")));
            }
            "N" => {
                let id = t.i64();
                out.push(Statement::Simple(format!("UPDATE tests SET text = text WHERE id = {id}")));
            }
            "X" => {
                let id = t.i64();
                out.push(Statement::Simple(format!("DELETE FROM tests WHERE id = {id}")));
            }
            "B" => out.push(Statement::Simple("INSERT INTO tests VALUES (".into())),
            "P" => out.push(Statement::WithParams("INSERT INTO tests (id, text) VALUES (?, ?)".into(), vec![1i64.into()])),
            "M" => {
                let n = t.i64();
                let base = t.i64();
                for i in 0..n {
                    out.push(Statement::Simple(format!(
                        "INSERT INTO tests (id, text) VALUES ({}, 'bulk-{}-padding-padding-padding-padding')",
                        base + i,
                        base + i
                    )));
                }
            }
            x => panic!("bad stmt {x}"),
        }
    }
    out
}

async fn digest(agent: &klukai_types::agent::Agent) -> (String, i64) {
    let conn = agent.pool().read().await.unwrap();
    let rows: Vec<String> = conn
        .prepare("SELECT id, text FROM tests ORDER BY id")
        .unwrap()
        .query_map([], |r| Ok(format!("{}={}", r.get::<_, i64>(0)?, r.get::<_, String>(1)?)))
        .unwrap()
        .map(|x| x.unwrap())
        .collect();
    let n: i64 = conn
        .query_row("SELECT COUNT(*) || '' FROM crsql_changes WHERE site_id = crsql_site_id()", [], |r| r.get::<_, String>(0))
        .map(|s| s.parse().unwrap())
        .unwrap();
    let maxv: i64 = conn
        .query_row("SELECT COALESCE(MAX(db_version), 0) FROM crsql_changes WHERE site_id = crsql_site_id()", [], |r| r.get(0))
        .unwrap();
    (format!("{}#{}", rows.join(";"), n), maxv)
}

/// case: ltx <nreq> { <k> {stmt}*k }    (k = 0: a request with no statements)
/// obs per request: ok=<0/1> v=<version|-> same=<0/1> recs=<seq:size,...> chunks=<a-b[n],...> need=<0/1 own need empty>
pub fn ltx(t: &mut Toks) -> String {
    let rt = tokio::runtime::Builder::new_multi_thread().worker_threads(3).enable_all().build().unwrap();
    let nreq = t.usize();
    let reqs: Vec<Vec<Statement>> = (0..nreq).map(|_| stmts(t)).collect();
    rt.block_on(async move {
        let kit = agentkit::new_agent(|_| {}).await;
        let agent = kit.agent.clone();
        let mut rx_bcast = kit.opts.rx_bcast;
        let bookie = klukai_types::agent::Bookie::new(Default::default());
        // generate_sync reads the bookie; own bookkeeping lives in agent.booked(): register it
        {
            let mut w = bookie.write::<&str, _>("verif", None).await;
            let snapshot = agent.booked().read::<&str, _>("verif", None).await.clone();
            w.replace_actor(agent.actor_id(), snapshot);
        }
        let mut outs = vec![];
        let mut pool_chunks: Vec<(u64, u64, usize, u64, u64)> = vec![];
        for stmts in reqs {
            let (before, _) = digest(&agent).await;
            let (status, body) = api_v1_transactions(
                axum::Extension(agent.clone()),
                axum::extract::Query(TimeoutParams { timeout: None }),
                axum::extract::Json(stmts),
            )
            .await;
            tokio::time::sleep(Duration::from_millis(40)).await;
            let (after, _) = digest(&agent).await;
            let ver = body.0.version;
            // statements reported as failed in the response
            let errs = body.0.results.iter().filter(|r| matches!(r, klukai_types::api::ExecResult::Error { .. })).count();
            // records of the acknowledged version
            let recs: Vec<String> = match ver {
                None => vec![],
                Some(v) => {
                    let conn = agent.pool().read().await.unwrap();
                    let mut st = conn
                        .prepare(r#"SELECT "table", pk, cid, val, col_version, db_version, seq, site_id, cl FROM crsql_changes WHERE db_version = ? AND site_id = crsql_site_id() ORDER BY seq"#)
                        .unwrap();
                    st.query_map([v as i64], klukai_types::change::row_to_change)
                        .unwrap()
                        .map(|c| {
                            let c = c.unwrap();
                            format!("{}:{}", c.seq.0, c.estimated_byte_size())
                        })
                        .collect()
                }
            };
            // broadcast messages are sent from spawned tasks: they may arrive late and out of order.
            // Collect them in a pool and report, for this request, the ones of ITS version (waiting
            // until the chunk that ends at last_seq is there).
            let deadline = std::time::Instant::now() + Duration::from_secs(10);
            loop {
                while let Ok(m) = rx_bcast.try_recv() {
                    if let BroadcastInput::AddBroadcast(BroadcastV1::Change(c)) | BroadcastInput::Rebroadcast(BroadcastV1::Change(c)) = m {
                        if let Changeset::Full { version, changes, seqs, last_seq, .. } = &c.changeset {
                            pool_chunks.push((seqs.start().0, seqs.end().0, changes.len(), version.0, last_seq.0));
                        }
                    }
                }
                let complete = match ver {
                    None => true,
                    Some(v) => {
                        // the chunks are sent by one spawned task each and arrive in any order:
                        // wait until those of this version tile 0..=last_seq (or the deadline)
                        let mut mine: Vec<_> = pool_chunks.iter().filter(|c| c.3 == v).cloned().collect();
                        mine.sort();
                        mine.dedup();
                        let mut next = 0u64;
                        let mut tiled = !mine.is_empty();
                        for c in &mine {
                            if c.0 != next { tiled = false; break; }
                            next = c.1 + 1;
                        }
                        tiled && mine.last().map(|c| c.1 == c.4).unwrap_or(false)
                    }
                };
                if complete || std::time::Instant::now() > deadline {
                    break;
                }
                tokio::time::sleep(Duration::from_millis(5)).await;
            }
            let mut chunks: Vec<(u64, u64, usize, u64, u64)> = match ver {
                None => vec![],
                Some(v) => pool_chunks.iter().filter(|c| c.3 == v).cloned().collect(),
            };
            if let Some(v) = ver {
                pool_chunks.retain(|c| c.3 != v);
            }
            chunks.sort();
            let own_need_empty = {
                let r = agent.booked().read::<&str, _>("verif", None).await;
                r.needed().is_empty()
            };
            let _ = generate_sync(&bookie, agent.actor_id()).await;
            outs.push(format!(
                "ok={} errs={} v={} same={} recs={} chunks={} need={}",
                if status.is_success() { 1 } else { 0 },
                errs,
                ver.map(|v| v.to_string()).unwrap_or("-".into()),
                if before == after { 1 } else { 0 },
                recs.join(","),
                chunks.iter().map(|(a, b, n, v, l)| format!("{a}-{b}[{n}]v{v}l{l}")).collect::<Vec<_>>().join(","),
                if own_need_empty { 1 } else { 0 }
            ));
        }
        outs.join(" # ")
    })
}

/// case: ctx <nreq> { <k> {stmt}*k }  -- all requests issued concurrently
/// obs: sorted acknowledged versions, number of failures, final own need empty
pub fn ctx(t: &mut Toks) -> String {
    let rt = tokio::runtime::Builder::new_multi_thread().worker_threads(4).enable_all().build().unwrap();
    let nreq = t.usize();
    let reqs: Vec<Vec<Statement>> = (0..nreq).map(|_| stmts(t)).collect();
    rt.block_on(async move {
        let kit = agentkit::new_agent(|_| {}).await;
        let agent = kit.agent.clone();
        let mut hs = vec![];
        for stmts in reqs {
            let agent = agent.clone();
            hs.push(tokio::spawn(async move {
                let (status, body) = api_v1_transactions(
                    axum::Extension(agent),
                    axum::extract::Query(TimeoutParams { timeout: None }),
                    axum::extract::Json(stmts),
                )
                .await;
                (status.is_success(), body.0.version)
            }));
        }
        let mut vers = vec![];
        let mut fails = 0;
        for h in hs {
            let (ok, v) = h.await.unwrap();
            if !ok {
                fails += 1;
            }
            if let Some(v) = v {
                vers.push(v);
            }
        }
        vers.sort();
        let (_, maxv) = digest(&agent).await;
        let own_need_empty = agent.booked().read::<&str, _>("verif", None).await.needed().is_empty();
        format!(
            "versions={} fails={} maxv={} need={}",
            vers.iter().map(|v| v.to_string()).collect::<Vec<_>>().join(","),
            fails,
            maxv,
            if own_need_empty { 1 } else { 0 }
        )
    })
}
