From Coq Require Import List ZArith Bool Lia.
From Corro Require Import Model.Backup.
Import ListNotations.
Open Scope Z_scope.

Lemma site_of_app o s1 s2 : site_of o (s1 ++ s2) = match site_of o s1 with Some x => Some x | None => site_of o s2 end.
Proof. induction s1 as [|[o' x] t IH]; cbn; [reflexivity|]. destruct (o' =? o); [reflexivity|exact IH]. Qed.

Lemma site_of_filter_ne o z s : o <> z -> site_of o (filter (fun p => negb (fst p =? z)) s) = site_of o s.
Proof.
  intros Hne. induction s as [|[o' x] t IH]; cbn; [reflexivity|].
  destruct (o' =? z) eqn:E; cbn.
  - apply Z.eqb_eq in E. subst. destruct (z =? o) eqn:E2; [apply Z.eqb_eq in E2; congruence|exact IH].
  - destruct (o' =? o); [reflexivity|exact IH].
Qed.

Lemma max_ord_ge (s : sites) : forall (m : Z) (p : Z * Z), In p s -> fst p <= fold_left (fun m (p : Z * Z) => Z.max m (fst p)) s m.
Proof.
  induction s as [|q t IH]; intros m p Hi; [destruct Hi|]. cbn. destruct Hi as [->|Hi].
  - assert (G : forall (l : sites) a, a <= fold_left (fun m (p : Z * Z) => Z.max m (fst p)) l a).
    { induction l as [|x l IHl]; intros a; cbn; [lia|]. specialize (IHl (Z.max a (fst x))). lia. }
    specialize (G t (Z.max m (fst p))). lia.
  - apply IH. exact Hi.
Qed.

Lemma site_of_none_fresh seq s : site_of (fresh_ord seq s) s = None.
Proof.
  unfold fresh_ord, max_ord.
  assert (G : forall o, (forall p, In p s -> fst p < o) -> site_of o s = None).
  { induction s as [|[o' x] t IH]; intros o H; cbn; [reflexivity|].
    destruct (o' =? o) eqn:E; [apply Z.eqb_eq in E; specialize (H (o', x) (or_introl eq_refl)); cbn in H; lia|].
    apply IH. intros p Hp. apply H. right. exact Hp. }
  apply G. intros p Hp. pose proof (max_ord_ge s 0 p Hp). lia.
Qed.

Lemma site_of_0_filtered (s : sites) : site_of 0 (filter (fun p => negb (fst p =? 0)) s) = None.
Proof.
  induction s as [|[o x] t IH]; cbn; [reflexivity|].
  destruct (o =? 0) eqn:E; cbn; [exact IH|rewrite E; exact IH].
Qed.

(* ---------- backup keeps every row's author and leaves no "self" behind ---------- *)
Theorem backup_preserves_authors seq d d' : forallb (fun p => 0 <=? fst p) (b_sites d) = true ->
  backup seq d = Some d' ->
  b_clock d' = rewrite 0 (fresh_ord seq (b_sites d)) (b_clock d) /\
  (forall r, In r (b_clock d) -> author d r <> None ->
     author d' (if snd r =? 0 then (fst r, fresh_ord seq (b_sites d)) else r) = author d r) /\
  site_of 0 (b_sites d') = None /\ b_members d' = [] /\ b_subs d' = [].
Proof.
  intros Hpos Hb. unfold backup in Hb. destruct (site_of 0 (b_sites d)) as [self|] eqn:Es; [|discriminate].
  injection Hb as <-. cbn [b_clock b_sites b_members b_subs].
  set (n := fresh_ord seq (b_sites d)).
  assert (Hn : 0 < n) by (unfold n, fresh_ord, max_ord;
    assert (forall (l : sites) a, a <= fold_left (fun m (p : Z * Z) => Z.max m (fst p)) l a) as G by
      (induction l as [|x l IHl]; intros a; cbn; [lia|]; specialize (IHl (Z.max a (fst x))); lia);
    specialize (G (b_sites d) 0); lia).
  assert (Hfresh : site_of n (b_sites d) = None) by apply site_of_none_fresh.
  split; [reflexivity|]. split; [|split; [|split; reflexivity]].
  - intros [c o] Hr Hknown. unfold author in *. cbn [snd fst b_sites] in *.
    destruct (o =? 0) eqn:E.
    + apply Z.eqb_eq in E. subst o. cbn [snd]. rewrite site_of_app, site_of_filter_ne by lia.
      rewrite Hfresh. cbn. rewrite Z.eqb_refl. rewrite Es. reflexivity.
    + apply Z.eqb_neq in E. cbn [snd]. rewrite site_of_app, site_of_filter_ne by lia.
      destruct (site_of o (b_sites d)) as [x|] eqn:Eo; [reflexivity|].
      cbn. destruct (n =? o) eqn:En; [|reflexivity].
      apply Z.eqb_eq in En. subst o. contradiction.
  - rewrite site_of_app.
    rewrite site_of_0_filtered. cbn. destruct (n =? 0) eqn:E; [apply Z.eqb_eq in E; lia|reflexivity].
Qed.

(* ---------- restore ---------- *)
Lemma nodupz_spec l : nodupz l = true -> NoDup l.
Proof.
  induction l as [|x t IH]; cbn; intros H; [constructor|]. apply andb_true_iff in H as [H1 H2].
  constructor; [|apply IH; exact H2]. intros Hi. apply negb_true_iff in H1.
  assert (existsb (Z.eqb x) t = true) by (apply existsb_exists; exists x; split; [exact Hi|apply Z.eqb_refl]). congruence.
Qed.

Lemma site_of_in o x (s : sites) : site_of o s = Some x -> In (o, x) s.
Proof.
  induction s as [|[o' x'] t IH]; cbn; [discriminate|]. destruct (o' =? o) eqn:E.
  - intros H. injection H as ->. apply Z.eqb_eq in E. subst. left. reflexivity.
  - intros H. right. exact (IH H).
Qed.

Lemma ord_of_in o x (s : sites) : ord_of x s = Some o -> In (o, x) s.
Proof.
  induction s as [|[o' x'] t IH]; cbn; [discriminate|]. destruct (x' =? x) eqn:E.
  - intros H. injection H as ->. apply Z.eqb_eq in E. subst. left. reflexivity.
  - intros H. right. exact (IH H).
Qed.

Lemma ord_of_none x (s : sites) : ord_of x s = None -> forall o, ~ In (o, x) s.
Proof.
  induction s as [|[o' x'] t IH]; cbn; intros H o Hi; [exact Hi|]. destruct (x' =? x) eqn:E; [discriminate|].
  destruct Hi as [Hi|Hi]; [injection Hi as _ ->; rewrite Z.eqb_refl in E; discriminate|exact (IH H o Hi)].
Qed.

Lemma in_unique_site (s : sites) o o' x : NoDup (map snd s) -> In (o, x) s -> In (o', x) s -> o = o'.
Proof.
  induction s as [|[a b] t IH]; cbn; intros Hn H1 H2; [contradiction|].
  inversion Hn as [|? ? Hnot Hn']; subst.
  destruct H1 as [H1|H1], H2 as [H2|H2].
  - congruence.
  - injection H1 as -> ->. exfalso. apply Hnot. exact (in_map snd t (o', x) H2).
  - injection H2 as -> ->. exfalso. apply Hnot. exact (in_map snd t (o, x) H1).
  - exact (IH Hn' H1 H2).
Qed.

Lemma site_of_filter_site o x y (s : sites) : site_of o s = Some y -> y <> x ->
  site_of o (filter (fun p => negb (snd p =? x)) s) = Some y.
Proof.
  induction s as [|[o' x'] t IH]; cbn; [discriminate|]. intros H Hne.
  destruct (o' =? o) eqn:E.
  - injection H as ->. destruct (y =? x) eqn:E2; [apply Z.eqb_eq in E2; contradiction|]. cbn. rewrite E. reflexivity.
  - destruct (x' =? x); cbn; [exact (IH H Hne)|rewrite E; exact (IH H Hne)].
Qed.

Lemma site_of_unique (s : sites) o x : NoDup (map fst s) -> In (o, x) s -> site_of o s = Some x.
Proof.
  induction s as [|[a b] t IH]; cbn; intros Hn Hi; [contradiction|].
  inversion Hn as [|? ? Hnot Hn']; subst. destruct Hi as [Hi|Hi].
  - injection Hi as -> ->. rewrite Z.eqb_refl. reflexivity.
  - destruct (a =? o) eqn:E; [|exact (IH Hn' Hi)].
    apply Z.eqb_eq in E. subst. exfalso. apply Hnot. exact (in_map fst t (o, x) Hi).
Qed.

Lemma site_of_filter_ord_ne o z (s : sites) : o <> z ->
  site_of o (filter (fun p => negb (fst p =? z)) s) = site_of o s.
Proof. apply site_of_filter_ne. Qed.

(* restoring a snapshot that has no "self" row (what `backup` produces) while keeping the actor
   id x: every clock row keeps its author; the rows authored by x become "self" *)
Theorem restore_preserves_authors x snap :
  site_of 0 (b_sites snap) = None ->
  nodupz (map fst (b_sites snap)) = true -> nodupz (map snd (b_sites snap)) = true ->
  let d' := restore (Some x) snap in
  site_of 0 (b_sites d') = Some x /\
  forall r, In r (b_clock snap) -> author snap r <> None ->
    author d' (match ord_of x (b_sites snap) with
               | Some k => if snd r =? k then (fst r, 0) else r
               | None => r end) = author snap r.
Proof.
  intros H0 Hno Hns d'. apply nodupz_spec in Hno. apply nodupz_spec in Hns.
  assert (Hk0 : ord_of x (b_sites snap) <> Some 0).
  { intros H. apply ord_of_in in H. rewrite (site_of_unique _ _ _ Hno H) in H0. discriminate. }
  (* looking up an ordinal other than 0 whose site is not x is unaffected *)
  assert (Hother : forall o y, o <> 0 -> site_of o (b_sites snap) = Some y -> y <> x ->
            site_of o ((0, x) :: filter (fun p => negb (fst p =? 0)) (filter (fun p => negb (snd p =? x)) (b_sites snap))) = Some y).
  { intros o y Ho Hy Hne. cbn [site_of]. destruct (0 =? o) eqn:E; [apply Z.eqb_eq in E; lia|].
    rewrite site_of_filter_ne by lia. apply site_of_filter_site; assumption. }
  unfold d', restore. destruct (ord_of x (b_sites snap)) as [k|] eqn:Ek.
  - destruct (k =? 0) eqn:Ek0; [apply Z.eqb_eq in Ek0; subst; contradiction|]. apply Z.eqb_neq in Ek0.
    cbn [b_sites b_clock]. split; [cbn; reflexivity|].
    intros [c o] Hr Hknown. unfold author in *. cbn [snd fst b_sites] in *.
    destruct (site_of o (b_sites snap)) as [y|] eqn:Eo; [|contradiction].
    pose proof (ord_of_in _ _ _ Ek) as Hkx.
    destruct (o =? k) eqn:E.
    + apply Z.eqb_eq in E. subst o. cbn. f_equal.
      rewrite (site_of_unique _ _ _ Hno Hkx) in Eo. congruence.
    + apply Z.eqb_neq in E. cbn [snd].
      assert (o <> 0) by (intros ->; congruence).
      apply Hother; [assumption|exact Eo|].
      intros ->. apply E. exact (in_unique_site _ _ _ _ Hns (site_of_in _ _ _ Eo) Hkx).
  - cbn [b_sites b_clock]. split; [cbn; reflexivity|].
    intros [c o] Hr Hknown. unfold author in *. cbn [snd fst b_sites] in *.
    destruct (site_of o (b_sites snap)) as [y|] eqn:Eo; [|contradiction].
    assert (o <> 0) by (intros ->; congruence).
    apply Hother; [assumption|exact Eo|].
    intros ->. exact (ord_of_none _ _ Ek o (site_of_in _ _ _ Eo)).
Qed.

(* a snapshot that still has a "self" row (not produced by `backup`) is re-attributed: the
   precondition above is necessary *)
Example restore_with_self_row_refuted :
  let snap := mkB [(0, 7); (1, 8)] [(100, 0); (101, 1)] [] [] in
  author snap (100, 0) = Some 7 /\ author (restore (Some 9) snap) (100, 0) = Some 9.
Proof. vm_compute. split; reflexivity. Qed.
