From Coq Require Import List ZArith Bool Lia.
From Corro Require Import Model.RestoreLock.
Import ListNotations.
Open Scope Z_scope.

Definition Compat (t : ltable) : Prop :=
  forall b o1 k1 o2 k2, In (b, o1, k1) t -> In (b, o2, k2) t -> o1 <> o2 -> conflicts k1 k2 = false.

Lemma try_lock_compat t b o k t' : Compat t -> try_lock t b o k = Some t' -> Compat t'.
Proof.
  intros Hc. unfold try_lock.
  destruct (existsb (blocks b o k) t) eqn:Ex; [discriminate|]. intros H. injection H as <-.
  assert (Hno : forall o' k', In (b, o', k') t -> o' <> o -> conflicts k k' = false).
  { intros o' k' Hi Hne. destruct (conflicts k k') eqn:E; [|reflexivity].
    assert (existsb (blocks b o k) t = true).
    { apply existsb_exists. exists (b, o', k'). split; [exact Hi|]. unfold blocks. rewrite Z.eqb_refl, E.
      destruct (o' =? o) eqn:E2; [apply Z.eqb_eq in E2; contradiction|reflexivity]. }
    congruence. }
  intros b0 o1 k1 o2 k2 H1 H2 Hne.
  destruct H1 as [H1|H1], H2 as [H2|H2].
  - inversion H1; inversion H2; subst. contradiction.
  - inversion H1; subst. apply filter_In in H2 as [H2 _]. apply (Hno o2 k2 H2). congruence.
  - inversion H2; subst. apply filter_In in H1 as [H1 _].
    pose proof (Hno o1 k1 H1 Hne) as H. destruct k2, k1; cbn in *; congruence.
  - apply filter_In in H1 as [H1 _]. apply filter_In in H2 as [H2 _]. exact (Hc b0 o1 k1 o2 k2 H1 H2 Hne).
Qed.

Lemma unlock_compat t b o : Compat t -> Compat (unlock t b o).
Proof.
  intros Hc b0 o1 k1 o2 k2 H1 H2 Hne. unfold unlock in *.
  apply filter_In in H1 as [H1 _]. apply filter_In in H2 as [H2 _]. exact (Hc b0 o1 k1 o2 k2 H1 H2 Hne).
Qed.

(* every interleaving of lock / unlock requests by any number of processes keeps the table compatible *)
Theorem locks_always_compatible : forall ops t, Compat t -> Compat (fold_left lock_step ops t).
Proof.
  induction ops as [|op ops IH]; intros t Hc; cbn; [exact Hc|]. apply IH.
  destruct op as [b o k|b o]; cbn.
  - destruct (try_lock t b o k) as [t'|] eqn:E; [exact (try_lock_compat _ _ _ _ _ Hc E)|exact Hc].
  - apply unlock_compat. exact Hc.
Qed.

(* hence: while the restorer holds a write lock on a byte nobody else holds any lock on it,
   in particular no reader holds SHARED (rollback mode) or a read mark (WAL mode) *)
Theorem writer_excludes_everyone : forall ops b w o k,
  let t := fold_left lock_step ops [] in
  In (b, w, LWrite) t -> In (b, o, k) t -> o = w.
Proof.
  intros ops b w o k t Hw Ho.
  assert (Hc : Compat t) by (apply locks_always_compatible; intros ? ? ? ? ? []).
  destruct (Z.eq_dec o w) as [E|E]; [exact E|].
  pose proof (Hc b w LWrite o k Hw Ho (fun H => E (eq_sym H))) as H. cbn in H. discriminate.
Qed.

(* ---------- lock_all ---------- *)
Lemma others_survive_try t b w k t' b0 o k0 :
  try_lock t b w k = Some t' -> In (b0, o, k0) t -> o <> w -> In (b0, o, k0) t'.
Proof.
  unfold try_lock. destruct (existsb (blocks b w k) t); [discriminate|]. intros H Hin Hne. injection H as <-.
  right. apply filter_In. split; [exact Hin|]. unfold mine.
  destruct (o =? w) eqn:E; [apply Z.eqb_eq in E; contradiction|]. rewrite andb_false_r. reflexivity.
Qed.

Lemma others_survive_unlock t b w b0 o k0 : In (b0, o, k0) t -> o <> w -> In (b0, o, k0) (unlock t b w).
Proof.
  intros Hin Hne. unfold unlock. apply filter_In. split; [exact Hin|]. unfold mine.
  destruct (o =? w) eqn:E; [apply Z.eqb_eq in E; contradiction|]. rewrite andb_false_r. reflexivity.
Qed.

Lemma write_lock_needs_free t b w t' o k :
  try_lock t b w LWrite = Some t' -> In (b, o, k) t -> o = w.
Proof.
  unfold try_lock. destruct (existsb (blocks b w LWrite) t) eqn:Ex; [discriminate|]. intros _ Hin.
  destruct (Z.eq_dec o w) as [E|E]; [exact E|exfalso].
  assert (existsb (blocks b w LWrite) t = true).
  { apply existsb_exists. exists (b, o, k). split; [exact Hin|]. unfold blocks. rewrite Z.eqb_refl.
    destruct (o =? w) eqn:E2; [apply Z.eqb_eq in E2; contradiction|]. reflexivity. }
  congruence.
Qed.

(* if the whole call sequence succeeds, then for every byte it write-locks nobody else held
   any lock on that byte when it started *)
Theorem run_locks_excludes : forall calls t w t' b o k,
  run_locks t w calls = Some t' -> write_locks calls b = true -> In (b, o, k) t -> o = w.
Proof.
  induction calls as [|[kind b1] r IH]; intros t w t' b o k Hrun Hw Hin; [discriminate Hw|].
  destruct (Z.eq_dec o w) as [E|E]; [exact E|exfalso].
  unfold write_locks in Hw. cbn [existsb fst snd] in Hw. apply orb_true_iff in Hw.
  destruct kind; cbn [run_locks] in Hrun.
  - destruct (try_lock t b1 w LRead) as [t1|] eqn:E1; [|discriminate].
    destruct Hw as [Hw|Hw]; [cbn in Hw; discriminate|].
    apply E. apply (IH t1 w t' b o k Hrun Hw). exact (others_survive_try _ _ _ _ _ _ _ _ E1 Hin E).
  - destruct (try_lock t b1 w LWrite) as [t1|] eqn:E1; [|discriminate].
    destruct Hw as [Hw|Hw].
    + cbn [lk_eqb andb] in Hw. apply Z.eqb_eq in Hw. subst b1. apply E. exact (write_lock_needs_free _ _ _ _ _ _ E1 Hin).
    + apply E. apply (IH t1 w t' b o k Hrun Hw). exact (others_survive_try _ _ _ _ _ _ _ _ E1 Hin E).
  - destruct Hw as [Hw|Hw]; [cbn in Hw; discriminate|].
    apply E. apply (IH _ w t' b o k Hrun Hw). exact (others_survive_unlock _ _ _ _ _ _ Hin E).
Qed.
