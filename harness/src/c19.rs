//! C19: the real `corrosion backup` / `corrosion restore` commands (the CLI binary built from
//! /repo) on databases produced by real multi-actor histories, with readers on the destination
//! while the restore runs.
use crate::{c11, util::Toks};
use klukai_types::{api::Statement, sqlite::{setup_conn, CrConn}};
use rusqlite::Connection;
use std::path::{Path, PathBuf};
use std::process::Command;
use std::sync::{atomic::{AtomicBool, Ordering}, Arc};
use std::time::{Duration, Instant};

fn cli() -> PathBuf {
    PathBuf::from(std::env::var("VERIF_CLI").unwrap_or("/verif/.cache/target-cli/debug/corrosion".into()))
}

fn crconn(p: &Path) -> CrConn {
    let c = CrConn::init(Connection::open(p).unwrap()).unwrap();
    setup_conn(&c).unwrap();
    c
}

/// all changes with their authors
fn changes(p: &Path) -> Vec<String> {
    let c = crconn(p);
    let mut v: Vec<String> = c
        .prepare(r#"SELECT "table", hex(pk), cid, COALESCE(val, 'NULL') || '', col_version, db_version, hex(site_id), cl FROM crsql_changes"#)
        .unwrap()
        .query_map([], |r| {
            Ok(format!("{}/{}/{}/{}/{}/{}/{}/{}", r.get::<_, String>(0)?, r.get::<_, String>(1)?, r.get::<_, String>(2)?, r.get::<_, String>(3)?,
                r.get::<_, i64>(4)?, r.get::<_, i64>(5)?, r.get::<_, String>(6)?, r.get::<_, i64>(7)?))
        })
        .unwrap()
        .map(|x| x.unwrap())
        .collect();
    v.sort();
    v
}

fn fnv(v: &[String]) -> String {
    let mut h: u64 = 0xcbf29ce484222325;
    for s in v {
        for b in s.as_bytes() { h ^= *b as u64; h = h.wrapping_mul(0x100000001b3); }
        h ^= 0xff; h = h.wrapping_mul(0x100000001b3);
    }
    format!("{:x}", h)
}

/// (ordinal, site) rows; the author ordinal of every clock row in (table, key, column) order; the
/// AUTOINCREMENT high-water mark of crsql_site_id
fn site_state(p: &Path) -> (Vec<(i64, String)>, Vec<i64>, i64) {
    let c = Connection::open(p).unwrap();
    let sites: Vec<(i64, String)> = c.prepare("SELECT ordinal, hex(site_id) FROM crsql_site_id ORDER BY ordinal").unwrap()
        .query_map([], |r| Ok((r.get(0)?, r.get(1)?))).unwrap().map(|x| x.unwrap()).collect();
    let tables: Vec<String> = c.prepare("SELECT name FROM sqlite_schema WHERE type = 'table' AND name LIKE '%__crsql_clock' ORDER BY name").unwrap()
        .query_map([], |r| r.get(0)).unwrap().map(|x| x.unwrap()).collect();
    let mut clock = vec![];
    for t in tables {
        let rows: Vec<i64> = c.prepare(&format!("SELECT site_id FROM \"{t}\" ORDER BY key, col_name")).unwrap()
            .query_map([], |r| r.get(0)).unwrap().map(|x| x.unwrap()).collect();
        clock.extend(rows);
    }
    let seq: i64 = c.query_row("SELECT COALESCE((SELECT seq FROM sqlite_sequence WHERE name = 'crsql_site_id'), 0)", [], |r| r.get(0)).unwrap_or(0);
    (sites, clock, seq)
}

fn fmt_state(s: &(Vec<(i64, String)>, Vec<i64>, i64)) -> String {
    // site ids are named by their rank among all site ids seen (s0, s1, ...) by the python side: print them raw
    format!("sites={} clock={} seq={}", s.0.iter().map(|(o, x)| format!("{o}:{x}")).collect::<Vec<_>>().join(","),
        s.1.iter().map(|o| o.to_string()).collect::<Vec<_>>().join(","), s.2)
}

fn count(p: &Path, table: &str) -> i64 {
    match Connection::open(p) {
        Ok(c) => c.query_row(&format!("SELECT COUNT(*) FROM {table}"), [], |r| r.get(0)).unwrap_or(-1),
        Err(_) => -1,
    }
}

fn rows_digest(c: &Connection) -> rusqlite::Result<String> {
    c.query_row("SELECT COUNT(*) || ':' || COALESCE(SUM(id), 0) || ':' || COALESCE(group_concat(text, ''), '') FROM (SELECT id, text FROM tests ORDER BY id)", [], |r| r.get(0))
}

async fn tx(n: &mut c11::Node, stmts: Vec<String>) {
    c11::local_tx(n, stmts.into_iter().map(Statement::Simple).collect()).await;
}

/// case: backup <nops> { A k {id val} | B k {id val} | XA id | XB id | D } <dest 0..3> <keep 0|1> <readers>
///   A/B  a transaction on node A / node B upserting rows (id, 'v<val>');  XA/XB  a delete on A / B;
///   D    deliver B's pending changes to A
///   dest 0 absent, 1 empty file, 2 the database of another agent (WAL, checkpointed, different content),
///        4 node B's own database, 5 another agent's database with committed transactions still in its -wal file,
///        3 a plain rollback-journal database with a `tests` table
pub fn backup(t: &mut Toks) -> String {
    let rt = tokio::runtime::Builder::new_multi_thread().worker_threads(4).enable_all().build().unwrap();
    let nops = t.usize();
    enum Op { W(bool, Vec<(i64, i64)>), X(bool, i64), D }
    let mut ops = vec![];
    for _ in 0..nops {
        ops.push(match t.tok() {
            k @ ("A" | "B") => { let n = t.usize(); Op::W(k == "A", (0..n).map(|_| (t.i64(), t.i64())).collect()) }
            "XA" => Op::X(true, t.i64()),
            "XB" => Op::X(false, t.i64()),
            "D" => Op::D,
            x => panic!("bad op {x}"),
        });
    }
    let dest_kind = t.usize();
    let keep = t.u64() == 1;
    let readers = t.usize();
    let out = rt.block_on(async move {
        let mut a = c11::new_node().await;
        let mut b = c11::new_node().await;
        let mut sent = 0usize;
        for op in ops {
            match op {
                Op::W(on_a, rows) => {
                    let stmts = rows.iter().map(|(id, v)| format!("INSERT INTO tests (id, text) VALUES ({id}, 'v{v}') ON CONFLICT (id) DO UPDATE SET text = excluded.text")).collect();
                    tx(if on_a { &mut a } else { &mut b }, stmts).await;
                }
                Op::X(on_a, id) => tx(if on_a { &mut a } else { &mut b }, vec![format!("DELETE FROM tests WHERE id = {id}")]).await,
                Op::D => {
                    let pending = b.outbox[sent..].to_vec();
                    sent = b.outbox.len();
                    c11::deliver(&mut a, pending, 0).await;
                }
            }
        }
        // node-local state that must not travel: a member row
        {
            let conn = a.kit.agent.pool().write_priority().await.unwrap();
            let _ = conn.execute("INSERT OR REPLACE INTO __corro_members (actor_id, address, foca_state) VALUES (x'0102', '127.0.0.1:1', '{}')", []);
        }
        let src = a.kit.dir.path().join("corrosion.db");
        let work = tempfile::tempdir().unwrap();
        // (the command creates the parent directory only after VACUUM INTO needed it)
        std::fs::create_dir_all(work.path().join("out")).unwrap();
        let bak = work.path().join("out").join("backup.db");
        let src_changes = changes(&src);
        let src_state = site_state(&src);
        let src_site0 = src_state.0.iter().find(|(o, _)| *o == 0).map(|x| x.1.clone()).unwrap_or_default();
        // ---- backup
        let o = Command::new(cli()).args(["--db-path", src.to_str().unwrap(), "backup", bak.to_str().unwrap()]).output().unwrap();
        let mut outs = vec![format!("backup rc={}", o.status.code().unwrap_or(-1))];
        if !o.status.success() {
            outs.push(format!("stderr={}", String::from_utf8_lossy(&o.stderr).replace(' ', "_").replace('\n', "|")));
            return outs.join(" # ");
        }
        let bak_state = site_state(&bak);
        outs.push(format!("src {}", fmt_state(&src_state)));
        outs.push(format!("bak {} same_changes={} members={} src_members={} nchanges={}", fmt_state(&bak_state),
            if changes(&bak) == src_changes { 1 } else { 0 }, count(&bak, "__corro_members"), count(&src, "__corro_members"), src_changes.len()));
        // ---- destination
        let dst_dir = work.path().join("dst");
        std::fs::create_dir_all(&dst_dir).unwrap();
        let dst = dst_dir.join("corrosion.db");
        let mut dst_site0 = String::new();
        let mut third = None;
        let mut wal_bytes = 0u64;
        let mut holder: Option<Connection> = None;
        match dest_kind {
            0 => {}
            1 => { std::fs::File::create(&dst).unwrap(); }
            2 => {
                let mut c = c11::new_node().await;
                tx(&mut c, (900..(900 + 40)).map(|i| format!("INSERT INTO tests (id, text) VALUES ({i}, 'old{i}')")).collect()).await;
                let cdb = c.kit.dir.path().join("corrosion.db");
                {
                    let conn = c.kit.agent.pool().write_priority().await.unwrap();
                    let _ = conn.execute_batch("PRAGMA wal_checkpoint(TRUNCATE);");
                }
                for f in ["corrosion.db", "corrosion.db-wal", "corrosion.db-shm"] {
                    let s = c.kit.dir.path().join(f);
                    if s.exists() { std::fs::copy(&s, dst_dir.join(f)).unwrap(); }
                }
                let _ = cdb;
                dst_site0 = site_state(&dst).0.iter().find(|(o, _)| *o == 0).map(|x| x.1.clone()).unwrap_or_default();
                third = Some(c);
            }
            5 => {
                // a LIVE node's database: committed transactions still sit in its -wal file (no
                // checkpoint), as on any running agent; a restore must not let them come back
                let mut c = c11::new_node().await;
                tx(&mut c, (900..(900 + 40)).map(|i| format!("INSERT INTO tests (id, text) VALUES ({i}, 'old{i}')")).collect()).await;
                tx(&mut c, (900..(900 + 10)).map(|i| format!("UPDATE tests SET text = 'older{i}' WHERE id = {i}")).collect()).await;
                for f in ["corrosion.db", "corrosion.db-wal", "corrosion.db-shm"] {
                    let s = c.kit.dir.path().join(f);
                    if s.exists() { std::fs::copy(&s, dst_dir.join(f)).unwrap(); }
                }
                // an idle connection of this (another) process keeps the database open, as a running
                // agent or a monitoring tool would: without it the last connection to close checkpoints
                // the -wal file away before the restore starts
                let h = Connection::open(&dst).unwrap();
                let _: i64 = h.query_row("SELECT count(*) FROM tests", [], |r| r.get(0)).unwrap();
                holder = Some(h);
                dst_site0 = site_state(&dst).0.iter().find(|(o, _)| *o == 0).map(|x| x.1.clone()).unwrap_or_default();
                third = Some(c);
            }
            4 => {
                // node B's own database: its actor id is known to the backup under some ordinal
                {
                    let conn = b.kit.agent.pool().write_priority().await.unwrap();
                    let _ = conn.execute_batch("PRAGMA wal_checkpoint(TRUNCATE);");
                }
                for f in ["corrosion.db", "corrosion.db-wal", "corrosion.db-shm"] {
                    let s = b.kit.dir.path().join(f);
                    if s.exists() { std::fs::copy(&s, dst_dir.join(f)).unwrap(); }
                }
                dst_site0 = site_state(&dst).0.iter().find(|(o, _)| *o == 0).map(|x| x.1.clone()).unwrap_or_default();
            }
            _ => {
                let c = Connection::open(&dst).unwrap();
                c.execute_batch("PRAGMA journal_mode = DELETE; CREATE TABLE tests (id INTEGER NOT NULL PRIMARY KEY, text TEXT NOT NULL DEFAULT '');").unwrap();
                for i in 0..60 { c.execute("INSERT INTO tests (id, text) VALUES (?, 'plain')", [700 + i]).unwrap(); }
            }
        }
        let _ = &third;
        let old_digest = if dst.exists() && std::fs::metadata(&dst).map(|m| m.len() > 0).unwrap_or(false) {
            Connection::open(&dst).ok().and_then(|c| rows_digest(&c).ok()).unwrap_or("-".into())
        } else { "-".into() };
        // ---- readers on the destination while the restore runs
        let stop = Arc::new(AtomicBool::new(false));
        let mut hs = vec![];
        if dest_kind >= 2 {
            for _ in 0..readers {
                let stop = stop.clone();
                let dst = dst.clone();
                hs.push(std::thread::spawn(move || {
                    let mut seen: Vec<String> = vec![];
                    let mut errs = 0u64;
                    let c = Connection::open(&dst).unwrap();
                    let _ = c.busy_timeout(Duration::from_millis(5));
                    while !stop.load(Ordering::SeqCst) {
                        match rows_digest(&c) {
                            Ok(d) => if !seen.contains(&d) { seen.push(d) },
                            Err(_) => errs += 1,
                        }
                    }
                    // and once more afterwards, on the same connection and on a fresh one
                    let after_same = rows_digest(&c).unwrap_or("ERR".into());
                    (seen, errs, after_same)
                }));
            }
            std::thread::sleep(Duration::from_millis(30));
        }
        // ---- restore
        let cfg = work.path().join("config.toml");
        std::fs::write(&cfg, format!("[db]\npath = \"{}\"\n\n[gossip]\naddr = \"127.0.0.1:0\"\n\n[api]\naddr = \"127.0.0.1:0\"\n\n[admin]\npath = \"{}\"\n",
            dst.display(), work.path().join("no-admin.sock").display())).unwrap();
        let mut args = vec!["--config".to_string(), cfg.display().to_string(), "restore".to_string(), bak.display().to_string()];
        let keep_here = keep && (dest_kind == 2 || dest_kind == 4 || dest_kind == 5);
        if keep_here { args.push("--self-actor-id".into()); }
        if dest_kind == 5 {
            wal_bytes = std::fs::metadata(dst_dir.join("corrosion.db-wal")).map(|m| m.len()).unwrap_or(0);
        }
        let o = Command::new(cli()).args(&args).output().unwrap();
        stop.store(true, Ordering::SeqCst);
        let mut rd = vec![];
        for h in hs {
            let (seen, errs, after_same) = h.join().unwrap();
            rd.push(format!("seen={} errs={} after={}", seen.join("+"), if errs > 0 { 1 } else { 0 }, after_same));
        }
        outs.push(format!("restore rc={} keep={} walbytes={}", o.status.code().unwrap_or(-1), if keep_here { 1 } else { 0 }, wal_bytes));
        if !o.status.success() {
            outs.push(format!("stderr={}", String::from_utf8_lossy(&o.stderr).replace(' ', "_").replace('\n', "|")));
        }
        let new_digest = Connection::open(&dst).ok().and_then(|c| rows_digest(&c).ok()).unwrap_or("ERR".into());
        let src_digest = Connection::open(&src).ok().and_then(|c| rows_digest(&c).ok()).unwrap_or("ERR".into());
        let dst_state = site_state(&dst);
        // opening with cr-sqlite gives the restored node its identity (a fresh one unless kept)
        let dst_changes = changes(&dst);
        let dst_state2 = site_state(&dst);
        outs.push(format!("dst {} same_changes={} members={} old={} new={} src={} site0_src={} site0_dst_before={} site0_after={}",
            fmt_state(&dst_state), if dst_changes == src_changes { 1 } else { 0 }, count(&dst, "__corro_members"),
            fnv(&[old_digest.clone()]), fnv(&[new_digest.clone()]), fnv(&[src_digest.clone()]), src_site0, dst_site0,
            dst_state2.0.iter().find(|(o, _)| *o == 0).map(|x| x.1.clone()).unwrap_or_default()));
        drop(holder);
        for r in rd {
            // digests are long: print their hashes
            let m: Vec<String> = r.split(' ').map(|kv| {
                let (k, v) = kv.split_once('=').unwrap();
                if k == "seen" { format!("seen={}", v.split('+').filter(|x| !x.is_empty()).map(|d| fnv(&[d.to_string()])).collect::<Vec<_>>().join("+")) }
                else if k == "after" { format!("after={}", fnv(&[v.to_string()])) } else { kv.to_string() }
            }).collect();
            outs.push(format!("reader {}", m.join(" ")));
        }
        outs.join(" # ")
    });
    rt.shutdown_background();
    out
}

/// case: walread <n 1..4> <held mask> <wal 0|1>
///   the destination is a live database (WAL or rollback journal) with two tables; n reader
///   connections begin read transactions on n different snapshots (a commit between any two of
///   them, so in WAL mode they sit on n different read marks); the readers in <held mask> are
///   still inside their transaction -- having read table t1 -- when the real `corrosion restore`
///   runs in another process; after the restore exited or 2.5 s passed they read table t2 in
///   the same transaction and commit.
/// obs: early=<restore exited while a reader was inside> rc=<exit code or -1> reader i: t1/t2
///      generations (o = old, n = new, E = refused) ; final=<generations of t1+t2 afterwards>
pub fn walread(t: &mut Toks) -> String {
    use std::process::Stdio;
    let n = t.usize();
    let mask = t.u64();
    let wal = t.u64() == 1;
    let work = tempfile::TempDir::new().unwrap();
    let dir = work.path();
    let dst = dir.join("dst.db");
    let bak = dir.join("backup.db");
    let build = |p: &Path, tag: &str, wal: bool| {
        let mut conn = Connection::open(p).unwrap();
        conn.execute_batch("PRAGMA journal_mode = DELETE;
             CREATE TABLE t1 (id INTEGER PRIMARY KEY, v TEXT NOT NULL);
             CREATE TABLE t2 (id INTEGER PRIMARY KEY, v TEXT NOT NULL);
             CREATE TABLE ticks (id INTEGER PRIMARY KEY, n INTEGER NOT NULL);
             INSERT INTO ticks (id, n) VALUES (1, 0);").unwrap();
        let txn = conn.transaction().unwrap();
        for table in ["t1", "t2"] {
            for id in 0..400 {
                txn.execute(&format!("INSERT INTO {table} (id, v) VALUES (?, ?)"), rusqlite::params![id, format!("{tag}-{table}-{id:05}-{}", "x".repeat(100))]).unwrap();
            }
        }
        txn.commit().unwrap();
        if wal { conn.execute_batch("PRAGMA journal_mode = WAL; PRAGMA wal_checkpoint(TRUNCATE);").unwrap(); }
    };
    build(&dst, "old", wal);
    build(&bak, "new", false);
    let gens = |c: &Connection, table: &str| -> String {
        match c.prepare(&format!("SELECT DISTINCT substr(v, 1, 1) FROM {table} ORDER BY 1")).and_then(|mut st| st.query_map([], |r| r.get::<_, String>(0)).and_then(|it| it.collect::<rusqlite::Result<Vec<String>>>())) {
            Ok(v) => if v.is_empty() { "-".into() } else { v.join("") },
            Err(_) => "E".into(),
        }
    };
    let open = |p: &Path| { let c = Connection::open(p).unwrap(); c.execute_batch("PRAGMA wal_autocheckpoint = 0;").unwrap(); let _ = c.busy_timeout(Duration::from_millis(50)); c };
    let writer = open(&dst);
    let readers: Vec<Connection> = (0..n).map(|_| open(&dst)).collect();
    let mut t1s = vec![String::new(); n];
    for (i, r) in readers.iter().enumerate() {
        if wal || i == 0 {
            // (a rollback-journal writer cannot commit while a reader is inside: one snapshot only)
            let _ = writer.execute("UPDATE ticks SET n = n + 1 WHERE id = 1", []);
        }
        r.execute_batch("BEGIN").unwrap();
        let _: i64 = r.query_row("SELECT n FROM ticks WHERE id = 1", [], |row| row.get(0)).unwrap();
        t1s[i] = gens(r, "t1");
    }
    for (i, r) in readers.iter().enumerate() {
        if mask & (1 << i) == 0 { let _ = r.execute_batch("COMMIT"); }
    }
    let cfg = dir.join("config.toml");
    std::fs::write(&cfg, format!("[db]\npath = \"{}\"\n\n[gossip]\naddr = \"127.0.0.1:0\"\n\n[api]\naddr = \"127.0.0.1:0\"\n\n[admin]\npath = \"{}\"\n",
        dst.display(), dir.join("no-admin.sock").display())).unwrap();
    let mut child = Command::new(cli()).args(["--config", &cfg.display().to_string(), "restore", &bak.display().to_string()])
        .stdin(Stdio::null()).stdout(Stdio::null()).stderr(Stdio::null()).spawn().unwrap();
    let wait = |child: &mut std::process::Child, max: Duration| -> Option<i32> {
        let t0 = Instant::now();
        loop {
            if let Some(st) = child.try_wait().unwrap() { return Some(st.code().unwrap_or(-1)); }
            if t0.elapsed() > max { return None; }
            std::thread::sleep(Duration::from_millis(20));
        }
    };
    let held_any = (0..n).any(|i| mask & (1 << i) != 0);
    let early = wait(&mut child, Duration::from_millis(2500));
    let mut outs = vec![];
    let mut rd = vec![];
    for (i, r) in readers.iter().enumerate() {
        if mask & (1 << i) != 0 {
            let t2 = gens(r, "t2");
            let _ = r.execute_batch("COMMIT");
            rd.push(format!("r{i}:{}/{}", t1s[i], t2));
        }
    }
    let rc = match early { Some(rc) => rc, None => wait(&mut child, Duration::from_secs(90)).unwrap_or_else(|| { let _ = child.kill(); -9 }) };
    drop(readers);
    drop(writer);
    let fin = Connection::open(&dst).map(|c| format!("{}{}", gens(&c, "t1"), gens(&c, "t2"))).unwrap_or("E".into());
    outs.push(format!("early={} rc={} readers={} final={}", if early.is_some() && held_any { 1 } else { 0 }, rc, rd.join(","), fin));
    outs.join(" # ")
}
