(* C03 — A remote transaction becomes visible atomically, exactly when all chunks arrived.
   Models: Model/SeqRows.v, Model/Partial.v.  Proofs: Proofs/SeqRowsProofs.v, Proofs/PartialProofs.v.

   The ingestion theorems quantify over: a transaction tx (rows (seq, payload) with distinct
   seqs inside 0..=last) and EVERY finite sequence ops of steps of Model/Partial.v's pstep
   (the model the harness compares with process_multiple_changes /
   process_fully_buffered_changes / the clear loop) whose deliveries are well-formed:
     wf_op last tx (Deliver s e l c)  :=  l = last /\ 0 <= s /\ e <= last /\ c = chunk tx s e
   (chunk tx s e = the rows of tx with s <= seq <= e), in any order, with any overlap and
   duplication, interleaved with Empty changesets, apply steps and clear steps.
     cov ops x      := some delivery in ops has s <= x <= e
     all_cov last   := every x in 0..=last is covered
     same_as_tx tx l := l and tx have the same elements
   ps_db is what has been merged into the replicated tables. *)
From Coq Require Import List ZArith Bool Lia.
From Corro Require Import Lib.Ivl Model.Book Model.SeqRows Model.Partial Proofs.BookProofs Proofs.SeqRowsProofs Proofs.PartialProofs.
Import ListNotations.
Open Scope Z_scope.

(* all or nothing, and nothing before the received chunks cover the whole transaction *)
Theorem C03_all_or_nothing_only_after_coverage : forall last tx,
  0 <= last -> (forall r, In r tx -> 0 <= fst r <= last) -> NoDup (map fst tx) ->
  forall ops, Forall (wf_op last tx) ops ->
  ps_db (prun ops) = [] \/ (same_as_tx tx (ps_db (prun ops)) /\ all_cov last ops).
Proof. exact atomic_visibility. Qed.
Print Assumptions C03_all_or_nothing_only_after_coverage.

(* exactly when: once the received chunks cover the transaction (and no peer answered that the
   version is empty) it has been merged entirely, or the apply has been triggered and the apply
   step merges it entirely -- whatever the cut, the order, the overlaps and the duplicates *)
Theorem C03_coverage_triggers_the_whole_apply : forall last tx,
  0 <= last -> (forall r, In r tx -> 0 <= fst r <= last) -> NoDup (map fst tx) ->
  forall ops, Forall (wf_op last tx) ops -> ~ In DeliverEmpty ops -> all_cov last ops ->
  same_as_tx tx (ps_db (prun ops)) \/
  (1 <= ps_trig (prun ops) /\ same_as_tx tx (ps_db (fst (pstep (prun ops) ApplyBuffered)))).
Proof. exact covered_is_applied. Qed.
Print Assumptions C03_coverage_triggers_the_whole_apply.

(* the same result as the unchunked transaction *)
Theorem C03_unchunked_reference : forall last tx,
  (forall r, In r tx -> 0 <= fst r <= last) -> NoDup (map fst tx) ->
  ps_db (prun [Deliver 0 last last (chunk tx 0 last)]) = tx.
Proof. exact unchunked_result. Qed.
Print Assumptions C03_unchunked_reference.

(* applied or discarded => the buffered copies are scheduled for removal and the clear step
   removes them (or nothing is buffered) *)
Theorem C03_buffered_copies_removed : forall last tx,
  0 <= last -> (forall r, In r tx -> 0 <= fst r <= last) -> NoDup (map fst tx) ->
  forall ops, Forall (wf_op last tx) ops ->
  let st := prun ops in
  ps_db st <> [] \/ ps_mem st = None /\ ps_known st = true ->
  (ps_clear st = true /\ ps_rows (fst (pstep st Clear)) = [] /\ ps_buf (fst (pstep st Clear)) = [])
  \/ (ps_rows st = [] /\ ps_buf st = []).
Proof. exact buffered_copies_removed. Qed.
Print Assumptions C03_buffered_copies_removed.

(* non-vacuity: a 4-change transaction cut in three overlapping chunks delivered out of order
   with a duplicate: nothing is visible until the last one, which triggers the apply *)
Example C03_ingestion_nonvacuous :
  let tx := [(0, 100); (1, 101); (2, 102); (3, 103)] in
  let d s e := Deliver s e 3 (chunk tx s e) in
  let ops := [d 2 3; d 2 3; d 1 2] in
  Forall (wf_op 3 tx) (ops ++ [d 0 1; ApplyBuffered; Clear]) /\
  ps_db (prun ops) = [] /\ ps_trig (prun ops) = 0 /\
  ps_db (prun (ops ++ [d 0 1])) = [] /\ ps_trig (prun (ops ++ [d 0 1])) = 1 /\
  ps_db (prun (ops ++ [d 0 1; ApplyBuffered])) = tx /\
  ps_buf (prun (ops ++ [d 0 1; ApplyBuffered; Clear])) = [].
Proof.
  cbv zeta. split; [|vm_compute; repeat split; reflexivity].
  repeat constructor; cbn; lia.
Qed.

(* the WHERE clause of the seq-range DELETE selects exactly the rows that
   overlap or are adjacent to the incoming range *)
Theorem C03_delete_predicate : forall rs re s e,
  0 <= rs <= re -> 0 <= s <= e ->
  (seq_del_pred rs re s e = true <-> rs <= e + 1 /\ s - 1 <= re).
Proof. exact seq_del_pred_spec. Qed.
Print Assumptions C03_delete_predicate.

(* one chunk, from ANY row state satisfying the invariant: the failsafe does
   not fire, the INSERT does not conflict, and the rows become the canonical
   list denoting old ranges ∪ the chunk's range *)
Theorem C03_seq_rows_step : forall rows s e last,
  rows_ok rows -> 0 <= s <= e ->
  exists rows' a b,
    incomplete_rows rows s e last = IncOk rows' [(a, b)] /\
    rows_ok rows' /\ rset rows' = ins s e (rset rows) /\
    a <= s /\ e <= b /\ In (a, b) (rset rows').
Proof. exact incomplete_rows_ok. Qed.
Print Assumptions C03_seq_rows_step.
