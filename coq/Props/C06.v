(* C06 — A crash at any point loses no acknowledged write and no sync obligation.
   What is proved here is the bookkeeping half: whatever the durable rows are at a
   commit boundary (DurInv, established by the C02/C03 invariants on every commit),
   the state a restart rebuilds from them with from_conn satisfies the bookkeeping
   invariant -- so the exact-partition theorem (C02), the request theorem (C04) and
   the serving theorems (C05) hold for the restarted node.  The data half (every
   commit stores data and bookkeeping rows atomically; WAL recovery) is SQLite's
   and is checked on crash copies of the real files by the harness. *)
From Coq Require Import List ZArith Bool Lia.
From Corro Require Import Lib.Ivl Model.Book Model.BookOps Proofs.BookProofs Proofs.CrashProofs Proofs.DurProofs Gen.Consts.
Import ListNotations.
Open Scope Z_scope.

Theorem C06_restart_rebuilds_invariant : forall dbmax seqrows gaprows,
  DurInv dbmax seqrows gaprows -> Inv (from_conn dbmax seqrows gaprows) gaprows.
Proof. exact from_conn_inv. Qed.
Print Assumptions C06_restart_rebuilds_invariant.

(* hence after restart the advertised state is again the exact partition *)
Theorem C06_restart_advertises_exact_partition : forall dbmax seqrows gaprows v,
  DurInv dbmax seqrows gaprows -> 1 <= v ->
  let b := from_conn dbmax seqrows gaprows in
  adv_class (sync_actor b) v = classify b v.
Proof.
  intros dbmax seqrows gaprows v Hd Hv b.
  apply (adv_exact b gaprows v); [vm_compute; reflexivity|apply from_conn_inv; exact Hd|exact Hv].
Qed.
Print Assumptions C06_restart_advertises_exact_partition.

(* a version is advertised as held after restart only if it is neither in the
   durable gap rows nor an incomplete durable partial *)
Theorem C06_held_after_restart : forall dbmax seqrows gaprows v,
  let b := from_conn dbmax seqrows gaprows in
  classify b v = Held ->
  ~ mem v (needed b) /\ v <= max0 (maxv b) /\
  (forall p, aget v (partials b) = Some p -> fully_buffered p = true).
Proof.
  intros dbmax seqrows gaprows v b H. unfold classify in H.
  destruct (memb v (needed b)) eqn:E1; [discriminate|].
  destruct (v <=? max0 (maxv b)) eqn:E2; cbn [negb] in H; [|discriminate].
  split; [intros Hm; apply memb_iff in Hm; congruence|]. split; [apply Z.leb_le, E2|].
  intros p Hp. rewrite Hp in H. destruct (fully_buffered p); [reflexivity|discriminate].
Qed.
Print Assumptions C06_held_after_restart.

(* DurInv is not an assumption about reachable states: for EVERY history of bookkeeping
   operations (insert_db of complete/cleared ranges, incomplete chunks; Model/BookOps.v, the
   model the C02 runs compare with the real BookedVersions and its tables) and a crash after
   ANY of its commits, the durable rows satisfy it -- so the restart rebuilds the invariant and
   advertises the exact partition, with the durable gap rows as its needs *)
Theorem C06_durable_rows_always_ok : forall ops,
  Forall op_ok ops ->
  let st := brun ops in DurInv (st_dbmax st) (seqrows_flat (st_seq st)) (st_rows st).
Proof. intros ops Hok st. apply dur_durinv, dur_reachable, Hok. Qed.
Print Assumptions C06_durable_rows_always_ok.

Theorem C06_crash_after_any_step : forall ops v,
  Forall op_ok ops -> 1 <= v ->
  let st := brun ops in
  Inv (reload st) (st_rows st) /\
  adv_class (sync_actor (reload st)) v = classify (reload st) v.
Proof.
  intros ops v Hok Hv st. split; [apply crash_anywhere_restart_inv, Hok|].
  apply (C06_restart_advertises_exact_partition _ _ _ v); [apply dur_durinv, dur_reachable, Hok|exact Hv].
Qed.
Print Assumptions C06_crash_after_any_step.

Example C06_history_nonvacuous :
  let ops := [OpInsert [(1, 2)]; OpPartial 5 0 1 3; OpInsert [(7, 7)]; OpPartial 5 3 3 3; OpInsert [(4, 4)]] in
  Forall op_ok ops /\
  let st := brun ops in
  (st_rows st, st_dbmax st, map fst (st_seq st)) = ([(3, 3); (6, 6)], Some 7, [5]) /\
  needed (reload st) = [(3, 3); (6, 6)] /\ maxv (reload st) = Some 7.
Proof. split; [repeat constructor; cbn; lia|vm_compute; repeat split; reflexivity]. Qed.

Example C06_nonvacuous :
  let b := from_conn (Some 1) [mkSeqRow 3 0 1 3] [(2, 2)] in
  (needed b, maxv b, map fst (partials b)) = ([(2, 2)], Some 3, [3]) /\ inv_b b [(2, 2)] = true.
Proof. vm_compute. split; reflexivity. Qed.
