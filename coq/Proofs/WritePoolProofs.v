From Coq Require Import List ZArith Bool Lia.
From Corro Require Import Model.WritePool.
Import ListNotations.
Open Scope Z_scope.

(* ---------- admission ---------- *)
(* a grant only happens when nobody holds the guard *)
Lemma grant_needs_free s o : grants (wp_step s o) <> grants s -> holder s = None /\ o = Dispatch.
Proof.
  destruct o as [[| |] id|id| |]; cbn; try congruence.
  destruct (holder s); [congruence|]. intros _. auto.
Qed.

(* the dispatcher never serves a lower queue while a higher one is non-empty *)
Theorem dispatch_prefers_high s : holder s = None -> q_high s <> [] ->
  let s' := wp_step s Dispatch in
  q_normal s' = q_normal s /\ q_low s' = q_low s /\
  (holder s' = None \/ exists id, holder s' = Some id /\ In id (q_high s) /\ is_cancelled s id = false).
Proof.
  intros Hh Hq. cbn. rewrite Hh. destruct (q_high s) as [|id t]; [contradiction|].
  destruct (is_cancelled s id) eqn:E; cbn.
  - repeat split; auto.
  - repeat split; auto. right. exists id. repeat split; auto.
Qed.

Theorem dispatch_prefers_normal s : holder s = None -> q_high s = [] -> q_normal s <> [] ->
  let s' := wp_step s Dispatch in
  q_low s' = q_low s /\
  (holder s' = None \/ exists id, holder s' = Some id /\ In id (q_normal s) /\ is_cancelled s id = false).
Proof.
  intros Hh H0 Hq. cbn. rewrite Hh, H0. destruct (q_normal s) as [|id t]; [contradiction|].
  destruct (is_cancelled s id) eqn:E; cbn.
  - repeat split; auto.
  - repeat split; auto. right. exists id. repeat split; auto.
Qed.

(* progress: with the guard free and somebody queued, one dispatcher iteration consumes a queue
   entry (a live one is granted, a dead one is discarded); a cancelled waiter therefore never
   blocks anybody, and a held guard is always released by Release or by cancelling its holder *)
Theorem dispatch_progress s : holder s = None -> (0 < waiting s)%nat ->
  (waiting (wp_step s Dispatch) < waiting s)%nat.
Proof.
  intros Hh Hw. unfold waiting in *. cbn. rewrite Hh.
  destruct (q_high s) as [|a t1].
  - destruct (q_normal s) as [|b t2].
    + destruct (q_low s) as [|c t3]; [cbn in Hw; lia|].
      destruct (is_cancelled s c); cbn; lia.
    + destruct (is_cancelled s b); cbn; lia.
  - destruct (is_cancelled s a); cbn; lia.
Qed.

Theorem release_frees s : holder (wp_step s Release) = None.
Proof. reflexivity. Qed.

Theorem cancel_holder_frees s id : holder s = Some id -> holder (wp_step s (Cancel id)) = None.
Proof. intros H. cbn. rewrite H, Z.eqb_refl. reflexivity. Qed.

(* the queues are first-in first-out *)
Theorem fifo_within_queue s id1 id2 t :
  holder s = None -> q_high s = id1 :: id2 :: t -> is_cancelled s id1 = false ->
  holder (wp_step s Dispatch) = Some id1.
Proof. intros Hh Hq Hc. cbn. rewrite Hh, Hq, Hc. reflexivity. Qed.

(* ---------- lock ordering: no deadlock ---------- *)
Definition indexed (ts : list task) : list (nat * task) := combine (seq 0 (length ts)) ts.
Definition all_held (ts : list task) : list (nat * Z) :=
  flat_map (fun p => map (fun l => (fst p, l)) (t_holds (snd p))) (indexed ts).

Lemma max_exists (rank : Z -> Z) (l : list (nat * Z)) : l <> [] ->
  exists m, In m l /\ forall x, In x l -> rank (snd x) <= rank (snd m).
Proof.
  induction l as [|a l IH]; intros Hne; [contradiction|].
  destruct l as [|b l'].
  - exists a. split; [left; reflexivity|]. intros x [<-|[]]. lia.
  - destruct (IH ltac:(discriminate)) as [m [Hm Hmax]].
    destruct (Z_le_gt_dec (rank (snd a)) (rank (snd m))) as [Hle|Hgt].
    + exists m. split; [right; exact Hm|]. intros x [<-|Hx]; [exact Hle|exact (Hmax x Hx)].
    + exists a. split; [left; reflexivity|]. intros x [<-|Hx]; [lia|]. specialize (Hmax x Hx). lia.
Qed.

Lemma indexed_in ts i t : In (i, t) (indexed ts) -> nth_error ts i = Some t.
Proof.
  unfold indexed. intros H.
  assert (G : forall (l : list task) k i t, In (i, t) (combine (seq k (length l)) l) -> (k <= i)%nat /\ nth_error l (i - k) = Some t).
  { induction l as [|x l IHl]; intros k i0 t0 Hi; cbn in Hi; [contradiction|].
    destruct Hi as [Hi|Hi].
    - injection Hi as <- <-. split; [lia|]. replace (k - k)%nat with 0%nat by lia. reflexivity.
    - destruct (IHl (S k) i0 t0 Hi) as [H1 H2]. split; [lia|].
      replace (i0 - k)%nat with (S (i0 - S k)) by lia. exact H2. }
  destruct (G ts 0%nat i t H) as [_ H2]. rewrite Nat.sub_0_r in H2. exact H2.
Qed.

Lemma held_in ts i l : In (i, l) (all_held ts) -> exists t, In (i, t) (indexed ts) /\ In l (t_holds t).
Proof.
  unfold all_held. rewrite in_flat_map. intros [[j t] [Hj Hl]]. cbn in Hl.
  apply in_map_iff in Hl as [l' [He Hl']]. injection He as <- <-. exists t. auto.
Qed.

Lemma in_held ts i t l : In (i, t) (indexed ts) -> In l (t_holds t) -> In (i, l) (all_held ts).
Proof.
  intros Hi Hl. unfold all_held. apply in_flat_map. exists (i, t). split; [exact Hi|].
  cbn. apply in_map_iff. exists l. auto.
Qed.

(* whatever the tasks hold and wait for: if every request is for a lock ranked above all the
   requester's locks, some task can make a step -- the system is never stuck *)
Theorem ordered_locks_never_deadlock (rank : Z -> Z) (ts : list task) :
  ts <> [] -> forallb (ordered rank) ts = true ->
  exists i t, nth_error ts i = Some t /\ can_step ts i t = true.
Proof.
  intros Hne Hord. rewrite forallb_forall in Hord.
  destruct (all_held ts) as [|h0 hs] eqn:Eh.
  - (* nobody holds anything *)
    destruct ts as [|t0 ts']; [contradiction|]. exists 0%nat, t0. split; [reflexivity|].
    unfold can_step. destruct (t_wants t0) as [l|]; [|reflexivity].
    destruct (held_by_other (t0 :: ts') 0 l) eqn:E; [|reflexivity].
    unfold held_by_other in E. apply existsb_exists in E as [[j tj] [Hj Hc]].
    apply andb_true_iff in Hc as [_ Hc]. apply existsb_exists in Hc as [l' [Hl' He]]. apply Z.eqb_eq in He. subst l'.
    fold (indexed (t0 :: ts')) in Hj. pose proof (in_held _ _ _ _ Hj Hl') as Hin. rewrite Eh in Hin. destruct Hin.
  - destruct (max_exists rank (all_held ts) ltac:(rewrite Eh; discriminate)) as [[j lm] [Hm Hmax]].
    destruct (held_in _ _ _ Hm) as [tj [Hj Hlm]].
    exists j, tj. split; [exact (indexed_in _ _ _ Hj)|].
    unfold can_step. destruct (t_wants tj) as [l|] eqn:Ew; [|reflexivity].
    destruct (held_by_other ts j l) eqn:E; [|reflexivity]. exfalso.
    assert (Ho : ordered rank tj = true).
    { apply Hord. apply indexed_in in Hj. exact (nth_error_In _ _ Hj). }
    unfold ordered in Ho. rewrite Ew in Ho. rewrite forallb_forall in Ho. specialize (Ho lm Hlm). apply Z.ltb_lt in Ho.
    unfold held_by_other in E. apply existsb_exists in E as [[k tk] [Hk Hc]].
    apply andb_true_iff in Hc as [_ Hc]. apply existsb_exists in Hc as [l' [Hl' He]]. apply Z.eqb_eq in He. subst l'.
    fold (indexed ts) in Hk. pose proof (in_held _ _ _ _ Hk Hl') as Hin.
    specialize (Hmax (k, l) Hin). cbn in Hmax. lia.
Qed.
