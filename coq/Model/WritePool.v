(* Model of the single-writer admission of crates/klukai-types/src/agent.rs: SplitPool::new's
   dispatcher (biased select over the priority / normal / low queues; one drop guard handed
   out at a time, the next one only after the previous was dropped), write_inner (queue ->
   guard -> the pool's only connection -> the write permit) and WriteConn (dropping it returns
   connection, guard and permit).  A requester may be cancelled while queued or while holding. *)
From Coq Require Import List ZArith Bool.
Import ListNotations.
Open Scope Z_scope.

Inductive prio := PHigh | PNormal | PLow.

Record pool := mkPool {
  q_high : list Z; q_normal : list Z; q_low : list Z;     (* queued request ids, oldest first *)
  holder : option Z;                                      (* who holds the guard (and then the connection) *)
  cancelled : list Z;                                     (* requesters that went away *)
  grants : list Z }.                                      (* history of grants, oldest first *)

Definition pool_init : pool := mkPool [] [] [] None [] [].

Inductive pop :=
| Req (p : prio) (id : Z)
| Cancel (id : Z)            (* the requesting task is dropped (queued or holding) *)
| Release                    (* the holder drops its WriteConn *)
| Dispatch.                  (* one iteration of the dispatcher loop *)

Definition is_cancelled (s : pool) (id : Z) : bool := existsb (Z.eqb id) (cancelled s).

Definition wp_step (s : pool) (o : pop) : pool :=
  match o with
  | Req PHigh id => mkPool (q_high s ++ [id]) (q_normal s) (q_low s) (holder s) (cancelled s) (grants s)
  | Req PNormal id => mkPool (q_high s) (q_normal s ++ [id]) (q_low s) (holder s) (cancelled s) (grants s)
  | Req PLow id => mkPool (q_high s) (q_normal s) (q_low s ++ [id]) (holder s) (cancelled s) (grants s)
  | Cancel id =>
      (* a cancelled holder drops its guard; a cancelled waiter stays in its queue as a dead entry *)
      mkPool (q_high s) (q_normal s) (q_low s)
             (match holder s with Some h => if h =? id then None else Some h | None => None end)
             (id :: cancelled s) (grants s)
  | Release => mkPool (q_high s) (q_normal s) (q_low s) None (cancelled s) (grants s)
  | Dispatch =>
      match holder s with
      | Some _ => s                                        (* wait_conn_drop: still waiting for the guard *)
      | None =>
        (* biased select: the first non-empty queue in priority order *)
        let take id rest_state :=
          if is_cancelled s id then rest_state None        (* tx.send fails: logged, next iteration *)
          else rest_state (Some id) in
        match q_high s, q_normal s, q_low s with
        | id :: t, _, _ => take id (fun h => mkPool t (q_normal s) (q_low s) h (cancelled s)
                                         (match h with Some x => grants s ++ [x] | None => grants s end))
        | [], id :: t, _ => take id (fun h => mkPool [] t (q_low s) h (cancelled s)
                                         (match h with Some x => grants s ++ [x] | None => grants s end))
        | [], [], id :: t => take id (fun h => mkPool [] [] t h (cancelled s)
                                         (match h with Some x => grants s ++ [x] | None => grants s end))
        | [], [], [] => s
        end
      end
  end.

Definition wp_run (ops : list pop) (s : pool) : pool := fold_left wp_step ops s.

(* live requests waiting in a queue *)
Definition live (s : pool) (q : list Z) : list Z := filter (fun id => negb (is_cancelled s id)) q.
Definition waiting (s : pool) : nat := length (q_high s) + length (q_normal s) + length (q_low s).

(* ---------- lock ordering ---------- *)
(* A task holds some locks and may be waiting for one.  Locks have ranks; the agent's rule
   (util.rs: "connection first, then bookie, then booked") is that a task only ever requests a
   lock whose rank is above every lock it holds. *)
Record task := mkTask { t_holds : list Z; t_wants : option Z }.

Definition held_by_other (ts : list task) (i : nat) (l : Z) : bool :=
  existsb (fun p => negb (Nat.eqb (fst p) i) && existsb (Z.eqb l) (t_holds (snd p)))
          (combine (seq 0 (length ts)) ts).

(* a task can step when it waits for nothing (it can release / finish) or its lock is free *)
Definition can_step (ts : list task) (i : nat) (t : task) : bool :=
  match t_wants t with None => true | Some l => negb (held_by_other ts i l) end.

Definition ordered (rank : Z -> Z) (t : task) : bool :=
  match t_wants t with None => true | Some l => forallb (fun h => rank h <? rank l) (t_holds t) end.
