(* C01 — Replicas converge under any delivery order, duplication, chunking and loss.
   PARTIAL: what is proved here is the CRDT layer (Model/Crdt.v, a model of
   cr-sqlite's merge earned by differential testing against the real extension):
   duplication is harmless, changes to different rows are independent of order, a
   row's causal length never goes back, and a node never shows a value that no
   merged record carried.  The replication layers the convergence argument rests on
   are the theorems of C02 (exact advertisement), C03 (seq ranges), C04 (requests
   are complete), C05 (answers are exact), C06 (restart), C07 (local versions),
   C08 (tiling), C10 (nothing lost for good).  The cluster-level statement itself is
   checked on clusters of real agents (see the evidence), not proved. *)
From Coq Require Import List ZArith Bool Lia.
From Corro Require Import Model.Crdt Proofs.CrdtProofs.
Import ListNotations.
Open Scope Z_scope.

(* duplication: merging a record a second time changes nothing, whatever was
   merged in between -- for every database state and every record *)
Theorem C01_duplicate_delivery_is_harmless : forall d r k,
  1 <= r_cl r -> dget k (merge (merge d r) r) = dget k (merge d r).
Proof. exact merge_idem. Qed.
Print Assumptions C01_duplicate_delivery_is_harmless.

(* reordering: records about different rows commute *)
Theorem C01_rows_are_independent : forall d r1 r2 k,
  r_row r1 <> r_row r2 ->
  dget k (merge (merge d r1) r2) = dget k (merge (merge d r2) r1).
Proof. exact merge_comm_rows. Qed.
Print Assumptions C01_rows_are_independent.

(* a row's causal length never decreases (a delete is never undone by an older write) *)
Theorem C01_causal_length_monotone : forall o r, local_cl o <= local_cl (merge_row o r).
Proof. exact merge_cl_monotone. Qed.
Print Assumptions C01_causal_length_monotone.

(* no value from nowhere *)
Theorem C01_no_value_from_nowhere : forall o r s' c',
  merge_row o r = Some s' -> rw_col s' = Some c' ->
  c_val c' = r_val r \/ exists s c, o = Some s /\ rw_col s = Some c /\ c_val c = c_val c'.
Proof. exact merge_value_origin. Qed.
Print Assumptions C01_no_value_from_nowhere.

(* merge only touches the row of the record *)
Theorem C01_merge_is_local : forall d r k,
  dget k (merge d r) = if k =? r_row r then merge_row (dget (r_row r) d) r else dget k d.
Proof. exact merge_get. Qed.
Print Assumptions C01_merge_is_local.

Example C01_nonvacuous :
  let a := mkRec 1 false 5 1 1 0 1 0 in      (* site 0 writes 5 *)
  let b := mkRec 1 false 7 1 1 1 1 0 in      (* site 1 writes 7 concurrently *)
  let x := mkRec 1 true 0 2 2 0 2 0 in       (* site 0 deletes *)
  table (merge_all [] [a; b]) = table (merge_all [] [b; a]) /\
  table (merge_all [] [a; b]) = [(1, Some 7)] /\
  table (merge_all [] [a; x; b]) = [] /\ table (merge_all [] [x; b; a]) = [].
Proof. vm_compute. repeat split; reflexivity. Qed.
