(* C17 — The HTTP API enforces its token on every route; read endpoints cannot write.
   Model: Model/Authz.v; the router term and the extractor behaviour of require_authz are
   GENERATED from the source (tools/router2coq.py -> Gen/Router.v).  Proofs: Proofs/AuthzProofs.v. *)
From Coq Require Import List ZArith Bool Lia.
From Corro Require Import Model.Authz Gen.Router Proofs.AuthzProofs.
Import ListNotations.
Open Scope Z_scope.

(* every route of the router built by the current source, and its fallback (unknown path,
   wrong method), is under the authorization layer *)
Theorem C17_every_route_guarded : all_guarded api_router = true.
Proof. vm_compute. reflexivity. Qed.
Print Assumptions C17_every_route_guarded.

(* the decision of require_authz (with the extractor the source uses) *)
Theorem C17_passes_iff : forall cfg h, authz_malformed_is_absent = true ->
  (passes authz_malformed_is_absent cfg h = None <-> (cfg = None \/ exists tok, cfg = Some tok /\ h = HBearer tok)).
Proof. intros cfg h E. rewrite E. apply passes_spec. Qed.
Print Assumptions C17_passes_iff.

(* with a token configured: for EVERY path, method and Authorization header that is not
   exactly that bearer token, the answer is a refusal and no handler runs *)
Theorem C17_token_enforced : forall tok p m h,
  h <> HBearer tok ->
  let o := api_serve authz_malformed_is_absent api_router (Some tok) p m h in
  o = O401 \/ o = O400.
Proof.
  intros tok p m h Hne o.
  destruct (passes authz_malformed_is_absent (Some tok) h) as [r|] eqn:E.
  - destruct (guarded_refusal authz_malformed_is_absent api_router (Some tok) p m h r C17_every_route_guarded E) as [H1 H2].
    unfold o. rewrite H1. exact H2.
  - exfalso. assert (Hm : authz_malformed_is_absent = true) by reflexivity.
    apply (C17_passes_iff (Some tok) h Hm) in E. destruct E as [E|[t [E1 E2]]]; [discriminate|].
    injection E1 as <-. contradiction.
Qed.
Print Assumptions C17_token_enforced.

(* the right token, or no token configured, is never refused *)
Theorem C17_admitted : forall cfg p m h,
  (cfg = None \/ exists tok, cfg = Some tok /\ h = HBearer tok) ->
  let o := api_serve authz_malformed_is_absent api_router cfg p m h in o <> O401 /\ o <> O400.
Proof.
  intros cfg p m h Hc o. assert (Hm : authz_malformed_is_absent = true) by reflexivity.
  apply (C17_passes_iff cfg h Hm) in Hc.
  destruct (admitted_reaches authz_malformed_is_absent api_router cfg p m h Hc) as [o' [E [H1 H2]]].
  unfold o. rewrite E. auto.
Qed.
Print Assumptions C17_admitted.

(* the structural reason, for any router of this shape *)
Check build_routes_then_authz : forall routes rest,
  (forall it, In it routes -> exists p m, it = RRoute p m) ->
  (forall it, In it rest -> it = RLayer LOther \/ it = RLayer LAuthz \/ it = RRouteLayer) ->
  all_guarded (routes ++ RLayer LAuthz :: rest) = true.

(* a router whose authorization layer is added BEFORE a route leaves that route open:
   the model distinguishes the two orders *)
Example C17_order_matters :
  let bad := [RRoute [1] MPost; RLayer LAuthz; RRoute [2] MPost] in
  all_guarded bad = false /\
  api_serve true bad (Some [7]) [2] MPost HNone = OHandler 1 /\
  api_serve true bad (Some [7]) [1] MPost HNone = O401 /\
  api_serve true api_router (Some [7]) [47; 118; 49; 47; 113; 117; 101; 114; 105; 101; 115] MPost (HBearer [7]) = OHandler 1 /\
  api_serve true api_router (Some [7]) [47] MGet (HBearer [8]) = O401.
Proof. vm_compute. repeat split. Qed.
