(* C13 — Subscriptions survive a clean restart and are discarded after an unclean one.
   Model: Model/SubLife.v (the persisted life cycle of a subscription).  Whether a plain
   cancellation returns without completing is GENERATED from the source
   (tools/sublife2coq.py -> Gen/SubLifeCfg.v, which also pins restore's 'completed'
   requirement, the created/running marks and setup's cleanup).  Proofs: Proofs/SubLifeProofs.v. *)
From Coq Require Import List Bool.
From Corro Require Import Model.SubLife Gen.SubLifeCfg Proofs.SubLifeProofs.
Import ListNotations.

(* for every history of creation, initial query, writes, batches, cancellations, removals of the
   handle, shutdowns and restorations, and wherever it is cut -- provided no transaction commits
   while the subscription is neither fed nor beyond completing (env_run; the excluded histories
   are exactly the known finding below) -- if the next start restores the subscription, its
   rows equal its query on the database and nothing is pending.  Holds for the cancellation
   behaviour the current source has (Gen/SubLifeCfg.v) and for the other one. *)
Theorem C13_restored_is_current : forall ops,
  env_run cancel_returns s_init ops = true ->
  restore_is_sound (lrun cancel_returns ops s_init) = true.
Proof. exact (restore_sound cancel_returns). Qed.
Print Assumptions C13_restored_is_current.

(* a process that stops while the matcher loop is alive or draining is not restored *)
Theorem C13_unclean_stop_is_discarded : forall ops,
  env_run cancel_returns s_init ops = true ->
  let s := lrun cancel_returns ops s_init in
  (s_loop s = true \/ s_draining s = true) -> restored_at_start s = false.
Proof. exact (kill_not_restored cancel_returns). Qed.
Print Assumptions C13_unclean_stop_is_discarded.

Check lstep_inv : forall cr s o, linv_b s = true -> env_ok_b s o = true -> linv_b (lstep cr s o) = true.

(* KNOWN FINDING (KNOWN_FINDINGS.txt, class cancelled-then-restored): with the cancellation
   behaviour of the current source a subscription whose listeners are gone is marked
   'completed'; rows written afterwards never reach it and it is restored stale.  The history
   is outside env_run (a commit while the subscription is unfed and draining); with a
   cancellation that returns it would not be restored at all. *)
Theorem C13_cancelled_then_written_refuted :
  let ops := [LCreate; LInitial; LWrite; LBatch; LUnregister; LCancel false; LWrite; LDrainDone] in
  env_run false s_init ops = false /\
  restored_at_start (lrun false ops s_init) = true /\ restore_is_sound (lrun false ops s_init) = false /\
  restored_at_start (lrun true ops s_init) = false.
Proof. vm_compute. repeat split. Qed.
Print Assumptions C13_cancelled_then_written_refuted.

(* Why the shutdown has to wait for everything that still feeds the subscriptions: a commit
   whose candidates arrive "after the handle is gone" is outside env_run, restored and not
   sound -- for either cancellation behaviour.  (A local transaction feeds the subscriptions
   from a task spawned after its commit; the real shutdown dropped the handles without waiting
   for it: found with stop mode T / realstop 2 and repaired, see KNOWN_FINDINGS.txt.) *)
Theorem C13_write_after_handles_dropped_refuted : forall cr,
  let ops := [LCreate; LInitial; LWrite; LBatch; LTrip; LUnregister; LWrite; LDrainDone] in
  env_run cr s_init ops = false /\
  restored_at_start (lrun cr ops s_init) = true /\ restore_is_sound (lrun cr ops s_init) = false.
Proof. intros [|]; vm_compute; repeat split. Qed.
Print Assumptions C13_write_after_handles_dropped_refuted.

Example C13_nonvacuous :
  (* clean: writes during shutdown that reached the matcher are in the last batch *)
  let clean := [LCreate; LInitial; LWrite; LBatch; LWrite; LTrip; LUnregister; LDrainDone] in
  env_run cancel_returns s_init clean = true /\ restored_at_start (lrun cancel_returns clean s_init) = true /\
  restore_is_sound (lrun cancel_returns clean s_init) = true /\
  (* restored, runs again, is killed in the middle: discarded *)
  restored_at_start (lrun cancel_returns (clean ++ [LRestoreRun; LWrite]) s_init) = false /\
  (* killed before the initial query committed *)
  restored_at_start (lrun cancel_returns [LCreate] s_init) = false.
Proof. vm_compute. repeat split. Qed.
