(* Model of how one remote version (actor, version) is ingested chunk by chunk:
     crates/klukai-agent/src/agent/util.rs : process_multiple_changes (one change),
       process_single_version, process_incomplete_version, process_complete_version,
       process_fully_buffered_changes, clear_buffered_meta_loop
     crates/klukai-types/src/agent.rs      : insert_partial / contains
   The replicated tables are abstracted to the list of (seq, payload id) merged
   so far, in merge order (cr-sqlite's merge itself is modelled in C01). *)
From Coq Require Import List ZArith Bool.
From Corro Require Import Lib.Ivl Model.Book Model.SeqRows.
Import ListNotations.
Open Scope Z_scope.

Definition row := (Z * Z)%type.                 (* (seq, payload id) *)

Fixpoint buf_insert (r : row) (b : list row) : list row :=   (* ON CONFLICT (seq) DO NOTHING *)
  match b with
  | [] => [r]
  | x :: t => if fst r =? fst x then b
              else if fst r <? fst x then r :: b
              else x :: buf_insert r t
  end.

Record pst := mkPst {
  ps_rows : list srow;              (* __corro_seq_bookkeeping *)
  ps_buf : list row;                (* __corro_buffered_changes, by seq *)
  ps_mem : option partial;          (* BookedVersions.partials[v] *)
  ps_known : bool;                  (* contains_version(v) *)
  ps_db : list row;                 (* merged into crsql_changes, in merge order *)
  ps_trig : Z;                      (* apply triggers sent on tx_apply *)
  ps_clear : bool }.                (* a clear of buffered meta was scheduled *)

Definition pst_init : pst := mkPst [] [] None false [] 0 false.

Inductive pop :=
| DeliverEmpty                                   (* an Empty changeset covering this version *)
| Deliver (s e last : Z) (changes : list row)
| ApplyBuffered
| Clear.

Inductive pout := PSkipKnown | PSkipInvalid | PCleared | PApplied | PBuffered | PFailsafe | PConflict
                | PApplyNoop | PApplyDone | PClearDone.

Definition covered (p : partial) : bool :=
  match gaps 0 (p_last p) (p_seqs p) with [] => true | _ => false end.

Definition pstep (st : pst) (op : pop) : pst * pout :=
  match op with
  | DeliverEmpty =>
    let have := ps_known st && match ps_mem st with Some p => covered p | None => true end in
    if have then (st, PSkipKnown)
    else (mkPst (ps_rows st) (ps_buf st) None true (ps_db st) (ps_trig st)
                (ps_clear st || negb (match ps_rows st, ps_buf st with [], [] => true | _, _ => false end)), PCleared)
  | Deliver s e last changes =>
    let have := ps_known st &&
                match ps_mem st with
                | Some p => match gaps s e (p_seqs p) with [] => true | _ => false end
                | None => true end in
    if have then (st, PSkipKnown)
    else if (s =? 0) && (e =? last) then
      match changes with
      | [] => (mkPst (ps_rows st) (ps_buf st) None true (ps_db st) (ps_trig st)
                     (ps_clear st || negb (match ps_rows st, ps_buf st with [], [] => true | _, _ => false end)), PCleared)
      | _ => (mkPst (ps_rows st) (ps_buf st) None true (ps_db st ++ changes) (ps_trig st)
                    (ps_clear st || negb (match ps_rows st, ps_buf st with [], [] => true | _, _ => false end)),
              PApplied)
      end
    else if e <? s then (st, PSkipInvalid)
    else
      match incomplete_rows (ps_rows st) s e last with
      | IncFailsafe => (st, PFailsafe)
      | IncConflict => (st, PConflict)
      | IncOk rows' seqs =>
        let buf' := fold_left (fun b r => buf_insert r b) changes (ps_buf st) in
        let mem' := match ps_mem st with
                    | None => mkPartial seqs last
                    | Some p => mkPartial (ins_all seqs (p_seqs p)) (p_last p)
                    end in
        (mkPst rows' buf' (Some mem') true (ps_db st)
               (if covered mem' then ps_trig st + 1 else ps_trig st) (ps_clear st), PBuffered)
      end
  | ApplyBuffered =>
    match ps_mem st with
    | Some p =>
      if covered p then
        (mkPst (ps_rows st) (ps_buf st) (ps_mem st) true (ps_db st ++ ps_buf st) (ps_trig st) true, PApplyDone)
      else (st, PApplyNoop)
    | None => (st, PApplyNoop)
    end
  | Clear => if ps_clear st
             then (mkPst [] [] (ps_mem st) (ps_known st) (ps_db st) (ps_trig st) false, PClearDone)
             else (st, PApplyNoop)
  end.

Fixpoint pruns (st : pst) (ops : list pop) : list (pst * pout) :=
  match ops with
  | [] => []
  | op :: t => let r := pstep st op in r :: pruns (fst r) t
  end.

Definition prun (ops : list pop) : pst := fold_left (fun st op => fst (pstep st op)) ops pst_init.

(* ---------- decidable statement of atomic visibility (oracle) ---------------- *)
(* one observed step of one version: were the received ranges covering
   0..=last at that point, and which payload ids (= seqs) are visible *)
Definition zseq0 (last : Z) : list Z := map Z.of_nat (seq 0 (Z.to_nat (last + 1))).

Fixpoint zl_eqb (x y : list Z) : bool :=
  match x, y with
  | [], [] => true
  | a :: x', b :: y' => (a =? b) && zl_eqb x' y'
  | _, _ => false
  end.

(* nothing visible before coverage; once visible, everything (full = 0..=last) *)
Definition atomic_vis (last : Z) (steps : list (bool * list Z)) : bool :=
  forallb (fun st : bool * list Z =>
             match snd st with
             | [] => true
             | ids => fst st && zl_eqb ids (zseq0 last)
             end) steps.
