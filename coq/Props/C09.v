(* C09 — Binary codecs round-trip every value and survive arbitrary peer bytes.
   Models: Model/Wire.v (generic speedy codec), Model/WireDescs.v (the protocol
   types), Model/Pack.v (packed primary keys), Lib/Utf8.v.
   Proofs: Proofs/WireProofs.v, Proofs/PackProofs.v. *)
From Coq Require Import List ZArith Bool Lia.
From Corro Require Import Lib.Utf8 Model.Wire Model.WireDescs Model.Pack Proofs.WireProofs Proofs.PackProofs.
Import ListNotations.
Open Scope Z_scope.

(* every well-typed value of every codec description decodes back to itself,
   whatever bytes follow it *)
Theorem C09_wire_roundtrip : forall d, desc_ok d = true -> forall v rest, wt d v = true ->
  dec d (enc d v ++ rest) = ROk v rest.
Proof. exact dec_enc. Qed.
Print Assumptions C09_wire_roundtrip.

(* ... in particular for every protocol message type (all variants) *)
Theorem C09_protocol_types_roundtrip :
  forall i d, In (i, d) all_descs -> forall v rest, wt d v = true -> dec d (enc d v ++ rest) = ROk v rest.
Proof.
  intros i d Hin. apply dec_enc.
  assert (forallb (fun p => desc_ok (snd p)) all_descs = true) as H by (vm_compute; reflexivity).
  rewrite forallb_forall in H. exact (H (i, d) Hin).
Qed.
Print Assumptions C09_protocol_types_roundtrip.

(* a frame is accepted by read_from_buffer: it is at least minimum_bytes_needed long *)
Theorem C09_read_from_buffer_roundtrip : forall d v, desc_ok d = true -> wt d v = true ->
  read_from_buffer d (enc d v) = Some v.
Proof.
  intros d v Hok Hwt. unfold read_from_buffer.
  pose proof (enc_min_bytes d v Hok Hwt) as Hm.
  destruct (length (enc d v) <? min_bytes d)%nat eqn:E; [apply Nat.ltb_lt in E; lia|].
  rewrite <- (app_nil_r (enc d v)) at 1. rewrite dec_enc by assumption. reflexivity.
Qed.
Print Assumptions C09_read_from_buffer_roundtrip.

(* packed primary keys: every list of up to 255 values (any i64, any f64 bit
   pattern incl. NaN, text/blob below 2^31 bytes) unpacks to itself *)
Theorem C09_pack_roundtrip : forall vs bs,
  (length vs <= 255)%nat -> forallb sval_ok vs = true ->
  pack vs = Some bs -> unpack bs = UOk vs.
Proof. exact unpack_pack. Qed.
Print Assumptions C09_pack_roundtrip.

Theorem C09_pack_total : forall vs, (length vs <= 255)%nat -> exists bs, pack vs = Some bs.
Proof. exact pack_total. Qed.
Print Assumptions C09_pack_total.

(* the string decoder only ever returns valid UTF-8 *)
Theorem C09_decoded_text_is_utf8 : forall bs h r, dec DStr bs = ROk (VB h) r -> utf8_valid h = true.
Proof.
  intros bs h r. cbn [dec]. destruct (read_uint 4 bs) as [[len r0]|]; [|intros H; discriminate H].
  destruct (Wire.take_z len r0) as [[h' r']|]; [|intros H; discriminate H].
  destruct (utf8_valid h') eqn:E; [|intros H; discriminate H]. intros H. inversion H; subst. exact E.
Qed.
Print Assumptions C09_decoded_text_is_utf8.

Example C09_nonvacuous :
  let v := VT 0 (VT 4 (VL [VP (VB (repeat 7 16)) (VL [VT 1 (VP (VN 9) (VL [VP (VN 0) (VN 3)]))])])) in
  wt d_sync_message v = true /\ read_from_buffer d_sync_message (enc d_sync_message v) = Some v /\
  pack [SInt 0; SInt 128; SText [97; 98]] = Some [3; 1; 9; 128; 11; 2; 97; 98] /\
  utf8_valid [237; 160; 128] = false.
Proof. vm_compute. repeat split; reflexivity. Qed.
