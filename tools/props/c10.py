"""C10 — load shedding and duplicate suppression never lose a change for good."""
import random, re
import vlib, flow


class C10(flow.Spec):
    pid = "C10"
    shards = 16
    rule = ("scripts against the real handle_changes + process_multiple_changes on a real agent (queue length 1..3, huge chunk "
            "size, no ticks): H = the harness takes the write connection (database busy: the first batch blocks, further "
            "offers queue up and overflow), R = release and wait, X n = the next n batches fail (fault injection hook), "
            "O = offer a complete / partial-chunk / empty changeset of actors 5,6 (or the node's own id) for versions 1..4; "
            "every script ends with the overload over and every distinct changeset offered again twice. Observation after "
            "each step: which offered changesets the bookkeeping knows (contains_all). Compared with the model under the "
            "same deterministic schedule; oracle: at the end every foreign changeset is known. "
            "non-trivial = distinct script in which a changeset was dropped, suppressed or hit by a failed batch")
    assumptions = ["the schedule is made deterministic by the configuration (huge apply_queue_len, no tick) and by waiting for quiescence; tokio timing under real load is not explored",
                   "bookkeeping is abstracted to contains_all (what handle_changes asks of it)",
                   "individual change failures inside a successful batch (process_single_version errors) are not modelled"]

    def gen_change(self, rnd):
        a = rnd.choice([5, 5, 6, 6, 6, 0]) if rnd.random() < 0.15 else rnd.choice([5, 6])
        v = rnd.randrange(1, 5)
        k = rnd.random()
        if k < 0.2:
            lo = rnd.randrange(1, 5); hi = min(4, lo + rnd.randrange(0, 3))
            return "O E %d %d %d" % (a, lo, hi)
        last = rnd.choice([0, 0, 1, 2, 3])
        if k < 0.65 or last == 0:
            return "O F %d %d 0 %d %d" % (a, v, last, last)
        s = rnd.randrange(0, last + 1); e = rnd.randrange(s, last + 1)
        return "O F %d %d %d %d %d" % (a, v, s, e, last)

    def cases(self, tier, seed):
        rnd = random.Random(seed)
        out = []
        N = 600 if tier == "quick" else 8000
        # fixed regression scripts first
        out.append(("ingest 2 9 O F 5 1 0 0 0 H O F 5 2 0 0 0 O F 5 3 0 0 0 O F 6 1 0 0 0 O F 6 2 0 0 0 R O F 5 3 0 0 0 O F 6 1 0 0 0", {"two-actor-overflow"}))
        out.append(("ingest 3 5 X 1 O F 5 1 0 0 0 O F 5 1 0 0 0 O E 5 1 3 O E 5 1 3", {"failed-batch"}))
        out.append(("ingest 1 8 H O F 5 1 0 1 1 O F 5 2 0 1 1 O E 5 2 2 R O F 5 2 0 1 1 O E 5 2 2 O E 5 2 2", {"emptied-entry"}))
        # a seen cache that is NOT cleared by the periodic trim (queue length > 10, few distinct
        # versions): a lone chunk of a version is displaced by the chunks of one big transaction;
        # afterwards peers answer with an Empty changeset for it
        for maxq in ([11, 12] if tier == "quick" else [11, 12, 13, 15, 20]):
            for victim in ("O F 5 2 0 0 5", "O F 6 7 1 2 4"):
                ops = ["H", "O F 5 1 0 0 40", victim] + ["O F 5 1 %d %d 40" % (q, q) for q in range(1, maxq + 1)] + ["R"]
                a, v = victim.split()[2], victim.split()[3]
                ops += ["O E %s %s %s" % (a, v, v)] * 3
                out.append(("ingest %d %d %s" % (maxq, len(ops), " ".join(ops)), {"seen-cache-not-trimmed", "displaced-then-emptied"}))
        for _ in range(N):
            maxq = rnd.choice([1, 1, 2, 2, 3])
            ops, held, tags = [], False, {"random"}
            pool = [self.gen_change(rnd) for _ in range(rnd.randrange(2, 7))]
            for _ in range(rnd.randrange(3, 14)):
                x = rnd.random()
                if x < 0.12 and not held:
                    ops.append("H"); held = True; tags.add("busy-db")
                elif x < 0.24 and held:
                    ops.append("R"); held = False
                elif x < 0.32:
                    ops.append("X %d" % rnd.choice([1, 1, 2])); tags.add("failed-batch")
                else:
                    ops.append(rnd.choice(pool))
            if held:
                ops.append("R")
            ops.append("X 0")
            distinct = []
            for o in ops:
                if o.startswith("O") and o not in distinct:
                    distinct.append(o)
            ops += distinct + distinct
            out.append(("ingest %d %d %s" % (maxq, len(ops), " ".join(ops)), tags))
        return out

    def nontrivial(self, case, model_obs):
        return bool(re.search(r"b[01]*0[01]*", model_obs))

    def impl_verdict(self, case, impl_obs):
        if impl_obs.startswith(("PANIC", "CRASH", "ERR")):
            return False
        # final observation: every foreign changeset is known to the bookkeeping or durably stored
        fields = impl_obs.strip().split(" ")
        bitsf = [f for f in fields if f.startswith("b")]
        dbf = [f for f in fields if f.startswith("db=")]
        if not bitsf or not dbf:
            return False
        last = bitsf[-1][1:]
        db = dbf[-1][3:]
        distinct = []
        toks = case.split()
        i = 3
        while i < len(toks):
            if toks[i] == "O":
                n = 7 if toks[i + 1] == "F" else 5
                o = " ".join(toks[i:i + n])
                if o not in distinct:
                    distinct.append(o)
                i += n
            elif toks[i] == "X":
                i += 2
            else:
                i += 1
        if len(last) != len(distinct) or len(db) != len(distinct):
            return False
        for bit, dbit, o in zip(last, db, distinct):
            if o.split()[2] != "0" and bit != "1" and dbit != "1":
                return False
        return None

    def normalize(self, obs):
        return re.sub(r" db=\S*", "", obs.strip())


SPEC = C10
