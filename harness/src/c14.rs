//! C14: real UpdatesManager listeners (one per table) on a real agent, fed by local
//! transactions and by transactions of a second real agent delivered in chosen
//! batchings.  The candidate maps the real code hands to the update handles are
//! recorded (cfg hook) and form the model's input; notification batches are cut by
//! the harness.
use crate::{c11, util::Toks};
use klukai_types::{
    api::{NotifyEvent, Statement},
    broadcast::ChangeV1,
    pubsub::{unpack_columns, ChangeType},
    updates::verif_hooks as vh,
};
use std::sync::atomic::Ordering::SeqCst;
use std::time::{Duration, Instant};

fn pk_str(pk: &[u8]) -> String {
    match unpack_columns(pk) {
        Ok(v) => v.iter().map(|x| x.as_integer().map(|i| i.to_string()).unwrap_or("?".into())).collect::<Vec<_>>().join("."),
        Err(_) => "?".into(),
    }
}

async fn flush(ids: &[uuid::Uuid]) -> bool {
    crate::util::flush_loops(ids, 60).await
}

fn take_sent() -> Vec<String> {
    let mut g = vh::SENT.lock().unwrap();
    let out = g
        .iter()
        .filter(|m| m.first().map(|x| x.0 == "updates").unwrap_or(false))
        .map(|m| m.iter().map(|(_, t, pk, cl)| format!("{}/{}/{}", t, pk_str(pk), cl)).collect::<Vec<_>>().join(","))
        .collect();
    g.clear();
    out
}

/// case: upd <nops> { L k {stmt} | R k {stmt} | D mode | Q | F }
/// obs per Q/F step: db=<dump> sent=<map;map;...> (map = table/pk/cl,...) note=<table:kind:pk,...>
pub fn upd(t: &mut Toks) -> String {
    let rt = tokio::runtime::Builder::new_multi_thread().worker_threads(4).enable_all().build().unwrap();
    let nops = t.usize();
    enum Op { L(Vec<Statement>), R(Vec<Statement>), D(u64), Q, F }
    let mut ops = vec![];
    for _ in 0..nops {
        ops.push(match t.tok() {
            "L" => { let k = t.usize(); Op::L((0..k).map(|_| c11::stmt(t)).collect()) }
            "R" => { let k = t.usize(); Op::R((0..k).map(|_| c11::stmt(t)).collect()) }
            "D" => Op::D(t.u64()),
            "Q" => Op::Q,
            "F" => Op::F,
            x => panic!("bad op {x}"),
        });
    }
    vh::MANUAL.store(true, SeqCst);
    vh::SENT.lock().unwrap().clear();
    rt.block_on(async move {
        let mut a = c11::new_node().await;
        let mut b = c11::new_node().await;
        let mut sent = 0usize;
        let mut listeners: Vec<(String, tokio::sync::mpsc::Receiver<NotifyEvent>)> = vec![];
        let mut listener_ids: Vec<uuid::Uuid> = vec![];
        let mut outs = vec![];
        for op in ops {
            match op {
                Op::L(stmts) => { c11::local_tx(&mut a, stmts).await; }
                Op::R(stmts) => { c11::local_tx(&mut b, stmts).await; }
                Op::D(mode) => {
                    let pending: Vec<ChangeV1> = b.outbox[sent..].to_vec();
                    sent = b.outbox.len();
                    c11::deliver(&mut a, pending, mode).await;
                }
                Op::Q => {
                    if !listeners.is_empty() {
                        continue;
                    }
                    for tn in c11::TNAME {
                        let (h_, created) = a
                            .kit
                            .agent
                            .updates_manager()
                            .get_or_insert(tn, &a.kit.agent.schema().read(), a.kit.agent.pool(), a.kit.tripwire.clone())
                            .expect("listener");
                        {
                            use klukai_types::updates::Handle;
                            listener_ids.push(h_.id());
                        }
                        listeners.push((tn.to_string(), created.expect("fresh listener").evt_rx));
                    }
                    take_sent();
                    outs.push(format!("db={} sent= note=", c11::db_dump_n(&a, 4).await));
                }
                Op::F => {
                    if listeners.is_empty() {
                        continue;
                    }
                    let ok = flush(&listener_ids).await;
                    let mut notes = vec![];
                    for (tn, rx) in listeners.iter_mut() {
                        while let Ok(e) = rx.try_recv() {
                            match e {
                                NotifyEvent::Notify(ty, pk) => {
                                    let k = match ty { ChangeType::Delete => "D", _ => "U" };
                                    let pk = pk.iter().map(|x| x.as_integer().map(|i| i.to_string()).unwrap_or("?".into())).collect::<Vec<_>>().join(".");
                                    notes.push(format!("{tn}:{k}:{pk}"));
                                }
                                NotifyEvent::Error(e) => notes.push(format!("ERR:{}", e.replace(' ', "_"))),
                            }
                        }
                    }
                    outs.push(format!(
                        "db={} sent={} note={}{}",
                        c11::db_dump_n(&a, 4).await,
                        take_sent().join(";"),
                        notes.join(","),
                        if ok { "" } else { " FLUSH-TIMEOUT" }
                    ));
                }
            }
        }
        vh::MANUAL.store(false, SeqCst);
        outs.join(" # ")
    })
}

/// case: evict <nother>
///   the REAL update feed of table tests is handed candidate maps directly (the arrival order
///   a delayed local broadcast_changes task produces): key 0 with causal length 3; flush;
///   <nother> other keys; flush; key 0 with causal length 2 (an older state); flush.
/// obs: the notifications for key 0, in order
pub fn evict(t: &mut Toks) -> String {
    use klukai_types::pubsub::{pack_columns, MatchCandidates};
    use klukai_types::updates::Handle;
    let rt = tokio::runtime::Builder::new_multi_thread().worker_threads(4).enable_all().build().unwrap();
    let nother = t.i64();
    vh::MANUAL.store(true, SeqCst);
    let out = rt.block_on(async move {
        let a = c11::new_node().await;
        let tn = c11::TNAME[0];
        let (h, created) = a.kit.agent.updates_manager()
            .get_or_insert(tn, &a.kit.agent.schema().read(), a.kit.agent.pool(), a.kit.tripwire.clone()).expect("listener");
        let mut rx = created.expect("fresh listener").evt_rx;
        tokio::time::sleep(Duration::from_millis(300)).await;
        let key = |i: i64| pack_columns(&[klukai_types::change::SqliteValue::Integer(i)]).unwrap();
        let send = |pairs: Vec<(i64, i64)>| {
            let mut m: MatchCandidates = Default::default();
            let e = m.entry(tn.into()).or_default();
            for (k, cl) in pairs { e.insert(key(k), cl); }
            m
        };
        let tx = h.changes_tx();
        // the listener reads its feed all the time (a full channel would block the batching loop)
        let notes = std::sync::Arc::new(std::sync::Mutex::new(Vec::<String>::new()));
        let reader = tokio::spawn({ let notes = notes.clone(); async move {
            while let Some(e) = rx.recv().await {
                if let NotifyEvent::Notify(ty, pk) = e {
                    if pk.first().and_then(|x| x.as_integer().copied()) == Some(0) {
                        notes.lock().unwrap().push(match ty { ChangeType::Delete => "D".to_string(), _ => "U".to_string() });
                    }
                }
            }
        }});
        tx.send(send(vec![(0, 3)])).await.unwrap();
        tokio::time::sleep(Duration::from_millis(50)).await;
        let hid = [h.id()];
        let ok1 = flush(&hid).await;
        for chunk in (1..=nother).collect::<Vec<_>>().chunks(500) {
            tx.send(send(chunk.iter().map(|k| (*k, 1)).collect())).await.unwrap();
        }
        tokio::time::sleep(Duration::from_millis(100)).await;
        let ok2 = flush(&hid).await;
        tx.send(send(vec![(0, 2)])).await.unwrap();
        tokio::time::sleep(Duration::from_millis(50)).await;
        let ok3 = flush(&hid).await;
        tokio::time::sleep(Duration::from_millis(100)).await;
        reader.abort();
        let notes = notes.lock().unwrap().clone();
        format!("key0={} flushed={}", notes.join(","), if ok1 && ok2 && ok3 { 1 } else { 0 })
    });
    vh::MANUAL.store(false, SeqCst);
    rt.shutdown_background();
    out
}
