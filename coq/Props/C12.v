(* C12 — Attaching or resuming a subscription never skips or repeats a change silently.
   Model: Model/Catchup.v (catch_up_sub's reconciliation as a function of what it observes of
   the producer; the client's continuity rule).  The retry count, whether the live forwarding
   filters, and the client rule's text come from the source (tools/catchup2coq.py ->
   Gen/CatchupCfg.v).  Proofs: Proofs/CatchupProofs.v.
   PARTIAL: the tokio interleavings that produce the observations (first read, peek, watch,
   re-reads, buffered and live ids) are not enumerated against the real code; they are
   sampled by the harness under schedule knobs, and every sampled observation is run
   through this model. *)
From Coq Require Import List ZArith Bool Lia.
From Corro Require Import Model.Catchup Gen.CatchupCfg Proofs.CatchupProofs.
Import ListNotations.
Open Scope Z_scope.

(* whatever the first read, the peeked event or watch value, the re-reads, the buffered and
   the live events were -- as long as the broadcast delivers change events in id order without
   loss and the log is complete up to what a read reports -- the ids a subscriber receives
   after its snapshot (or its resume point N) are N+1, N+2, ... with no gap and no repetition,
   also when the stream stops with "could not catch up" *)
Theorem C12_stream_is_consecutive : forall i d stopped,
  forward_filters = true -> cin_wf i ->
  catch_up catchup_attempts forward_filters i = (d, stopped) ->
  consecutive_from (ci_from i) d = true.
Proof. intros i d stopped E. rewrite E. apply catch_up_consecutive. Qed.
Print Assumptions C12_stream_is_consecutive.

(* the configuration generated from the current source satisfies the theorem's premise *)
Theorem C12_source_filters : forward_filters = true /\ (1 <= catchup_attempts)%nat.
Proof. split; [reflexivity|vm_compute; lia]. Qed.
Print Assumptions C12_source_filters.

(* without the filter (the code before fix 12ee0bc) the claim is false: the broadcast of
   changes the snapshot already contains arrives after the catch-up *)
Theorem C12_unfiltered_refuted :
  let i := mkCin 3 3 None 3 [] [] [1; 2; 3; 4; 5] in
  cin_wf i /\ catch_up 5 false i = ([1; 2; 3; 4; 5], false) /\ consecutive_from 3 [1; 2; 3; 4; 5] = false /\
  catch_up 5 true i = ([4; 5], false).
Proof.
  split; [|vm_compute; repeat split].
  constructor; [cbn; lia|]. exists 0. split; [vm_compute; reflexivity|intros _; cbn; lia].
Qed.
Print Assumptions C12_unfiltered_refuted.

(* the client: accepted changes are consecutive after the end-of-query id, every other one is reported *)
Theorem C12_client_accepts_consecutive : forall ids start,
  consecutive_from start (accepted (client_run (Some start) (map CChange ids))) = true.
Proof. exact client_accepts_consecutive. Qed.
Print Assumptions C12_client_accepts_consecutive.

Theorem C12_client_reports_every_gap : forall ids start,
  length (client_run (Some start) (map CChange ids)) = length ids /\
  (consecutive_from start ids = true <-> client_run (Some start) (map CChange ids) = map CAccept ids).
Proof. exact client_reports_every_gap. Qed.
Print Assumptions C12_client_reports_every_gap.

Example C12_nonvacuous :
  (* an event was broadcast before the subscription and committed after the first read:
     the watch says 4, the first read says 3, the re-read finds it; 5 and 6 were buffered *)
  let i := mkCin 1 3 None 4 [4] [5; 6] [7] in
  cin_wf i /\ catch_up catchup_attempts forward_filters i = ([2; 3; 4; 5; 6; 7], false) /\
  (* never catching up ends the stream after a consecutive prefix *)
  catch_up catchup_attempts forward_filters (mkCin 1 3 (Some 6) 0 [3; 3; 4; 4; 4] [7] []) = ([2; 3; 4], true).
Proof.
  split; [|vm_compute; repeat split].
  constructor; [cbn; lia|]. exists 4. split; [vm_compute; reflexivity|intros _; cbn; lia].
Qed.
