"""C13 — subscriptions survive a clean restart and are discarded after an unclean one."""
import random, re
import vlib, flow


class C13(flow.Spec):
    pid = "C13"
    shards = 16
    rule = ("a real agent with a real subscription (SubsManager/Matcher), histories of writes and candidate batches, then a stop: "
            "G graceful (tripwire, drop_handles, pending handles awaited - the sequence of command/agent.rs), also with "
            "unprocessed candidates; S graceful with transactions committed while the matcher is draining (after the tripwire, "
            "before the handles are dropped), with and without unprocessed candidates at the signal; T a local transaction is "
            "acknowledged and the node shuts down at once (its broadcast_changes task, which feeds the subscriptions, has only been "
            "spawned); C the listeners are gone (handle removed, matcher cancelled), more rows are written, then a "
            "graceful shutdown; K kill (files copied as they are); D kill while the matcher is draining. The node is restarted "
            "on the copied files with the real setup(); two such phases per history, then one more batch. Observed: meta.state "
            "found at start, whether the subscription was restored (same id) or its directory removed, restored rows vs the "
            "query on the database, change ids before/after. The Coq life-cycle model must predict state, restored and soundness; "
            "property checks on the observations: restored => same id, rows == query, change ids continue by one; not "
            "restored => directory gone. Plus `inflight n g`: the real change handler loop is applying a remote version of n rows "
            "when the node shuts down gracefully g ms after the batch was spawned (the sequence of command/agent.rs: tripwire, "
            "the handler's handle awaited, drop_handles, pending handles awaited): what the batch committed must be in the "
            "restored subscription (a genuine defect found here was fixed: 5d97e61); `realstop`: the same on a real node started with "
            "agent::start_with_config, for the change handler and for the buffered-apply loop (second defect fixed: 45b195e). non-trivial = distinct (history, stop mode) pairs")
    assumptions = ["no transaction commits between the removal of a subscription's handle and its cancellation (the known finding), nor after drop_handles during shutdown (exercised for the change handler's in-flight batches by `inflight`; API requests and sync sessions in flight at shutdown are not driven), nor between a restart and the restoration of the subscriptions (env_ok_b in the model)",
                   "kill = the files as they are between two commits of the subscription database (process crash; power loss / fsync behaviour is outside)",
                   "what a batch does to the matview is C11's subject"]

    def cases(self, tier, seed):
        rnd = random.Random(seed)
        out = []
        N = 40 if tier == "quick" else 1500
        for _ in range(N):
            tags = set()
            phases = []
            for _ in range(2):
                ops = []
                for _ in range(rnd.randrange(1, 5)):
                    if rnd.random() < 0.6:
                        ops.append("W %d" % rnd.randrange(1, 4))
                    else:
                        ops.append("F")
                stop = rnd.choice(["G", "G", "S", "S", "C", "K", "D", "T"])
                tags.add("stop-" + stop)
                if ops and ops[-1].startswith("W"):
                    tags.add("pending-at-stop")
                phases.append("%d %s %s" % (len(ops), " ".join(ops), stop))
            out.append(("restart 2 %s" % " ".join(phases), tags))
        # three lives: created and stopped gracefully, restored and then killed (with or without writes the
        # matcher has not handled yet), started again: the second life must have left its own mark
        for first in ("G", "S", "T"):
            for ops2 in ("2 W 2 W 3", "2 W 2 F", "3 W 1 F W 2", "1 F"):
                out.append(("restart 2 2 W 1 F %s %s K" % (first, ops2), {"stop-" + first, "stop-K", "killed-after-restore"}))
        # a remote batch being applied by the real change handler when the node shuts down gracefully
        combos = [(300, 0), (100, 0), (1000, 0), (300, 5), (3000, 10), (40000, 400)]
        if tier != "quick":
            combos += [(n, g) for n in (50, 200, 500, 2000, 10000) for g in (0, 2, 20, 100)]
        for n, g in combos:
            out.append(("inflight %d %d" % (n, g), {"apply-in-flight-at-shutdown"}))
        # the same on a REAL node (start_with_config) shut down exactly like command/agent.rs:
        # kind 0 = the change handler applies a version, kind 1 = the buffered-apply loop does
        # kind 2 = a local transaction through the HTTP API, acknowledged, then the signal
        real = [(0, 300, 0), (1, 2000, 0), (1, 20000, 100), (0, 3000, 10), (2, 1, 0), (2, 1, 500)]
        if tier != "quick":
            real += [(k, n, g) for k in (0, 1) for n in (100, 1000, 8000) for g in (0, 5, 50, 300)]
        for k, n, g in real:
            out.append(("realstop %d %d %d" % (k, n, g), {"real-node-shutdown", ["change-handler", "buffered-apply-loop", "local-transaction-acknowledged"][k]}))
        return out

    def phases(self, case):
        t = case.split()
        n = int(t[1]); i = 2
        out = []
        for _ in range(n):
            k = int(t[i]); i += 1
            ops = []
            for _ in range(k):
                if t[i] == "W":
                    ops.append(("W", int(t[i + 1]))); i += 2
                else:
                    ops.append(("F",)); i += 1
            out.append((ops, t[i])); i += 1
        return out

    def model_lines(self, case, impl_obs):
        if case.startswith(("inflight", "realstop")):
            # created, initial query, a write whose candidates arrive while draining or before, clean stop
            return ["sublife 8 CR IN TR W UN DD | ST"]
        toks = ["CR", "IN"]
        alive = True
        for ops, stop in self.phases(case):
            for o in ops:
                toks.append("W" if o[0] == "W" else "B")
            if stop == "G":
                toks += ["TR", "UN", "DD"]
            elif stop == "S":
                toks += ["TR", "W", "UN", "DD"]
            elif stop == "T":
                # the transaction's candidates are produced by a task spawned after the commit; the
                # shutdown waits for it before the handles are dropped
                toks += ["TR", "W", "UN", "DD"]
            elif stop == "C":
                toks += ["UN", "CA0", "W", "TR", "UN", "DD"]
            elif stop == "D":
                toks += ["TR"]
            toks.append("|")
            toks.append("ST")
        return ["sublife %d %s" % (len(toks), " ".join(toks))]

    def parse(self, impl_obs):
        if not impl_obs or impl_obs.startswith(("PANIC", "ERR", "CRASH")):
            return None
        res = []
        for ph in impl_obs.split(" ## "):
            f = dict(re.findall(r"(\w+)=(\S*)", ph))
            res.append((ph.strip().split()[0], f, ph))
        return res

    def agree(self, case, impl_obs, model_obs):
        if case.startswith(("inflight", "realstop")):
            f = dict(re.findall(r"(\w+)=(\S*)", impl_obs or ""))
            m = dict(re.findall(r"(\w+)=(\S*)", model_obs.split(" # ")[0]))
            return f.get("meta") == m.get("meta") and f.get("restored") == m.get("restored")
        p = self.parse(impl_obs)
        if p is None:
            return False
        ms = [dict(re.findall(r"(\w+)=(\S*)", m)) for m in model_obs.split(" # ")]
        phases = [x for x in p if x[0] == "before"]
        if len(phases) != len(ms):
            return False
        for (_, f, raw), m in zip(phases, ms):
            meta = f.get("meta")
            # once a subscription was discarded nothing exists any more
            if meta == "absent" and m["restored"] == "0":
                continue
            if meta != m["meta"]:
                # a kill right after creation may catch 'created' or 'running': both are unrestorable
                if not (meta in ("created", "running") and m["meta"] in ("created", "running")):
                    return False
            if f.get("restored") != m["restored"]:
                return False
        return True

    def nontrivial(self, case, model_obs):
        return True

    def failures(self, case, impl_obs):
        """[(phase index or 'final', reason)] in order"""
        if case.startswith(("inflight", "realstop")):
            f = dict(re.findall(r"(\w+)=(\S*)", impl_obs or ""))
            if "meta" not in f:
                return [(0, "crash")]
            if f.get("meta") == "completed":
                if f.get("restored") != "1":
                    return [(0, "not-restored")]
                if f.get("rows") != f.get("db"):
                    return [(0, "stale")]     # restored, but the batch that committed during shutdown is missing
            elif f.get("restored") != "0":
                return [(0, "unclean-restored")]
            return []
        p = self.parse(impl_obs)
        if p is None:
            return [(0, "crash")]
        fails = []
        pi = -1
        kinds = [ph[1] for ph in self.phases(case)] if case.startswith("restart") else []
        for kind, f, raw in p:
            if kind == "before":
                pi += 1
                meta = f.get("meta")
                restored = f.get("restored")
                if kinds and pi < len(kinds) and kinds[pi] == "K" and restored != "0":
                    # killed while running (in its first life or after a restore): never served again
                    fails.append((pi, "unclean-restored"))
                if meta == "completed":
                    if restored != "1" or f.get("same_id") != "1":
                        fails.append((pi, "not-restored")); continue
                    tail = raw.split(" # start ")[1]
                    ff = dict(re.findall(r"(\w+)=(\S*)", tail))
                    if ff.get("rows") != ff.get("db"):
                        fails.append((pi, "stale"))
                    ids = [int(x) for x in ff.get("ids", "").split(",") if x]
                    if ids and ids != list(range(ids[0], ids[0] + len(ids))):
                        fails.append((pi, "ids"))
                    bf = dict(re.findall(r"(\w+)=(\S*)", raw.split(" # start ")[0]))
                    if bf.get("maxc") not in ("-", None) and int(ff.get("maxc", "0")) < int(bf["maxc"]):
                        fails.append((pi, "log-lost"))
                else:
                    if restored != "0" or f.get("dir") != "0":
                        fails.append((pi, "unclean-restored"))
            elif kind == "final":
                if f.get("rows") != f.get("db"):
                    fails.append(("final", "stale"))
                ids = [int(x) for x in f.get("ids", "").split(",") if x]
                if ids and ids != list(range(ids[0], ids[0] + len(ids))):
                    fails.append(("final", "ids"))
        return fails

    def impl_verdict(self, case, impl_obs):
        return False if self.failures(case, impl_obs) else None

    def classify(self, case, impl_obs):
        if case.startswith(("inflight", "realstop")):
            return None
        fails = self.failures(case, impl_obs)
        if not fails:
            return None
        first = fails[0]
        phases = self.phases(case)
        if first[1] == "stale" and first[0] != "final" and phases[first[0]][1] == "C":
            # everything later is the same stale subscription being carried along
            if all(r == "stale" for _, r in fails):
                return "cancelled-then-restored"
        return None


SPEC = C13
