(* C18 — The membership view follows the newest identity of each peer.
   Model: Model/Members.v (transcription of members.rs after the two fixes
   recorded in KNOWN_FINDINGS.txt).  Proofs: Proofs/MembersProofs.v. *)
From Coq Require Import List ZArith Bool Lia.
From Corro Require Import Gen.Consts Model.Members Proofs.MembersProofs.
Import ListNotations.
Open Scope Z_scope.

(* After ANY sequence of up / down notifications and RTT samples allowed by the
   SWIM constraint (an 'up' never carries an identity older than one already
   reported down; one identity = one address and cluster), for every actor:
   it is present iff the last notification about its newest identity was an
   'up', and then it is listed with that identity's timestamp, address and
   cluster. (view_matches is exactly that statement, decidable per actor;
   spec_run is the fold by newest identity.) *)
Theorem C18_view_follows_newest_identity : forall ops,
  ops_allowed [] ops = true ->
  forall a, view_matches (mrun ops) (spec_run ops) a = true.
Proof.
  intros ops H a. unfold mrun, spec_run. apply members_view; [|exact H].
  intros x. reflexivity.
Qed.
Check C18_view_follows_newest_identity : forall ops,
  ops_allowed [] ops = true ->
  forall a,
  match mget a (spec_run ops), mget a (states (mrun ops)) with
  | None, None => true
  | Some r, None => negb (s_up r)
  | Some r, Some st =>
    s_up r && (m_ts st =? s_ts r) && (m_addr st =? s_addr r) && (m_cluster st =? s_cluster r)
  | None, Some _ => false
  end = true.
Print Assumptions C18_view_follows_newest_identity.

(* the address index only ever points to present members at their CURRENT address *)
Theorem C18_by_addr_current : forall ops addr a,
  mget addr (by_addr (mrun ops)) = Some a ->
  exists st, mget a (states (mrun ops)) = Some st /\ m_addr st = addr.
Proof. intros ops. exact (mrun_ba_inv ops). Qed.
Print Assumptions C18_by_addr_current.

(* a round-trip sample changes nothing but the ring of a member whose current
   address is the sampled one: samples for former addresses are inert *)
Theorem C18_rtt_only_current_address : forall ops addr ms a st st',
  mget a (states (mrun ops)) = Some st ->
  mget a (states (add_rtt (mrun ops) addr ms)) = Some st' ->
  core st' = core st /\ (st' <> st -> m_addr st = addr).
Proof. exact rtt_only_current_address. Qed.
Print Assumptions C18_rtt_only_current_address.

(* priority broadcast targets = exactly the same-cluster members with ring 0 *)
Theorem C18_ring0_sound : forall m c addr, In addr (ring0 m c) ->
  exists a st, In (a, st) (states m) /\ m_addr st = addr /\ m_cluster st = c /\ m_ring st = Some 0.
Proof. exact ring0_sound. Qed.
Print Assumptions C18_ring0_sound.

Theorem C18_ring0_complete : forall m c a st,
  In (a, st) (states m) -> m_cluster st = c -> m_ring st = Some 0 -> In (m_addr st) (ring0 m c).
Proof. exact ring0_complete. Qed.
Print Assumptions C18_ring0_complete.

(* ring buckets regenerated from members.rs: sorted, contiguous from 0 *)
Example C18_buckets_contiguous :
  (fix ok (lo : Z) (bs : list (Z * Z)) : bool :=
     match bs with [] => true | (a, b) :: t => (a =? lo) && (a <? b) && ok b t end) 0 ring_buckets = true.
Proof. vm_compute. reflexivity. Qed.

Example C18_nonvacuous :
  let ops := [Up (mkActor 5 1000 10 0); Rtt 1000 3; Up (mkActor 5 1001 20 1); Rtt 1000 1;
              Down (mkActor 5 1001 30 1); Up (mkActor 5 1001 30 1)] in
  ops_allowed [] ops = true /\
  states (mrun ops) = [(5, mkMstate 1001 30 1 None)] /\
  map (fun k => states (mrun (firstn k ops))) [2; 3; 4; 5]%nat =
    [[(5, mkMstate 1000 10 0 (Some 0))]; [(5, mkMstate 1001 20 1 None)];
     [(5, mkMstate 1001 20 1 None)]; []].
Proof. vm_compute. repeat split; reflexivity. Qed.
