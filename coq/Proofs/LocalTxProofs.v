From Coq Require Import List ZArith Bool Lia.
From Corro Require Import Lib.Ivl Model.Chunk Model.Book Model.LocalTx Proofs.BookProofs Proofs.ChunkProofs Gen.Consts.
Import ListNotations.
Open Scope Z_scope.

(* invariant: own bookkeeping has no gap, acknowledged versions are n, n-1, ..., 1 *)
Fixpoint countdown (n : nat) : list Z :=
  match n with O => [] | S k => Z.of_nat n :: countdown k end.

Definition LInv (s : lst) : Prop :=
  Inv (l_bv s) (l_rows s) /\ needed (l_bv s) = [] /\
  l_acked s = countdown (Z.to_nat (max0 (maxv (l_bv s)))).

Lemma LInv_init : LInv lst_init.
Proof. split; [exact Inv_init|]. split; reflexivity. Qed.

Lemma lstep_inv s r : LInv s ->
  LInv (fst (lstep s r)) /\
  (* a failed or empty request changes nothing and consumes no version *)
  ((r_ok r = false \/ r_recs r = []) -> fst (lstep s r) = s /\ o_version (snd (lstep s r)) = None /\
                                        o_same (snd (lstep s r)) = true /\ o_chunks (snd (lstep s r)) = []) /\
  (* an acknowledged request gets exactly the next version *)
  (r_ok r = true -> r_recs r <> [] ->
     o_version (snd (lstep s r)) = Some (max0 (maxv (l_bv s)) + 1) /\
     max0 (maxv (l_bv (fst (lstep s r)))) = max0 (maxv (l_bv s)) + 1).
Proof.
  intros (HI & Hn & Ha). unfold lstep.
  destruct (r_ok r) eqn:Eok; cbn [negb].
  2:{ split; [split; [exact HI|split; assumption]|]. split; [intros _; repeat split|intros H; discriminate]. }
  destruct (r_recs r) as [|rec recs] eqn:Er.
  { split; [split; [exact HI|split; assumption]|]. split; [intros _; repeat split|intros _ H; contradiction]. }
  set (v := next_version s).
  assert (Hwf : wf_vs [(v, v)]).
  { pose proof (inv_max _ _ HI). split; [exists v; cbn; lia|constructor; [cbn; unfold v, next_version; lia|constructor]]. }
  destruct (insert_db_ok _ _ _ HI Hwf) as (b' & Heq & HI' & Hspec & Hm1 & Hm2 & _ & Hlub).
  rewrite Heq. cbn [fst snd o_version o_same o_chunks l_bv l_rows l_acked].
  assert (Hneed : needed b' = []).
  { destruct (needed b') as [|[p q] t] eqn:En; [reflexivity|exfalso].
    pose proof (inv_canon _ _ HI') as [lo Hc]. rewrite En in Hc. cbn in Hc.
    assert (mem p ((p, q) :: t)) as Hm by (cbn; lia).
    apply Hspec in Hm. destruct Hm as [[Hm|(w & Hw & Hg)] Hnv].
    - rewrite Hn in Hm. exact Hm.
    - destruct Hw as [<-|[]]. unfold gapx in Hg. cbn in Hg. unfold v, next_version in Hg. lia. }
  (* the new max is exactly v *)
  assert (Hmax : max0 (maxv b') = v).
  { specialize (Hm2 (v, v) (or_introl eq_refl)). cbn in Hm2.
    assert (max0 (maxv b') <= v); [|lia].
    apply Hlub; [unfold v, next_version; lia|]. intros w [<-|[]]. cbn. lia. }
  split; [|split; [intros [H|H]; discriminate|intros _ _; split; [reflexivity|exact Hmax]]].
  split; [exact HI'|]. split; [exact Hneed|].
  cbn [l_bv l_acked]. rewrite Hmax, Ha. unfold v, next_version.
  pose proof (inv_max _ _ HI) as H0.
  replace (Z.to_nat (max0 (maxv (l_bv s)) + 1)) with (S (Z.to_nat (max0 (maxv (l_bv s))))) by lia.
  cbn [countdown]. f_equal. lia.
Qed.

Theorem lrun_inv rs : LInv (lrun rs).
Proof.
  unfold lrun. generalize LInv_init. generalize lst_init.
  induction rs as [|r rs IH]; intros s H; [exact H|]. cbn. apply IH. apply (lstep_inv s r H).
Qed.

(* the broadcast changesets of an acknowledged request tile 0..=last_seq and
   carry exactly the transaction's records, whatever their sizes *)
Theorem broadcast_tiles recs last :
  wf_input (map (fun r => mkChg (fst r) (snd r) (fst r)) recs) 0 last = true ->
  let cs := map (fun r => mkChg (fst r) (snd r) (fst r)) recs in
  let out := fst (run (repeat max_changes_byte_size (S (length cs))) (start_cursor cs 0 last)) in
  chunks_spec cs 0 last out.
Proof.
  intros Hwf cs out. unfold out.
  destruct (run (repeat max_changes_byte_size (S (length cs))) (start_cursor cs 0 last)) as [o stf] eqn:Hrun.
  assert (Hlen : (length cs < length (repeat max_changes_byte_size (S (length cs))))%nat) by (rewrite repeat_length; lia).
  exact (proj2 (run_tiles cs 0 last _ o stf Hwf Hlen Hrun)).
Qed.
