"""C14 — row-level update notifications reflect every changed key and its final fate."""
import random, re
import vlib, flow
import importlib, sys, os
sys.path.insert(0, os.path.dirname(__file__))
g = importlib.import_module("c11")

TN = ["t1", "t2", "t3", "t4"]      # t4 (p, q) consists of its primary key only


class C14(flow.Spec):
    pid = "C14"
    shards = 16
    rule = ("real UpdatesManager listeners on t1, t2, t3 (composite key) and t4 (primary key only) of a real agent; histories of inserts, updates, "
            "deletes, re-inserts and key changes on a small key space, applied locally (api_v1_transactions) and authored on "
            "a second real agent and delivered through process_multiple_changes in 6 batchings (in order, reversed, one call "
            "per changeset, split chunks second-half-first = buffered path, duplicated); notification batches cut by the "
            "harness. The candidate maps the real code hands to each listener are recorded (cfg hook) and fed to the Coq "
            "model, whose notifications must equal the real ones in order; oracle fate_ok (Coq) at every flush: every key "
            "whose row changed since the listener attached has been notified and the last notification of every notified "
            "key says deleted exactly when the row is absent. Plus `evict n`: the real feed is handed a newer state of a key, then n "
            "other keys, then an older state of the key (the order a delayed broadcast_changes task produces): for n < 2000 "
            "the older state must be dropped; for n >= 2000 the cache has forgotten the key and the stale 'deleted' is delivered "
            "last -- the known finding cl-cache-eviction (C14_evict_refuted). non-trivial = distinct histories with at least one delete and "
            "one update notification")
    assumptions = ["the final-fate theorem needs at most MAX_CACHE_ENTRIES (2000) distinct keys in flight between two candidates of one key; beyond the bound the property FAILS on the real code (known finding cl-cache-eviction, C14_evict_refuted, evict 2000)",
                   "the listener's own stream (HTTP chunking, broadcast fan-out to several clients) is not exercised here",
                   "batches are cut by the harness through the cfg(corro_verif) hook; the 600 ms timer itself is runtime"]

    def cases(self, tier, seed):
        rnd = random.Random(seed)
        out = []
        N = 96 if tier == "quick" else 3000
        for _ in range(N):
            tags = set()
            nsteps = rnd.randrange(4, 12)
            ops = []
            qpos = rnd.randrange(0, 3)
            for s in range(nsteps):
                if s == qpos:
                    ops.append("Q")
                for _ in range(rnd.randrange(1, 4)):
                    k = rnd.randrange(1, 4)
                    st = [g.rstmt(rnd) for _ in range(k)]
                    # a table made of its primary key only: a row creation is described by the
                    # sentinel change alone
                    for j in range(k):
                        if rnd.random() < 0.3:
                            pq = "%d %d" % (rnd.randrange(1, 3), rnd.randrange(1, 3))
                            st[j] = ("I 3 " + pq, "pk-only-insert") if rnd.random() < 0.6 else ("X 3 " + pq, "pk-only-delete")
                    for _, tg in st:
                        tags.add(tg)
                    if rnd.random() < 0.5:
                        ops.append("L %d %s" % (k, " ".join(x for x, _ in st))); tags.add("local")
                    else:
                        ops.append("R %d %s" % (k, " ".join(x for x, _ in st))); tags.add("remote")
                if rnd.random() < 0.6:
                    mode = rnd.randrange(0, 6)
                    ops.append("D %d" % mode); tags.add("deliver-mode-%d" % mode)
                if s >= qpos and rnd.random() < 0.8:
                    ops.append("F")
            ops += ["D 0", "F"]
            out.append(("upd %d %s" % (len(ops), " ".join(ops)), tags))
        # an older state of a key arriving after a newer one (a delayed broadcast_changes task),
        # with n other keys received in between: the cl cache must still know the key
        for n in ([10, 1500, 1999, 2000, 2100] if tier == "quick" else [1, 10, 500, 999, 1000, 1001, 1500, 1999, 2000, 2001, 2100, 3000, 4500]):
            out.append(("evict %d" % n, {"stale-candidate-after-newer", "evicted" if n >= 2000 else "still-cached"}))
        return out

    def steps(self, impl_obs):
        if not impl_obs or impl_obs.startswith(("PANIC", "ERR", "CRASH")):
            return None
        res = []
        for st in impl_obs.split(" # "):
            m = re.match(r"\s*db=(\S*) sent=(\S*) note=(\S*)(.*)", st)
            if not m:
                return None
            maps = [[tuple(x.split("/")) for x in mp.split(",") if x] for mp in m.group(2).split(";") if mp]
            notes = [tuple(x.split(":")) for x in m.group(3).split(",") if x]
            res.append({"db": m.group(1), "maps": maps, "notes": notes, "timeout": "FLUSH-TIMEOUT" in m.group(4)})
        return res

    def model_lines(self, case, impl_obs):
        if case.startswith("evict"):
            n = int(case.split()[1])
            ops = ["R 1 0 3", "F"]
            ks = list(range(1, n + 1))
            for i in range(0, len(ks), 500):
                ch = ks[i:i + 500]
                ops.append("R %d %s" % (len(ch), " ".join("%d 1" % k for k in ch)))
            ops += ["F", "R 1 0 2", "F"]
            return ["updm %d %s" % (len(ops), " ".join(ops))]
        st = self.steps(impl_obs)
        if not st:
            return []
        lines = []
        for tn in TN:
            ops = []
            for s in st[1:]:
                for mp in s["maps"]:
                    mine = [(k, cl) for (t, k, cl) in mp if t == tn]
                    if mine:
                        ops.append("R %d %s" % (len(mine), " ".join("%s %s" % x for x in mine)))
                ops.append("F")
            lines.append("updm %d %s" % (len(ops), " ".join(ops)))
        return lines

    def key0(self, impl_obs):
        m = re.match(r"key0=(\S*) flushed=(\d)", impl_obs or "")
        return ([x for x in m.group(1).split(",") if x], m.group(2) == "1") if m else (None, False)

    def agree(self, case, impl_obs, model_obs):
        if case.startswith("evict"):
            got, ok = self.key0(impl_obs)
            if got is None or not ok:
                return False
            want = [x.split(":")[0] for stp in model_obs.split(" # ") for x in stp.split(",") if x.strip().endswith(":0")]
            return got == want
        st = self.steps(impl_obs)
        if not st:
            return False
        per = model_obs.split(" || ")
        if len(per) != len(TN):
            return False
        for ti, tn in enumerate(TN):
            msteps = per[ti].split(" # ") if len(st) > 1 else []
            if len(msteps) != len(st) - 1:
                return False
            for s, ms in zip(st[1:], msteps):
                mine = ",".join("%s:%s" % (k, key) for (t, k, key) in s["notes"] if t == tn)
                if mine != ms.strip():
                    return False
        return True

    def nontrivial(self, case, model_obs):
        return case.startswith("evict") or ("D:" in model_obs and "U:" in model_obs)

    def oracle_lines(self, case, impl_obs):
        if case.startswith("evict"):
            return []
        st = self.steps(impl_obs)
        if not st:
            return []
        out = []
        changed = [set() for _ in TN]
        notes = [[] for _ in TN]
        for si in range(1, len(st)):
            prev = st[si - 1]["db"].split("|"); cur = st[si]["db"].split("|")
            for ti, tn in enumerate(TN):
                pr = dict(r.split(":") for r in prev[ti].split(";") if r)
                cu = dict(r.split(":") for r in cur[ti].split(";") if r)
                for k in set(pr) | set(cu):
                    if pr.get(k) != cu.get(k):
                        changed[ti].add(k)
                notes[ti] += [(k, key) for (t, k, key) in st[si]["notes"] if t == tn]
                out.append("chk_upd %d %s %d %s %d %s" % (
                    len(cu), " ".join(sorted(cu)), len(changed[ti]), " ".join(sorted(changed[ti])),
                    len(notes[ti]), " ".join("%s %s" % x for x in notes[ti])))
        return out

    def classify(self, case, impl_obs):
        if case.startswith("evict") and int(case.split()[1]) >= 2000 and self.key0(impl_obs)[0] == ["U", "D"]:
            return "cl-cache-eviction"
        return None

    def impl_verdict(self, case, impl_obs):
        if case.startswith("evict"):
            got, ok = self.key0(impl_obs)
            if got is None or not ok:
                return False
            # the newest state of key 0 is causal length 3 (the row exists): the last notification
            # must say updated, and nothing older may follow it
            return None if got == ["U"] else False
        st = self.steps(impl_obs)
        if st is None:
            return False
        if any(s["timeout"] for s in st) or "ERR:" in impl_obs or "?" in impl_obs.replace("sent=", ""):
            return False
        return None


SPEC = C14
