(* Model of the per-actor version bookkeeping:
     crates/klukai-types/src/agent.rs : VersionsSnapshot::{compute_gaps_change, insert_db},
                                         BookedVersions::{insert_partial, contains_version,
                                         contains, contains_all, from_conn, commit_snapshot},
                                         PartialVersion::{is_complete, full_range}
     crates/klukai-types/src/sync.rs  : generate_sync (the per-actor part)
   together with the persisted rows of __corro_bookkeeping_gaps for that actor.
   Definitions only. *)
From Coq Require Import List ZArith Bool.
From Corro Require Import Lib.Ivl Gen.Consts.
Import ListNotations.
Open Scope Z_scope.

(* ---------- small association maps keyed by Z (BTreeMap<version,_>) -------- *)
Section Amap.
  Context {V : Type}.
  Fixpoint aget (k : Z) (m : list (Z * V)) : option V :=
    match m with
    | [] => None
    | (k', v) :: t => if k =? k' then Some v else aget k t
    end.
  (* sorted by key, like a BTreeMap *)
  Fixpoint aset (k : Z) (v : V) (m : list (Z * V)) : list (Z * V) :=
    match m with
    | [] => [(k, v)]
    | (k', v') :: t =>
      if k =? k' then (k, v) :: t
      else if k <? k' then (k, v) :: (k', v') :: t
      else (k', v') :: aset k v t
    end.
  Definition adel_range (a b : Z) (m : list (Z * V)) : list (Z * V) :=
    filter (fun kv => negb ((a <=? fst kv) && (fst kv <=? b))) m.
End Amap.

Record partial := mkPartial { p_seqs : iset; p_last : Z }.

Record bv := mkBv {
  needed : iset;                      (* RangeInclusiveSet<CrsqlDbVersion> *)
  partials : list (Z * partial);      (* BTreeMap<CrsqlDbVersion, PartialVersion> *)
  maxv : option Z }.

Definition bv_empty : bv := mkBv [] [] None.

Definition omax (m : option Z) (v : Z) : option Z :=
  match m with None => Some v | Some x => Some (Z.max x v) end.
Definition max0 (m : option Z) : Z := match m with None => 0 | Some x => x end.

Definition pair_eqb (a b : Z * Z) : bool := (fst a =? fst b) && (snd a =? snd b).

(* ---------- compute_gaps_change ------------------------------------------- *)
(* accumulator: insert_set (a RangeInclusiveSet) and remove_ranges (a HashSet
   of ranges, modelled as a duplicate-free list) *)
Definition acc := (iset * list (Z * Z))%type.

Definition add_range (a : acc) (r : Z * Z) : acc :=
  (ins (fst r) (snd r) (fst a),
   if existsb (pair_eqb r) (snd a) then snd a else snd a ++ [r]).

Definition add_ranges (rs : list (Z * Z)) (a : acc) : acc := fold_left add_range rs a.

Definition opt_list {A} (o : option A) : list A := match o with Some x => [x] | None => [] end.

Definition gaps_step (b : bv) (st : option Z * acc) (v : Z * Z) : option Z * acc :=
  let '(mx, a0) := st in
  let (s, e) := v in
  let a1 := add_ranges (overlapping s e (needed b)) a0 in
  let a2 := add_ranges (opt_list (get (s - 1) (needed b))) a1 in
  let a3 := add_ranges (opt_list (get (e + 1) (needed b))) a2 in
  let gs := max0 (maxv b) + 1 in
  let a4 := if gs <? s
            then add_ranges (overlapping gs s (needed b)) (ins gs s (fst a3), snd a3)
            else a3 in
  (omax mx e, a4).

Definition compute_gaps_change (b : bv) (vs : iset) : option Z * iset * list (Z * Z) :=
  let '(mx, (i, r)) := fold_left (gaps_step b) vs (maxv b, ([], [])) in
  (mx, rem_all vs i, r).

(* ---------- persisted rows of __corro_bookkeeping_gaps for one actor ------- *)
(* PRIMARY KEY (actor_id, start), WITHOUT ROWID: rows are kept sorted by start,
   an INSERT with an existing start fails. *)
Definition rows := list (Z * Z).

Definition row_delete (r : Z * Z) (rs : rows) : rows * Z :=
  (filter (fun x => negb (pair_eqb r x)) rs,
   Z.of_nat (length (filter (pair_eqb r) rs))).

Fixpoint row_insert (r : Z * Z) (rs : rows) : option rows :=
  match rs with
  | [] => Some [r]
  | x :: t =>
    if fst r =? fst x then None
    else if fst r <? fst x then Some (r :: x :: t)
    else match row_insert r t with None => None | Some t' => Some (x :: t') end
  end.

Inductive idb_result :=
| IdbOk (b : bv) (rs : rows) (bad_delete : bool)
| IdbErr.

Definition idb_remove (st : iset * list (Z * partial) * rows * bool) (r : Z * Z) :=
  let '(n, p, rs, bad) := st in
  let '(rs', c) := row_delete r rs in
  (rem (fst r) (snd r) n, adel_range (fst r) (snd r) p, rs', bad || negb (c =? 1)).

Definition idb_insert (st : option (iset * rows)) (r : Z * Z) :=
  match st with
  | None => None
  | Some (n, rs) =>
    match row_insert r rs with
    | None => None
    | Some rs' => Some (ins (fst r) (snd r) n, rs')
    end
  end.

Definition insert_db (b : bv) (rs : rows) (vs : iset) : idb_result :=
  let '(mx, iset0, rr) := compute_gaps_change b vs in
  let '(n1, p1, rs1, bad) := fold_left idb_remove rr (needed b, partials b, rs, false) in
  match fold_left idb_insert iset0 (Some (n1, rs1)) with
  | None => IdbErr
  | Some (n2, rs2) => IdbOk (mkBv n2 p1 mx) rs2 bad
  end.

(* ---------- insert_partial, queries ---------------------------------------- *)
Definition insert_partial (b : bv) (v : Z) (p : partial) : bv * partial :=
  match aget v (partials b) with
  | None => (mkBv (needed b) (aset v p (partials b)) (omax (maxv b) v), p)
  | Some got =>
    let got' := mkPartial (ins_all (p_seqs p) (p_seqs got)) (p_last got) in
    (mkBv (needed b) (aset v got' (partials b)) (maxv b), got')
  end.

Definition contains_version (b : bv) (v : Z) : bool :=
  negb (memb v (needed b)) && (v <=? max0 (maxv b)).

(* check_seqs.clone().all(|seq| partial.seqs.contains(&seq)) *)
Definition seqs_all_in (s e : Z) (seqs : iset) : bool :=
  match gaps s e seqs with [] => true | _ => false end.

(* no seqs (an empty changeset: a claim about the whole version): contained
   unless the version is held only partially *)
Definition contains (b : bv) (v : Z) (seqs : option (Z * Z)) : bool :=
  contains_version b v &&
  match seqs with
  | None =>
    match aget v (partials b) with
    | Some p => match gaps 0 (p_last p) (p_seqs p) with [] => true | _ => false end
    | None => true
    end
  | Some (s, e) =>
    match aget v (partials b) with
    | Some p => seqs_all_in s e (p_seqs p)
    | None => true
    end
  end.

Definition contains_all (b : bv) (vs ve : Z) (seqs : option (Z * Z)) : bool :=
  forallb (fun i => contains b (vs + Z.of_nat i) seqs) (seq 0 (Z.to_nat (ve - vs + 1))).

(* PartialVersion::is_complete: no gap in full_range(); the first seq of
   full_range() is regenerated from the source (Gen/Consts.v) *)
Definition is_complete (p : partial) : bool :=
  match gaps partial_full_range_start (p_last p) (p_seqs p) with [] => true | _ => false end.

(* what the apply trigger and process_fully_buffered_changes test *)
Definition fully_buffered (p : partial) : bool :=
  match gaps 0 (p_last p) (p_seqs p) with [] => true | _ => false end.

(* ---------- generate_sync, per actor --------------------------------------- *)
Record adv := mkAdv {
  a_head : Z;
  a_need : list (Z * Z);
  a_partial : list (Z * list (Z * Z)) }.   (* version -> missing seq ranges *)

Definition sync_actor (b : bv) : option adv :=
  match maxv b with
  | None => None
  | Some head =>
    Some (mkAdv head (needed b)
      (map (fun kv => (fst kv, gaps 0 (p_last (snd kv)) (p_seqs (snd kv))))
           (filter (fun kv => negb (is_complete (snd kv))) (partials b))))
  end.

(* ---------- from_conn ------------------------------------------------------ *)
Record seqrow := mkSeqRow { sr_version : Z; sr_start : Z; sr_end : Z; sr_last : Z }.

Definition from_conn (dbmax : option Z) (seqrows : list seqrow) (gaprows : rows) : bv :=
  let b1 := fold_left
              (fun b r => fst (insert_partial b (sr_version r)
                                 (mkPartial [(sr_start r, sr_end r)] (sr_last r))))
              seqrows (mkBv [] [] dbmax) in
  mkBv (ins_all gaprows []) (partials b1) (maxv b1).

(* ---------- decidable invariant (oracle, also run on implementation states) - *)
Definition partial_ok (b : bv) (kv : Z * partial) : bool :=
  (1 <=? fst kv) && (fst kv <=? max0 (maxv b)) && negb (memb (fst kv) (needed b)) &&
  canonicalb (p_seqs (snd kv)) &&
  forallb (fun r => (0 <=? fst r)) (p_seqs (snd kv)).

Fixpoint keys_sorted (lo : Z) (m : list (Z * partial)) : bool :=
  match m with
  | [] => true
  | (k, _) :: t => (lo <=? k) && keys_sorted (k + 1) t
  end.

Fixpoint ranges_eqb (x y : list (Z * Z)) : bool :=
  match x, y with
  | [], [] => true
  | a :: x', b :: y' => pair_eqb a b && ranges_eqb x' y'
  | _, _ => false
  end.

Definition inv_b (b : bv) (rs : rows) : bool :=
  canonicalb (needed b) &&
  ranges_eqb rs (needed b) &&
  (0 <=? max0 (maxv b)) &&
  forallb (fun r => (1 <=? fst r) && (snd r <? max0 (maxv b))) (needed b) &&
  forallb (partial_ok b) (partials b) &&
  keys_sorted 1 (partials b).
