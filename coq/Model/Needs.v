(* Model of crates/klukai-types/src/sync.rs:SyncStateV1::compute_available_needs.
   Actors are integers; HashMaps are association lists (iteration order is not
   observable: results are compared as per-actor multisets / denotations). *)
From Coq Require Import List ZArith Bool.
From Corro Require Import Lib.Ivl.
Import ListNotations.
Open Scope Z_scope.

Section Assoc.
  Context {V : Type}.
  Fixpoint zget (k : Z) (m : list (Z * V)) : option V :=
    match m with
    | [] => None
    | (k', v) :: t => if k =? k' then Some v else zget k t
    end.
End Assoc.

Record sstate := mkSstate {
  ss_actor : Z;
  ss_heads : list (Z * Z);
  ss_need : list (Z * list (Z * Z));
  ss_partial : list (Z * list (Z * list (Z * Z))) }.

Inductive need :=
| Full (s e : Z)
| Partial (v : Z) (seqs : list (Z * Z)).

Definition omaxz (a b : option Z) : option Z :=
  match a, b with
  | None, x => x
  | x, None => x
  | Some x, Some y => Some (Z.max x y)
  end.

Definition max_end (rs : list (Z * Z)) : option Z :=
  fold_left (fun acc r => omaxz acc (Some (snd r))) rs None.

(* ranges of [rs] clipped to the ranges of [haves] they overlap *)
Definition clip (haves : iset) (rs : list (Z * Z)) : list (Z * Z) :=
  flat_map (fun r => map (fun o => (Z.max (fst r) (fst o), Z.min (snd r) (snd o)))
                         (overlapping (fst r) (snd r) haves)) rs.

Definition other_haves (other : sstate) (a head : Z) : iset :=
  let h0 := [(1, head)] in
  let h1 := match zget a (ss_need other) with Some ns => rem_all ns h0 | None => h0 end in
  match zget a (ss_partial other) with
  | Some ps => rem_all (map (fun p => (fst p, fst p)) ps) h1
  | None => h1
  end.

Definition needs_for (us other : sstate) (a head : Z) : list need :=
  let haves := other_haves other a head in
  let fulls :=
    match zget a (ss_need us) with
    | Some our => map (fun r => Full (fst r) (snd r)) (clip haves our)
    | None => []
    end in
  let partials :=
    match zget a (ss_partial us) with
    | None => []
    | Some ours =>
      flat_map (fun vs : Z * list (Z * Z) =>
        let (v, seqs) := vs in
        if memb v haves then [Partial v seqs]
        else match (match zget a (ss_partial other) with Some m => zget v m | None => None end) with
             | None => []
             | Some other_seqs =>
               match omaxz (max_end other_seqs) (max_end seqs) with
               | None => []
               | Some e =>
                 let sh := rem_all other_seqs [(0, e)] in
                 match clip sh seqs with
                 | [] => []
                 | l => [Partial v l]
                 end
               end
             end) ours
    end in
  let missing :=
    match zget a (ss_heads us) with
    | Some our_head => if our_head <? head then [Full (our_head + 1) head] else []
    | None => [Full 1 head]
    end in
  fulls ++ partials ++ missing.

Definition compute_available_needs (us other : sstate) : list (Z * list need) :=
  flat_map (fun ah : Z * Z =>
    let (a, head) := ah in
    if a =? ss_actor us then []
    else if head =? 0 then []
    else match needs_for us other a head with
         | [] => []
         | l => [(a, l)]
         end) (ss_heads other).

(* ---------- denotations ---------------------------------------------------- *)
Definition req_full (out : list (Z * list need)) (a v : Z) : Prop :=
  exists l s e, In (a, l) out /\ In (Full s e) l /\ s <= v <= e.

Definition req_seq (out : list (Z * list need)) (a v q : Z) : Prop :=
  exists l seqs, In (a, l) out /\ In (Partial v seqs) l /\ mem q seqs.

(* ---------- decidable oracle (on implementation output) --------------------- *)
Definition req_full_b (out : list (Z * list need)) (a v : Z) : bool :=
  existsb (fun al => (fst al =? a) &&
     existsb (fun n => match n with Full s e => (s <=? v) && (v <=? e) | _ => false end) (snd al)) out.

Definition req_seq_b (out : list (Z * list need)) (a v q : Z) : bool :=
  existsb (fun al => (fst al =? a) &&
     existsb (fun n => match n with Partial v' seqs => (v' =? v) && memb q seqs | _ => false end) (snd al)) out.

Definition peer_holds_b (other : sstate) (a v : Z) : bool :=
  match zget a (ss_heads other) with
  | None => false
  | Some head =>
    (1 <=? v) && (v <=? head) &&
    negb (match zget a (ss_need other) with Some ns => memb v ns | None => false end) &&
    negb (match zget a (ss_partial other) with
          | Some ps => existsb (fun p => fst p =? v) ps | None => false end)
  end.

Definition we_lack_b (us : sstate) (a v : Z) : bool :=
  match zget a (ss_heads us) with
  | None => true
  | Some h => (h <? v) || match zget a (ss_need us) with Some ns => memb v ns | None => false end
  end.

Definition zrange (lo hi : Z) : list Z := map (fun i => lo + Z.of_nat i) (seq 0 (Z.to_nat (hi - lo + 1))).

(* bounded sweep of the property over versions 1..vmax and seqs 0..qmax *)
Definition check_needs (us other : sstate) (out : list (Z * list need)) (vmax qmax : Z) : bool :=
  let actors := map fst (ss_heads other) ++ map fst out in
  forallb (fun a =>
    (* never asks for own versions; stays within the advertised head *)
    (if a =? ss_actor us then negb (existsb (fun al => fst al =? a) out) else true) &&
    forallb (fun v =>
      let head := match zget a (ss_heads other) with Some h => h | None => 0 end in
      (if req_full_b out a v then (1 <=? v) && (v <=? head) else true) &&
      (* completeness for fully held versions *)
      (if negb (a =? ss_actor us) && peer_holds_b other a v && we_lack_b us a v
       then req_full_b out a v else true) &&
      (* partial on our side *)
      match (match zget a (ss_partial us) with Some m => zget v m | None => None end) with
      | None => forallb (fun q => negb (req_seq_b out a v q)) (zrange 0 qmax)
      | Some ours =>
        forallb (fun q =>
          (if req_seq_b out a v q then memb q ours && (v <=? head) else true) &&
          (if negb (a =? ss_actor us) && memb q ours && peer_holds_b other a v
           then req_seq_b out a v q else true) &&
          (match (match zget a (ss_partial other) with Some m => zget v m | None => None end) with
           | Some theirs =>
             if negb (a =? ss_actor us) && negb (head =? 0) && (v <=? head) && (1 <=? v) &&
                negb (match zget a (ss_need other) with Some ns => memb v ns | None => false end) &&
                memb q ours && negb (memb q theirs) &&
                match omaxz (max_end theirs) (max_end ours) with Some e => q <=? e | None => false end
             then req_seq_b out a v q else true
           | None => true
           end)) (zrange 0 qmax)
      end) (zrange 0 (vmax + 1))) actors.
