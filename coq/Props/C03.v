(* C03 — A remote transaction becomes visible atomically, exactly when all chunks arrived.
   Models: Model/SeqRows.v, Model/Partial.v.  Proofs: Proofs/SeqRowsProofs.v. *)
From Coq Require Import List ZArith Bool Lia.
From Corro Require Import Lib.Ivl Model.Book Model.SeqRows Model.Partial Proofs.BookProofs Proofs.SeqRowsProofs.
Import ListNotations.
Open Scope Z_scope.

(* the WHERE clause of the seq-range DELETE selects exactly the rows that
   overlap or are adjacent to the incoming range *)
Theorem C03_delete_predicate : forall rs re s e,
  0 <= rs <= re -> 0 <= s <= e ->
  (seq_del_pred rs re s e = true <-> rs <= e + 1 /\ s - 1 <= re).
Proof. exact seq_del_pred_spec. Qed.
Print Assumptions C03_delete_predicate.

(* one chunk, from ANY row state satisfying the invariant: the failsafe does
   not fire, the INSERT does not conflict, and the rows become the canonical
   list denoting old ranges ∪ the chunk's range *)
Theorem C03_seq_rows_step : forall rows s e last,
  rows_ok rows -> 0 <= s <= e ->
  exists rows' a b,
    incomplete_rows rows s e last = IncOk rows' [(a, b)] /\
    rows_ok rows' /\ rset rows' = ins s e (rset rows) /\
    a <= s /\ e <= b /\ In (a, b) (rset rows').
Proof. exact incomplete_rows_ok. Qed.
Print Assumptions C03_seq_rows_step.
