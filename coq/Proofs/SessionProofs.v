(* Composition C02 -> C04: what a node advertises is the exact partition of its bookkeeping
   (C02), and the requests it computes from two advertisements cover exactly what the peer
   holds and it lacks (C04).  Together: for every two bookkeeping states satisfying the
   invariant, every version the server holds and the requester lacks is requested in full, and
   for a version the requester holds partially the requested seqs are exactly its missing ones. *)
From Coq Require Import List ZArith Bool Lia.
From Corro Require Import Lib.Ivl Model.Book Model.BookOps Model.Needs Gen.Consts Proofs.BookProofs Proofs.NeedsProofs.
Import ListNotations.
Open Scope Z_scope.

(* the SyncStateV1 of a node, restricted to one origin actor a *)
Definition ss_of (me a : Z) (o : option adv) : sstate :=
  match o with
  | None => mkSstate me [] [] []
  | Some x => mkSstate me [(a, a_head x)] [(a, a_need x)] [(a, a_partial x)]
  end.

Lemma aget_none_notin {V} (m : list (Z * V)) v : aget v m = None -> forall q, ~ In (v, q) m.
Proof.
  induction m as [|[k x] t IH]; cbn [aget]; [intros _ q []|].
  destruct (v =? k) eqn:E; [discriminate|]. intros H q [Hin|Hin].
  - injection Hin as -> _. rewrite Z.eqb_refl in E. discriminate.
  - exact (IH H q Hin).
Qed.

Lemma keys_sorted_nodup : forall (m : list (Z * partial)) lo, keys_sorted lo m = true -> NoDup (map fst m) /\ forall k, In k (map fst m) -> lo <= k.
Proof.
  induction m as [|[k p] t IH]; intros lo H; cbn [keys_sorted map fst] in *; [split; [constructor|intros k []]|].
  apply andb_true_iff in H. destruct H as [H1 H2]. apply Z.leb_le in H1.
  destruct (IH (k + 1) H2) as [Hnd Hlow]. split.
  - constructor; [|exact Hnd]. intros Hin. specialize (Hlow k Hin). lia.
  - intros k0 [<-|Hin]; [exact H1|]. specialize (Hlow k0 Hin). lia.
Qed.

Lemma wf_ss_of me a b rs : Inv b rs -> wf_state (ss_of me a (sync_actor b)).
Proof.
  intros [HcN Hrows HM Hrange Hpart Hkeys]. unfold sync_actor.
  destruct (maxv b) as [head|] eqn:Em; cbn [ss_of].
  - constructor; cbn [ss_heads ss_need ss_partial a_head a_need a_partial].
    + unfold uniq_keys. cbn. constructor; [intros []|constructor].
    + intros a0 h [H|[]]. injection H as _ <-. cbn in HM. exact HM.
    + intros a0 ns H. cbn [zget] in H. destruct (a0 =? a); [|discriminate]. injection H as <-.
      apply canonical_ranges_ok, HcN.
    + intros a0 ps H. cbn [zget] in H. destruct (a0 =? a); [|discriminate]. injection H as <-.
      unfold uniq_keys. rewrite map_map. cbn [fst].
      pose proof (keys_sorted_filter (fun kv => negb (is_complete (snd kv))) (partials b) 1 Hkeys) as Hf.
      exact (proj1 (keys_sorted_nodup _ _ Hf)).
  - constructor; cbn; [constructor|intros a0 h []|intros a0 ns H; discriminate|intros a0 ps H; discriminate].
Qed.

Theorem request_covers_what_peer_holds meA meB a bA rsA bB rsB v :
  partial_full_range_start = 0 ->
  Inv bA rsA -> Inv bB rsB -> a <> meA -> 1 <= v ->
  classify bB v = Held ->
  (classify bA v = Needed \/ classify bA v = Beyond) ->
  req_full (compute_available_needs (ss_of meA a (sync_actor bA)) (ss_of meB a (sync_actor bB))) a v.
Proof.
  intros Hfr HIA HIB Hne Hv HB HA.
  assert (Hme : ss_actor (ss_of meA a (sync_actor bA)) = meA) by (destruct (sync_actor bA); reflexivity).
  apply needs_complete_full; [apply (wf_ss_of _ _ _ rsB), HIB|rewrite Hme; exact Hne| |].
  - (* the peer advertises v as held *)
    destruct (adv_exact bB rsB v Hfr HIB Hv) as [Hadv _]. rewrite HB in Hadv.
    unfold adv_class in Hadv. destruct (sync_actor bB) as [x|] eqn:Ex; [|discriminate].
    destruct (negb (v <=? a_head x)) eqn:E1; [discriminate|]. apply negb_false_iff, Z.leb_le in E1.
    destruct (memb v (a_need x)) eqn:E2; [discriminate|].
    destruct (aget v (a_partial x)) as [q|] eqn:E3; [discriminate|].
    cbn [ss_of]. exists (a_head x). cbn [ss_heads ss_need ss_partial].
    split; [left; reflexivity|]. split; [lia|]. split.
    + intros (ns & Hz & Hm). cbn [zget] in Hz. rewrite Z.eqb_refl in Hz. injection Hz as <-.
      apply memb_iff in Hm. congruence.
    + intros (ps & Hz & q & Hin). cbn [zget] in Hz. rewrite Z.eqb_refl in Hz. injection Hz as <-.
      exact (aget_none_notin _ _ E3 q Hin).
  - (* we advertise v as lacking *)
    destruct (adv_exact bA rsA v Hfr HIA Hv) as [Hadv _].
    unfold adv_class in Hadv. unfold we_lack. destruct (sync_actor bA) as [y|] eqn:Ey; cbn [ss_of ss_heads ss_need].
    + cbn [zget]. rewrite Z.eqb_refl.
      destruct (negb (v <=? a_head y)) eqn:E1.
      * right. left. exists (a_head y). split; [reflexivity|]. apply negb_true_iff, Z.leb_gt in E1. exact E1.
      * destruct (memb v (a_need y)) eqn:E2.
        -- right. right. exists (a_need y). split; [reflexivity|apply memb_iff, E2].
        -- exfalso. destruct (aget v (a_partial y)); rewrite <- Hadv in HA; destruct HA; discriminate.
    + left. reflexivity.
Qed.

Lemma aget_in_g {V} (m : list (Z * V)) k v : aget k m = Some v -> In (k, v) m.
Proof.
  induction m as [|[k' v'] t IH]; cbn [aget]; [discriminate|].
  destruct (k =? k') eqn:E; [apply Z.eqb_eq in E; subst; intros H; injection H as <-; left; reflexivity|].
  intros H. right. apply IH, H.
Qed.

(* a version the requester holds partially and the server holds fully: the requested
   sequence numbers are exactly the ones the requester is missing *)
Theorem partial_request_is_exactly_the_missing_seqs meA meB a bA rsA bB rsB v p q :
  partial_full_range_start = 0 ->
  Inv bA rsA -> Inv bB rsB -> a <> meA -> 1 <= v ->
  classify bB v = Held -> classify bA v = PartialC -> aget v (partials bA) = Some p ->
  (req_seq (compute_available_needs (ss_of meA a (sync_actor bA)) (ss_of meB a (sync_actor bB))) a v q
   <-> mem q (gaps 0 (p_last p) (p_seqs p))).
Proof.
  intros Hfr HIA HIB Hne Hv HB HA Hp.
  assert (Hme : ss_actor (ss_of meA a (sync_actor bA)) = meA) by (destruct (sync_actor bA); reflexivity).
  destruct (adv_exact bA rsA v Hfr HIA Hv) as [_ Hpart].
  destruct (Hpart HA) as (p' & Hp' & y & Hy & Hg). rewrite Hp in Hp'. injection Hp' as <-.
  pose proof (wf_ss_of meA a bA rsA HIA) as HwfA. rewrite Hy in HwfA.
  apply (needs_partial_held _ _ a v (gaps 0 (p_last p) (p_seqs p)) (a_partial y)).
  - apply (wf_ss_of _ _ _ rsB), HIB.
  - rewrite Hme. exact Hne.
  - rewrite Hy. cbn [ss_of ss_partial zget]. rewrite Z.eqb_refl. reflexivity.
  - apply (wf_partial_keys _ HwfA a). cbn [ss_of ss_partial zget]. rewrite Z.eqb_refl. reflexivity.
  - apply aget_in_g, Hg.
  - destruct (adv_exact bB rsB v Hfr HIB Hv) as [Hadv _]. rewrite HB in Hadv.
    unfold adv_class in Hadv. destruct (sync_actor bB) as [x|] eqn:Ex; [|discriminate].
    destruct (negb (v <=? a_head x)) eqn:E1; [discriminate|]. apply negb_false_iff, Z.leb_le in E1.
    destruct (memb v (a_need x)) eqn:E2; [discriminate|].
    destruct (aget v (a_partial x)) as [q0|] eqn:E3; [discriminate|].
    cbn [ss_of]. exists (a_head x). cbn [ss_heads ss_need ss_partial].
    split; [left; reflexivity|]. split; [lia|]. split.
    + intros (ns & Hz & Hm). cbn [zget] in Hz. rewrite Z.eqb_refl in Hz. injection Hz as <-.
      apply memb_iff in Hm. congruence.
    + intros (ps & Hz & q1 & Hin). cbn [zget] in Hz. rewrite Z.eqb_refl in Hz. injection Hz as <-.
      exact (aget_none_notin _ _ E3 q1 Hin).
Qed.
