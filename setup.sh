#!/bin/sh
# Run once after a fresh restore (offline): cold-build the Coq development,
# the extracted model driver and the Rust harness. Checks are incremental.
set -e
cd "$(dirname "$0")"
export CARGO_NET_OFFLINE=true
python3 - <<'PY'
import sys, os
sys.path.insert(0, os.path.join(os.getcwd(), "tools"))
import vlib
f = vlib.run_translators()
if f: print("translator failures:", f)
vlib.coq_project()
rc, out = vlib.sh(["make", "-j%d" % vlib.NCPU], cwd=vlib.COQ, timeout=3000)
print(out[-2000:])
if rc != 0: sys.exit("coq build failed")
ok, log = vlib.build_modelrun()
print("modelrun:", ok, log[-500:])
if not ok: sys.exit(1)
ok, log = vlib.build_harness()
print("harness:", ok, log[-500:])
if not ok: sys.exit(1)
ok, log = vlib.build_cli()
print("corrosion cli:", ok, log[-300:])
if not ok: sys.exit(1)
PY
