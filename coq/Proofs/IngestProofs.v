From Coq Require Import List ZArith Bool Lia FinFun.
From Corro Require Import Lib.Ivl Model.Ingest.
Import ListNotations.
Open Scope Z_scope.

Lemma key_eqb_eq a b : key_eqb a b = true <-> a = b.
Proof.
  destruct a, b; unfold key_eqb; cbn. rewrite andb_true_iff, !Z.eqb_eq.
  split; [intros [-> ->]; reflexivity|inversion 1; auto].
Qed.
Lemma key_eqb_refl a : key_eqb a a = true.
Proof. apply key_eqb_eq; reflexivity. Qed.
Lemma key_eqb_neq a b : a <> b -> key_eqb a b = false.
Proof. intros H. destruct (key_eqb a b) eqn:E; [apply key_eqb_eq in E; contradiction|reflexivity]. Qed.

(* ---------- the seen map ---------------------------------------------------- *)
Lemma sget_sset_same s k v : sget k (sset k v s) = Some v.
Proof.
  induction s as [|[k' v'] s IH]; cbn; [rewrite key_eqb_refl; reflexivity|].
  destruct (key_eqb k k') eqn:E; cbn; [rewrite key_eqb_refl; reflexivity|rewrite E; exact IH].
Qed.
Lemma sget_sset_other s k k' v : k' <> k -> sget k' (sset k v s) = sget k' s.
Proof.
  intros Hne. induction s as [|[k0 v0] s IH]; cbn.
  - rewrite (key_eqb_neq _ _ Hne). reflexivity.
  - destruct (key_eqb k k0) eqn:E.
    + apply key_eqb_eq in E. subst. cbn. rewrite (key_eqb_neq _ _ Hne). reflexivity.
    + cbn. destruct (key_eqb k' k0); [reflexivity|exact IH].
Qed.
Lemma sget_sdel_same s k : sget k (sdel k s) = None.
Proof.
  induction s as [|[k0 v0] s IH]; cbn; [reflexivity|].
  destruct (key_eqb k k0) eqn:E; [exact IH|cbn; rewrite E; exact IH].
Qed.
Lemma sget_sdel_other s k k' : k' <> k -> sget k' (sdel k s) = sget k' s.
Proof.
  intros Hne. induction s as [|[k0 v0] s IH]; cbn; [reflexivity|].
  destruct (key_eqb k k0) eqn:E.
  - apply key_eqb_eq in E. subst. rewrite (key_eqb_neq _ _ Hne). exact IH.
  - cbn. destruct (key_eqb k' k0); [reflexivity|exact IH].
Qed.

Lemma sget_skipn : forall n s k v, NoDup (map fst s) -> sget k (skipn n s) = Some v -> sget k s = Some v.
Proof.
  induction n as [|n IH]; intros s k v Hnd H; [exact H|].
  destruct s as [|[k0 v0] s]; [exact H|]. cbn [skipn] in H. cbn [map] in Hnd. inversion Hnd as [|? ? Hn Hnd']; subst.
  specialize (IH s k v Hnd' H). cbn. destruct (key_eqb k k0) eqn:E; [|exact IH].
  apply key_eqb_eq in E. subst. exfalso. apply Hn. clear -IH.
  induction s as [|[k1 v1] s IHs]; [discriminate|]. cbn in IH. destruct (key_eqb k0 k1) eqn:E.
  - apply key_eqb_eq in E. subst. left; reflexivity.
  - right. apply IHs, IH.
Qed.

Lemma keys_sset s k v : forall x, In x (map fst (sset k v s)) <-> x = k \/ In x (map fst s).
Proof.
  induction s as [|[k0 v0] s IH]; intros x; cbn; [intuition congruence|].
  destruct (key_eqb k k0) eqn:E.
  - apply key_eqb_eq in E. subst. cbn. intuition congruence.
  - cbn. rewrite IH. intuition congruence.
Qed.
Lemma nodup_sset s k v : NoDup (map fst s) -> NoDup (map fst (sset k v s)).
Proof.
  induction s as [|[k0 v0] s IH]; intros H; cbn; [constructor; [intros []|constructor]|].
  cbn in H. inversion H as [|? ? Hn Hnd]; subst.
  destruct (key_eqb k k0) eqn:E.
  - apply key_eqb_eq in E. subst. cbn. constructor; assumption.
  - cbn. constructor; [|apply IH, Hnd]. rewrite keys_sset. intros [->|Hin]; [rewrite key_eqb_refl in E; discriminate|contradiction].
Qed.
Lemma keys_sdel s k : forall x, In x (map fst (sdel k s)) -> In x (map fst s).
Proof.
  induction s as [|[k0 v0] s IH]; intros x; cbn; [tauto|].
  destruct (key_eqb k k0); cbn; [intros H; right; apply IH, H|intros [->|H]; [left; reflexivity|right; apply IH, H]].
Qed.
Lemma nodup_sdel s k : NoDup (map fst s) -> NoDup (map fst (sdel k s)).
Proof.
  induction s as [|[k0 v0] s IH]; intros H; cbn; [constructor|].
  cbn in H. inversion H as [|? ? Hn Hnd]; subst.
  destruct (key_eqb k k0); [apply IH, Hnd|]. cbn. constructor; [|apply IH, Hnd].
  intros Hin. apply Hn. eapply keys_sdel. exact Hin.
Qed.

(* ---------- well-formed changes --------------------------------------------- *)
Definition wf_chg (c : chg) : Prop :=
  g_lo c <= g_hi c /\
  match g_seqs c with Some (s, e) => g_lo c = g_hi c /\ 0 <= s <= e | None => True end.

Lemma In_versions c v : In v (versions_of c) <-> g_lo c <= v <= g_hi c.
Proof.
  unfold versions_of. rewrite in_map_iff. split.
  - intros (i & <- & Hi). apply in_seq in Hi. lia.
  - intros H. exists (Z.to_nat (v - g_lo c)). split; [lia|]. apply in_seq. lia.
Qed.

Lemma about_iff a v c : about a v c = true <-> g_actor c = a /\ g_lo c <= v <= g_hi c.
Proof. unfold about. rewrite !andb_true_iff, Z.eqb_eq, !Z.leb_le. tauto. Qed.

Lemma carries_iff a v q c : carries a v q c = true <->
  g_actor c = a /\ g_lo c <= v <= g_hi c /\ exists s e, g_seqs c = Some (s, e) /\ s <= q <= e.
Proof.
  unfold carries. rewrite andb_true_iff, about_iff. destruct (g_seqs c) as [[s e]|].
  - rewrite andb_true_iff, !Z.leb_le. split.
    + intros [[H1 H2] H3]. repeat split; try tauto. exists s, e. split; [reflexivity|lia].
    + intros (H1 & H2 & s' & e' & E & H3). injection E as <- <-. tauto.
  - split; [intros [_ H]; discriminate|intros (_ & _ & s & e & E & _); discriminate].
Qed.

(* ---------- the invariant relative to a list of live changes ----------------- *)
Definition InvOn (L : list chg) (s : seen_t) : Prop :=
  NoDup (map fst s) /\
  forall a v ss, sget (a, v) s = Some ss ->
    canonical ss /\
    (exists c, In c L /\ about a v c = true) /\
    (forall q, mem q ss -> exists c, In c L /\ carries a v q c = true).

(* entries of (forget s d): either untouched, or reduced by d's seqs *)
Lemma forget_spec : forall d s, wf_chg d -> NoDup (map fst s) ->
  NoDup (map fst (forget s d)) /\
  forall a v ss', sget (a, v) (forget s d) = Some ss' ->
    exists ss, sget (a, v) s = Some ss /\
      ((a <> g_actor d \/ ~ (g_lo d <= v <= g_hi d)) /\ ss' = ss \/
       (a = g_actor d /\ g_lo d <= v <= g_hi d /\
        exists s0 e0, g_seqs d = Some (s0, e0) /\ ss' = rem s0 e0 ss /\ ss' <> [])).
Proof.
  intros d s Hwf Hnd. unfold forget.
  assert (Hgen : forall vs s0, NoDup (map fst s0) ->
     (forall v, In v vs -> g_lo d <= v <= g_hi d) -> NoDup vs ->
     let s1 := fold_left (fun s v =>
        let k := (g_actor d, v) in
        match sget k s with
        | None => s
        | Some ss => match g_seqs d with
                     | Some (a, b) => let ss' := rem a b ss in match ss' with [] => sdel k s | _ => sset k ss' s end
                     | None => sdel k s end
        end) vs s0 in
     NoDup (map fst s1) /\
     forall a v ss', sget (a, v) s1 = Some ss' ->
       exists ss, sget (a, v) s0 = Some ss /\
         ((a <> g_actor d \/ ~ In v vs) /\ ss' = ss \/
          (a = g_actor d /\ In v vs /\ exists s0' e0, g_seqs d = Some (s0', e0) /\ ss' = rem s0' e0 ss /\ ss' <> []))).
  { induction vs as [|v0 vs IH]; intros s0 Hnd0 Hin Hndv; cbn [fold_left].
    - split; [exact Hnd0|]. intros a v ss' H. exists ss'. split; [exact H|]. left. split; [right; intros []|reflexivity].
    - inversion Hndv as [|? ? Hv0 Hndv']; subst.
      set (k0 := (g_actor d, v0)).
      set (s0' := match sget k0 s0 with
                  | None => s0
                  | Some ss => match g_seqs d with
                               | Some (a, b) => match rem a b ss with [] => sdel k0 s0 | _ => sset k0 (rem a b ss) s0 end
                               | None => sdel k0 s0 end end).
      assert (Hnd' : NoDup (map fst s0')).
      { unfold s0'. destruct (sget k0 s0); [|exact Hnd0]. destruct (g_seqs d) as [[a b]|]; [|apply nodup_sdel, Hnd0].
        destruct (rem a b i); [apply nodup_sdel, Hnd0|apply nodup_sset, Hnd0]. }
      destruct (IH s0' Hnd' (fun v Hv => Hin v (or_intror Hv)) Hndv') as [Hn1 Hspec].
      split; [exact Hn1|]. intros a v ss' Hget. destruct (Hspec a v ss' Hget) as (ss1 & Hg1 & Hcase).
      (* relate sget in s0' to s0 *)
      destruct (Z.eq_dec a (g_actor d)) as [->|Ha]; [destruct (Z.eq_dec v v0) as [->|Hv]|].
      + (* the key touched first *)
        assert (~ In v0 vs) by exact Hv0.
        destruct Hcase as [[_ ->]|(_ & Hinv & _)]; [|contradiction].
        unfold s0' in Hg1. fold k0 in Hg1.
        destruct (sget k0 s0) as [ss0|] eqn:E0; [|congruence].
        destruct (g_seqs d) as [[sa sb]|] eqn:Es; [|rewrite sget_sdel_same in Hg1; discriminate].
        destruct (rem sa sb ss0) eqn:Er; [rewrite sget_sdel_same in Hg1; discriminate|].
        rewrite sget_sset_same in Hg1. injection Hg1 as <-.
        exists ss0. split; [exact E0|]. right. split; [reflexivity|]. split; [left; reflexivity|].
        exists sa, sb. split; [reflexivity|]. split; [symmetry; exact Er|discriminate].
      + assert (Hk : (g_actor d, v) <> k0) by (unfold k0; intros E; injection E as E; contradiction).
        assert (Hsame : sget (g_actor d, v) s0' = sget (g_actor d, v) s0).
        { unfold s0'. destruct (sget k0 s0); [|reflexivity]. destruct (g_seqs d) as [[sa sb]|]; [|apply sget_sdel_other, Hk].
          destruct (rem sa sb i); [apply sget_sdel_other, Hk|apply sget_sset_other, Hk]. }
        rewrite Hsame in Hg1. exists ss1. split; [exact Hg1|].
        destruct Hcase as [[Hc ->]|(Ha' & Hinv & Hrest)].
        * left. split; [|reflexivity]. destruct Hc as [Hc|Hc]; [left; exact Hc|right; intros [E|E]; [congruence|contradiction]].
        * right. split; [reflexivity|]. split; [right; exact Hinv|exact Hrest].
      + assert (Hk : (a, v) <> k0) by (unfold k0; intros E; injection E as E _; contradiction).
        assert (Hsame : sget (a, v) s0' = sget (a, v) s0).
        { unfold s0'. destruct (sget k0 s0); [|reflexivity]. destruct (g_seqs d) as [[sa sb]|]; [|apply sget_sdel_other, Hk].
          destruct (rem sa sb i); [apply sget_sdel_other, Hk|apply sget_sset_other, Hk]. }
        rewrite Hsame in Hg1. exists ss1. split; [exact Hg1|].
        destruct Hcase as [[_ ->]|(Ha' & _)]; [left; split; [left; exact Ha|reflexivity]|contradiction]. }
  assert (Hndv : NoDup (versions_of d)).
  { unfold versions_of. apply Injective_map_NoDup; [intros x y H; lia|apply seq_NoDup]. }
  destruct (Hgen (versions_of d) s Hnd (fun v Hv => proj1 (In_versions d v) Hv) Hndv) as [H1 H2].
  split; [exact H1|]. intros a v ss' Hget. destruct (H2 a v ss' Hget) as (ss & Hg & Hcase).
  exists ss. split; [exact Hg|]. destruct Hcase as [[Hc ->]|(Ha & Hin & Hrest)].
  - left. split; [|reflexivity]. destruct Hc as [Hc|Hc]; [left; exact Hc|right; intros H; apply Hc, In_versions, H].
  - right. split; [exact Ha|]. split; [apply In_versions, Hin|exact Hrest].
Qed.

Lemma forget_inv L L' s d :
  wf_chg d -> InvOn L s ->
  (forall c, In c L -> c <> d -> In c L') ->
  InvOn L' (forget s d).
Proof.
  intros Hwf [Hnd Hinv] Hsub. destruct (forget_spec d s Hwf Hnd) as [Hnd' Hspec].
  split; [exact Hnd'|]. intros a v ss' Hget.
  destruct (Hspec a v ss' Hget) as (ss & Hg & Hcase).
  destruct (Hinv a v ss Hg) as (Hcan & (c0 & Hc0 & Hab0) & Hcar).
  destruct Hcase as [[Hc ->]|(Ha & Hv & s0 & e0 & Hs & -> & Hne)].
  - (* untouched key: no backing change can be d *)
    assert (Hnotd : forall c, about a v c = true -> c <> d).
    { intros c Hab ->. apply about_iff in Hab. destruct Hab as [Haa Hvv]. destruct Hc as [Hc|Hc]; [congruence|contradiction]. }
    split; [exact Hcan|]. split.
    + exists c0. split; [apply Hsub; [exact Hc0|apply Hnotd, Hab0]|exact Hab0].
    + intros q Hq. destruct (Hcar q Hq) as (c & Hc1 & Hc2). exists c. split; [|exact Hc2].
      apply Hsub; [exact Hc1|]. apply Hnotd. unfold carries in Hc2. apply andb_true_iff in Hc2. tauto.
  - (* key reduced by d's seqs *)
    destruct Hwf as [Hlh Hwfs]. rewrite Hs in Hwfs. destruct Hwfs as [Hlo Hse].
    destruct Hcan as [lo Hcan'].
    assert (Hcan2 : canonical (rem s0 e0 ss)) by (exists lo; apply rem_canon; [lia|exact Hcan']).
    assert (Hmem : forall q, mem q (rem s0 e0 ss) <-> mem q ss /\ ~ (s0 <= q <= e0))
      by (intros q; apply (rem_mem ss s0 e0 q lo); [lia|exact Hcan']).
    assert (Hbacked : forall q, mem q (rem s0 e0 ss) -> exists c, In c L' /\ carries a v q c = true).
    { intros q Hq. apply Hmem in Hq. destruct Hq as [Hq Hnq]. destruct (Hcar q Hq) as (c & Hc1 & Hc2).
      exists c. split; [|exact Hc2]. apply Hsub; [exact Hc1|]. intros ->.
      apply carries_iff in Hc2. destruct Hc2 as (_ & _ & s1 & e1 & E & Hr). rewrite Hs in E. injection E as <- <-. lia. }
    split; [exact Hcan2|]. split; [|exact Hbacked].
    destruct (rem s0 e0 ss) as [|[p q] t] eqn:Er; [contradiction|].
    assert (mem p ((p, q) :: t)) as Hp.
    { cbn. left. destruct Hcan2 as [l2 Hc2]. cbn in Hc2. lia. }
    destruct (Hbacked p Hp) as (c & Hc1 & Hc2). exists c. split; [exact Hc1|].
    unfold carries in Hc2. apply andb_true_iff in Hc2. tauto.
Qed.

(* recording an accepted change c that is (now) live *)
Lemma record_inv L s c :
  wf_chg c -> InvOn L s -> In c L -> InvOn L (record s c).
Proof.
  intros Hwf Hinv HcL. unfold record.
  assert (Hgen : forall vs s0, InvOn L s0 -> (forall v, In v vs -> g_lo c <= v <= g_hi c) ->
     InvOn L (fold_left (fun s v =>
        let k := (g_actor c, v) in
        let cur := match sget k s with Some ss => ss | None => [] end in
        sset k (match g_seqs c with Some (a, b) => ins a b cur | None => cur end) s) vs s0)).
  { induction vs as [|v0 vs IH]; intros s0 Hi Hin; cbn [fold_left]; [exact Hi|].
    apply IH; [|intros v Hv; apply Hin; right; exact Hv].
    destruct Hi as [Hnd Hi]. split; [apply nodup_sset, Hnd|].
    intros a v ss Hget. set (k0 := (g_actor c, v0)) in *.
    destruct (Z.eq_dec a (g_actor c)) as [->|Ha]; [destruct (Z.eq_dec v v0) as [->|Hv]|].
    - fold k0 in Hget. rewrite sget_sset_same in Hget. injection Hget as <-.
      specialize (Hin v0 (or_introl eq_refl)).
      assert (Hcur : let cur := match sget k0 s0 with Some ss => ss | None => [] end in
                     canonical cur /\ forall q, mem q cur -> exists c', In c' L /\ carries (g_actor c) v0 q c' = true).
      { destruct (sget k0 s0) as [ss0|] eqn:E0; cbn.
        - destruct (Hi _ _ _ E0) as (H1 & _ & H3). split; assumption.
        - split; [apply canonical_nil|intros q []]. }
      cbn in Hcur. destruct Hcur as [Hcc Hcq].
      assert (Habout : about (g_actor c) v0 c = true) by (apply about_iff; split; [reflexivity|exact Hin]).
      destruct (g_seqs c) as [[sa sb]|] eqn:Es.
      + destruct Hwf as [_ Hw]. rewrite Es in Hw. destruct Hw as [_ Hse].
        split; [apply ins_canonical; [lia|exact Hcc]|]. split; [exists c; split; assumption|].
        intros q Hq. apply ins_mem in Hq; [|lia]. destruct Hq as [Hq|Hq]; [|apply Hcq, Hq].
        exists c. split; [exact HcL|]. apply carries_iff. split; [reflexivity|]. split; [exact Hin|].
        exists sa, sb. split; [exact Es|exact Hq].
      + split; [exact Hcc|]. split; [exists c; split; assumption|exact Hcq].
    - assert ((g_actor c, v) <> k0) by (unfold k0; intros E; injection E as E; contradiction).
      rewrite sget_sset_other in Hget by assumption. apply Hi, Hget.
    - assert ((a, v) <> k0) by (unfold k0; intros E; injection E as E _; contradiction).
      rewrite sget_sset_other in Hget by assumption. apply Hi, Hget. }
  apply Hgen; [exact Hinv|]. intros v Hv. apply In_versions, Hv.
Qed.

Lemma InvOn_mono L L' s : InvOn L s -> (forall c, In c L -> In c L') -> InvOn L' s.
Proof.
  intros [Hnd Hi] Hsub. split; [exact Hnd|]. intros a v ss Hg.
  destruct (Hi a v ss Hg) as (H1 & (c & Hc & Ha) & H3). split; [exact H1|]. split; [exists c; split; [apply Hsub, Hc|exact Ha]|].
  intros q Hq. destruct (H3 q Hq) as (c' & Hc' & Hc2). exists c'. split; [apply Hsub, Hc'|exact Hc2].
Qed.

(* ---------- every step preserves the invariant ------------------------------- *)
Definition SeenInv (st : ist) : Prop := InvOn (live st) (seen st).

Definition op_wf (op : iop) : Prop := match op with Offer c => wf_chg c | _ => True end.

Definition all_wf (st : ist) : Prop := forall c, In c (live st) -> wf_chg c.

Lemma In_remove_nth {A} (l : list A) : forall i x, In x (remove_nth i l) -> In x l.
Proof.
  induction l as [|y l IH]; intros i x H; [destruct i; exact H|].
  destruct i as [|i]; cbn in H; [right; exact H|]. destruct H as [->|H]; [left; reflexivity|right; eapply IH, H].
Qed.

Lemma In_concat_remove_nth (l : list (list chg)) : forall i b x, nth_error l i = Some b ->
  In x (concat l) -> In x b \/ In x (concat (remove_nth i l)).
Proof.
  induction l as [|y l IH]; intros i b x Hn Hin; [destruct i; discriminate|].
  destruct i as [|i]; cbn in *.
  - injection Hn as ->. apply in_app_iff in Hin. tauto.
  - apply in_app_iff in Hin. destruct Hin as [Hin|Hin]; [right; apply in_app_iff; left; exact Hin|].
    destruct (IH i b x Hn Hin) as [H|H]; [left; exact H|right; apply in_app_iff; right; exact H].
Qed.

Lemma forget_batch_inv : forall b L L' s,
  (forall c, In c b -> wf_chg c) -> InvOn L s ->
  (forall c, In c L -> ~ In c b -> In c L') ->
  InvOn L' (fold_left forget b s).
Proof.
  induction b as [|d b IH]; intros L L' s Hwf Hinv Hsub; cbn [fold_left].
  - eapply InvOn_mono; [exact Hinv|]. intros c Hc. apply Hsub; [exact Hc|intros []].
  - apply (IH (L' ++ b)); [intros c Hc; apply Hwf; right; exact Hc| |].
    + eapply (forget_inv L); [apply Hwf; left; reflexivity|exact Hinv|].
      intros c Hc Hne. apply in_app_iff.
      destruct (in_dec (fun x y : chg => ltac:(decide equality; try apply Z.eq_dec;
                 decide equality; decide equality; apply Z.eq_dec)) c b) as [Hb|Hb]; [right; exact Hb|left].
      apply Hsub; [exact Hc|]. intros [E|E]; [congruence|contradiction].
    + intros c Hc Hnb. apply in_app_iff in Hc. destruct Hc as [Hc|Hc]; [exact Hc|contradiction].
Qed.

Theorem istep_inv self maxq st op :
  SeenInv st -> all_wf st -> op_wf op ->
  SeenInv (istep self maxq st op) /\ all_wf (istep self maxq st op).
Proof.
  intros Hinv Hwf Hop. destruct op as [c|n|i ok|keep]; cbn [istep].
  - (* Offer *)
    cbn in Hop. unfold offer.
    destruct (g_actor c =? self); [split; assumption|].
    destruct (seen_dup (seen st) c); [split; assumption|].
    destruct (known (bk st) c); [split; assumption|].
    unfold SeenInv, all_wf, live in *.
    destruct (maxq <=? Z.of_nat (length (queue st))) eqn:Eq; [destruct (queue st) as [|d q'] eqn:Equeue|]; cbn [fst queue seen inflight stored].
    + (* full but empty queue (maxq <= 0) *)
      split.
      * apply record_inv; [exact Hop| |apply in_app_iff; left; left; reflexivity].
        eapply InvOn_mono; [exact Hinv|]. intros x Hx. cbn in Hx. cbn. right. exact Hx.
      * intros x Hx. cbn in Hx. destruct Hx as [<-|Hx]; [exact Hop|apply Hwf; cbn; exact Hx].
    + (* drop the oldest *)
      split.
      * apply record_inv; [exact Hop| |apply in_app_iff; left; apply in_app_iff; right; left; reflexivity].
        apply (forget_inv ((d :: q') ++ concat (inflight st) ++ stored st)); [apply Hwf; left; reflexivity|exact Hinv|].
        intros x Hx Hne. cbn in Hx. destruct Hx as [E|Hx]; [congruence|].
        apply in_app_iff in Hx. apply in_app_iff. destruct Hx as [Hx|Hx]; [left; apply in_app_iff; left; exact Hx|right; exact Hx].
      * intros x Hx. apply in_app_iff in Hx. destruct Hx as [Hx|Hx].
        -- apply in_app_iff in Hx. destruct Hx as [Hx|[<-|[]]]; [apply Hwf; right; apply in_app_iff; left; exact Hx|exact Hop].
        -- apply Hwf. right. apply in_app_iff. right. exact Hx.
    + split.
      * apply record_inv; [exact Hop| |apply in_app_iff; left; apply in_app_iff; right; left; reflexivity].
        eapply InvOn_mono; [exact Hinv|]. intros x Hx. apply in_app_iff in Hx. apply in_app_iff.
        destruct Hx as [Hx|Hx]; [left; apply in_app_iff; left; exact Hx|right; exact Hx].
      * intros x Hx. apply in_app_iff in Hx. destruct Hx as [Hx|Hx].
        -- apply in_app_iff in Hx. destruct Hx as [Hx|[<-|[]]]; [apply Hwf; apply in_app_iff; left; exact Hx|exact Hop].
        -- apply Hwf. apply in_app_iff. right. exact Hx.
  - (* Spawn *)
    destruct (firstn n (queue st)) as [|x b] eqn:Ef; [split; assumption|].
    unfold SeenInv, all_wf, live in *. cbn [queue seen inflight stored].
    assert (Hsame : forall y, In y (skipn n (queue st) ++ concat (inflight st ++ [x :: b]) ++ stored st) <->
                              In y (queue st ++ concat (inflight st) ++ stored st)).
    { intros y. rewrite <- (firstn_skipn n (queue st)) at 2. rewrite Ef.
      rewrite concat_app. cbn [concat]. rewrite app_nil_r. rewrite !in_app_iff. tauto. }
    split; [eapply InvOn_mono; [exact Hinv|intros y Hy; apply Hsame, Hy]|intros y Hy; apply Hwf, Hsame, Hy].
  - (* Done *)
    destruct (nth_error (inflight st) i) as [b|] eqn:En; [|split; assumption].
    unfold SeenInv, all_wf, live in *. destruct ok; cbn [queue seen inflight stored].
    + assert (Hsub : forall y, In y (queue st ++ concat (inflight st) ++ stored st) ->
                               In y (queue st ++ concat (remove_nth i (inflight st)) ++ stored st ++ b)).
      { intros y Hy. rewrite !in_app_iff in *. destruct Hy as [Hy|[Hy|Hy]]; [tauto| |tauto].
        destruct (In_concat_remove_nth _ _ _ _ En Hy); tauto. }
      split; [eapply InvOn_mono; [exact Hinv|exact Hsub]|].
      intros y Hy. apply Hwf. rewrite !in_app_iff in *. destruct Hy as [Hy|[Hy|[Hy|Hy]]]; [tauto| |tauto|].
      * right; left. clear -Hy. revert i Hy. induction (inflight st) as [|z l IH]; intros i Hy; [destruct i; exact Hy|].
        destruct i; cbn in *; [apply in_app_iff; right; exact Hy|]. apply in_app_iff in Hy. apply in_app_iff.
        destruct Hy as [Hy|Hy]; [left; exact Hy|right; eapply IH, Hy].
      * right; left. apply nth_error_In in En. apply in_concat. exists b. tauto.
    + split.
      * apply (forget_batch_inv b (queue st ++ concat (inflight st) ++ stored st)).
        -- intros c Hc. apply Hwf. apply in_app_iff. right. apply in_app_iff. left.
           apply nth_error_In in En. apply in_concat. exists b. tauto.
        -- exact Hinv.
        -- intros c Hc Hnb. rewrite !in_app_iff in *. destruct Hc as [Hc|[Hc|Hc]]; [tauto| |tauto].
           destruct (In_concat_remove_nth _ _ _ _ En Hc); [contradiction|tauto].
      * intros y Hy. apply Hwf. rewrite !in_app_iff in *. destruct Hy as [Hy|[Hy|Hy]]; [tauto| |tauto].
        right; left. clear -Hy. revert i Hy. induction (inflight st) as [|z l IH]; intros i Hy; [destruct i; exact Hy|].
        destruct i; cbn in *; [apply in_app_iff; right; exact Hy|]. apply in_app_iff in Hy. apply in_app_iff.
        destruct Hy as [Hy|Hy]; [left; exact Hy|right; eapply IH, Hy].
  - (* Trim *)
    unfold SeenInv, all_wf, live in *. cbn [queue seen inflight stored]. split; [|exact Hwf].
    destruct Hinv as [Hnd Hi]. split.
    + clear -Hnd. revert Hnd. generalize (length (seen st) - keep)%nat. intros n. revert n.
      induction (seen st) as [|x l IH]; intros n H; [destruct n; exact H|].
      destruct n; [exact H|]. cbn. cbn in H. inversion H; subst. apply IH. assumption.
    + intros a v ss Hg. apply Hi. eapply sget_skipn; eassumption.
Qed.

Lemma init_inv : SeenInv ist_init /\ all_wf ist_init.
Proof.
  split.
  - split; [constructor|]. intros a v ss H. discriminate.
  - intros c [].
Qed.

Theorem irun_inv self maxq ops :
  Forall op_wf ops -> SeenInv (irun self maxq ops) /\ all_wf (irun self maxq ops).
Proof.
  unfold irun. generalize init_inv. generalize ist_init.
  induction ops as [|op ops IH]; intros st [H1 H2] Hops; [split; assumption|].
  inversion Hops; subst. cbn [fold_left]. apply IH; [|assumption]. apply istep_inv; assumption.
Qed.

(* ---------- consequences ----------------------------------------------------- *)
(* a change suppressed as "already seen" is covered by changes that are queued,
   in flight or stored by a successful batch *)
Theorem suppressed_is_live st c :
  SeenInv st -> wf_chg c -> seen_dup (seen st) c = true ->
  match g_seqs c with
  | Some (s, e) => forall q, s <= q <= e ->
      exists c', In c' (live st) /\ carries (g_actor c) (g_lo c) q c' = true
  | None => forall v, g_lo c <= v <= g_hi c ->
      exists c', In c' (live st) /\ about (g_actor c) v c' = true
  end.
Proof.
  intros [Hnd Hinv] Hwf Hdup. unfold seen_dup in Hdup. destruct (g_seqs c) as [[s e]|] eqn:Es.
  - destruct (sget (g_actor c, g_lo c) (seen st)) as [ss|] eqn:Eg; [|discriminate].
    destruct (Hinv _ _ _ Eg) as ([lo Hcan] & _ & Hcar).
    destruct Hwf as [_ Hw]. rewrite Es in Hw. destruct Hw as [_ Hse].
    destruct (gaps s e ss) eqn:Egaps; [|discriminate].
    intros q Hq. apply Hcar. eapply (proj1 (gaps_nil_iff ss s e lo Hcan ltac:(lia))); eassumption.
  - rewrite forallb_forall in Hdup. intros v Hv.
    specialize (Hdup v (proj2 (In_versions c v) Hv)).
    destruct (sget (g_actor c, v) (seen st)) as [ss|] eqn:Eg; [|discriminate].
    destruct (Hinv _ _ _ Eg) as (_ & Hab & _). exact Hab.
Qed.

(* right after a change was shed (or its batch failed) it is not a duplicate any more *)
Theorem forgotten_not_dup s d :
  wf_chg d -> NoDup (map fst s) ->
  (forall k ss, sget k s = Some ss -> canonical ss) ->
  seen_dup (forget s d) d = false.
Proof.
  intros Hwf Hnd Hcan. destruct (forget_spec d s Hwf Hnd) as [_ Hspec].
  unfold seen_dup. destruct (g_seqs d) as [[s0 e0]|] eqn:Es.
  - destruct (sget (g_actor d, g_lo d) (forget s d)) as [ss'|] eqn:Eg; [|reflexivity].
    destruct (Hspec _ _ _ Eg) as (ss & Hg & Hcase).
    destruct Hwf as [Hlh Hw]. rewrite Es in Hw. destruct Hw as [Hlo Hse].
    destruct Hcase as [[[Hc|Hc] _]|(_ & _ & s1 & e1 & E & -> & Hne)]; [congruence|exfalso; apply Hc; lia|].
    injection E as <- <-.
    destruct (Hcan _ _ Hg) as [lo Hc].
    destruct (gaps s0 e0 (rem s0 e0 ss)) eqn:Egaps; [|reflexivity]. exfalso.
    assert (Hc2 : canon_from lo (rem s0 e0 ss)) by (apply rem_canon; [lia|exact Hc]).
    pose proof (proj1 (gaps_nil_iff _ s0 e0 lo Hc2 ltac:(lia)) Egaps s0 ltac:(lia)) as Hm.
    apply (rem_mem ss s0 e0 s0 lo ltac:(lia) Hc) in Hm. lia.
  - destruct (forallb _ (versions_of d)) eqn:Ef; [|reflexivity]. exfalso.
    rewrite forallb_forall in Ef. destruct Hwf as [Hlh _].
    specialize (Ef (g_lo d) (proj2 (In_versions d (g_lo d)) ltac:(lia))).
    destruct (sget (g_actor d, g_lo d) (forget s d)) as [ss'|] eqn:Eg; [|discriminate].
    destruct (Hspec _ _ _ Eg) as (ss & Hg & Hcase).
    destruct Hcase as [[[Hc|Hc] _]|(_ & _ & s1 & e1 & E & _)]; [congruence|apply Hc; lia|discriminate].
Qed.

(* what a successful batch stores *)
Theorem done_ok_stores self maxq st i b :
  nth_error (inflight st) i = Some b ->
  forall c, In c b -> In c (stored (istep self maxq st (Done i true))).
Proof.
  intros Hn c Hc. cbn [istep]. rewrite Hn. cbn [stored]. apply in_app_iff. right. exact Hc.
Qed.

(* an accepted change is queued *)
Theorem accepted_is_queued self maxq st c d :
  snd (offer self maxq st c) = Accepted d -> In c (queue (fst (offer self maxq st c))).
Proof.
  unfold offer. destruct (g_actor c =? self); [discriminate|].
  destruct (seen_dup (seen st) c); [discriminate|]. destruct (known (bk st) c); [discriminate|].
  destruct (maxq <=? Z.of_nat (length (queue st))); [destruct (queue st)|]; cbn [fst snd queue]; intros _;
    try (apply in_app_iff; right); left; reflexivity.
Qed.
