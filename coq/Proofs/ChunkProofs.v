From Coq Require Import List ZArith Bool Lia.
From Corro Require Import Model.Chunk.
Import ListNotations.
Open Scope Z_scope.

(* ------------------------------------------------------------------ *)
(* Prop-level specification of C08 (first half: ChunkedChanges)        *)

Inductive tiles : Z -> Z -> list (Z * Z) -> Prop :=
| tiles_one a b : a <= b -> tiles a b [(a, b)]
| tiles_cons a x last rs :
    a <= x -> tiles (x + 1) last rs -> tiles a last ((a, x) :: rs).

Definition chunk_in_range (ch : chunk) : Prop :=
  Forall (fun c => fst (snd ch) <= c_seq c <= snd (snd ch)) (fst ch).

Definition chunks_spec (cs : list chg) (start last : Z) (out : list chunk) : Prop :=
  tiles start last (map snd out) /\
  concat (map fst out) = cs /\
  Forall chunk_in_range out.

(* ------------------------------------------------------------------ *)

Lemma sorted_seq_weaken a b cs : a <= b -> sorted_seq b cs = true -> sorted_seq a cs = true.
Proof.
  destruct cs as [|c cs]; cbn [sorted_seq]; intros Hab H; [reflexivity|].
  apply andb_true_iff in H as [H1 H2]. apply andb_true_iff; split; [lia|exact H2].
Qed.

Lemma sorted_seq_lower a cs :
  sorted_seq a cs = true -> Forall (fun c => a <= c_seq c) cs.
Proof.
  revert a; induction cs as [|c cs IH]; intros a H; [constructor|].
  cbn [sorted_seq] in H. apply andb_true_iff in H as [H1 H2].
  constructor; [lia|].
  apply IH in H2. eapply Forall_impl; [|exact H2]. cbn; intros; lia.
Qed.

(* what one run of the inner loop does on a well-formed remainder *)
Lemma take_spec limit lseq : forall rs size a t r e,
  take limit lseq rs size = (t, r, e) ->
  sorted_seq a rs = true ->
  forallb (fun c => c_seq c <=? lseq) rs = true ->
  rs = t ++ r /\
  Forall (fun c => a <= c_seq c) t /\
  match e with
  | None => r = []
  | Some s =>
      r <> [] /\ t <> [] /\ a <= s /\ s < lseq /\
      Forall (fun c => c_seq c <= s) t /\
      sorted_seq (s + 1) r = true /\
      forallb (fun c => c_seq c <=? lseq) r = true
  end.
Proof.
  induction rs as [|c rs IH]; intros size a t r e Ht Hs Hb.
  - cbn in Ht. injection Ht as <- <- <-. repeat split; constructor.
  - cbn [take] in Ht. cbn [sorted_seq] in Hs. cbn [forallb] in Hb.
    apply andb_true_iff in Hs as [Hs1 Hs2]. apply andb_true_iff in Hb as [Hb1 Hb2].
    destruct (c_seq c =? lseq) eqn:Heq.
    + injection Ht as <- <- <-.
      (* seq c = lseq: nothing can follow *)
      assert (rs = []) as ->.
      { destruct rs as [|c' rs']; [reflexivity|exfalso].
        cbn [sorted_seq] in Hs2. cbn [forallb] in Hb2.
        apply andb_true_iff in Hs2 as [Hx _]. apply andb_true_iff in Hb2 as [Hy _]. lia. }
      repeat split. constructor; [lia|constructor].
    + destruct (limit <=? size + c_size c) eqn:Hl.
      * destruct rs as [|c' rs'].
        -- injection Ht as <- <- <-. repeat split. constructor; [lia|constructor].
        -- injection Ht as <- <- <-.
           split; [reflexivity|]. split; [constructor; [lia|constructor]|].
           split; [discriminate|]. split; [discriminate|].
           split; [lia|]. split; [lia|].
           split; [constructor; [lia|constructor]|].
           split; assumption.
      * destruct (take limit lseq rs (size + c_size c)) as [[t' r'] e'] eqn:Hrec.
        injection Ht as <- <- <-.
        specialize (IH _ (c_seq c + 1) _ _ _ Hrec Hs2 Hb2) as (Hcat & Hlo & He).
        split; [cbn; f_equal; exact Hcat|].
        split.
        { constructor; [lia|]. eapply Forall_impl; [|exact Hlo]. cbn; intros; lia. }
        destruct e' as [s|]; [|exact He].
        destruct He as (Hr & Hne & Has & Hsl & Hup & Hsr & Hbr).
        repeat split; try assumption; try discriminate; try lia.
        constructor; [lia|exact Hup].
Qed.

Lemma take_nonempty limit lseq : forall rs size t r e, rs <> [] -> take limit lseq rs size = (t, r, e) -> t <> [].
Proof.
  intros rs size t r e Hne Ht. destruct rs as [|c rs]; [contradiction|]. cbn in Ht.
  destruct (c_seq c =? lseq); [injection Ht as <- _ _; discriminate|].
  destruct (limit <=? size + c_size c).
  - destruct rs; injection Ht as <- _ _; discriminate.
  - destruct (take limit lseq rs (size + c_size c)) as [[t' r'] e']. injection Ht as <- _ _. discriminate.
Qed.

(* while a message is being filled it is below the limit *)
Lemma take_size limit lseq : forall rs size t r e,
  take limit lseq rs size = (t, r, e) -> (2 <= length t)%nat -> size + sumsz (removelast t) < limit.
Proof.
  induction rs as [|c rs IH]; intros size t r e Ht Hl.
  - cbn in Ht. injection Ht as <- _ _. cbn in Hl. lia.
  - cbn in Ht. destruct (c_seq c =? lseq); [injection Ht as <- _ _; cbn in Hl; lia|].
    destruct (limit <=? size + c_size c) eqn:El.
    + destruct rs; injection Ht as <- _ _; cbn in Hl; lia.
    + apply Z.leb_gt in El.
      destruct (take limit lseq rs (size + c_size c)) as [[t' r'] e'] eqn:Hrec. injection Ht as <- _ _.
      destruct t' as [|c1 t'']; [cbn in Hl; lia|].
      destruct t'' as [|c2 t3].
      * cbn. lia.
      * specialize (IH (size + c_size c) (c1 :: c2 :: t3) r' e' Hrec ltac:(cbn; lia)).
        change (removelast (c :: c1 :: c2 :: t3)) with (c :: removelast (c1 :: c2 :: t3)).
        remember (removelast (c1 :: c2 :: t3)) as L.
        change (sumsz (c :: L)) with (c_size c + sumsz L). lia.
Qed.

Lemma next_size limit st ch st' : next limit st = Some (ch, st') -> size_ok_b limit ch = true.
Proof.
  unfold next. destruct (done st); [discriminate|].
  destruct (take limit (last_seq st) (rest st) 0) as [[t r] e] eqn:Ht.
  assert (H : size_ok_b limit (t, (0, 0)) = true).
  { unfold size_ok_b. cbn [fst]. destruct (Nat.leb (length t) 1) eqn:E; [reflexivity|]. cbn.
    apply Nat.leb_gt in E. apply Z.ltb_lt. pose proof (take_size _ _ _ _ _ _ _ Ht ltac:(lia)). lia. }
  destruct e; intros Hn; injection Hn as <- _; exact H.
Qed.

Theorem run_sizes : forall lims st out stf, run lims st = (out, stf) -> sizes_ok_b lims out = true.
Proof.
  induction lims as [|l lims IH]; intros st out stf Hr; cbn in Hr.
  - injection Hr as <- _. reflexivity.
  - destruct (next l st) as [[ch st']|] eqn:En; [|injection Hr as <- _; reflexivity].
    destruct (run lims st') as [chs stf'] eqn:Er. injection Hr as <- _.
    cbn. rewrite (next_size _ _ _ _ En), (IH _ _ _ Er). reflexivity.
Qed.

Lemma take_length limit lseq : forall rs size t r e,
  take limit lseq rs size = (t, r, e) -> e <> None -> (length r < length rs)%nat.
Proof.
  induction rs as [|c rs IH]; intros size t r e Ht He.
  - cbn in Ht. injection Ht as <- <- <-. contradiction.
  - cbn [take] in Ht.
    destruct (c_seq c =? lseq); [injection Ht as <- <- <-; contradiction|].
    destruct (limit <=? size + c_size c).
    + destruct rs; injection Ht as <- <- <-; [contradiction|]. cbn; lia.
    + destruct (take limit lseq rs (size + c_size c)) as [[t' r'] e'] eqn:Hrec.
      injection Ht as <- <- <-. apply IH in Hrec; [cbn; lia|assumption].
Qed.

Lemma run_spec_aux : forall n cs, (length cs <= n)%nat ->
  forall lims a last,
  (length cs < length lims)%nat ->
  a <= last ->
  sorted_seq a cs = true ->
  forallb (fun c => c_seq c <=? last) cs = true ->
  forall out stf, run lims (mkCur cs a last false) = (out, stf) ->
  done stf = true /\ chunks_spec cs a last out.
Proof.
  induction n as [|n IHn]; intros cs Hn lims a last Hl Hal Hs Hb out stf Hrun.
  - destruct cs; [|cbn in Hn; lia].
    destruct lims as [|l lims]; [cbn in Hl; lia|].
    cbn in Hrun. destruct lims; cbn in Hrun; inversion Hrun; subst; cbn.
    all: split; [reflexivity|]; repeat split; cbn; try constructor; try lia; try constructor.
  - destruct lims as [|l lims]; [cbn in Hl; lia|].
    cbn [run next done rest last_seq last_start] in Hrun.
    destruct (take l last cs 0) as [[t r] e] eqn:Ht.
    pose proof (take_spec _ _ _ _ a _ _ _ Ht Hs Hb) as (Hcat & Hlo & He).
    destruct e as [s|].
    + destruct He as (Hr & Hne & Has & Hsl & Hup & Hsr & Hbr).
      assert (length r < length cs)%nat as Hlen
        by (eapply take_length; [exact Ht|discriminate]).
      destruct (run lims (mkCur r (s + 1) last false)) as [chs stf'] eqn:Hrec.
      inversion Hrun; subst out stf; clear Hrun.
      assert (length r <= n)%nat as Hrn by lia.
      assert (length r < length lims)%nat as Hrl by (cbn in Hl; lia).
      specialize (IHn r Hrn lims (s + 1) last Hrl ltac:(lia) Hsr Hbr _ _ Hrec)
        as (Hd & Htl & Hcc & Hin).
      split; [exact Hd|].
      split; [cbn; apply tiles_cons; [lia|exact Htl]|].
      split; [cbn; rewrite Hcc; symmetry; exact Hcat|].
      constructor; [|exact Hin].
      unfold chunk_in_range; cbn.
      rewrite Forall_forall in *. intros c Hc. split; [apply Hlo|apply Hup]; exact Hc.
    + subst r. rewrite app_nil_r in Hcat. subst t.
      destruct lims as [|l' lims']; cbn in Hrun; inversion Hrun; subst; clear Hrun.
      all: split; [reflexivity|].
      all: split; [cbn; apply tiles_one; lia|].
      all: split; [cbn; apply app_nil_r|].
      all: constructor; [|constructor].
      all: unfold chunk_in_range; cbn.
      all: apply sorted_seq_lower in Hs; rewrite forallb_forall in Hb.
      all: rewrite Forall_forall in *; intros c Hc; specialize (Hs c Hc); specialize (Hb c Hc); lia.
Qed.

Lemma wf_input_split cs start last :
  wf_input cs start last = true ->
  start <= last /\ sorted_seq start cs = true /\
  forallb (fun c => c_seq c <=? last) cs = true.
Proof.
  unfold wf_input. intros H.
  apply andb_true_iff in H as [H H3]. apply andb_true_iff in H as [H1 H2].
  repeat split; try assumption. lia.
Qed.

(* Main theorem, ChunkedChanges half of C08 *)
Lemma run_tiles cs start last lims out stf :
  wf_input cs start last = true ->
  (length cs < length lims)%nat ->
  run lims (start_cursor cs start last) = (out, stf) ->
  done stf = true /\ chunks_spec cs start last out.
Proof.
  intros Hwf Hl Hrun. apply wf_input_split in Hwf as (H1 & H2 & H3).
  eapply run_spec_aux; eauto.
Qed.

(* the iterator is finished: one more call yields None *)
Lemma run_then_none cs start last lims out stf l :
  wf_input cs start last = true ->
  (length cs < length lims)%nat ->
  run lims (start_cursor cs start last) = (out, stf) ->
  next l stf = None.
Proof.
  intros Hwf Hl Hrun. destruct (run_tiles _ _ _ _ _ _ Hwf Hl Hrun) as [Hd _].
  unfold next. rewrite Hd. reflexivity.
Qed.

Lemma empty_single_chunk start last l lims :
  start <= last ->
  fst (run (l :: lims) (start_cursor [] start last)) = [([], (start, last))].
Proof. intros _. cbn. destruct lims; reflexivity. Qed.

(* ---------- the boolean oracle agrees with the Prop-level spec ------------ *)

Lemma tiles_b_iff a last rs : tiles_b a last rs = true <-> tiles a last rs.
Proof.
  revert a; induction rs as [|[x y] rs IH]; intros a.
  - cbn. split; [discriminate|inversion 1].
  - destruct rs as [|p rs'].
    + cbn [tiles_b]. rewrite !andb_true_iff. split.
      * intros [[H1 H2] H3]. assert (x = a) by lia. assert (y = last) by lia. subst.
        apply tiles_one; lia.
      * inversion 1; subst; [|match goal with H : tiles _ _ [] |- _ => inversion H end].
        repeat split; lia.
    + change (tiles_b a last ((x, y) :: p :: rs')) with
        ((x =? a) && (x <=? y) && tiles_b (y + 1) last (p :: rs')).
      rewrite !andb_true_iff, IH. split.
      * intros [[H1 H2] H3]. assert (x = a) by lia. subst. apply tiles_cons; [lia|exact H3].
      * inversion 1; subst. repeat split; try lia. assumption.
Qed.

Lemma chg_eqb_eq a b : chg_eqb a b = true <-> a = b.
Proof.
  destruct a, b; unfold chg_eqb; cbn. rewrite !andb_true_iff. split.
  - intros [[H1 H2] H3]. f_equal; lia.
  - inversion 1; subst. repeat split; lia.
Qed.

Lemma list_eqb_eq {A} (eqb : A -> A -> bool) :
  (forall a b, eqb a b = true <-> a = b) ->
  forall xs ys, list_eqb eqb xs ys = true <-> xs = ys.
Proof.
  intros Heq; induction xs as [|x xs IH]; intros [|y ys]; cbn; try (split; [discriminate|discriminate]); try tauto.
  rewrite andb_true_iff, Heq, IH. split; [intros [-> ->]; reflexivity|inversion 1; auto].
Qed.

Lemma in_range_b_iff ch : in_range_b ch = true <-> chunk_in_range ch.
Proof.
  unfold in_range_b, chunk_in_range. rewrite forallb_forall, Forall_forall.
  split; intros H c Hc; specialize (H c Hc).
  - apply andb_true_iff in H. lia.
  - apply andb_true_iff. lia.
Qed.

Lemma check_chunks_iff cs start last out :
  check_chunks cs start last out = true <-> chunks_spec cs start last out.
Proof.
  unfold check_chunks, chunks_spec.
  rewrite !andb_true_iff, tiles_b_iff, (list_eqb_eq _ chg_eqb_eq), forallb_forall, Forall_forall.
  split; intros [[H1 H2] H3] || intros (H1 & H2 & H3).
  - repeat split; try assumption. intros x Hx. apply in_range_b_iff, H3, Hx.
  - repeat split; try assumption. intros x Hx. apply in_range_b_iff, H3, Hx.
Qed.

(* ------------------------------------------------------------------ *)
(* chunk_range                                                         *)

Definition range_spec (s e : Z) (bs : list (Z * Z)) : Prop :=
  (forall b, In b bs -> s <= fst b /\ fst b <= snd b /\ snd b <= e) /\
  (forall x, s <= x <= e -> exists b, In b bs /\ fst b <= x <= snd b).

Lemma chunk_range_fuel_spec k : 1 <= k -> forall fuel s e s0,
  s0 <= s -> s <= e + k ->
  (e - s) / k + 1 <= Z.of_nat fuel ->
  (forall b, In b (chunk_range_fuel fuel s e k) -> s0 <= fst b /\ fst b <= snd b /\ snd b <= e) /\
  (forall x, s <= x <= e -> exists b, In b (chunk_range_fuel fuel s e k) /\ fst b <= x <= snd b).
Proof.
  intros Hk; induction fuel as [|f IH]; intros s e s0 Hs0 Hse Hf.
  - cbn. split; [intros b []|].
    intros x Hx. exfalso.
    assert (0 <= (e - s) / k) by (apply Z.div_pos; lia). lia.
  - cbn [chunk_range_fuel]. destruct (s <=? e) eqn:Hle.
    + assert (s <= e) by lia.
      assert ((e - (s + k)) / k + 1 <= Z.of_nat f) as Hf'.
      { replace (e - (s + k)) with ((e - s) + (-1) * k) by lia.
        rewrite Z.div_add by lia. lia. }
      specialize (IH (s + k) e s0 ltac:(lia) ltac:(lia) Hf') as [IH1 IH2].
      split.
      * intros b [<-|Hb]; [cbn; lia|apply IH1, Hb].
      * intros x Hx. destruct (Z_le_gt_dec x (s + (k - 1))) as [Hxs|Hxs].
        -- exists (s, Z.min (s + (k - 1)) e). split; [left; reflexivity|cbn; lia].
        -- destruct (IH2 x ltac:(lia)) as (b & Hb & Hbx). exists b. split; [right; exact Hb|exact Hbx].
    + split; [intros b []|]. intros x Hx. lia.
Qed.

Lemma chunk_range_spec s e k : 1 <= k -> s <= e -> range_spec s e (chunk_range s e k).
Proof.
  intros Hk Hse. unfold chunk_range, range_spec.
  apply (chunk_range_fuel_spec k Hk _ s e s); try lia.
Qed.

(* the blocks partition the range and hold at most k versions each *)
Lemma chunk_range_fuel_tiles k e : 1 <= k -> forall fuel s,
  s <= e -> (e - s) / k + 1 <= Z.of_nat fuel -> rtiles_b s e k (chunk_range_fuel fuel s e k) = true.
Proof.
  intros Hk. induction fuel as [|f IH]; intros s Hse Hf.
  - exfalso. assert (0 <= (e - s) / k) by (apply Z.div_pos; lia). lia.
  - cbn [chunk_range_fuel]. destruct (s <=? e) eqn:Hle; [|apply Z.leb_gt in Hle; lia].
    cbn [rtiles_b]. rewrite Z.eqb_refl. cbn [andb].
    assert (H1 : (s <=? Z.min (s + (k - 1)) e) = true) by (apply Z.leb_le; lia).
    assert (H2 : (Z.min (s + (k - 1)) e - s + 1 <=? k) = true) by (apply Z.leb_le; lia).
    rewrite H1, H2. cbn [andb].
    destruct (Z_lt_le_dec e (s + k)) as [Hlast|Hmore].
    + (* last block *)
      assert (Hrest : chunk_range_fuel f (s + k) e k = []).
      { destruct f; cbn; [reflexivity|]. destruct (s + k <=? e) eqn:E; [apply Z.leb_le in E; lia|reflexivity]. }
      rewrite Hrest. apply Z.eqb_eq. lia.
    + assert (Hf' : (e - (s + k)) / k + 1 <= Z.of_nat f).
      { replace (e - (s + k)) with ((e - s) + (-1) * k) by lia. rewrite Z.div_add by lia. lia. }
      specialize (IH (s + k) ltac:(lia) Hf').
      destruct (chunk_range_fuel f (s + k) e k) as [|b rest] eqn:Er; [cbn in IH; discriminate|].
      assert (Hb : (Z.min (s + (k - 1)) e <? e) = true) by (apply Z.ltb_lt; lia).
      rewrite Hb. cbn [andb].
      replace (Z.min (s + (k - 1)) e + 1) with (s + k) by lia. exact IH.
Qed.

Theorem chunk_range_tiles s e k : 1 <= k -> s <= e -> rtiles_b s e k (chunk_range s e k) = true.
Proof.
  intros Hk Hse. unfold chunk_range. apply chunk_range_fuel_tiles; [exact Hk|exact Hse|].
  rewrite Z2Nat.id; [lia|]. assert (0 <= (e - s) / k) by (apply Z.div_pos; lia). lia.
Qed.

Lemma In_zseq x s e : In x (zseq s e) <-> s <= x <= e.
Proof.
  unfold zseq. rewrite in_map_iff. split.
  - intros (i & <- & Hi). apply in_seq in Hi. lia.
  - intros Hx. exists (Z.to_nat (x - s)). split; [lia|]. apply in_seq. lia.
Qed.

Lemma check_chunk_range_iff s e bs :
  check_chunk_range s e bs = true <-> range_spec s e bs.
Proof.
  unfold check_chunk_range, range_spec, blocks_ok_b, covers_b.
  rewrite andb_true_iff, !forallb_forall. split.
  - intros [H1 H2]. split.
    + intros b Hb. specialize (H1 b Hb). rewrite !andb_true_iff in H1. lia.
    + intros x Hx. specialize (H2 x (proj2 (In_zseq x s e) Hx)).
      apply existsb_exists in H2 as (b & Hb & Hin). exists b. split; [exact Hb|].
      unfold in_block_b in Hin. apply andb_true_iff in Hin. lia.
  - intros [H1 H2]. split.
    + intros b Hb. specialize (H1 b Hb). rewrite !andb_true_iff. lia.
    + intros x Hx. apply In_zseq in Hx. destruct (H2 x Hx) as (b & Hb & Hin).
      apply existsb_exists. exists b. split; [exact Hb|].
      unfold in_block_b. apply andb_true_iff. lia.
Qed.

(* ------------------------------------------------------------------------
   What is served for EVERY input (no ordering hypothesis at all): exactly the
   prefix of the rows up to and including the first row whose seq is last_seq.
   With strictly increasing seqs that prefix is everything (run_tiles); with
   two rows under one seq = last_seq (a relay after a resurrecting merge) the
   second one is never sent -- the exact boundary of the known finding
   resurrect-duplicate-seq. *)
Fixpoint upto (lseq : Z) (cs : list chg) : list chg :=
  match cs with
  | [] => []
  | c :: cs' => if c_seq c =? lseq then [c] else c :: upto lseq cs'
  end.

Lemma take_upto limit lseq : forall rs size t r e,
  take limit lseq rs size = (t, r, e) ->
  match e with
  | None => t = upto lseq rs
  | Some _ => t ++ r = rs /\ upto lseq rs = t ++ upto lseq r /\ r <> []
  end.
Proof.
  induction rs as [|c rs IH]; intros size t r e Ht.
  - cbn in Ht. inversion Ht; subst. reflexivity.
  - cbn [take] in Ht. cbn [upto].
    destruct (c_seq c =? lseq) eqn:E1.
    + inversion Ht; subst. reflexivity.
    + destruct (limit <=? size + c_size c) eqn:E2.
      * destruct rs as [|c' rs'].
        -- inversion Ht; subst. reflexivity.
        -- inversion Ht; subst. cbn [app]. repeat split; try reflexivity. discriminate.
      * destruct (take limit lseq rs (size + c_size c)) as [[t' r'] e'] eqn:Hrec.
        inversion Ht; subst. specialize (IH _ _ _ _ Hrec).
        destruct e as [s|].
        -- destruct IH as (H1 & H2 & H3). cbn [app]. rewrite H1, H2. repeat split; auto.
        -- rewrite IH. reflexivity.
Qed.

Lemma run_serves_upto_aux : forall n cs, (length cs <= n)%nat ->
  forall lims a last, (length cs < length lims)%nat ->
  forall out stf, run lims (mkCur cs a last false) = (out, stf) ->
  concat (map fst out) = upto last cs.
Proof.
  induction n as [|n IHn]; intros cs Hn lims a last Hl out stf Hrun.
  - destruct cs; [|cbn in Hn; lia].
    destruct lims as [|l lims]; [cbn in Hl; lia|].
    cbn in Hrun. destruct lims; cbn in Hrun; inversion Hrun; subst; reflexivity.
  - destruct lims as [|l lims]; [cbn in Hl; lia|].
    cbn [run next done rest last_seq last_start] in Hrun.
    destruct (take l last cs 0) as [[t r] e] eqn:Ht.
    pose proof (take_upto _ _ _ _ _ _ _ Ht) as Hu.
    destruct e as [s|].
    + destruct Hu as (Hcat & Hup & Hne).
      assert (length r < length cs)%nat as Hlen
        by (eapply take_length; [exact Ht|discriminate]).
      destruct (run lims (mkCur r (s + 1) last false)) as [chs stf'] eqn:Hrec.
      inversion Hrun; subst out stf; clear Hrun.
      assert (length r <= n)%nat as Hrn by lia.
      assert (length r < length lims)%nat as Hrl by (cbn in Hl; lia).
      specialize (IHn r Hrn lims (s + 1) last Hrl _ _ Hrec).
      cbn [map concat fst]. rewrite IHn. symmetry. exact Hup.
    + destruct lims as [|l' lims']; cbn in Hrun; inversion Hrun; subst; clear Hrun.
      all: cbn [map concat fst]; apply app_nil_r.
Qed.

Lemma run_serves_upto cs start last lims out stf :
  (length cs < length lims)%nat ->
  run lims (start_cursor cs start last) = (out, stf) ->
  concat (map fst out) = upto last cs.
Proof. intros Hl Hrun. eapply run_serves_upto_aux; eauto. Qed.

(* everything is served iff no row follows the first row carrying last_seq *)
Lemma upto_all last cs :
  upto last cs = cs <->
  (forall pre c post, cs = pre ++ c :: post -> c_seq c = last -> post = []).
Proof.
  induction cs as [|c cs IH]; cbn [upto].
  - split; [intros _ pre c post H; destruct pre; discriminate|reflexivity].
  - destruct (c_seq c =? last) eqn:E.
    + split.
      * intros H. inversion H; subst. intros pre c' post Hc _.
        destruct pre as [|p pre]; cbn in Hc; inversion Hc; subst; [reflexivity|].
        destruct pre; discriminate.
      * intros H. apply Z.eqb_eq in E. rewrite (H [] c cs eq_refl E). reflexivity.
    + split.
      * intros H. injection H as H'. intros pre c' post Hc Hs.
        apply Z.eqb_neq in E.
        destruct pre as [|p pre]; cbn in Hc; injection Hc as Hc1 Hc2.
        -- rewrite Hc1 in E. contradiction.
        -- exact (proj1 IH H' pre c' post Hc2 Hs).
      * intros H. f_equal. apply IH. intros pre c' post Hc Hs.
        apply (H (c :: pre) c' post); [cbn; rewrite Hc; reflexivity|exact Hs].
Qed.
