(* Codec descriptions of the protocol types (hand-written from
   crates/klukai-types/src/{broadcast,sync,change,api,actor,base}.rs; tied to
   the real speedy codecs by byte-for-byte differential testing, C09). *)
From Coq Require Import List ZArith Bool.
From Corro Require Import Model.Wire.
Import ListNotations.

(* struct with fields f1..fn = right-nested pairs *)
Fixpoint dstruct (fs : list desc) : desc :=
  match fs with
  | [] => DUnit
  | [f] => f
  | f :: t => DPair f (dstruct t)
  end.

Definition d_u64 := DUInt 8.
Definition d_actor_id := DMin 16 (DFixed 16).
Definition d_timestamp := DMin 8 (DUInt 8).
Definition d_cluster_id := DMin 2 (DUInt 2).
Definition d_version := DMin 0 (DUInt 8).          (* CrsqlDbVersion: no minimum_bytes_needed override *)
Definition d_seq := DMin 0 (DUInt 8).
Definition d_name := DMin 0 DStr.                   (* TableName / ColumnName *)

(* SqliteValue: u8 tag; Null | Integer(i64) | Real(f64 bits) | Text | Blob *)
Definition d_sqlite_value := DMin 1 (DSum 1 [DUnit; DI64; DUInt 8; DStr; DBytes]).

(* #[derive] struct Change *)
Definition d_change := dstruct
  [d_name; DBytes; d_name; d_sqlite_value; DI64; d_version; d_seq; DFixed 16; DI64].

Definition d_range (d : desc) := DPair d d.

(* hand-written Changeset: u8 tag; Empty | Full | EmptySet *)
Definition d_changeset := DMin 0 (DSum 1
  [ dstruct [d_version; d_version; DOpt d_timestamp];
    dstruct [d_version; DVec32 d_change; d_seq; d_seq; d_seq; d_timestamp];
    dstruct [DVec64 (d_range d_version); d_timestamp] ]).

Definition d_change_v1 := dstruct [d_actor_id; d_changeset].
Definition d_broadcast_v1 := DSum 4 [d_change_v1].
Definition d_uni_payload_v1 := DSum 4 [d_broadcast_v1].
Definition d_uni_payload := DSum 4 [dstruct [d_uni_payload_v1; DEofDefault d_cluster_id]].

Definition d_trace_ctx := dstruct [DOpt DStr; DOpt DStr].
Definition d_bi_payload_v1 := DSum 4 [dstruct [d_actor_id; DEofDefault d_trace_ctx]].
Definition d_bi_payload := DSum 4 [dstruct [d_bi_payload_v1; DEofDefault d_cluster_id]].

(* hand-written SyncNeedV1: u8 tag; Full | Partial | Empty *)
Definition d_sync_need := DMin 2 (DSum 1
  [ dstruct [d_version; d_version];
    dstruct [d_version; DVec64 (d_range d_seq)];
    DOpt d_timestamp ]).

(* hand-written SyncStateV1 *)
Definition d_sync_state := DMin 0 (dstruct
  [ d_actor_id;
    DVec32 (DPair d_actor_id d_version);
    DVec64 (DPair d_actor_id (DVec64 (d_range d_version)));
    DVec64 (DPair d_actor_id (DVec64 (DPair d_version (DVec64 (d_range d_seq)))));
    DOpt d_timestamp ]).

Definition d_sync_rejection := DSum 4 [DUnit; DUnit].
Definition d_sync_request := DVec32 (DPair d_actor_id (DVec32 d_sync_need)).

Definition d_sync_message_v1 := DSum 4
  [d_sync_state; d_change_v1; d_timestamp; d_sync_rejection; d_sync_request].
Definition d_sync_message := DSum 4 [d_sync_message_v1].

Definition all_descs : list (nat * desc) :=
  [ (0%nat, d_sync_message); (1%nat, d_uni_payload); (2%nat, d_bi_payload);
    (3%nat, d_sqlite_value); (4%nat, d_changeset); (5%nat, d_sync_need); (6%nat, d_sync_state);
    (7%nat, d_change) ].

Definition desc_by_id (i : nat) : desc :=
  match find (fun p => Nat.eqb (fst p) i) all_descs with Some p => snd p | None => DUnit end.
