(* Model of the lock protocol under `corrosion restore`,
   crates/klukai-types/src/sqlite3_restore.rs: lock_all.  POSIX byte-range locks (fcntl
   F_SETLK, non blocking) on the lock bytes SQLite itself uses: a request is granted iff no
   OTHER owner holds a conflicting lock on the byte (read/read is the only compatible pair).
   Rollback-journal mode: a reader holds a read lock on SHARED while it reads; lock_all ends
   holding write locks on RESERVED, PENDING and SHARED.  WAL mode: a reader holds a read lock
   on one of the read marks READ0..READ4; lock_all ends holding write locks on WRITE, CKPT,
   RECOVER and READ0..READ4. *)
From Coq Require Import List ZArith Bool.
Import ListNotations.
Open Scope Z_scope.

Inductive lkind := LRead | LWrite.
Definition lentry := (Z * Z * lkind)%type.            (* (lock byte, owner, kind) *)
Definition ltable := list lentry.

Definition conflicts (k1 k2 : lkind) : bool := match k1, k2 with LRead, LRead => false | _, _ => true end.

Definition blocks (b o : Z) (k : lkind) (e : lentry) : bool :=
  let '(b', o', k') := e in (b' =? b) && negb (o' =? o) && conflicts k k'.
Definition mine (b o : Z) (e : lentry) : bool := let '(b', o', _) := e in (b' =? b) && (o' =? o).

(* F_SETLK: refused if another owner holds a conflicting lock on the byte; a granted request
   replaces the owner's own lock on that byte *)
Definition try_lock (t : ltable) (b o : Z) (k : lkind) : option ltable :=
  if existsb (blocks b o k) t then None
  else Some ((b, o, k) :: filter (fun e => negb (mine b o e)) t).

Definition unlock (t : ltable) (b o : Z) : ltable := filter (fun e => negb (mine b o e)) t.

(* two different owners never hold conflicting locks on one byte *)
Definition compat (t : ltable) : bool :=
  forallb (fun e1 => forallb (fun e2 =>
     let '(b1, o1, k1) := e1 in let '(b2, o2, k2) := e2 in
     negb ((b1 =? b2) && negb (o1 =? o2) && conflicts k1 k2)) t) t.

Inductive lop := OLock (b o : Z) (k : lkind) | OUnlock (b o : Z).
Definition lock_step (t : ltable) (op : lop) : ltable :=
  match op with
  | OLock b o k => match try_lock t b o k with Some t' => t' | None => t end
  | OUnlock b o => unlock t b o
  end.
