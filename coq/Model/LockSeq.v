(* Activities as sequences of acquire / release steps over ranked locks, and the task a thread
   is at every acquire of its activity (what it holds, what it wants).  Used by Props/C20.v for
   the hand-written activity table and by Gen/LockOrder.v (tools/lockorder2coq.py) for the
   sequences read from the source. *)
From Coq Require Import List ZArith Bool.
From Corro Require Import Model.WritePool.
Import ListNotations.
Open Scope Z_scope.

Inductive lstep := Acq (l : Z) | Rel (l : Z).

Fixpoint points (a : list lstep) (held : list Z) : list task :=
  match a with
  | [] => [mkTask held None]
  | Acq x :: t => mkTask held (Some x) :: points t (held ++ [x])
  | Rel x :: t => points t (filter (fun h => negb (h =? x)) held)
  end.
