(* Byte-level model of crates/klukai-types/src/pubsub.rs:{pack_columns,
   unpack_columns, num_bytes_needed_i64, num_bytes_needed_i32} (packed primary
   keys, the format of cr-sqlite's crsql_pack_columns). Bytes are integers
   0..255. *)
From Coq Require Import List ZArith Bool.
From Corro Require Import Gen.PackMasks.
Import ListNotations.
Open Scope Z_scope.

Inductive sval :=
| SNull
| SInt (i : Z)            (* i64 *)
| SReal (bits : Z)        (* f64 as its 64-bit pattern *)
| SText (bs : list Z)     (* raw bytes (unpack does not validate UTF-8) *)
| SBlob (bs : list Z).

(* big-endian low n bytes of u  (Buf::put_int(val, n)) *)
Fixpoint be_bytes (n : nat) (u : Z) : list Z :=
  match n with
  | O => []
  | S k => (u / 256 ^ Z.of_nat k) mod 256 :: be_bytes k u
  end.

(* Buf::get_uint *)
Fixpoint be_val (bs : list Z) (acc : Z) : Z :=
  match bs with
  | [] => acc
  | b :: t => be_val t (acc * 256 + b)
  end.

Definition to_u64 (i : Z) : Z := i mod 2 ^ 64.
Definition of_u64 (u : Z) : Z := if u <? 2 ^ 63 then u else u - 2 ^ 64.   (* `as i64` *)

(* the width tables are GENERATED from the source (tools/pack2coq.py -> Gen/PackMasks.v):
   the first (mask, width) with `val & mask != 0` decides *)
Definition nbytes_of (masks : list (Z * nat)) (u : Z) : option nat :=
  match find (fun m => negb (Z.land u (fst m) =? 0)) masks with Some m => Some (snd m) | None => None end.

(* num_bytes_needed_i32 on a value 0 <= w < 2^32 *)
Definition nbytes32 (w : Z) : nat :=
  match nbytes_of nb32_masks w with Some n => n | None => O end.

(* num_bytes_needed_i64 on the u64 image of the value; falls through to
   num_bytes_needed_i32(val as i32) *)
Definition nbytes64 (u : Z) : nat :=
  match nbytes_of nb64_masks u with Some n => n | None => nbytes32 (u mod 2 ^ 32) end.

Definition pack_val (v : sval) : list Z :=
  match v with
  | SNull => [5]
  | SInt i => let u := to_u64 i in let n := nbytes64 u in
              (Z.of_nat n * 8 + 1) :: be_bytes n u
  | SReal bits => 2 :: be_bytes 8 bits
  | SText bs => let l := Z.of_nat (length bs) in let n := nbytes32 l in
                (Z.of_nat n * 8 + 3) :: be_bytes n l ++ bs
  | SBlob bs => let l := Z.of_nat (length bs) in let n := nbytes32 l in
                (Z.of_nat n * 8 + 4) :: be_bytes n l ++ bs
  end.

Definition pack (vs : list sval) : option (list Z) :=
  if (255 <? Z.of_nat (length vs)) then None
  else Some (Z.of_nat (length vs) :: flat_map pack_val vs).

Fixpoint take_n (n : nat) (bs : list Z) : option (list Z * list Z) :=
  match n with
  | O => Some ([], bs)
  | S k => match bs with
           | [] => None
           | b :: t => match take_n k t with
                       | Some (h, r) => Some (b :: h, r)
                       | None => None
                       end
           end
  end.

Fixpoint take_z (k : Z) (bs : list Z) {struct bs} : option (list Z * list Z) :=
  if k <=? 0 then Some ([], bs)
  else match bs with
       | [] => None
       | b :: t => match take_z (k - 1) t with Some (h, r) => Some (b :: h, r) | None => None end
       end.

Inductive unpacked := UOk (vs : list sval) | UAbort | UMisuse.

Definition unpack_uint (intlen : Z) (bs : list Z) : option (Z * list Z) :=
  if 8 <? intlen then None
  else match take_n (Z.to_nat intlen) bs with
       | None => None
       | Some (h, t) => Some (be_val h 0, t)
       end.

Fixpoint unpack_cols (k : nat) (bs : list Z) : unpacked :=
  match k with
  | O => UOk []
  | S k' =>
    match bs with
    | [] => UAbort
    | tb :: r =>
      let ty := tb mod 8 in
      let il := tb / 8 in
      let cont (v : sval) (rest : list Z) :=
        match unpack_cols k' rest with
        | UOk vs => UOk (v :: vs)
        | e => e
        end in
      if ty =? 4 then
        match unpack_uint il r with
        | None => UAbort
        | Some (len, r') =>
          match take_z len r' with
          | None => UAbort
          | Some (h, r'') => cont (SBlob h) r''
          end
        end
      else if ty =? 2 then
        match take_n 8 r with
        | None => UAbort
        | Some (h, r') => cont (SReal (be_val h 0)) r'
        end
      else if ty =? 1 then
        match unpack_uint il r with
        | None => UAbort
        | Some (u, r') => cont (SInt (of_u64 u)) r'
        end
      else if ty =? 5 then cont SNull r
      else if ty =? 3 then
        match unpack_uint il r with
        | None => UAbort
        | Some (len, r') =>
          match take_z len r' with
          | None => UAbort
          | Some (h, r'') => cont (SText h) r''
          end
        end
      else UMisuse
    end
  end.

Definition unpack (bs : list Z) : unpacked :=
  match bs with
  | [] => UAbort
  | n :: r => unpack_cols (Z.to_nat n) r
  end.

(* well-formed values *)
Definition bytes_ok (bs : list Z) : bool := forallb (fun b => (0 <=? b) && (b <? 256)) bs.

Definition sval_ok (v : sval) : bool :=
  match v with
  | SNull => true
  | SInt i => (- 2 ^ 63 <=? i) && (i <? 2 ^ 63)
  | SReal b => (0 <=? b) && (b <? 2 ^ 64)
  | SText bs | SBlob bs => bytes_ok bs && (Z.of_nat (length bs) <? 2 ^ 31)
  end.
