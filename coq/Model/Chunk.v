(* Model of crates/klukai-types/src/change.rs:ChunkedChanges::next and of
   crates/klukai-agent/src/api/peer/mod.rs:chunk_range.
   Definitions only (proofs live in Proofs/ChunkProofs.v). *)
From Coq Require Import List ZArith Bool.
Import ListNotations.
Open Scope Z_scope.

(* A change as far as the chunker looks at it: its seq, its estimated byte
   size (an arbitrary non-negative number) and an identity used only to
   check "every change exactly once, in order". *)
Record chg := mkChg { c_seq : Z; c_size : Z; c_id : Z }.

Record cursor := mkCur {
  rest : list chg;        (* what the underlying row iterator still yields *)
  last_start : Z;         (* last_start_seq *)
  last_seq : Z;           (* last_seq (requested end) *)
  done : bool }.

(* The inner `loop` of next(): pull rows, push, stop on
   - row iterator exhausted                       -> final chunk  (None)
   - pushed seq = last_seq                        -> final chunk  (None)
   - buffered >= limit and peek() is None         -> final chunk  (None)
   - buffered >= limit and more rows              -> intermediate chunk ending at
                                                    the pushed seq (Some seq)
   Returns (pushed changes, remaining rows, intermediate end). *)
Fixpoint take (limit lseq : Z) (rs : list chg) (size : Z)
  : list chg * list chg * option Z :=
  match rs with
  | [] => ([], [], None)
  | c :: rs' =>
    let size' := size + c_size c in
    if c_seq c =? lseq then ([c], rs', None)
    else if limit <=? size' then
      match rs' with
      | [] => ([c], [], None)
      | _ :: _ => ([c], rs', Some (c_seq c))
      end
    else
      let '(t, r, e) := take limit lseq rs' size' in (c :: t, r, e)
  end.

Definition chunk := (list chg * (Z * Z))%type.

Definition next (limit : Z) (st : cursor) : option (chunk * cursor) :=
  if done st then None
  else
    let '(t, r, e) := take limit (last_seq st) (rest st) 0 in
    match e with
    | None =>
      Some ((t, (last_start st, last_seq st)),
            mkCur r (last_start st) (last_seq st) true)
    | Some s =>
      Some ((t, (last_start st, s)),
            mkCur r (s + 1) (last_seq st) false)
    end.

(* One call of next() per element of [lims]: the caller may change the limit
   between calls (send_change_chunks does, via set_max_buf_size). *)
Fixpoint run (lims : list Z) (st : cursor) : list chunk * cursor :=
  match lims with
  | [] => ([], st)
  | l :: lims' =>
    match next l st with
    | None => ([], st)
    | Some (ch, st') => let '(chs, stf) := run lims' st' in (ch :: chs, stf)
    end
  end.

Definition start_cursor (cs : list chg) (start last : Z) : cursor :=
  mkCur cs start last false.

(* chunk_range(range, k): range.step_by(k).map(|b| b ..= min(b + (k - 1), end)) *)
Fixpoint chunk_range_fuel (fuel : nat) (s e k : Z) : list (Z * Z) :=
  match fuel with
  | O => []
  | S f => if s <=? e then (s, Z.min (s + (k - 1)) e) :: chunk_range_fuel f (s + k) e k
           else []
  end.

Definition chunk_range (s e k : Z) : list (Z * Z) :=
  chunk_range_fuel (Z.to_nat ((e - s) / k + 1)) s e k.

(* ---------- decidable oracle for C08 (used on implementation output) ------- *)

Fixpoint sorted_seq (lo : Z) (cs : list chg) : bool :=
  match cs with
  | [] => true
  | c :: cs' => (lo <=? c_seq c) && sorted_seq (c_seq c + 1) cs'
  end.

(* cs strictly increasing, all inside [start,last], start <= last *)
Definition wf_input (cs : list chg) (start last : Z) : bool :=
  (start <=? last) && sorted_seq start cs &&
  forallb (fun c => c_seq c <=? last) cs.

Fixpoint tiles_b (a last : Z) (rs : list (Z * Z)) : bool :=
  match rs with
  | [] => false
  | [(x, y)] => (x =? a) && (x <=? y) && (y =? last)
  | (x, y) :: rs' => (x =? a) && (x <=? y) && tiles_b (y + 1) last rs'
  end.

Definition chg_eqb (a b : chg) : bool :=
  (c_seq a =? c_seq b) && (c_size a =? c_size b) && (c_id a =? c_id b).

Fixpoint list_eqb {A} (eqb : A -> A -> bool) (xs ys : list A) : bool :=
  match xs, ys with
  | [], [] => true
  | x :: xs', y :: ys' => eqb x y && list_eqb eqb xs' ys'
  | _, _ => false
  end.

Definition in_range_b (ch : chunk) : bool :=
  forallb (fun c => (fst (snd ch) <=? c_seq c) && (c_seq c <=? snd (snd ch))) (fst ch).

Definition check_chunks (cs : list chg) (start last : Z) (out : list chunk) : bool :=
  tiles_b start last (map snd out) &&
  list_eqb chg_eqb (concat (map fst out)) cs &&
  forallb in_range_b out.

(* a message only grows while it is below the limit in force: all but its last change
   stay below the limit (so it is oversized only through its last change) *)
Definition sumsz (cs : list chg) : Z := fold_right (fun c a => c_size c + a) 0 cs.
Definition size_ok_b (limit : Z) (ch : chunk) : bool :=
  (Nat.leb (length (fst ch)) 1) || (sumsz (removelast (fst ch)) <? limit).
Fixpoint sizes_ok_b (lims : list Z) (out : list chunk) : bool :=
  match out, lims with
  | [], _ => true
  | ch :: out', l :: lims' => size_ok_b l ch && sizes_ok_b lims' out'
  | _ :: _, [] => false
  end.

Definition blocks_ok_b (s e : Z) (bs : list (Z * Z)) : bool :=
  forallb (fun b => (s <=? fst b) && (fst b <=? snd b) && (snd b <=? e)) bs.

Definition zseq (s e : Z) : list Z :=
  map (fun i => s + Z.of_nat i) (seq 0 (Z.to_nat (e - s + 1))).

Definition in_block_b (x : Z) (b : Z * Z) : bool := (fst b <=? x) && (x <=? snd b).

(* union of the blocks = [s,e], checked pointwise (exact by definition) *)
Definition covers_b (s e : Z) (bs : list (Z * Z)) : bool :=
  forallb (fun x => existsb (in_block_b x) bs) (zseq s e).

(* blocks partition s..=e: they follow each other without sharing a version and hold at most k versions *)
Fixpoint rtiles_b (s e k : Z) (bs : list (Z * Z)) : bool :=
  match bs with
  | [] => false
  | (a, b) :: rest =>
    (a =? s) && (a <=? b) && (b - a + 1 <=? k) &&
    match rest with
    | [] => b =? e
    | _ => (b <? e) && rtiles_b (b + 1) e k rest
    end
  end.

Definition check_chunk_range (s e : Z) (bs : list (Z * Z)) : bool :=
  blocks_ok_b s e bs && covers_b s e bs.
