From Coq Require Import List ZArith Bool Lia.
From Corro Require Import Model.Pack.
Import ListNotations.
Open Scope Z_scope.

Lemma be_bytes_length n u : length (be_bytes n u) = n.
Proof. induction n as [|k IH]; cbn; [reflexivity|f_equal; exact IH]. Qed.

Lemma be_val_bytes : forall n u acc, be_val (be_bytes n u) acc = acc * 256 ^ Z.of_nat n + u mod 256 ^ Z.of_nat n.
Proof.
  induction n as [|k IH]; intros u acc.
  - cbn. rewrite Z.mod_1_r. lia.
  - cbn [be_bytes be_val]. rewrite IH.
    replace (Z.of_nat (S k)) with (Z.of_nat k + 1) by lia.
    rewrite Z.pow_add_r by lia. change (256 ^ 1) with 256.
    assert (0 < 256 ^ Z.of_nat k) by (apply Z.pow_pos_nonneg; lia).
    rewrite (Z.rem_mul_r u (256 ^ Z.of_nat k) 256) by lia. lia.
Qed.

Lemma be_roundtrip n u : 0 <= u < 256 ^ Z.of_nat n -> be_val (be_bytes n u) 0 = u.
Proof. intros H. rewrite be_val_bytes, Z.mod_small by exact H. lia. Qed.

Lemma take_z_app : forall h t, take_z (Z.of_nat (length h)) (h ++ t) = Some (h, t).
Proof.
  induction h as [|b h IH]; intros t.
  - cbn. destruct t; reflexivity.
  - cbn [length app take_z]. destruct (Z.of_nat (S (length h)) <=? 0) eqn:E; [apply Z.leb_le in E; lia|].
    replace (Z.of_nat (S (length h)) - 1) with (Z.of_nat (length h)) by lia. rewrite IH. reflexivity.
Qed.

Lemma take_n_app : forall n h t, length h = n -> take_n n (h ++ t) = Some (h, t).
Proof.
  induction n as [|k IH]; intros h t Hl.
  - destruct h; [reflexivity|discriminate].
  - destruct h as [|b h]; [discriminate|]. cbn. injection Hl as Hl. rewrite (IH h t Hl). reflexivity.
Qed.

(* one byte-mask test: if the byte at bit offset a is zero, the value fits below it *)
Lemma land_byte_zero a u : 0 <= a -> 0 <= u < 2 ^ (a + 8) -> Z.land u (255 * 2 ^ a) = 0 -> u < 2 ^ a.
Proof.
  intros Ha Hu H.
  assert (H1 : Z.shiftr (Z.land u (Z.shiftl 255 a)) a = 0)
    by (rewrite Z.shiftl_mul_pow2 by lia; rewrite H; apply Z.shiftr_0_l).
  rewrite Z.shiftr_land, Z.shiftr_shiftl_l in H1 by lia.
  replace (a - a) with 0 in H1 by lia. rewrite Z.shiftl_0_r in H1.
  change 255 with (Z.ones 8) in H1. rewrite Z.land_ones in H1 by lia. rewrite Z.shiftr_div_pow2 in H1 by lia.
  assert (Hp : 0 < 2 ^ a) by (apply Z.pow_pos_nonneg; lia).
  assert (Hd : 0 <= u / 2 ^ a < 2 ^ 8).
  { split; [apply Z.div_pos; lia|]. apply Z.div_lt_upper_bound; [lia|]. rewrite <- Z.pow_add_r by lia. lia. }
  rewrite Z.mod_small in H1 by exact Hd.
  apply Z.div_small_iff in H1; lia.
Qed.

(* the generated tables are the byte masks 0xFF << 8(k-1), widest first: a changed mask in the
   source breaks these two lemmas *)
Lemma nbytes32_bound w : 0 <= w < 2 ^ 32 -> w < 256 ^ Z.of_nat (nbytes32 w) /\ (nbytes32 w <= 4)%nat.
Proof.
  intros H. unfold nbytes32, nbytes_of, PackMasks.nb32_masks. cbn [find fst snd].
  destruct (Z.land w 4278190080 =? 0) eqn:E1; cbn [negb]; [|cbn; lia]. apply Z.eqb_eq in E1.
  assert (H1 : w < 2 ^ 24) by (apply (land_byte_zero 24); [lia|cbn; lia|exact E1]).
  destruct (Z.land w 16711680 =? 0) eqn:E2; cbn [negb]; [|cbn in *; lia]. apply Z.eqb_eq in E2.
  assert (H2 : w < 2 ^ 16) by (apply (land_byte_zero 16); [lia|cbn; lia|exact E2]).
  destruct (Z.land w 65280 =? 0) eqn:E3; cbn [negb]; [|cbn in *; lia]. apply Z.eqb_eq in E3.
  assert (H3 : w < 2 ^ 8) by (apply (land_byte_zero 8); [lia|cbn; lia|exact E3]).
  destruct (Z.land w 255 =? 0) eqn:E4; cbn [negb]; [|cbn in *; lia]. apply Z.eqb_eq in E4.
  assert (H4 : w < 2 ^ 0) by (apply (land_byte_zero 0); [lia|cbn; lia|exact E4]).
  cbn in *. lia.
Qed.

Lemma nbytes64_bound u : 0 <= u < 2 ^ 64 -> u < 256 ^ Z.of_nat (nbytes64 u) /\ (nbytes64 u <= 8)%nat.
Proof.
  intros H. unfold nbytes64, nbytes_of, PackMasks.nb64_masks. cbn [find fst snd].
  destruct (Z.land u 18374686479671623680 =? 0) eqn:E1; cbn [negb]; [|cbn in *; lia]. apply Z.eqb_eq in E1.
  assert (H1 : u < 2 ^ 56) by (apply (land_byte_zero 56); [lia|cbn; lia|exact E1]).
  destruct (Z.land u 71776119061217280 =? 0) eqn:E2; cbn [negb]; [|cbn in *; lia]. apply Z.eqb_eq in E2.
  assert (H2 : u < 2 ^ 48) by (apply (land_byte_zero 48); [lia|cbn; lia|exact E2]).
  destruct (Z.land u 280375465082880 =? 0) eqn:E3; cbn [negb]; [|cbn in *; lia]. apply Z.eqb_eq in E3.
  assert (H3 : u < 2 ^ 40) by (apply (land_byte_zero 40); [lia|cbn; lia|exact E3]).
  destruct (Z.land u 1095216660480 =? 0) eqn:E4; cbn [negb]; [|cbn in *; lia]. apply Z.eqb_eq in E4.
  assert (H4 : u < 2 ^ 32) by (apply (land_byte_zero 32); [lia|cbn; lia|exact E4]).
  rewrite Z.mod_small by lia.
  destruct (nbytes32_bound u ltac:(lia)). split; [assumption|lia].
Qed.

Lemma of_to_u64 i : - 2 ^ 63 <= i < 2 ^ 63 -> of_u64 (to_u64 i) = i.
Proof.
  intros H. unfold of_u64, to_u64.
  destruct (Z_lt_le_dec i 0) as [Hn|Hp].
  - replace (i mod 2 ^ 64) with (i + 2 ^ 64).
    + destruct (i + 2 ^ 64 <? 2 ^ 63) eqn:E; [apply Z.ltb_lt in E; lia|lia].
    + symmetry. rewrite <- (Z.mod_add i 1 (2 ^ 64)) by lia. apply Z.mod_small. lia.
  - rewrite Z.mod_small by lia. destruct (i <? 2 ^ 63) eqn:E; [reflexivity|apply Z.ltb_ge in E; lia].
Qed.

Lemma to_u64_range i : 0 <= to_u64 i < 2 ^ 64.
Proof. unfold to_u64. apply Z.mod_pos_bound. lia. Qed.

Lemma unpack_uint_ok n u rest :
  (n <= 8)%nat -> 0 <= u < 256 ^ Z.of_nat n ->
  unpack_uint (Z.of_nat n) (be_bytes n u ++ rest) = Some (u, rest).
Proof.
  intros Hn Hu. unfold unpack_uint.
  destruct (8 <? Z.of_nat n) eqn:E; [apply Z.ltb_lt in E; lia|].
  rewrite Nat2Z.id, (take_n_app n _ rest (be_bytes_length n u)), be_roundtrip by exact Hu. reflexivity.
Qed.

(* type byte decomposition: (n*8 + t) with 0 <= t < 8 *)
Lemma tb_mod n t : 0 <= t < 8 -> (Z.of_nat n * 8 + t) mod 8 = t.
Proof. intros H. rewrite Z.add_comm, Z.mod_add by lia. apply Z.mod_small. exact H. Qed.
Lemma tb_div n t : 0 <= t < 8 -> (Z.of_nat n * 8 + t) / 8 = Z.of_nat n.
Proof. intros H. rewrite Z.add_comm, Z.div_add by lia. rewrite Z.div_small by exact H. lia. Qed.

Lemma unpack_cols_pack : forall vs rest,
  forallb sval_ok vs = true ->
  unpack_cols (length vs) (flat_map pack_val vs ++ rest) = UOk vs.
Proof.
  induction vs as [|v vs IH]; intros rest Hok; [reflexivity|].
  cbn [forallb] in Hok. apply andb_true_iff in Hok as [Hv Hvs].
  cbn [length]. change (flat_map pack_val (v :: vs)) with (pack_val v ++ flat_map pack_val vs). rewrite <- app_assoc.
  specialize (IH rest Hvs). cbn [unpack_cols] in IH.
  destruct v as [|i|bits|bs|bs]; cbn [pack_val sval_ok] in *.
  - (* null *) cbn [app unpack_cols]. change (5 mod 8) with 5. cbn. rewrite IH. reflexivity.
  - apply andb_true_iff in Hv as [H1 H2]. apply Z.leb_le in H1. apply Z.ltb_lt in H2.
    pose proof (to_u64_range i) as Hr.
    destruct (nbytes64_bound (to_u64 i) Hr) as [Hb Hn].
    cbn [app unpack_cols].
    rewrite tb_mod, tb_div by lia. cbn [Z.eqb Pos.eqb].
    rewrite unpack_uint_ok by (try assumption; lia).
    rewrite IH, of_to_u64 by lia. reflexivity.
  - apply andb_true_iff in Hv as [H1 H2]. apply Z.leb_le in H1. apply Z.ltb_lt in H2.
    cbn [app unpack_cols]. change (2 mod 8) with 2. cbn [Z.eqb Pos.eqb].
    rewrite (take_n_app 8 (be_bytes 8 bits) _ (be_bytes_length 8 bits)).
    rewrite be_roundtrip by (change (256 ^ Z.of_nat 8) with (2 ^ 64); lia).
    rewrite IH. reflexivity.
  - apply andb_true_iff in Hv as [H1 H2]. apply Z.ltb_lt in H2.
    set (l := Z.of_nat (length bs)) in *.
    destruct (nbytes32_bound l ltac:(unfold l; lia)) as [Hb Hn].
    cbn [app unpack_cols].
    rewrite tb_mod, tb_div by lia. cbn [Z.eqb Pos.eqb].
    rewrite <- app_assoc, unpack_uint_ok by (try lia; unfold l; lia).
    unfold l. rewrite take_z_app, IH. reflexivity.
  - apply andb_true_iff in Hv as [H1 H2]. apply Z.ltb_lt in H2.
    set (l := Z.of_nat (length bs)) in *.
    destruct (nbytes32_bound l ltac:(unfold l; lia)) as [Hb Hn].
    cbn [app unpack_cols].
    rewrite tb_mod, tb_div by lia. cbn [Z.eqb Pos.eqb].
    rewrite <- app_assoc, unpack_uint_ok by (try lia; unfold l; lia).
    unfold l. rewrite take_z_app, IH. reflexivity.
Qed.

Theorem unpack_pack vs bs :
  (length vs <= 255)%nat -> forallb sval_ok vs = true ->
  pack vs = Some bs -> unpack bs = UOk vs.
Proof.
  intros Hl Hok Hp. unfold pack in Hp.
  destruct (255 <? Z.of_nat (length vs)) eqn:E; [discriminate|]. injection Hp as <-.
  unfold unpack. rewrite Nat2Z.id.
  rewrite <- (app_nil_r (flat_map pack_val vs)). rewrite unpack_cols_pack by exact Hok. reflexivity.
Qed.

Theorem pack_total vs : (length vs <= 255)%nat -> exists bs, pack vs = Some bs.
Proof.
  intros Hl. unfold pack. destruct (255 <? Z.of_nat (length vs)) eqn:E; [apply Z.ltb_lt in E; lia|eauto].
Qed.
