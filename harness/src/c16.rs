//! C16: cluster isolation on the real network paths over loopback QUIC
//!  uni      — spawn_unipayload_handler with frames of several declared cluster ids
//!  serve    — serve_sync's first frame for a client declaring a cluster id
//!  partners — which members handle_sync connects to
//!  bcast    — which members the broadcast loop sends to
use crate::{agentkit, c04::actor_of, util::Toks};
use bytes::{BufMut, BytesMut};
use klukai_agent::{
    agent::{spawn_unipayload_handler, verif_hooks::handle_sync},
    api::peer::serve_sync,
    broadcast::verif_hooks::run_handle_broadcasts,
    quinn_plaintext,
    transport::Transport,
};
use klukai_types::{
    actor::{Actor, ClusterId},
    agent::Bookie,
    broadcast::{BroadcastInput, BroadcastV1, Timestamp, UniPayload, UniPayloadV1},
    channel::bounded,
    sync::{SyncMessage, SyncMessageV1, SyncRejectionV1, SyncTraceContextV1},
};
use speedy::{Readable, Writable};
use std::{
    net::SocketAddr,
    sync::{Arc, Mutex},
    time::Duration,
};
use tokio_util::codec::{FramedRead, LengthDelimitedCodec};

fn rt() -> tokio::runtime::Runtime {
    tokio::runtime::Builder::new_multi_thread().worker_threads(3).enable_all().build().unwrap()
}

fn server_ep() -> quinn::Endpoint {
    quinn::Endpoint::server(quinn_plaintext::server_config(), "127.0.0.1:0".parse().unwrap()).unwrap()
}
fn client_ep() -> quinn::Endpoint {
    let mut c = quinn::Endpoint::client("127.0.0.1:0".parse().unwrap()).unwrap();
    c.set_default_client_config(quinn_plaintext::client_config());
    c
}
fn frame(b: &[u8]) -> Vec<u8> {
    let mut v = (b.len() as u32).to_be_bytes().to_vec();
    v.extend_from_slice(b);
    v
}

/// case: uni <my_cluster> <n> { <payload_cluster | -1 = field absent> <version> }
pub fn uni(t: &mut Toks) -> String {
    let my = t.u64() as u16;
    let n = t.usize();
    let frames: Vec<(i64, u64)> = (0..n).map(|_| (t.i64(), t.u64())).collect();
    rt().block_on(async move {
        let (tripwire, _w, _tx) = klukai_types::tripwire::Tripwire::new_simple();
        std::mem::forget(_w);
        let server = server_ep();
        let addr = server.local_addr().unwrap();
        let client = client_ep();
        let actor = actor_of(9);
        let cl = tokio::spawn(async move {
            let conn = client.connect(addr, "127.0.0.1").unwrap().await.unwrap();
            let mut s = conn.open_uni().await.unwrap();
            for (pc, v) in frames {
                let payload = UniPayload::V1 {
                    data: UniPayloadV1::Broadcast(BroadcastV1::Change(agentkit::full(actor, v, vec![], 0, 0, 0, 1))),
                    cluster_id: ClusterId(if pc < 0 { 0 } else { pc as u16 }),
                };
                let mut bytes = payload.write_to_vec().unwrap();
                if pc < 0 {
                    bytes.truncate(bytes.len() - 2); // an old peer: no cluster id in the frame
                }
                s.write_all(&frame(&bytes)).await.unwrap();
            }
            s.finish().unwrap();
            tokio::time::sleep(Duration::from_millis(300)).await;
            drop(conn);
        });
        let conn = server.accept().await.unwrap().await.unwrap();
        let (tx_changes, mut rx_changes) = bounded(100, "verif-changes");
        spawn_unipayload_handler(&tripwire, &conn, ClusterId(my), tx_changes);
        let mut got = vec![];
        // the handler forwards the accepted changes once the stream has ended
        let mut wait = Duration::from_millis(2000);
        while let Ok(Some((c, _src))) = tokio::time::timeout(wait, rx_changes.recv()).await {
            got.push(c.versions().start().0.to_string());
            wait = Duration::from_millis(300);
        }
        cl.await.ok();
        format!("delivered={}", got.join(","))
    })
}

/// case: serve <agent_cluster> <client_cluster>
pub fn serve(t: &mut Toks) -> String {
    let mine = t.u64() as u16;
    let theirs = t.u64() as u16;
    rt().block_on(async move {
        let kit = agentkit::new_agent(|_| {}).await;
        kit.agent.set_cluster_id(ClusterId(mine));
        let bookie = Bookie::new(Default::default());
        let server = server_ep();
        let addr = server.local_addr().unwrap();
        let client = client_ep();
        let agent = kit.agent.clone();
        let srv = tokio::spawn(async move {
            let conn = server.accept().await.unwrap().await.unwrap();
            let (tx, rx) = conn.accept_bi().await.unwrap();
            let framed = FramedRead::new(rx, LengthDelimitedCodec::builder().max_frame_length(100 * 1024 * 1024).new_codec());
            let r = serve_sync(&agent, &bookie, actor_of(77), SyncTraceContextV1::default(), ClusterId(theirs), framed, tx).await;
            tokio::time::sleep(Duration::from_millis(100)).await;
            drop(conn);
            r.is_ok()
        });
        let conn = client.connect(addr, "127.0.0.1").unwrap().await.unwrap();
        let (mut tx, rx) = conn.open_bi().await.unwrap();
        // the client starts with its clock, as parallel_sync does
        let clock = SyncMessage::V1(SyncMessageV1::Clock(Timestamp::from(1u64))).write_to_vec().unwrap();
        tx.write_all(&frame(&clock)).await.unwrap();
        let mut framed = FramedRead::new(rx, LengthDelimitedCodec::builder().max_frame_length(100 * 1024 * 1024).new_codec());
        let mut msgs = vec![];
        use futures::StreamExt;
        let mut wait = Duration::from_millis(3000);
        while let Ok(Some(Ok(b))) = tokio::time::timeout(wait, framed.next()).await {
            wait = Duration::from_millis(400);
            msgs.push(match SyncMessage::read_from_buffer(&b) {
                Ok(SyncMessage::V1(SyncMessageV1::Rejection(SyncRejectionV1::DifferentCluster))) => "reject-different-cluster",
                Ok(SyncMessage::V1(SyncMessageV1::Rejection(_))) => "reject-other",
                Ok(SyncMessage::V1(SyncMessageV1::State(_))) => "state",
                Ok(SyncMessage::V1(SyncMessageV1::Clock(_))) => "clock",
                Ok(SyncMessage::V1(SyncMessageV1::Changeset(_))) => "changeset",
                Ok(SyncMessage::V1(SyncMessageV1::Request(_))) => "request",
                Err(_) => "undecodable",
            });
            if msgs.len() >= 2 {
                break;
            }
        }
        drop(tx);
        drop(conn);
        let _ = tokio::time::timeout(Duration::from_millis(500), srv).await;
        format!("first={} data={}", msgs.first().copied().unwrap_or("none"), if msgs.iter().any(|m| *m == "changeset" || *m == "state") { 1 } else { 0 })
    })
}

struct Peers {
    eps: Vec<quinn::Endpoint>,
    hits: Arc<Mutex<Vec<usize>>>,
}
fn spawn_peers(n: usize) -> Peers {
    let hits = Arc::new(Mutex::new(vec![]));
    let mut eps = vec![];
    for i in 0..n {
        let ep = server_ep();
        let h = hits.clone();
        let ep2 = ep.clone();
        tokio::spawn(async move {
            while let Some(inc) = ep2.accept().await {
                if let Ok(conn) = inc.await {
                    h.lock().unwrap().push(i);
                    tokio::spawn(async move {
                        loop {
                            tokio::select! {
                                r = conn.accept_uni() => { if r.is_err() { break } }
                                r = conn.accept_bi() => { if r.is_err() { break } }
                            }
                        }
                    });
                }
            }
        });
        eps.push(ep);
    }
    Peers { eps, hits }
}

/// members: <n> { <cluster> <flag> }   (member i has actor id 100+i; flag bit 0 = ring0; flag >= 2:
/// the member first registered in the node's own cluster and then renewed its identity, at the
/// same address, into <cluster>)
fn parse_members(t: &mut Toks) -> Vec<(u16, bool, bool)> {
    let n = t.usize();
    (0..n).map(|_| { let c = t.u64() as u16; let f = t.u64(); (c, f & 1 == 1, f >= 2) }).collect()
}

async fn install_members(agent: &klukai_types::agent::Agent, peers: &Peers, ms: &[(u16, bool, bool)]) {
    let mine = agent.cluster_id();
    let mut members = agent.members().write();
    for (i, (cluster, ring0, renewed)) in ms.iter().enumerate() {
        let addr: SocketAddr = peers.eps[i].local_addr().unwrap();
        if *renewed {
            // (identity timestamps are compared as durations: use whole seconds)
            members.add_member(&Actor::new(actor_of(100 + i as u64), addr, Timestamp(uhlc::NTP64::from(Duration::from_secs(1))), mine));
            members.add_member(&Actor::new(actor_of(100 + i as u64), addr, Timestamp(uhlc::NTP64::from(Duration::from_secs(2))), ClusterId(*cluster)));
        } else {
            members.add_member(&Actor::new(actor_of(100 + i as u64), addr, Timestamp::from(1u64), ClusterId(*cluster)));
        }
        if *ring0 {
            members.add_rtt(addr, Duration::from_millis(1));
        }
    }
}

fn fmt_hits(h: &Arc<Mutex<Vec<usize>>>) -> String {
    let mut v = h.lock().unwrap().clone();
    v.sort();
    v.dedup();
    v.iter().map(|x| x.to_string()).collect::<Vec<_>>().join(",")
}

/// case: partners <my_cluster> <members>
pub fn partners(t: &mut Toks) -> String {
    let mine = t.u64() as u16;
    let ms = parse_members(t);
    rt().block_on(async move {
        let kit = agentkit::new_agent(|_| {}).await;
        kit.agent.set_cluster_id(ClusterId(mine));
        let peers = spawn_peers(ms.len());
        install_members(&kit.agent, &peers, &ms).await;
        let (rtt_tx, _rtt_rx) = tokio::sync::mpsc::channel(100);
        let transport = Transport::new(&kit.agent.config().gossip, rtt_tx).await.unwrap();
        let bookie = Bookie::new(Default::default());
        let agent = kit.agent.clone();
        let h = tokio::spawn(async move {
            let _ = handle_sync(&agent, &bookie, &transport).await;
        });
        tokio::time::sleep(Duration::from_millis(600)).await;
        h.abort();
        format!("contacted={}", fmt_hits(&peers.hits))
    })
}

/// case: bcast <my_cluster> <members>   (one local broadcast)
pub fn bcast(t: &mut Toks) -> String {
    let mine = t.u64() as u16;
    let ms = parse_members(t);
    rt().block_on(async move {
        let kit = agentkit::new_agent(|_| {}).await;
        kit.agent.set_cluster_id(ClusterId(mine));
        let peers = spawn_peers(ms.len());
        install_members(&kit.agent, &peers, &ms).await;
        let (rtt_tx, _rtt_rx) = tokio::sync::mpsc::channel(100);
        let transport = Transport::new(&kit.agent.config().gossip, rtt_tx).await.unwrap();
        let (tx_bcast, rx_bcast) = bounded(100, "verif-bcast");
        let agent = kit.agent.clone();
        let tw = kit.tripwire.clone();
        let h = tokio::spawn(run_handle_broadcasts(
            agent.clone(),
            rx_bcast,
            transport,
            (ms.len() as u32 + 1).try_into().unwrap(),
            tw,
            klukai_agent::broadcast::BroadcastOpts { interval: Duration::from_millis(100), bcast_cutoff: 64 * 1024 },
        ));
        let change = agentkit::full(agent.actor_id(), 1, vec![agentkit::mk_change(agent.actor_id(), 1, 0, 1, "x", 1, 1)], 0, 0, 0, 1);
        tx_bcast.send(BroadcastInput::AddBroadcast(BroadcastV1::Change(change))).await.unwrap();
        tokio::time::sleep(Duration::from_millis(900)).await;
        h.abort();
        let _ = BytesMut::new().writer();
        format!("contacted={}", fmt_hits(&peers.hits))
    })
}
