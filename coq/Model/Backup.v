(* Model of `corrosion backup` / `corrosion restore`'s site-id handling,
   crates/klukai/src/main.rs.  cr-sqlite attributes every clock row to an author through an
   ordinal into crsql_site_id; ordinal 0 is "this node".
     backup : VACUUM INTO; delete ordinal 0, re-insert its site id under a fresh ordinal,
              rewrite clock rows 0 -> fresh; clear node-local tables.
     restore (--self-actor-id / --actor-id X): delete X's row (ordinal k), INSERT OR REPLACE
              (0, X), rewrite clock rows k -> 0 when k <> 0; wipe subscriptions; copy. *)
From Coq Require Import List ZArith Bool.
Import ListNotations.
Open Scope Z_scope.

Definition sites := list (Z * Z).                    (* (ordinal, site id) *)
Record bdb := mkB {
  b_sites : sites;
  b_clock : list (Z * Z);                            (* (cell id, author ordinal) for every clock row *)
  b_members : list Z;                                (* __corro_members rows *)
  b_subs : list Z }.                                 (* __corro_subs rows *)

Fixpoint site_of (o : Z) (s : sites) : option Z :=
  match s with [] => None | (o', x) :: t => if o' =? o then Some x else site_of o t end.
Fixpoint ord_of (x : Z) (s : sites) : option Z :=
  match s with [] => None | (o, x') :: t => if x' =? x then Some o else ord_of x t end.

Definition author (d : bdb) (row : Z * Z) : option Z := site_of (snd row) (b_sites d).

Definition max_ord (s : sites) : Z := fold_left (fun m p => Z.max m (fst p)) s 0.

(* INTEGER PRIMARY KEY AUTOINCREMENT: greater than every ordinal ever used; `seq` is the
   sqlite_sequence high-water mark *)
Definition fresh_ord (seq : Z) (s : sites) : Z := Z.max seq (max_ord s) + 1.

Definition rewrite (from to : Z) (c : list (Z * Z)) : list (Z * Z) :=
  map (fun r => if snd r =? from then (fst r, to) else r) c.

Definition backup (seq : Z) (d : bdb) : option bdb :=
  match site_of 0 (b_sites d) with
  | None => None                                      (* the DELETE ... RETURNING finds no row: the command fails *)
  | Some self =>
    let rest := filter (fun p => negb (fst p =? 0)) (b_sites d) in
    let n := fresh_ord seq (b_sites d) in
    Some (mkB (rest ++ [(n, self)]) (rewrite 0 n (b_clock d)) [] [])
  end.

(* restore with the actor id X to keep (None: --self-actor-id/--actor-id not given) *)
Definition restore (keep : option Z) (snap : bdb) : bdb :=
  match keep with
  | None => snap
  | Some x =>
    let k := ord_of x (b_sites snap) in
    let without_x := filter (fun p => negb (snd p =? x)) (b_sites snap) in
    let without_0 := filter (fun p => negb (fst p =? 0)) without_x in      (* INSERT OR REPLACE (0, x) *)
    let s' := (0, x) :: without_0 in
    match k with
    | Some k' => if k' =? 0 then mkB s' (b_clock snap) (b_members snap) (b_subs snap)
                 else mkB s' (rewrite k' 0 (b_clock snap)) (b_members snap) (b_subs snap)
    | None => mkB s' (b_clock snap) (b_members snap) (b_subs snap)
    end
  end.

(* well-formed site table: ordinals and site ids are unique; every clock row's ordinal is known *)
Fixpoint nodupz (l : list Z) : bool :=
  match l with [] => true | x :: t => negb (existsb (Z.eqb x) t) && nodupz t end.
Definition wf (d : bdb) : bool :=
  nodupz (map fst (b_sites d)) && nodupz (map snd (b_sites d)) &&
  forallb (fun r => match site_of (snd r) (b_sites d) with Some _ => true | None => false end) (b_clock d) &&
  forallb (fun p => 0 <=? fst p) (b_sites d).
