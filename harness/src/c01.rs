//! C01 layer 1: cr-sqlite's merge (INSERT INTO crsql_changes) on a real CrConn,
//! one change at a time, dumping crsql_changes and the table after each.
use crate::{c02, util::Toks};
use klukai_types::pubsub::{pack_columns, unpack_columns};

fn site(n: u64) -> [u8; 16] {
    let mut b = [0u8; 16];
    b[15] = n as u8;
    b[0] = 0xaa;
    b
}

/// case: crdt <n> { <rowid> <cid: T=text | S=sentinel> <val int> <col_version> <cl> <site 1..9> <db_version> <seq> }
/// obs per step: clock rows `id/cid:val:colv:cl:site:dbv:seq` sorted + table rows `id=val`
pub fn crdt(t: &mut Toks) -> String {
    let conn = c02::open_db();
    conn.execute_batch(
        "CREATE TABLE tests (id INTEGER NOT NULL PRIMARY KEY, text TEXT NOT NULL DEFAULT '') WITHOUT ROWID; SELECT crsql_as_crr('tests');",
    )
    .unwrap();
    let n = t.usize();
    let mut outs = vec![];
    for _ in 0..n {
        let id = t.i64();
        let cid = t.tok();
        let val = t.i64();
        let colv = t.i64();
        let cl = t.i64();
        let st = t.u64();
        let dbv = t.i64();
        let seq = t.i64();
        let pk = pack_columns(&[id.into()]).unwrap();
        let (cid_s, val_v): (&str, rusqlite::types::Value) = if cid == "S" {
            ("-1", rusqlite::types::Value::Null)
        } else {
            ("text", rusqlite::types::Value::Text(format!("{val:03}")))
        };
        let r = conn.execute(
            r#"INSERT INTO crsql_changes ("table", pk, cid, val, col_version, db_version, site_id, cl, seq, ts) VALUES ('tests', ?, ?, ?, ?, ?, ?, ?, ?, '0')"#,
            rusqlite::params![pk, cid_s, val_v, colv, dbv, site(st).to_vec(), cl, seq],
        );
        let impacted: i64 = conn.query_row("SELECT crsql_rows_impacted()", [], |r| r.get(0)).unwrap_or(-1);
        let mut clock: Vec<String> = conn
            .prepare(r#"SELECT pk, cid, val, col_version, cl, site_id, db_version, seq FROM crsql_changes"#)
            .unwrap()
            .query_map([], |r| {
                let pk: Vec<u8> = r.get(0)?;
                let id = unpack_columns(&pk).ok().and_then(|v| v.first().and_then(|x| x.as_integer())).unwrap_or(-1);
                let cid: String = r.get(1)?;
                let val: Option<String> = r.get(2)?;
                let sid: Vec<u8> = r.get(5)?;
                Ok(format!(
                    "{}/{}:{}:{}:{}:{}:{}:{}",
                    id,
                    if cid == "-1" { "S" } else { "T" },
                    val.unwrap_or("-".into()),
                    r.get::<_, i64>(3)?,
                    r.get::<_, i64>(4)?,
                    sid[15],
                    r.get::<_, i64>(6)?,
                    r.get::<_, i64>(7)?
                ))
            })
            .unwrap()
            .map(|x| x.unwrap())
            .collect();
        clock.sort();
        let rows: Vec<String> = conn
            .prepare("SELECT id, text FROM tests ORDER BY id")
            .unwrap()
            .query_map([], |r| Ok(format!("{}={}", r.get::<_, i64>(0)?, r.get::<_, String>(1)?)))
            .unwrap()
            .map(|x| x.unwrap())
            .collect();
        outs.push(format!("{} i{} clk={} tbl={}", if r.is_ok() { "ok" } else { "err" }, impacted, clock.join(","), rows.join(",")));
    }
    outs.join(" # ")
}

fn open_site() -> klukai_types::sqlite::CrConn {
    let conn = c02::open_db();
    conn.execute_batch(
        "CREATE TABLE tests (id INTEGER NOT NULL PRIMARY KEY, text TEXT NOT NULL DEFAULT '') WITHOUT ROWID; SELECT crsql_as_crr('tests');",
    )
    .unwrap();
    conn
}

#[derive(Clone)]
struct Rec {
    row: i64,
    cid: String,
    val: Option<String>,
    colv: i64,
    cl: i64,
    site: Vec<u8>,
    dbv: i64,
    seq: i64,
}

fn dump(conn: &rusqlite::Connection, names: &std::collections::HashMap<Vec<u8>, usize>) -> String {
    let mut clock: Vec<String> = conn
        .prepare(r#"SELECT pk, cid, val, col_version, cl, site_id, db_version, seq FROM crsql_changes"#)
        .unwrap()
        .query_map([], |r| {
            let pk: Vec<u8> = r.get(0)?;
            let id = unpack_columns(&pk).ok().and_then(|v| v.first().and_then(|x| x.as_integer())).unwrap_or(-1);
            let cid: String = r.get(1)?;
            let val: Option<String> = r.get(2)?;
            let sid: Vec<u8> = r.get(5)?;
            Ok(format!(
                "{}/{}:{}:{}:{}:{}:{}:{}",
                id,
                if cid == "-1" { "S" } else { "T" },
                val.unwrap_or("-".into()),
                r.get::<_, i64>(3)?,
                r.get::<_, i64>(4)?,
                names.get(&sid).map(|x| x.to_string()).unwrap_or("?".into()),
                r.get::<_, i64>(6)?,
                r.get::<_, i64>(7)?
            ))
        })
        .unwrap()
        .map(|x| x.unwrap())
        .collect();
    clock.sort();
    let rows: Vec<String> = conn
        .prepare("SELECT id, text FROM tests ORDER BY id")
        .unwrap()
        .query_map([], |r| Ok(format!("{}={}", r.get::<_, i64>(0)?, r.get::<_, String>(1)?)))
        .unwrap()
        .map(|x| x.unwrap())
        .collect();
    format!("clk={} tbl={}", clock.join(","), rows.join(","))
}

/// case: crdtsim <nsites> <nops> { W <site> <I|U|X> <row> <val> | G <dst> <idx> }
///   W: a local write at a site (I = upsert text, U = update text, X = delete row)
///   G: merge the idx-th change record produced so far (by any site) into dst
/// obs per op: `recs=<produced records>` for W, then the dump of the touched site
pub fn crdtsim(t: &mut Toks) -> String {
    let ns = t.usize();
    let nops = t.usize();
    let sites: Vec<_> = (0..ns).map(|_| open_site()).collect();
    let mut names = std::collections::HashMap::new();
    for (i, s) in sites.iter().enumerate() {
        let sid: Vec<u8> = s.query_row("SELECT crsql_site_id()", [], |r| r.get(0)).unwrap();
        names.insert(sid, i);
    }
    // site ids are random: their byte order decides equal-value ties; report the order
    let mut order: Vec<(Vec<u8>, usize)> = names.iter().map(|(k, v)| (k.clone(), *v)).collect();
    order.sort();
    let rank: Vec<String> = order.iter().map(|(_, i)| i.to_string()).collect();
    let mut produced: Vec<Rec> = vec![];
    let mut outs = vec![format!("siteorder={}", rank.join("<"))];
    for _ in 0..nops {
        match t.tok() {
            "W" => {
                let s = t.usize();
                let kind = t.tok();
                let row = t.i64();
                let val = t.i64();
                let conn = &sites[s];
                let before: i64 = conn.query_row("SELECT crsql_db_version()", [], |r| r.get(0)).unwrap();
                let sql = match kind {
                    "I" => format!("INSERT INTO tests (id, text) VALUES ({row}, '{val:03}') ON CONFLICT (id) DO UPDATE SET text = excluded.text"),
                    "U" => format!("UPDATE tests SET text = '{val:03}' WHERE id = {row}"),
                    "X" => format!("DELETE FROM tests WHERE id = {row}"),
                    x => panic!("bad kind {x}"),
                };
                conn.execute_batch(&sql).unwrap();
                let recs: Vec<Rec> = conn
                    .prepare(r#"SELECT pk, cid, val, col_version, cl, site_id, db_version, seq FROM crsql_changes WHERE site_id = crsql_site_id() AND db_version > ? ORDER BY db_version, seq"#)
                    .unwrap()
                    .query_map([before], |r| {
                        let pk: Vec<u8> = r.get(0)?;
                        Ok(Rec {
                            row: unpack_columns(&pk).ok().and_then(|v| v.first().and_then(|x| x.as_integer())).unwrap_or(-1),
                            cid: r.get(1)?,
                            val: r.get(2)?,
                            colv: r.get(3)?,
                            cl: r.get(4)?,
                            site: r.get(5)?,
                            dbv: r.get(6)?,
                            seq: r.get(7)?,
                        })
                    })
                    .unwrap()
                    .map(|x| x.unwrap())
                    .collect();
                let rs: Vec<String> = recs
                    .iter()
                    .map(|r| {
                        format!(
                            "{}/{}:{}:{}:{}:{}:{}:{}",
                            r.row,
                            if r.cid == "-1" { "S" } else { "T" },
                            r.val.clone().unwrap_or("-".into()),
                            r.colv,
                            r.cl,
                            names[&r.site],
                            r.dbv,
                            r.seq
                        )
                    })
                    .collect();
                produced.extend(recs);
                outs.push(format!("W{} recs={} {}", s, rs.join(","), dump(conn, &names)));
            }
            "G" => {
                let dst = t.usize();
                let idx = t.usize();
                if produced.is_empty() {
                    outs.push(format!("G{} skip {}", dst, dump(&sites[dst], &names)));
                    continue;
                }
                let r = produced[idx % produced.len()].clone();
                let conn = &sites[dst];
                let pk = pack_columns(&[r.row.into()]).unwrap();
                let res = conn.execute(
                    r#"INSERT INTO crsql_changes ("table", pk, cid, val, col_version, db_version, site_id, cl, seq, ts) VALUES ('tests', ?, ?, ?, ?, ?, ?, ?, ?, '0')"#,
                    rusqlite::params![pk, r.cid, r.val, r.colv, r.dbv, r.site, r.cl, r.seq],
                );
                outs.push(format!(
                    "G{} {} rec={}/{}:{}:{}:{}:{}:{}:{} {}",
                    dst,
                    if res.is_ok() { "ok" } else { "err" },
                    r.row,
                    if r.cid == "-1" { "S" } else { "T" },
                    r.val.clone().unwrap_or("-".into()),
                    r.colv,
                    r.cl,
                    names[&r.site],
                    r.dbv,
                    r.seq,
                    dump(conn, &names)
                ));
            }
            x => panic!("bad op {x}"),
        }
    }
    outs.join(" # ")
}

// ------------------------------------------------------------------------------------
// C01 layer 2: a cluster of real agents in one process; the harness is the network.
use crate::agentkit;
use klukai_agent::{
    agent::{process_multiple_changes, util::process_fully_buffered_changes},
    api::{peer::verif_hooks::run_process_sync, public::{api_v1_transactions, TimeoutParams}},
};
use klukai_types::{
    agent::Bookie,
    api::Statement,
    base::CrsqlSeq,
    broadcast::{BroadcastInput, BroadcastV1, ChangeSource, ChangeV1, Changeset},
    sync::{generate_sync, SyncMessage, SyncMessageV1, SyncStateV1},
};
use std::time::{Duration, Instant};

struct Node {
    kit: agentkit::Kit,
    bookie: Bookie,
    outbox: Vec<ChangeV1>,
}

/// rows (ids) for which this node's crsql_changes holds two records under one
/// (site_id, db_version, seq): a merge that resurrected the row stamped the sentinel it
/// created with the position of the record that caused it
async fn dup_seq_rows(n: &Node) -> Vec<i64> {
    let conn = n.kit.agent.pool().read().await.unwrap();
    let mut ids: Vec<i64> = conn
        .prepare(r#"SELECT a.pk FROM crsql_changes a JOIN crsql_changes b ON a.site_id = b.site_id AND a.db_version = b.db_version AND a.seq = b.seq AND a.cid < b.cid"#)
        .unwrap()
        .query_map([], |r| {
            let pk: Vec<u8> = r.get(0)?;
            Ok(unpack_columns(&pk).ok().and_then(|v| v.first().and_then(|x| x.as_integer())).unwrap_or(-1))
        })
        .unwrap()
        .map(|x| x.unwrap())
        .collect();
    ids.sort();
    ids.dedup();
    ids
}

/// panics caught while a node applied a batch (normalised): the script goes on
static PANICS: std::sync::Mutex<Vec<String>> = std::sync::Mutex::new(Vec::new());

async fn apply_batch(node: &Node, batch: Vec<(ChangeV1, ChangeSource, Instant)>) {
    use futures::FutureExt;
    let fut = process_multiple_changes(node.kit.agent.clone(), node.bookie.clone(), batch, Duration::from_secs(30));
    if let Err(p) = std::panic::AssertUnwindSafe(fut).catch_unwind().await {
        let msg = p.downcast_ref::<String>().cloned().or_else(|| p.downcast_ref::<&str>().map(|x| x.to_string())).unwrap_or_else(|| "?".into());
        let kind = if msg.contains("has len") && msg.contains("but seqs range is") {
            "complete-version-len>seqs".to_string()
        } else {
            msg.chars().filter(|c| !c.is_whitespace() && *c != ',').take(60).collect()
        };
        PANICS.lock().unwrap().push(kind);
    }
}

async fn node_dump(n: &Node) -> (String, String, SyncStateV1) {
    let conn = n.kit.agent.pool().read().await.unwrap();
    let rows: Vec<String> = conn
        .prepare("SELECT id, text FROM tests ORDER BY id")
        .unwrap()
        .query_map([], |r| Ok(format!("{}={}", r.get::<_, i64>(0)?, r.get::<_, String>(1)?)))
        .unwrap()
        .map(|x| x.unwrap())
        .collect();
    let mut clock: Vec<String> = conn
        .prepare(r#"SELECT pk, cid, val, col_version, cl FROM crsql_changes"#)
        .unwrap()
        .query_map([], |r| {
            let pk: Vec<u8> = r.get(0)?;
            let id = unpack_columns(&pk).ok().and_then(|v| v.first().and_then(|x| x.as_integer())).unwrap_or(-1);
            let cid: String = r.get(1)?;
            let val: Option<String> = r.get(2)?;
            Ok(format!("{}/{}:{}:{}:{}", id, if cid == "-1" { "S" } else { "T" }, val.unwrap_or("-".into()), r.get::<_, i64>(3)?, r.get::<_, i64>(4)?))
        })
        .unwrap()
        .map(|x| x.unwrap())
        .collect();
    clock.sort();
    drop(conn);
    let st = generate_sync(&n.bookie, n.kit.agent.actor_id()).await;
    (rows.join(","), clock.join(","), st)
}

fn collect_outbox(n: &mut Node) {
    while let Ok(m) = n.kit.opts.rx_bcast.try_recv() {
        if let BroadcastInput::AddBroadcast(BroadcastV1::Change(c)) = m {
            n.outbox.push(c);
        }
    }
}

async fn apply_pending(n: &mut Node) {
    tokio::time::sleep(Duration::from_millis(10)).await;
    let mut todo = vec![];
    while let Ok(x) = n.kit.opts.rx_apply.try_recv() {
        todo.push(x);
    }
    for (a, v) in todo {
        let _ = process_fully_buffered_changes(&n.kit.agent, &n.bookie, a, v, Duration::from_secs(30)).await;
    }
}

/// n pulls from m; mode 1: every second answer is dropped; mode 2: the answers about the serving
/// node's own versions are dropped (only what it relays for others arrives: what a requester gets
/// that spreads its needs over several peers, or that loses the rest)
async fn sync_pull(nodes: &mut [Node], n: usize, m: usize, mode: u64) -> usize {
    let sn = generate_sync(&nodes[n].bookie, nodes[n].kit.agent.actor_id()).await;
    let sm = generate_sync(&nodes[m].bookie, nodes[m].kit.agent.actor_id()).await;
    let needs = sn.compute_available_needs(&sm);
    let mut answers = vec![];
    for (actor, list) in needs {
        for need in list {
            let (tx, mut rx) = tokio::sync::mpsc::channel::<SyncMessage>(100_000);
            let (req_tx, req_rx) = tokio::sync::mpsc::channel(4);
            req_tx.send(vec![(actor, vec![need])]).await.unwrap();
            drop(req_tx);
            let _ = run_process_sync(nodes[m].kit.agent.pool().clone(), nodes[m].bookie.clone(), tx, req_rx).await;
            while let Ok(msg) = rx.try_recv() {
                if let SyncMessage::V1(SyncMessageV1::Changeset(c)) = msg {
                    answers.push(c);
                }
            }
        }
    }
    let total = answers.len();
    let server_actor = nodes[m].kit.agent.actor_id();
    if std::env::var("VERIF_DEBUG").is_ok() {
        for c in &answers {
            match &c.changeset {
                Changeset::Full { version, changes, seqs, last_seq, .. } => eprintln!("DBG pull {n}<-{m} actor={} Full v{} seqs={}-{} last={} changes={:?}", c.actor_id, version.0, seqs.start().0, seqs.end().0, last_seq.0, changes.iter().map(|x| format!("{}:{:?}:{:?}:cv{}:cl{}:seq{}", x.table, x.cid, x.val, x.col_version, x.cl, x.seq.0)).collect::<Vec<_>>()),
                Changeset::Empty { versions, .. } => eprintln!("DBG pull {n}<-{m} actor={} Empty {}-{}", c.actor_id, versions.start().0, versions.end().0),
                _ => eprintln!("DBG pull {n}<-{m} other"),
            }
        }
    }
    let batch: Vec<_> = answers
        .into_iter()
        .enumerate()
        .filter(|(i, c)| !(mode == 1 && i % 2 == 1) && !(mode == 2 && c.actor_id == server_actor))
        .map(|(_, c)| (c, ChangeSource::Sync, Instant::now()))
        .collect();
    if !batch.is_empty() {
        apply_batch(&nodes[n], batch).await;
    }
    apply_pending(&mut nodes[n]).await;
    total
}

/// split a Full changeset in two contiguous chunks (if it has >= 2 changes)
fn split(c: &ChangeV1) -> Vec<ChangeV1> {
    if let Changeset::Full { version, changes, seqs, last_seq, ts } = &c.changeset {
        if changes.len() >= 2 {
            let mid = changes.len() / 2;
            let cut = changes[mid].seq;
            let a = ChangeV1 {
                actor_id: c.actor_id,
                changeset: Changeset::Full { version: *version, changes: changes[..mid].to_vec(), seqs: *seqs.start()..=CrsqlSeq(cut.0 - 1), last_seq: *last_seq, ts: *ts },
            };
            let b = ChangeV1 {
                actor_id: c.actor_id,
                changeset: Changeset::Full { version: *version, changes: changes[mid..].to_vec(), seqs: cut..=*seqs.end(), last_seq: *last_seq, ts: *ts },
            };
            return vec![a, b];
        }
    }
    vec![c.clone()]
}

/// case: cluster <nnodes> <nops> { T n k {I|U|X row val}*k | B n m mode | S n m {0 loss-free|1 every second answer lost|2 only relayed versions arrive} | A n } <rounds>
///  B modes: 0 in order, 1 reversed, 2 every second dropped, 3 each twice, 4 split in two and only the first half,
///           5 split in two, second half first, 6 split in two and only the second half (the receiver then
///           holds a part of the version that does not start at seq 0)
pub fn cluster(t: &mut Toks) -> String {
    PANICS.lock().unwrap().clear();
    let rt = tokio::runtime::Builder::new_multi_thread().worker_threads(4).enable_all().build().unwrap();
    let nn = t.usize();
    let nops = t.usize();
    enum Op {
        T(usize, Vec<(String, i64, i64)>),
        B(usize, usize, u64),
        S(usize, usize, u64),
        A(usize),
    }
    let mut ops = vec![];
    for _ in 0..nops {
        ops.push(match t.tok() {
            "T" => {
                let n = t.usize();
                let k = t.usize();
                Op::T(n, (0..k).map(|_| (t.tok().to_string(), t.i64(), t.i64())).collect())
            }
            "B" => Op::B(t.usize(), t.usize(), t.u64()),
            "S" => Op::S(t.usize(), t.usize(), t.u64()),
            "A" => Op::A(t.usize()),
            x => panic!("bad op {x}"),
        });
    }
    let rounds = t.usize();
    rt.block_on(async move {
        let mut nodes = vec![];
        for _ in 0..nn {
            let kit = agentkit::new_agent(|_| {}).await;
            let bookie = Bookie::new(Default::default());
            {
                let mut w = bookie.write::<&str, _>("verif", None).await;
                w.insert(kit.agent.actor_id(), kit.agent.booked().clone());
            }
            nodes.push(Node { kit, bookie, outbox: vec![] });
        }
        let mut acked = 0;
        let mut sent_upto = vec![vec![0usize; nn]; nn];
        for op in ops {
            match op {
                Op::T(n, stmts) => {
                    let stmts: Vec<Statement> = stmts
                        .iter()
                        .map(|(k, row, val)| {
                            Statement::Simple(match k.as_str() {
                                "I" => format!("INSERT INTO tests (id, text) VALUES ({row}, '{val:04}') ON CONFLICT (id) DO UPDATE SET text = excluded.text"),
                                "U" => format!("UPDATE tests SET text = '{val:04}' WHERE id = {row}"),
                                _ => format!("DELETE FROM tests WHERE id = {row}"),
                            })
                        })
                        .collect();
                    let (st, b) = api_v1_transactions(axum::Extension(nodes[n].kit.agent.clone()), axum::extract::Query(TimeoutParams { timeout: None }), axum::extract::Json(stmts)).await;
                    if st.is_success() {
                        acked += 1;
                    }
                    // the broadcast of an acknowledged version is sent by a spawned task: wait until its
                    // last chunk is in the outbox (under load 25 ms were not always enough, and the
                    // script's next delivery then carried nothing)
                    if let (true, Some(v)) = (st.is_success(), b.0.version) {
                        let t0 = Instant::now();
                        loop {
                            collect_outbox(&mut nodes[n]);
                            let done = nodes[n].outbox.iter().any(|c| matches!(&c.changeset, Changeset::Full { version, seqs, last_seq, .. } if version.0 == v && seqs.end() == last_seq));
                            if done || t0.elapsed() > Duration::from_secs(10) {
                                break;
                            }
                            tokio::time::sleep(Duration::from_millis(3)).await;
                        }
                    } else {
                        tokio::time::sleep(Duration::from_millis(25)).await;
                    }
                    collect_outbox(&mut nodes[n]);
                }
                Op::B(n, m, mode) => {
                    if n == m {
                        continue;
                    }
                    collect_outbox(&mut nodes[n]);
                    let from = sent_upto[n][m];
                    let pending: Vec<ChangeV1> = nodes[n].outbox[from..].to_vec();
                    sent_upto[n][m] = nodes[n].outbox.len();
                    let mut list: Vec<ChangeV1> = match mode {
                        1 => pending.into_iter().rev().collect(),
                        2 => pending.into_iter().step_by(2).collect(),
                        3 => pending.iter().flat_map(|c| vec![c.clone(), c.clone()]).collect(),
                        4 => pending.iter().map(|c| split(c)[0].clone()).collect(),
                        5 => pending.iter().flat_map(|c| split(c).into_iter().rev().collect::<Vec<_>>()).collect(),
                        6 => pending.iter().map(|c| split(c).last().unwrap().clone()).collect(),
                        _ => pending,
                    };
                    if !list.is_empty() {
                        let batch: Vec<_> = list.drain(..).map(|c| (c, ChangeSource::Broadcast, Instant::now())).collect();
                        apply_batch(&nodes[m], batch).await;
                        apply_pending(&mut nodes[m]).await;
                    }
                }
                Op::S(n, m, mode) => {
                    if n != m {
                        sync_pull(&mut nodes, n, m, mode).await;
                    }
                }
                Op::A(n) => apply_pending(&mut nodes[n]).await,
            }
        }
        // writes have stopped: loss-free pairwise sessions until nothing is requested any more
        let mut used = 0;
        for r in 0..rounds {
            let mut asked = 0;
            for n in 0..nn {
                for m in 0..nn {
                    if n != m {
                        asked += sync_pull(&mut nodes, n, m, 0).await;
                    }
                }
            }
            used = r + 1;
            if asked == 0 {
                break;
            }
        }
        if std::env::var("VERIF_DEBUG").is_ok() {
            for (i, n) in nodes.iter().enumerate() {
                let conn = n.kit.agent.pool().read().await.unwrap();
                let mut st = conn.prepare(r#"SELECT pk, cid, val, col_version, db_version, seq, hex(site_id), cl FROM crsql_changes ORDER BY site_id, db_version, seq"#).unwrap();
                let rows: Vec<String> = st.query_map([], |r| Ok(format!("cid={} val={:?} cv={} dbv={} seq={} site={} cl={}", r.get::<_, String>(1)?, r.get::<_, rusqlite::types::Value>(2)?, r.get::<_, i64>(3)?, r.get::<_, i64>(4)?, r.get::<_, i64>(5)?, &r.get::<_, String>(6)?[..6], r.get::<_, i64>(7)?))).unwrap().map(|x| x.unwrap()).collect();
                for r in rows { eprintln!("DBG node{i} {r}"); }
            }
        }
        let panics: Vec<String> = std::mem::take(&mut *PANICS.lock().unwrap());
        // every record of every acknowledged transaction, as broadcast by its origin (site = rank of the
        // origin's actor id in byte order: what decides equal-value ties in the merge)
        let mut ids: Vec<(Vec<u8>, usize)> = nodes.iter().enumerate().map(|(i, n)| (n.kit.agent.actor_id().to_bytes().to_vec(), i)).collect();
        ids.sort();
        let rank_of = |site: &[u8]| ids.iter().position(|(b, _)| b.as_slice() == site).map(|x| x as i64).unwrap_or(-1);
        let mut recs: Vec<String> = vec![];
        for n in nodes.iter_mut() {
            collect_outbox(n);
            for c in n.outbox.iter() {
                if let Changeset::Full { changes, .. } = &c.changeset {
                    for x in changes {
                        let row = unpack_columns(&x.pk).ok().and_then(|v| v.first().and_then(|y| y.as_integer())).unwrap_or(-1);
                        let val = match &x.val {
                            klukai_types::api::SqliteValue::Text(t) => t.to_string(),
                            klukai_types::api::SqliteValue::Null => "-".to_string(),
                            other => format!("?{other:?}"),
                        };
                        recs.push(format!("{}/{}:{}:{}:{}:{}:{}:{}", row, if x.cid.as_str() == "-1" { "S" } else { "T" }, val, x.col_version, x.cl, rank_of(&x.site_id), x.db_version.0, x.seq.0));
                    }
                }
            }
        }
        recs.sort();
        recs.dedup();
        let head = if panics.is_empty() { format!("acked={} rounds={}", acked, used) } else { format!("acked={} rounds={} panics={}", acked, used, panics.join(",")) };
        let mut outs = vec![format!("{} recs={}", head, recs.join(","))];
        for n in nodes.iter() {
            let (tbl, clk, st) = node_dump(n).await;
            let mut heads: Vec<String> = vec![];
            let mut hs: Vec<_> = st.heads.iter().collect();
            hs.sort();
            // actor ids differ per run: report heads in the order of the nodes
            let _ = &mut heads;
            let need: usize = st.need.values().map(|v| v.len()).sum();
            let pneed: usize = st.partial_need.values().map(|v| v.len()).sum();
            let mut hv: Vec<u64> = vec![];
            for other in 0..nn {
                let _ = other;
            }
            for (_a, h) in hs {
                hv.push(h.0);
            }
            hv.sort();
            let dup = dup_seq_rows(n).await;
            outs.push(format!("tbl={} clk={} heads={} need={} pneed={} dup={}", tbl, clk, hv.iter().map(|x| x.to_string()).collect::<Vec<_>>().join(","), need, pneed, dup.iter().map(|x| x.to_string()).collect::<Vec<_>>().join(",")));
        }
        outs.join(" # ")
    })
}
