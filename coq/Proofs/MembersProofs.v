From Coq Require Import List ZArith Bool Lia.
From Corro Require Import Gen.Consts Model.Members.
Import ListNotations.
Open Scope Z_scope.

Section MapLemmas.
  Context {V : Type}.
  Implicit Types m : list (Z * V).

  Lemma mget_mset_same m k v : mget k (mset k v m) = Some v.
  Proof.
    induction m as [|[k' v'] m IH]; cbn; [rewrite Z.eqb_refl; reflexivity|].
    destruct (k =? k') eqn:E1; [cbn; rewrite Z.eqb_refl; reflexivity|].
    destruct (k <? k'); cbn; [rewrite Z.eqb_refl; reflexivity|]. rewrite E1. exact IH.
  Qed.

  Lemma mget_mset_other m k k' v : k' <> k -> mget k' (mset k v m) = mget k' m.
  Proof.
    intros Hne. induction m as [|[k0 v0] m IH]; cbn.
    - destruct (k' =? k) eqn:E; [apply Z.eqb_eq in E; contradiction|reflexivity].
    - destruct (k =? k0) eqn:E1.
      + apply Z.eqb_eq in E1. subst. cbn.
        destruct (k' =? k0) eqn:E; [apply Z.eqb_eq in E; contradiction|reflexivity].
      + destruct (k <? k0); cbn.
        * destruct (k' =? k) eqn:E; [apply Z.eqb_eq in E; contradiction|reflexivity].
        * destruct (k' =? k0); [reflexivity|exact IH].
  Qed.

  Lemma mget_mdel_same m k : mget k (mdel k m) = None.
  Proof.
    induction m as [|[k0 v0] m IH]; cbn; [reflexivity|].
    destruct (k =? k0) eqn:E; [exact IH|]. cbn. rewrite E. exact IH.
  Qed.

  Lemma mget_mdel_other m k k' : k' <> k -> mget k' (mdel k m) = mget k' m.
  Proof.
    intros Hne. induction m as [|[k0 v0] m IH]; cbn; [reflexivity|].
    destruct (k =? k0) eqn:E.
    - apply Z.eqb_eq in E. subst. destruct (k' =? k0) eqn:E2; [apply Z.eqb_eq in E2; contradiction|exact IH].
    - cbn. destruct (k' =? k0); [reflexivity|exact IH].
  Qed.
End MapLemmas.

Definition core (st : mstate) : Z * Z * Z := (m_addr st, m_ts st, m_cluster st).

Lemma recalc_core m addr a :
  option_map core (mget a (states (recalculate_rings m addr))) = option_map core (mget a (states m)).
Proof.
  unfold recalculate_rings.
  destruct (mget addr (by_addr m)) as [aid|]; [|reflexivity].
  destruct (mget addr (rtts m)) as [[|x buf]|]; try reflexivity.
  destruct (mget aid (states m)) as [st|] eqn:Est; [|reflexivity].
  destruct (bucket_of _ ring_buckets 0); [|reflexivity]. cbn [states].
  destruct (Z.eq_dec a aid) as [->|Hne].
  - rewrite mget_mset_same, Est. reflexivity.
  - rewrite mget_mset_other by exact Hne. reflexivity.
Qed.

Lemma recalc_by_addr m addr : by_addr (recalculate_rings m addr) = by_addr m.
Proof.
  unfold recalculate_rings.
  destruct (mget addr (by_addr m)); [|reflexivity].
  destruct (mget addr (rtts m)) as [[|x buf]|]; try reflexivity.
  destruct (mget _ (states m)); [|reflexivity].
  destruct (bucket_of _ ring_buckets 0); reflexivity.
Qed.

(* view_matches only looks at the core of a state *)
Definition view_ok (so : option srec) (co : option (Z * Z * Z)) : bool :=
  match so, co with
  | None, None => true
  | Some r, None => negb (s_up r)
  | Some r, Some (ad, ts, cl) => s_up r && (ts =? s_ts r) && (ad =? s_addr r) && (cl =? s_cluster r)
  | None, Some _ => false
  end.

Lemma view_matches_core m s a :
  view_matches m s a = view_ok (mget a s) (option_map core (mget a (states m))).
Proof.
  unfold view_matches, view_ok. destruct (mget a s), (mget a (states m)) as [st|]; cbn; reflexivity.
Qed.

Ltac zb := repeat match goal with
  | H : (_ <? _) = true |- _ => apply Z.ltb_lt in H
  | H : (_ <? _) = false |- _ => apply Z.ltb_ge in H
  | H : (_ <=? _) = true |- _ => apply Z.leb_le in H
  | H : (_ <=? _) = false |- _ => apply Z.leb_gt in H
  | H : (_ =? _) = true |- _ => apply Z.eqb_eq in H
  | H : (_ =? _) = false |- _ => apply Z.eqb_neq in H
  | H : (_ && _) = true |- _ => apply andb_true_iff in H; destruct H
  end.

(* one step preserves "the view matches the newest-identity fold" *)
Lemma step_view m s op :
  (forall a, view_matches m s a = true) -> op_allowed s op = true ->
  forall a, view_matches (mstep m op) (spec_step s op) a = true.
Proof.
  intros Hinv Hal a. rewrite view_matches_core.
  assert (Hi : forall x, view_ok (mget x s) (option_map core (mget x (states m))) = true)
    by (intros x; rewrite <- view_matches_core; apply Hinv).
  destruct op as [act|act|addr ms]; cbn [mstep spec_step].
  - (* Up *)
    unfold add_member. specialize (Hi (a_id act)) as Hid.
    cbn [op_allowed] in Hal.
    destruct (mget (a_id act) (states m)) as [st|] eqn:Est; cbn [option_map] in Hid; unfold core in Hid.
    + (* present: spec record is up with the same identity *)
      destruct (mget (a_id act) s) as [r|] eqn:Er; [|discriminate].
      cbn [view_ok] in Hid. zb. subst.
      destruct (a_ts act <? m_ts st) eqn:E1; cbn [fst].
      * (* older: ignored by both *)
        zb. destruct (s_ts r <? a_ts act) eqn:E2; [zb; lia|].
        destruct (s_ts r =? a_ts act) eqn:E3; [zb; lia|]. apply Hi.
      * destruct (m_ts st <? a_ts act) eqn:E2.
        -- (* newer identity: replaced *)
           rewrite H2 in *. rewrite E2.
           destruct (negb (m_addr st =? a_addr act)); cbn [fst];
             rewrite ?recalc_core; cbn [states];
             (destruct (Z.eq_dec a (a_id act)) as [->|Hne];
              [rewrite !mget_mset_same; cbn; rewrite !Z.eqb_refl; reflexivity
              |rewrite !mget_mset_other by exact Hne; apply Hi]).
        -- (* same identity timestamp *)
           zb. assert (m_ts st = a_ts act) by lia.
           assert (Hlt : (s_ts r <? a_ts act) = false) by (apply Z.ltb_ge; lia).
           assert (Heq : (s_ts r =? a_ts act) = true) by (apply Z.eqb_eq; lia).
           rewrite Hlt, Heq. cbn [fst].
           destruct (Z.eq_dec a (a_id act)) as [->|Hne].
           ++ rewrite mget_mset_same, Est. cbn. rewrite H2, H1, H0, !Z.eqb_refl. reflexivity.
           ++ rewrite mget_mset_other by exact Hne. apply Hi.
    + (* absent *)
      cbn [fst]. rewrite recalc_core. cbn [states].
      destruct (mget (a_id act) s) as [r|] eqn:Er.
      * cbn [view_ok] in Hid. apply negb_true_iff in Hid. rewrite Hid in Hal. zb.
        destruct (s_ts r <? a_ts act) eqn:E2.
        -- destruct (Z.eq_dec a (a_id act)) as [->|Hne];
             [rewrite !mget_mset_same; cbn; rewrite !Z.eqb_refl; reflexivity
             |rewrite !mget_mset_other by exact Hne; apply Hi].
        -- zb. assert (s_ts r = a_ts act) by lia.
           destruct (s_ts r =? a_ts act) eqn:E3; [|zb; lia]. zb.
           destruct (Z.eq_dec a (a_id act)) as [->|Hne];
             [rewrite !mget_mset_same; cbn;
              repeat (apply andb_true_iff; split); try reflexivity; apply Z.eqb_eq; congruence
             |rewrite !mget_mset_other by exact Hne; apply Hi].
      * destruct (Z.eq_dec a (a_id act)) as [->|Hne];
          [rewrite !mget_mset_same; cbn; rewrite !Z.eqb_refl; reflexivity
          |rewrite !mget_mset_other by exact Hne; apply Hi].
  - (* Down *)
    unfold remove_member. specialize (Hi (a_id act)) as Hid.
    destruct (mget (a_id act) (states m)) as [st|] eqn:Est; cbn [option_map] in Hid; unfold core in Hid.
    + destruct (mget (a_id act) s) as [r|] eqn:Er; [|discriminate].
      cbn [view_ok] in Hid. zb. subst. rewrite H2.
      destruct (s_ts r <=? a_ts act) eqn:E1; cbn [fst states].
      * destruct (Z.eq_dec a (a_id act)) as [->|Hne].
        -- rewrite mget_mset_same, mget_mdel_same. reflexivity.
        -- rewrite mget_mset_other, mget_mdel_other by exact Hne. apply Hi.
      * apply Hi.
    + cbn [fst].
      destruct (mget (a_id act) s) as [r|] eqn:Er.
      * destruct (s_ts r <=? a_ts act).
        -- destruct (Z.eq_dec a (a_id act)) as [->|Hne].
           ++ rewrite mget_mset_same, Est. reflexivity.
           ++ rewrite mget_mset_other by exact Hne. apply Hi.
        -- apply Hi.
      * destruct (Z.eq_dec a (a_id act)) as [->|Hne].
        -- rewrite mget_mset_same, Est. reflexivity.
        -- rewrite mget_mset_other by exact Hne. apply Hi.
  - (* Rtt *)
    unfold add_rtt. rewrite recalc_core. cbn [states]. apply Hi.
Qed.

Theorem members_view : forall ops m s,
  (forall a, view_matches m s a = true) -> ops_allowed s ops = true ->
  forall a, view_matches (fold_left mstep ops m) (fold_left spec_step ops s) a = true.
Proof.
  induction ops as [|op ops IH]; intros m s Hinv Hal a; [apply Hinv|].
  cbn [fold_left]. cbn [ops_allowed] in Hal. apply andb_true_iff in Hal as [H1 H2].
  apply IH; [|exact H2]. apply step_view; assumption.
Qed.

(* ---------- by_addr points to present members at that address ----------------- *)
Definition ba_inv (m : members) : Prop :=
  forall addr a, mget addr (by_addr m) = Some a ->
    exists st, mget a (states m) = Some st /\ m_addr st = addr.

Lemma recalc_ba_inv m addr : ba_inv m -> ba_inv (recalculate_rings m addr).
Proof.
  intros H ad a Hg. rewrite recalc_by_addr in Hg. destruct (H ad a Hg) as (st & Hs & Ha).
  pose proof (recalc_core m addr a) as Hc. rewrite Hs in Hc. cbn in Hc.
  destruct (mget a (states (recalculate_rings m addr))) as [st'|]; [|discriminate].
  exists st'. split; [reflexivity|]. cbn in Hc. unfold core in Hc. injection Hc as -> _ _. exact Ha.
Qed.

Lemma drop_old_ba m st id :
  ba_inv m -> mget id (states m) = Some st ->
  let ba := match mget (m_addr st) (by_addr m) with
            | Some x => if x =? id then mdel (m_addr st) (by_addr m) else by_addr m
            | None => by_addr m end in
  forall addr a, mget addr ba = Some a -> a <> id /\ mget addr (by_addr m) = Some a.
Proof.
  intros Hba Hst ba addr a Hg. unfold ba in Hg.
  assert (Hpt : mget addr (by_addr m) = Some a -> a = id -> addr = m_addr st).
  { intros H1 ->. destruct (Hba _ _ H1) as (st' & Hs' & Ha'). congruence. }
  destruct (mget (m_addr st) (by_addr m)) as [x|] eqn:Ex.
  - destruct (x =? id) eqn:E.
    + apply Z.eqb_eq in E. subst x.
      destruct (Z.eq_dec addr (m_addr st)) as [->|Hne]; [rewrite mget_mdel_same in Hg; discriminate|].
      rewrite mget_mdel_other in Hg by exact Hne. split; [|exact Hg]. intros ->. apply Hne, Hpt; auto.
    + apply Z.eqb_neq in E. split; [|exact Hg]. intros ->.
      pose proof (Hpt Hg eq_refl). subst addr. congruence.
  - split; [|exact Hg]. intros ->. pose proof (Hpt Hg eq_refl). subst addr. congruence.
Qed.

Lemma step_ba_inv m op : ba_inv m -> ba_inv (mstep m op).
Proof.
  intros Hba. destruct op as [act|act|addr ms]; cbn [mstep].
  - unfold add_member. destruct (mget (a_id act) (states m)) as [st|] eqn:Est; cbn [fst].
    + destruct (a_ts act <? m_ts st); [exact Hba|]. destruct (m_ts st <? a_ts act); [|exact Hba].
      destruct (negb (m_addr st =? a_addr act)) eqn:Emv; cbn [fst].
      * apply recalc_ba_inv. intros addr a Hg. cbn [by_addr states] in *.
        destruct (Z.eq_dec addr (a_addr act)) as [->|Hne].
        -- rewrite mget_mset_same in Hg. injection Hg as <-. rewrite mget_mset_same. eexists. split; reflexivity.
        -- rewrite mget_mset_other in Hg by exact Hne.
           destruct (drop_old_ba m st (a_id act) Hba Est addr a Hg) as [Hna Hg'].
           rewrite mget_mset_other by exact Hna. apply Hba, Hg'.
      * apply negb_false_iff, Z.eqb_eq in Emv. intros addr a Hg. cbn [by_addr states] in *.
        destruct (Z.eq_dec a (a_id act)) as [->|Hne].
        -- rewrite mget_mset_same. destruct (Hba _ _ Hg) as (st' & Hs' & Ha'). rewrite Est in Hs'. injection Hs' as <-.
           eexists. split; [reflexivity|]. cbn. congruence.
        -- rewrite mget_mset_other by exact Hne. apply Hba, Hg.
    + apply recalc_ba_inv. intros addr a Hg. cbn [by_addr states] in *.
      destruct (Z.eq_dec addr (a_addr act)) as [->|Hne].
      * rewrite mget_mset_same in Hg. injection Hg as <-. rewrite mget_mset_same. eexists. split; reflexivity.
      * rewrite mget_mset_other in Hg by exact Hne. destruct (Hba _ _ Hg) as (st' & Hs' & Ha').
        assert (a <> a_id act) by (intros ->; congruence).
        rewrite mget_mset_other by assumption. eauto.
  - unfold remove_member. destruct (mget (a_id act) (states m)) as [st|] eqn:Est; [|exact Hba].
    destruct (m_ts st <=? a_ts act); [|exact Hba]. cbn [fst]. intros addr a Hg. cbn [by_addr states] in *.
    destruct (drop_old_ba m st (a_id act) Hba Est addr a Hg) as [Hna Hg'].
    rewrite mget_mdel_other by exact Hna. apply Hba, Hg'.
  - unfold add_rtt. apply recalc_ba_inv. intros ad a Hg. cbn [by_addr states] in *. apply Hba, Hg.
Qed.

Lemma ba_inv_empty : ba_inv members_empty.
Proof. intros addr a H. discriminate. Qed.

Lemma mrun_ba_inv ops : ba_inv (mrun ops).
Proof.
  unfold mrun. generalize ba_inv_empty. generalize members_empty.
  induction ops as [|op ops IH]; intros m H; [exact H|]. cbn. apply IH, step_ba_inv, H.
Qed.

(* a round-trip sample can only change the state of a member whose CURRENT
   address is the sampled address, and changes nothing but its ring *)
Theorem rtt_only_current_address ops addr ms a st st' :
  mget a (states (mrun ops)) = Some st ->
  mget a (states (add_rtt (mrun ops) addr ms)) = Some st' ->
  core st' = core st /\ (st' <> st -> m_addr st = addr).
Proof.
  intros Hs Hs'. pose proof (mrun_ba_inv ops) as Hba. set (m := mrun ops) in *.
  unfold add_rtt in Hs'.
  set (m1 := mkMembers (states m) (by_addr m) (mset addr _ (rtts m))) in *.
  pose proof (recalc_core m1 addr a) as Hc. rewrite Hs' in Hc. cbn [states m1] in Hc. rewrite Hs in Hc.
  cbn [option_map] in Hc. assert (Hcore : core st' = core st) by congruence. clear Hc. split; [exact Hcore|].
  intros Hne. unfold recalculate_rings in Hs'. cbn [by_addr m1] in Hs'.
  destruct (mget addr (by_addr m)) as [aid|] eqn:Eb; [|cbn in Hs'; congruence].
  destruct (mget addr (rtts m1)) as [[|x buf]|]; try (cbn in Hs'; congruence).
  cbn [states m1] in Hs'.
  destruct (mget aid (states m)) as [sa|] eqn:Ea; [|cbn in Hs'; congruence].
  destruct (bucket_of _ ring_buckets 0); [|cbn in Hs'; congruence].
  cbn [states] in Hs'. destruct (Z.eq_dec a aid) as [->|Hna].
  - destruct (Hba _ _ Eb) as (s0 & Hs0 & Ha0). congruence.
  - rewrite mget_mset_other in Hs' by exact Hna. congruence.
Qed.

(* priority broadcast targets: same cluster and ring 0 only *)
Theorem ring0_sound m c addr : In addr (ring0 m c) ->
  exists a st, In (a, st) (states m) /\ m_addr st = addr /\ m_cluster st = c /\ m_ring st = Some 0.
Proof.
  unfold ring0. intros H. apply in_flat_map in H. destruct H as ([a st] & Hin & H). cbn [snd] in H.
  destruct (m_ring st) as [r|] eqn:Er; [|destruct H].
  destruct ((m_cluster st =? c) && (r =? 0)) eqn:E; [|destruct H]. destruct H as [<-|[]].
  apply andb_true_iff in E as [E1 E2]. apply Z.eqb_eq in E1, E2. subst.
  exists a, st. repeat split; auto.
Qed.

Theorem ring0_complete m c a st : In (a, st) (states m) -> m_cluster st = c -> m_ring st = Some 0 ->
  In (m_addr st) (ring0 m c).
Proof.
  intros Hin Hc Hr. unfold ring0. apply in_flat_map. exists (a, st). split; [exact Hin|]. cbn [snd].
  rewrite Hr, Hc, !Z.eqb_refl. left; reflexivity.
Qed.
