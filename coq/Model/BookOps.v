(* Operation-level model used by the C02 correspondence: one actor's
   bookkeeping driven the way process_multiple_changes drives it. *)
From Coq Require Import List ZArith Bool.
From Corro Require Import Lib.Ivl Model.Book Model.SeqRows.
Import ListNotations.
Open Scope Z_scope.

Inductive bop :=
| OpInsert (raw : list (Z * Z))          (* insert_db(RangeInclusiveSet::from_iter(raw)); empties set the db max *)
| OpPartial (v s e last : Z)             (* one incomplete chunk of version v *)
| OpReload.                              (* replace the live state by from_conn *)

Record bstate := mkBstate {
  st_bv : bv;
  st_rows : rows;                         (* __corro_bookkeeping_gaps *)
  st_seq : list (Z * list srow);          (* __corro_seq_bookkeeping, per version *)
  st_dbmax : option Z }.                  (* crsql_db_versions for this actor *)

Definition bstate_init : bstate := mkBstate bv_empty [] [] None.

Inductive bout := OutOk | OutIdbErr | OutBadDelete | OutFailsafe | OutConflict.

Definition seqrows_flat (m : list (Z * list srow)) : list seqrow :=
  flat_map (fun kv => map (fun r : srow => mkSeqRow (fst kv) (fst (fst r)) (snd (fst r)) (snd r)) (snd kv)) m.

Definition reload (st : bstate) : bv :=
  from_conn (st_dbmax st) (seqrows_flat (st_seq st)) (st_rows st).

Definition bstep (st : bstate) (op : bop) : bstate * bout :=
  match op with
  | OpInsert raw =>
    let vs := ins_all raw [] in
    match insert_db (st_bv st) (st_rows st) vs with
    | IdbErr => (st, OutIdbErr)
    | IdbOk b' rs' bad =>
      let mx := maxv (st_bv st) in
      let dbmax' := fold_left (fun d r => if max0 mx <? snd r then Some (snd r) else d) vs (st_dbmax st) in
      (mkBstate b' rs' (st_seq st) dbmax', if bad then OutBadDelete else OutOk)
    end
  | OpPartial v s e last =>
    let cur := match aget v (st_seq st) with Some l => l | None => [] end in
    match incomplete_rows cur s e last with
    | IncFailsafe => (st, OutFailsafe)
    | IncConflict => (st, OutConflict)
    | IncOk rows' seqs =>
      match insert_db (st_bv st) (st_rows st) [(v, v)] with
      | IdbErr => (st, OutIdbErr)
      | IdbOk b' rs' bad =>
        let (b'', _) := insert_partial b' v (mkPartial seqs last) in
        (mkBstate b'' rs' (aset v rows' (st_seq st)) (st_dbmax st),
         if bad then OutBadDelete else OutOk)
      end
    end
  | OpReload =>
    (mkBstate (reload st) (st_rows st) (st_seq st) (st_dbmax st), OutOk)
  end.

(* run, collecting the state after every op *)
Fixpoint bruns (st : bstate) (ops : list bop) : list (bstate * bout) :=
  match ops with
  | [] => []
  | op :: t => let r := bstep st op in r :: bruns (fst r) t
  end.

(* ---- the advertised partition, as a decidable check (property C02) ------- *)
Inductive vclass := Held | Needed | PartialC | Beyond.

Definition classify (b : bv) (v : Z) : vclass :=
  if memb v (needed b) then Needed
  else if negb (v <=? max0 (maxv b)) then Beyond
  else match aget v (partials b) with
       | Some p => if fully_buffered p then Held else PartialC
       | None => Held
       end.

(* class according to what generate_sync advertises *)
Definition adv_class (a : option adv) (v : Z) : vclass :=
  match a with
  | None => Beyond
  | Some a =>
    if negb (v <=? a_head a) then Beyond
    else if memb v (a_need a) then Needed
    else match aget v (a_partial a) with Some _ => PartialC | None => Held end
  end.

Definition vclass_eqb (x y : vclass) : bool :=
  match x, y with
  | Held, Held | Needed, Needed | PartialC, PartialC | Beyond, Beyond => true
  | _, _ => false
  end.

(* for every version 1..hi the advertised class is the actual class, and the
   advertised missing seqs of a partial are exactly the missing seqs *)
Definition adv_exact_gen (a : option adv) (b : bv) (hi : Z) : bool :=
  forallb (fun i => let v := 1 + Z.of_nat i in
             vclass_eqb (adv_class a v) (classify b v) &&
             match classify b v, aget v (partials b), a with
             | PartialC, Some p, Some a' =>
               match aget v (a_partial a') with
               | Some miss => ranges_eqb miss (gaps 0 (p_last p) (p_seqs p))
               | None => false
               end
             | _, _, _ => true
             end)
          (seq 0 (Z.to_nat hi)).

Definition adv_exact_b (b : bv) (hi : Z) : bool := adv_exact_gen (sync_actor b) b hi.

Definition bv_eqb (x y : bv) : bool :=
  ranges_eqb (needed x) (needed y) &&
  match maxv x, maxv y with Some a, Some b => a =? b | None, None => true | _, _ => false end &&
  (fix go (p q : list (Z * partial)) : bool :=
     match p, q with
     | [], [] => true
     | (k, a) :: p', (k', b) :: q' =>
       (k =? k') && ranges_eqb (p_seqs a) (p_seqs b) && (p_last a =? p_last b) && go p' q'
     | _, _ => false
     end) (partials x) (partials y).

(* C02 oracle on one observed state: b = in-memory view, g = persisted gap
   rows, a = what generate_sync advertised, fc = from_conn of the database
   (compared only when the caller says the history is last_seq-consistent) *)
Definition state_ok (b : bv) (g : rows) (a : option adv) (fc : option bv) (hi : Z) : bool :=
  inv_b b g && adv_exact_gen a b hi &&
  match a with Some a' => (match maxv b with Some m => a_head a' =? m | None => false end)
             | None => match maxv b with None => true | Some _ => false end end &&
  match fc with Some f => bv_eqb f b | None => true end.
