From Coq Require Import List ZArith Bool Lia FinFun.
From Corro Require Import Model.Ivm.
Import ListNotations.
Open Scope Z_scope.

(* ---------- boolean equalities ---------- *)
Lemma key_eqb_spec : forall a b, key_eqb a b = true <-> a = b.
Proof.
  induction a as [|x a IH]; destruct b as [|y b]; cbn; split; intros H; try reflexivity; try discriminate.
  - apply andb_true_iff in H as [H1 H2]. apply Z.eqb_eq in H1. apply IH in H2. subst. reflexivity.
  - injection H as -> ->. apply andb_true_iff. split; [apply Z.eqb_refl|apply IH; reflexivity].
Qed.

Lemma val_eqb_spec : forall a b, val_eqb a b = true <-> a = b.
Proof.
  destruct a as [x|], b as [y|]; cbn; split; intros H; try reflexivity; try discriminate.
  - apply Z.eqb_eq in H. subst. reflexivity.
  - injection H as ->. apply Z.eqb_refl.
Qed.

Lemma cells_eqb_spec : forall a b, cells_eqb a b = true <-> a = b.
Proof.
  induction a as [|x a IH]; destruct b as [|y b]; cbn; split; intros H; try reflexivity; try discriminate.
  - apply andb_true_iff in H as [H1 H2]. apply val_eqb_spec in H1. apply IH in H2. subst. reflexivity.
  - injection H as -> ->. apply andb_true_iff. split; [apply val_eqb_spec; reflexivity|apply IH; reflexivity].
Qed.

Lemma okey_eqb_spec : forall a b, okey_eqb a b = true <-> a = b.
Proof.
  destruct a as [x|], b as [y|]; cbn; split; intros H; try reflexivity; try discriminate.
  - apply key_eqb_spec in H. subst. reflexivity.
  - injection H as ->. apply key_eqb_spec. reflexivity.
Qed.

Lemma mkey_eqb_spec : forall a b, mkey_eqb a b = true <-> a = b.
Proof.
  induction a as [|x a IH]; destruct b as [|y b]; cbn; split; intros H; try reflexivity; try discriminate.
  - apply andb_true_iff in H as [H1 H2]. apply okey_eqb_spec in H1. apply IH in H2. subst. reflexivity.
  - injection H as -> ->. apply andb_true_iff. split; [apply okey_eqb_spec; reflexivity|apply IH; reflexivity].
Qed.

Lemma kin_spec ks k : kin ks k = true <-> In k ks.
Proof.
  unfold kin. rewrite existsb_exists. split.
  - intros [x [Hx He]]. apply key_eqb_spec in He. subst. exact Hx.
  - intros H. exists k. split; [exact H|apply key_eqb_spec; reflexivity].
Qed.

Lemma NoDup_app_one {A} (l : list A) x : NoDup l -> ~ In x l -> NoDup (l ++ [x]).
Proof.
  induction l as [|a l IH]; cbn; intros Hn Hx.
  - constructor; [intros []|constructor].
  - inversion Hn as [|? ? Ha Hl]; subst. constructor.
    + rewrite in_app_iff. intros [H|[H|[]]]; [contradiction|subst; apply Hx; left; reflexivity].
    + apply IH; [exact Hl|intros H; apply Hx; right; exact H].
Qed.

(* ---------- one pass over a keyed matview ---------- *)
Section PassProofs.
  Variables (K C : Type) (keqb : K -> K -> bool) (ceqb : C -> C -> bool).
  Hypothesis keqb_spec : forall a b, keqb a b = true <-> a = b.
  Hypothesis ceqb_spec : forall a b, ceqb a b = true <-> a = b.

  Notation ment := (ment K C).
  Notation mfind := (mfind K C keqb).
  Notation mset := (mset K C keqb).
  Notation upsert1 := (upsert1 K C keqb ceqb).
  Notation pass := (pass K C keqb ceqb).
  Notation doomed := (doomed K C keqb ceqb).
  Notation row_mem := (row_mem K C keqb ceqb).

  Definition keys (l : list ment) : list K := map (fun e => fst (snd e)) l.
  Definition look (k : K) (l : list ment) : option C :=
    match mfind k l with Some (_, c) => Some c | None => None end.

  Lemma keqb_refl k : keqb k k = true.
  Proof. apply keqb_spec. reflexivity. Qed.

  Lemma keqb_false a b : keqb a b = false <-> a <> b.
  Proof.
    split.
    - intros H E. apply keqb_spec in E. congruence.
    - intros H. destruct (keqb a b) eqn:E; [apply keqb_spec in E; contradiction|reflexivity].
  Qed.

  Lemma look_none k l : look k l = None <-> ~ In k (keys l).
  Proof.
    unfold look. induction l as [|[rid [k' c]] t IH]; cbn.
    - split; [intros _ []|reflexivity].
    - destruct (keqb k' k) eqn:E.
      + apply keqb_spec in E. subst. split; [discriminate|intros H; exfalso; apply H; left; reflexivity].
      + apply keqb_false in E. rewrite IH. split.
        * intros H [H1|H1]; [contradiction|contradiction].
        * intros H H1. apply H. right. exact H1.
  Qed.

  Lemma look_in k c l : look k l = Some c -> exists rid, In (rid, (k, c)) l.
  Proof.
    unfold look. induction l as [|[rid [k' c']] t IH]; cbn; [discriminate|].
    destruct (keqb k' k) eqn:E.
    - apply keqb_spec in E. subst. intros H. injection H as ->. exists rid. left. reflexivity.
    - intros H. destruct (IH H) as [r Hr]. exists r. right. exact Hr.
  Qed.

  Lemma in_look rid k c l : NoDup (keys l) -> In (rid, (k, c)) l -> look k l = Some c.
  Proof.
    unfold look. induction l as [|[rid' [k' c']] t IH]; cbn; intros Hn Hi; [contradiction|].
    inversion Hn as [|? ? Hnot Hn']; subst.
    destruct Hi as [Hi|Hi].
    - injection Hi as -> -> ->. rewrite keqb_refl. reflexivity.
    - destruct (keqb k' k) eqn:E.
      + apply keqb_spec in E. subst. exfalso. apply Hnot.
        exact (in_map (fun e : ment => fst (snd e)) t (rid, (k, c)) Hi).
      + apply IH; assumption.
  Qed.

  Lemma keys_mset k c l : keys (mset k c l) = keys l.
  Proof.
    induction l as [|[rid [k' c']] t IH]; cbn; [reflexivity|].
    destruct (keqb k' k); cbn; [reflexivity|f_equal; exact IH].
  Qed.

  Lemma look_mset k c k' l : In k (keys l) ->
    look k' (mset k c l) = if keqb k k' then Some c else look k' l.
  Proof.
    unfold look. induction l as [|[rid [k0 c0]] t IH]; cbn; intros Hi; [contradiction|].
    destruct (keqb k0 k) eqn:E.
    - apply keqb_spec in E. subst. cbn. destruct (keqb k k'); reflexivity.
    - cbn. destruct Hi as [Hi|Hi]; [subst; rewrite keqb_refl in E; discriminate|].
      destruct (keqb k0 k') eqn:E2.
      + apply keqb_spec in E2. subst. apply keqb_false in E.
        destruct (keqb k k') eqn:E3; [apply keqb_spec in E3; congruence|reflexivity].
      + apply IH. exact Hi.
  Qed.

  Lemma look_app k l1 l2 : look k (l1 ++ l2) = match look k l1 with Some c => Some c | None => look k l2 end.
  Proof.
    unfold look. induction l1 as [|[rid [k0 c0]] t IH]; cbn; [reflexivity|].
    destruct (keqb k0 k); [reflexivity|exact IH].
  Qed.

  Definition rows_of (st : pstate K C) : list ment := fst (fst st).

  Lemma upsert1_spec st k c : NoDup (keys (rows_of st)) ->
    NoDup (keys (rows_of (upsert1 st (k, c)))) /\
    forall k', look k' (rows_of (upsert1 st (k, c))) = if keqb k k' then Some c else look k' (rows_of st).
  Proof.
    destruct st as [[rows nxt] evs]. unfold rows_of. cbn [fst]. intros Hn.
    unfold Ivm.upsert1.
    destruct (Ivm.mfind K C keqb k rows) as [[rid c0]|] eqn:Ef.
    - assert (Hl : look k rows = Some c0) by (unfold look; rewrite Ef; reflexivity).
      assert (Hk : In k (keys rows)).
      { destruct (look_in _ _ _ Hl) as [r Hr]. exact (in_map (fun e : ment => fst (snd e)) rows (r, (k, c0)) Hr). }
      destruct (ceqb c0 c) eqn:Ec.
      + apply ceqb_spec in Ec. subst. cbn [fst]. split; [exact Hn|].
        intros k'. destruct (keqb k k') eqn:E; [apply keqb_spec in E; subst; exact Hl|reflexivity].
      + cbn [fst]. split; [rewrite keys_mset; exact Hn|]. intros k'. apply look_mset. exact Hk.
    - assert (Hl : look k rows = None) by (unfold look; rewrite Ef; reflexivity).
      cbn [fst]. split.
      + unfold keys. rewrite map_app. cbn. apply look_none in Hl.
        apply NoDup_app_one; assumption.
      + intros k'. rewrite look_app. cbn. unfold look at 2. cbn.
        destruct (keqb k k') eqn:E.
        * apply keqb_spec in E. subst. rewrite Hl. reflexivity.
        * destruct (look k' rows); reflexivity.
  Qed.

  Definition functional (l : list (K * C)) := forall k c c', In (k, c) l -> In (k, c') l -> c = c'.

  Lemma in_keys_dec (k : K) (l : list K) : In k l \/ ~ In k l.
  Proof.
    induction l as [|a l IH]; [right; intros []|].
    destruct (keqb a k) eqn:E.
    - apply keqb_spec in E. subst. left. left. reflexivity.
    - apply keqb_false in E. destruct IH as [H|H]; [left; right; exact H|right; intros [H1|H1]; contradiction].
  Qed.

  Lemma upserts_spec : forall newr st, NoDup (keys (rows_of st)) -> functional newr ->
    NoDup (keys (rows_of (fold_left upsert1 newr st))) /\
    forall k', (forall c, In (k', c) newr -> look k' (rows_of (fold_left upsert1 newr st)) = Some c) /\
               (~ In k' (map fst newr) -> look k' (rows_of (fold_left upsert1 newr st)) = look k' (rows_of st)).
  Proof.
    induction newr as [|[k c] t IH]; intros st Hn Hf; cbn [fold_left].
    - split; [exact Hn|]. intros k'. split; [intros c []|reflexivity].
    - destruct (upsert1_spec st k c Hn) as [Hn1 Hl1].
      assert (Hft : functional t).
      { intros k0 c0 c0' H1 H2. apply (Hf k0); right; assumption. }
      destruct (IH (upsert1 st (k, c)) Hn1 Hft) as [Hn2 Hl2].
      split; [exact Hn2|]. intros k'. destruct (Hl2 k') as [Ha Hb]. split.
      + intros c' [Hi|Hi].
        * injection Hi as -> ->.
          destruct (in_keys_dec k' (map fst t)) as [Hin|Hnin].
          -- apply in_map_iff in Hin as [[k0 c0] [Hk Hin]]. cbn in Hk. subst k0.
             assert (c0 = c') by (apply (Hf k'); [right; exact Hin|left; reflexivity]). subst.
             apply Ha. exact Hin.
          -- rewrite (Hb Hnin), Hl1, keqb_refl. reflexivity.
        * apply Ha. exact Hi.
      + intros Hnin. cbn in Hnin.
        rewrite Hb by (intros H; apply Hnin; right; exact H).
        rewrite Hl1. destruct (keqb k k') eqn:E; [|reflexivity].
        apply keqb_spec in E. subst. exfalso. apply Hnin. left. reflexivity.
  Qed.

  Lemma row_mem_spec k c l : row_mem (k, c) l = true <-> In (k, c) l.
  Proof.
    unfold Ivm.row_mem. rewrite existsb_exists. cbn. split.
    - intros [[k0 c0] [Hi He]]. cbn in He. apply andb_true_iff in He as [H1 H2].
      apply keqb_spec in H1. apply ceqb_spec in H2. subst. exact Hi.
    - intros H. exists (k, c). split; [exact H|]. cbn. apply andb_true_iff. split; [apply keqb_refl|apply ceqb_spec; reflexivity].
  Qed.

  Lemma keys_filter_incl (p : ment -> bool) l k : In k (keys (filter p l)) -> In k (keys l).
  Proof.
    unfold keys. rewrite !in_map_iff. intros [e [He Hi]]. apply filter_In in Hi as [Hi _]. exists e. split; assumption.
  Qed.

  Lemma keys_filter_nodup (p : ment -> bool) l : NoDup (keys l) -> NoDup (keys (filter p l)).
  Proof.
    induction l as [|e l IH]; cbn; intros Hn; [constructor|].
    inversion Hn as [|? ? Hnot Hn']; subst.
    destruct (p e); cbn; [constructor|]; auto.
    intros H. apply Hnot. exact (keys_filter_incl p l _ H).
  Qed.

  Lemma look_filter (p : ment -> bool) l k' : NoDup (keys l) ->
    look k' (filter p l) =
    match mfind k' l with Some (rid, c) => if p (rid, (k', c)) then Some c else None | None => None end.
  Proof.
    induction l as [|[rid [k0 c0]] t IH]; intros Hn; [reflexivity|].
    inversion Hn as [|? ? Hnot Hn']; subst. cbn [filter Ivm.mfind].
    destruct (keqb k0 k') eqn:E.
    - apply keqb_spec in E. subst.
      destruct (p (rid, (k', c0))) eqn:Ep.
      + unfold look. cbn. rewrite keqb_refl. reflexivity.
      + apply look_none. intros H. apply Hnot. exact (keys_filter_incl p t _ H).
    - destruct (p (rid, (k0, c0))).
      + unfold look at 1. cbn [Ivm.mfind]. rewrite E. apply IH. exact Hn'.
      + apply IH. exact Hn'.
  Qed.

  Theorem pass_spec st sel newr :
    NoDup (keys (rows_of st)) -> functional newr -> (forall k c, In (k, c) newr -> sel k = true) ->
    NoDup (keys (rows_of (pass st sel newr))) /\
    forall k',
      (sel k' = true -> forall c, look k' (rows_of (pass st sel newr)) = Some c <-> In (k', c) newr) /\
      (sel k' = false -> look k' (rows_of (pass st sel newr)) = look k' (rows_of st)).
  Proof.
    intros Hn Hf Hsel. unfold Ivm.pass.
    destruct (upserts_spec newr st Hn Hf) as [Hn1 Hl1].
    destruct (fold_left upsert1 newr st) as [[rows nxt] evs] eqn:Efold.
    unfold rows_of in *. cbn [fst] in *.
    split; [apply keys_filter_nodup; exact Hn1|].
    intros k'. destruct (Hl1 k') as [Ha Hb].
    rewrite look_filter by exact Hn1.
    split.
    - intros Hs c. split.
      + destruct (Ivm.mfind K C keqb k' rows) as [[rid c0]|] eqn:Ef; [|discriminate].
        unfold Ivm.doomed. cbn [fst snd]. rewrite Hs. cbn [andb].
        destruct (row_mem (k', c0) newr) eqn:Em; cbn; [|discriminate].
        intros H. injection H as <-. apply row_mem_spec. exact Em.
      + intros Hi. specialize (Ha c Hi). unfold look in Ha.
        destruct (Ivm.mfind K C keqb k' rows) as [[rid c0]|] eqn:Ef; [|discriminate].
        injection Ha as ->. unfold Ivm.doomed. cbn [fst snd].
        apply row_mem_spec in Hi. rewrite Hi. rewrite andb_false_r. reflexivity.
    - intros Hs.
      assert (Hnin : ~ In k' (map fst newr)).
      { intros H. apply in_map_iff in H as [[k0 c0] [Hk Hi]]. cbn in Hk. subst. rewrite (Hsel _ _ Hi) in Hs. discriminate. }
      rewrite <- (Hb Hnin). unfold look.
      destruct (Ivm.mfind K C keqb k' rows) as [[rid c0]|]; [|reflexivity].
      unfold Ivm.doomed. cbn [fst snd]. rewrite Hs. reflexivity.
  Qed.
End PassProofs.

(* ---------- the fold over candidate tables ---------- *)
Notation mlook := (look mkey (list val) mkey_eqb).
Notation mkeys := (keys mkey (list val)).

Definition agree (rows : list (ment mkey (list val))) (R : list mrow) : Prop :=
  NoDup (mkeys rows) /\ forall mk c, mlook mk rows = Some c <-> In (mk, c) R.

Definition covered (cs : cands) (mk : mkey) : bool := existsb (fun c => sel_pos (fst c) (snd c) mk) cs.

Definition cinv (cov : mkey -> bool) (Old New : list mrow) (rows : list (ment mkey (list val))) : Prop :=
  NoDup (mkeys rows) /\
  forall mk c, mlook mk rows = Some c <->
               (cov mk = true /\ In (mk, c) New) \/ (cov mk = false /\ In (mk, c) Old).

Definition hc_fold (q : query) (d : db) (cs : cands) (st : pstate mkey (list val)) :=
  fold_left (fun st c =>
      pass mkey (list val) mkey_eqb cells_eqb st (sel_pos (fst c) (snd c))
           (eval_restricted q d (fst c) (snd c))) cs st.

Lemma hc_fold_cons q d c cs st :
  hc_fold q d (c :: cs) st =
  hc_fold q d cs (pass mkey (list val) mkey_eqb cells_eqb st (sel_pos (fst c) (snd c)) (eval_restricted q d (fst c) (snd c))).
Proof. reflexivity. Qed.

Lemma hc_fold_inv q d Old New :
  functional mkey (list val) New ->
  forall cs,
  (forall pos ks, In (pos, ks) cs -> forall mk c,
     In (mk, c) (eval_restricted q d pos ks) <-> In (mk, c) New /\ sel_pos pos ks mk = true) ->
  forall cov st, cinv cov Old New (rows_of mkey (list val) st) ->
  cinv (fun mk => cov mk || covered cs mk) Old New (rows_of mkey (list val) (hc_fold q d cs st)).
Proof.
  intros HfN. induction cs as [|[pos ks] cs IH]; intros Hr cov st [Hn Hl].
  - cbn. split; [exact Hn|]. intros mk c. rewrite orb_false_r. apply Hl.
  - rewrite hc_fold_cons. cbn [fst snd].
    set (sel := sel_pos pos ks). set (newr := eval_restricted q d pos ks).
    assert (Hrr : forall mk c, In (mk, c) newr <-> In (mk, c) New /\ sel mk = true).
    { intros mk c. apply Hr. left. reflexivity. }
    assert (Hfn : functional mkey (list val) newr).
    { intros k c c' H1 H2. apply Hrr in H1 as [H1 _]. apply Hrr in H2 as [H2 _]. exact (HfN k c c' H1 H2). }
    assert (Hs : forall k c, In (k, c) newr -> sel k = true).
    { intros k c H. apply Hrr in H as [_ H]. exact H. }
    destruct (pass_spec mkey (list val) mkey_eqb cells_eqb mkey_eqb_spec cells_eqb_spec st sel newr Hn Hfn Hs) as [Hn1 Hl1].
    assert (Hc1 : cinv (fun mk => cov mk || sel mk) Old New
                       (rows_of mkey (list val) (pass mkey (list val) mkey_eqb cells_eqb st sel newr))).
    { split; [exact Hn1|]. intros mk c. destruct (Hl1 mk) as [Ha Hb].
      destruct (sel mk) eqn:Es.
      - rewrite (Ha eq_refl c), Hrr, orb_true_r. split.
        + intros [H _]. left. split; [reflexivity|exact H].
        + intros [[_ H]|[H _]]; [split; [exact H|exact Es]|discriminate].
      - rewrite (Hb eq_refl), orb_false_r. apply Hl. }
    specialize (IH (fun pos0 ks0 Hin => Hr pos0 ks0 (or_intror Hin)) _ _ Hc1).
    destruct IH as [Hn2 Hl2]. split; [exact Hn2|].
    intros mk c. rewrite Hl2. cbn [covered existsb fst snd]. fold (covered cs mk). fold sel.
    rewrite orb_assoc. reflexivity.
Qed.

Theorem hc_correct q d Old New cs rows nxt :
  functional mkey (list val) New ->
  (forall pos ks, In (pos, ks) cs -> forall mk c,
     In (mk, c) (eval_restricted q d pos ks) <-> In (mk, c) New /\ sel_pos pos ks mk = true) ->
  (forall mk, covered cs mk = false -> forall c, In (mk, c) Old <-> In (mk, c) New) ->
  agree rows Old ->
  agree (rows_of mkey (list val) (hc_fold q d cs (rows, nxt, []))) New.
Proof.
  intros HfN Hr Hloc [Hn Hl].
  assert (H0 : cinv (fun _ => false) Old New (rows_of mkey (list val) (rows, nxt, @nil (event mkey (list val))))).
  { split; [exact Hn|]. intros mk c. rewrite Hl. split.
    - intros H. right. split; [reflexivity|exact H].
    - intros [[H _]|[_ H]]; [discriminate|exact H]. }
  destruct (hc_fold_inv q d Old New HfN cs Hr _ _ H0) as [Hn1 Hl1].
  split; [exact Hn1|]. intros mk c. rewrite Hl1. cbn [orb].
  destruct (covered cs mk) eqn:Ec.
  - split; [intros [[_ H]|[H _]]; [exact H|discriminate]|intros H; left; split; [reflexivity|exact H]].
  - rewrite <- (Hloc mk Ec c). split; [intros [[H _]|[_ H]]; [discriminate|exact H]|intros H; right; split; [reflexivity|exact H]].
Qed.

(* ---------- what the queries compute ---------- *)
Definition tfun (t : table) : Prop := forall k v v', In (k, v) t -> In (k, v') t -> v = v'.
Definition dbfun (d : db) : Prop := forall t, tfun (tbl d t).

Lemma tfind_in t k v : tfun t -> (In (k, v) t <-> tfind k t = Some v).
Proof.
  intros Hf. unfold tfind. split.
  - intros Hi. destruct (find (fun r => key_eqb (fst r) k) t) as [[k' v']|] eqn:E.
    + apply find_some in E as [Hi' He]. cbn in He. apply key_eqb_spec in He. subst. cbn.
      f_equal. exact (Hf k v' v Hi' Hi).
    + exfalso. pose proof (find_none _ _ E _ Hi) as H. cbn in H.
      assert (key_eqb k k = true) by (apply key_eqb_spec; reflexivity). congruence.
  - destruct (find (fun r => key_eqb (fst r) k) t) as [[k' v']|] eqn:E; [|discriminate].
    apply find_some in E as [Hi' He]. cbn in He. apply key_eqb_spec in He. subst. cbn.
    intros H. injection H as ->. exact Hi'.
Qed.

Lemma row_unchanged told tnew k : tfun told -> tfun tnew -> row_changed told tnew k = false ->
  forall v, In (k, v) told <-> In (k, v) tnew.
Proof.
  intros Ho Hn Hc v. rewrite (tfind_in told k v Ho), (tfind_in tnew k v Hn).
  unfold row_changed in Hc. apply negb_false_iff in Hc.
  destruct (tfind k told) as [a|], (tfind k tnew) as [b|]; try discriminate.
  - apply cells_eqb_spec in Hc. subst. reflexivity.
  - split; discriminate.
Qed.

Lemma out1_spec q en mk mk' c :
  In (mk', c) (out1 q en mk) <->
  mk' = mk /\ truthy (ev (q_where q) en) = true /\ c = map (fun e => ev e en) (q_proj q).
Proof.
  unfold out1. destruct (truthy (ev (q_where q) en)); cbn.
  - split.
    + intros [H|[]]. injection H as <- <-. auto.
    + intros [-> [_ ->]]. left. reflexivity.
  - split; [intros []|intros [_ [H _]]; discriminate].
Qed.

Definition proj_of (q : query) (en : env) : list val := map (fun e => ev e en) (q_proj q).

Lemma eval_single_spec q d s0 s1 i mk c : q_kind q = JSingle ->
  (In (mk, c) (eval_gen q d s0 s1 i) <->
   exists r0, In r0 (tbl d (q_t0 q)) /\ s0 (fst r0) = true /\ mk = [Some (fst r0)] /\
              truthy (ev (q_where q) [Some r0]) = true /\ c = proj_of q [Some r0]).
Proof.
  intros Hk. unfold eval_gen. rewrite Hk. rewrite in_flat_map. split.
  - intros [r0 [Hi Ho]]. apply filter_In in Hi as [Hi Hs]. apply out1_spec in Ho as [-> [Hw ->]].
    exists r0. auto.
  - intros [r0 [Hi [Hs [-> [Hw ->]]]]]. exists r0. split; [apply filter_In; auto|].
    apply out1_spec. auto.
Qed.

Lemma eval_inner_spec q d s0 s1 i mk c : q_kind q = JInner ->
  (In (mk, c) (eval_gen q d s0 s1 i) <->
   exists r0 r1, In r0 (tbl d (q_t0 q)) /\ s0 (fst r0) = true /\
                 In r1 (tbl d (q_t1 q)) /\ s1 (fst r1) = true /\
                 truthy (ev (q_on q) [Some r0; Some r1]) = true /\
                 mk = [Some (fst r0); Some (fst r1)] /\
                 truthy (ev (q_where q) [Some r0; Some r1]) = true /\ c = proj_of q [Some r0; Some r1]).
Proof.
  intros Hk. unfold eval_gen. rewrite Hk. rewrite in_flat_map. split.
  - intros [r0 [Hi Ho]]. apply filter_In in Hi as [Hi Hs]. apply in_flat_map in Ho as [r1 [Hi1 Ho]].
    apply filter_In in Hi1 as [Hi1 Hs1].
    destruct (truthy (ev (q_on q) [Some r0; Some r1])) eqn:Eon; [|destruct Ho].
    apply out1_spec in Ho as [-> [Hw ->]]. exists r0, r1. repeat split; auto.
  - intros [r0 [r1 [Hi [Hs [Hi1 [Hs1 [Hon [-> [Hw ->]]]]]]]]]. exists r0. split; [apply filter_In; auto|].
    apply in_flat_map. exists r1. split; [apply filter_In; auto|]. rewrite Hon. apply out1_spec. auto.
Qed.

(* results are functions of their key *)
Lemma eval_single_fun q d s0 s1 i : q_kind q = JSingle -> dbfun d -> functional mkey (list val) (eval_gen q d s0 s1 i).
Proof.
  intros Hk Hd mk c c' H1 H2.
  apply (eval_single_spec q d s0 s1 i mk c Hk) in H1 as [[k0 v0] [Hi [_ [Hm [_ ->]]]]].
  apply (eval_single_spec q d s0 s1 i mk c' Hk) in H2 as [[k0' v0'] [Hi' [_ [Hm' [_ ->]]]]].
  cbn in *. subst. injection Hm' as <-. rewrite (Hd _ _ _ _ Hi Hi'). reflexivity.
Qed.

Lemma eval_inner_fun q d s0 s1 i : q_kind q = JInner -> dbfun d -> functional mkey (list val) (eval_gen q d s0 s1 i).
Proof.
  intros Hk Hd mk c c' H1 H2.
  apply (eval_inner_spec q d s0 s1 i mk c Hk) in H1 as [[k0 v0] [[k1 v1] [Hi [_ [Hj [_ [_ [Hm [_ ->]]]]]]]]].
  apply (eval_inner_spec q d s0 s1 i mk c' Hk) in H2 as [[k0' v0'] [[k1' v1'] [Hi' [_ [Hj' [_ [_ [Hm' [_ ->]]]]]]]]].
  cbn in *. subst. injection Hm' as <- <-. rewrite (Hd _ _ _ _ Hi Hi'), (Hd _ _ _ _ Hj Hj'). reflexivity.
Qed.

(* the per-table statements select exactly the result rows of the candidates *)
Lemma restricted_single q d pos ks mk c : q_kind q = JSingle -> pos = 0%nat ->
  (In (mk, c) (eval_restricted q d pos ks) <-> In (mk, c) (eval q d) /\ sel_pos pos ks mk = true).
Proof.
  intros Hk ->. unfold eval_restricted, eval. rewrite !(eval_single_spec _ _ _ _ _ _ _ Hk). split.
  - intros [r0 [Hi [Hs [-> [Hw ->]]]]]. split; [exists r0; auto|exact Hs].
  - intros [[r0 [Hi [_ [-> [Hw ->]]]]] Hs]. exists r0. auto.
Qed.

Lemma restricted_inner q d pos ks mk c : q_kind q = JInner -> (pos = 0 \/ pos = 1)%nat ->
  (In (mk, c) (eval_restricted q d pos ks) <-> In (mk, c) (eval q d) /\ sel_pos pos ks mk = true).
Proof.
  intros Hk [-> | ->]; unfold eval_restricted, eval; rewrite !(eval_inner_spec _ _ _ _ _ _ _ Hk); split.
  - intros [r0 [r1 [Hi [Hs [Hj [Hs1 [Hon [-> [Hw ->]]]]]]]]]. split; [exists r0, r1; repeat split; auto|exact Hs].
  - intros [[r0 [r1 [Hi [_ [Hj [_ [Hon [-> [Hw ->]]]]]]]]] Hs]. exists r0, r1. repeat split; auto.
  - intros [r0 [r1 [Hi [Hs [Hj [Hs1 [Hon [-> [Hw ->]]]]]]]]]. split; [exists r0, r1; repeat split; auto|exact Hs1].
  - intros [[r0 [r1 [Hi [_ [Hj [_ [Hon [-> [Hw ->]]]]]]]]] Hs]. exists r0, r1. repeat split; auto.
Qed.

(* ---------- candidates cover the changed rows ---------- *)
Definition valid_cands (q : query) (cs : cands) : Prop :=
  forall pos ks, In (pos, ks) cs -> exists t, In (pos, t) (positions q).

Definition covers (q : query) (dold dnew : db) (cs : cands) : Prop :=
  forall pos t, In (pos, t) (positions q) ->
  forall k, row_changed (tbl dold t) (tbl dnew t) k = true -> exists ks, In (pos, ks) cs /\ kin ks k = true.

Lemma covered_false cs mk pos ks : covered cs mk = false -> In (pos, ks) cs -> sel_pos pos ks mk = false.
Proof.
  unfold covered. intros Hc Hi. destruct (sel_pos pos ks mk) eqn:E; [|reflexivity].
  assert (existsb (fun c => sel_pos (fst c) (snd c) mk) cs = true) by (apply existsb_exists; exists (pos, ks); auto).
  congruence.
Qed.

Lemma uncovered_unchanged q dold dnew cs pos t k mk :
  covers q dold dnew cs -> In (pos, t) (positions q) -> covered cs mk = false ->
  comp pos mk = Some k -> row_changed (tbl dold t) (tbl dnew t) k = false.
Proof.
  intros Hcov Hp Hc Hk. destruct (row_changed (tbl dold t) (tbl dnew t) k) eqn:E; [|reflexivity].
  destruct (Hcov pos t Hp k E) as [ks [Hi Hkin]].
  pose proof (covered_false cs mk pos ks Hc Hi) as Hs. unfold sel_pos in Hs. rewrite Hk in Hs. congruence.
Qed.

Lemma hc_rows q d m cs :
  m_rows (fst (handle_candidates q d m cs)) = rows_of mkey (list val) (hc_fold q d cs (m_rows m, m_next m, [])).
Proof.
  unfold handle_candidates. fold (hc_fold q d cs (m_rows m, m_next m, [])).
  destruct (hc_fold q d cs (m_rows m, m_next m, [])) as [[rows nxt] evs]. reflexivity.
Qed.

Theorem ivm_single q dold dnew m cs :
  q_kind q = JSingle -> dbfun dold -> dbfun dnew -> valid_cands q cs -> covers q dold dnew cs ->
  agree (m_rows m) (eval q dold) ->
  agree (m_rows (fst (handle_candidates q dnew m cs))) (eval q dnew).
Proof.
  intros Hk Ho Hn Hv Hcov Hag. rewrite hc_rows.
  apply (hc_correct q dnew (eval q dold) (eval q dnew)).
  - apply eval_single_fun; assumption.
  - intros pos ks Hi mk c. apply restricted_single; [exact Hk|].
    destruct (Hv pos ks Hi) as [t Ht]. unfold positions in Ht. rewrite Hk in Ht.
    destruct Ht as [Ht|[]]. injection Ht as <- _. reflexivity.
  - intros mk Hc c.
    assert (Hp : In (0%nat, q_t0 q) (positions q)) by (unfold positions; rewrite Hk; left; reflexivity).
    unfold eval. rewrite !(eval_single_spec _ _ _ _ _ _ _ Hk).
    split; intros [[k0 v0] [Hi [Hs [-> [Hw ->]]]]]; exists (k0, v0); repeat split; auto;
      pose proof (uncovered_unchanged q dold dnew cs 0%nat (q_t0 q) k0 _ Hcov Hp Hc eq_refl) as Hu;
      apply (row_unchanged _ _ k0 (Ho _) (Hn _) Hu v0); exact Hi.
  - exact Hag.
Qed.

Theorem ivm_inner q dold dnew m cs :
  q_kind q = JInner -> dbfun dold -> dbfun dnew -> valid_cands q cs -> covers q dold dnew cs ->
  agree (m_rows m) (eval q dold) ->
  agree (m_rows (fst (handle_candidates q dnew m cs))) (eval q dnew).
Proof.
  intros Hk Ho Hn Hv Hcov Hag. rewrite hc_rows.
  apply (hc_correct q dnew (eval q dold) (eval q dnew)).
  - apply eval_inner_fun; assumption.
  - intros pos ks Hi mk c. apply restricted_inner; [exact Hk|].
    destruct (Hv pos ks Hi) as [t Ht]. unfold positions in Ht. rewrite Hk in Ht.
    destruct Ht as [Ht|[Ht|[]]]; injection Ht as <- _; auto.
  - intros mk Hc c.
    assert (Hp0 : In (0%nat, q_t0 q) (positions q)) by (unfold positions; rewrite Hk; left; reflexivity).
    assert (Hp1 : In (1%nat, q_t1 q) (positions q)) by (unfold positions; rewrite Hk; right; left; reflexivity).
    unfold eval. rewrite !(eval_inner_spec _ _ _ _ _ _ _ Hk).
    split; intros [[k0 v0] [[k1 v1] [Hi [Hs [Hj [Hs1 [Hon [-> [Hw ->]]]]]]]]]; exists (k0, v0), (k1, v1);
      pose proof (uncovered_unchanged q dold dnew cs 0%nat (q_t0 q) k0 _ Hcov Hp0 Hc eq_refl) as Hu0;
      pose proof (uncovered_unchanged q dold dnew cs 1%nat (q_t1 q) k1 _ Hcov Hp1 Hc eq_refl) as Hu1;
      repeat split; auto;
      first [apply (row_unchanged _ _ k0 (Ho _) (Hn _) Hu0 v0); exact Hi
            |apply (row_unchanged _ _ k1 (Ho _) (Hn _) Hu1 v1); exact Hj].
  - exact Hag.
Qed.

(* ---------- LEFT JOIN ---------- *)
Lemma filter_nil {A} (p : A -> bool) l : filter p l = [] <-> forall x, In x l -> p x = false.
Proof.
  induction l as [|a l IH]; cbn.
  - split; [intros _ x []|reflexivity].
  - destruct (p a) eqn:E.
    + split; [discriminate|]. intros H. rewrite (H a (or_introl eq_refl)) in E. discriminate.
    + rewrite IH. split; [intros H x [<-|Hx]; auto|intros H x Hx; apply H; right; exact Hx].
Qed.

Lemma eval_left_spec q d s0 s1 mk c : q_kind q = JLeft ->
  (In (mk, c) (eval_gen q d s0 s1 false) <->
   exists r0, In r0 (tbl d (q_t0 q)) /\ s0 (fst r0) = true /\
     ((exists r1, In r1 (tbl d (q_t1 q)) /\ truthy (ev (q_on q) [Some r0; Some r1]) = true /\
                  mk = [Some (fst r0); Some (fst r1)] /\
                  truthy (ev (q_where q) [Some r0; Some r1]) = true /\ c = proj_of q [Some r0; Some r1]) \/
      ((forall r1, In r1 (tbl d (q_t1 q)) -> truthy (ev (q_on q) [Some r0; Some r1]) = false) /\
       mk = [Some (fst r0); None] /\
       truthy (ev (q_where q) [Some r0; None]) = true /\ c = proj_of q [Some r0; None]))).
Proof.
  intros Hk. unfold eval_gen. rewrite Hk. rewrite in_flat_map. split.
  - intros [r0 [Hi Ho]]. apply filter_In in Hi as [Hi Hs]. exists r0. split; [exact Hi|]. split; [exact Hs|].
    destruct (filter (fun r1 => truthy (ev (q_on q) [Some r0; Some r1])) (tbl d (q_t1 q))) as [|m ms] eqn:Ef.
    + right. apply out1_spec in Ho as [-> [Hw ->]]. split; [|auto].
      apply (proj1 (filter_nil _ _) Ef).
    + left. rewrite <- Ef in Ho. apply in_flat_map in Ho as [r1 [Hi1 Ho]]. apply filter_In in Hi1 as [Hi1 Hon].
      apply out1_spec in Ho as [-> [Hw ->]]. exists r1. auto.
  - intros [r0 [Hi [Hs Hcase]]]. exists r0. split; [apply filter_In; auto|].
    destruct Hcase as [[r1 [Hi1 [Hon [-> [Hw ->]]]]]|[Hno [-> [Hw ->]]]].
    + assert (Hin : In r1 (filter (fun r1 => truthy (ev (q_on q) [Some r0; Some r1])) (tbl d (q_t1 q))))
        by (apply filter_In; auto).
      destruct (filter (fun r1 => truthy (ev (q_on q) [Some r0; Some r1])) (tbl d (q_t1 q))) as [|m ms] eqn:Ef; [destruct Hin|].
      rewrite <- Ef in Hin. rewrite <- Ef. apply in_flat_map. exists r1. split; [exact Hin|]. apply out1_spec. auto.
    + apply filter_nil in Hno. rewrite Hno. apply out1_spec. auto.
Qed.

Lemma eval_left_fun q d s0 s1 : q_kind q = JLeft -> dbfun d -> functional mkey (list val) (eval_gen q d s0 s1 false).
Proof.
  intros Hk Hd mk c c' H1 H2.
  apply (eval_left_spec q d s0 s1 mk c Hk) in H1 as [[k0 v0] [Hi [_ Hc1]]].
  apply (eval_left_spec q d s0 s1 mk c' Hk) in H2 as [[k0' v0'] [Hi' [_ Hc2]]].
  destruct Hc1 as [[[k1 v1] [Hj [_ [Hm [_ ->]]]]]|[_ [Hm [_ ->]]]];
  destruct Hc2 as [[[k1' v1'] [Hj' [_ [Hm' [_ ->]]]]]|[_ [Hm' [_ ->]]]]; cbn in *; subst; try discriminate.
  - injection Hm' as <- <-. rewrite (Hd _ _ _ _ Hi Hi'), (Hd _ _ _ _ Hj Hj'). reflexivity.
  - injection Hm' as <-. rewrite (Hd _ _ _ _ Hi Hi'). reflexivity.
Qed.

Lemma restricted_left0 q d ks mk c : q_kind q = JLeft ->
  (In (mk, c) (eval_restricted q d 0 ks) <-> In (mk, c) (eval q d) /\ sel_pos 0 ks mk = true).
Proof.
  intros Hk. unfold eval_restricted, eval. rewrite !(eval_left_spec _ _ _ _ _ _ Hk). split.
  - intros [r0 [Hi [Hs Hc]]]. split; [exists r0; auto|].
    destruct Hc as [[r1 [_ [_ [-> _]]]]|[_ [-> _]]]; exact Hs.
  - intros [[r0 [Hi [_ Hc]]] Hs]. exists r0. split; [exact Hi|]. split; [|exact Hc].
    destruct Hc as [[r1 [_ [_ [-> _]]]]|[_ [-> _]]]; exact Hs.
Qed.

(* the part of the LEFT JOIN behaviour that is right: changes on the left side,
   the nullable side untouched *)
Theorem ivm_left_leftside q dold dnew m cs :
  q_kind q = JLeft -> dbfun dold -> dbfun dnew ->
  (forall pos ks, In (pos, ks) cs -> pos = 0%nat) ->
  covers q dold dnew cs ->
  (forall k, row_changed (tbl dold (q_t1 q)) (tbl dnew (q_t1 q)) k = false) ->
  agree (m_rows m) (eval q dold) ->
  agree (m_rows (fst (handle_candidates q dnew m cs))) (eval q dnew).
Proof.
  intros Hk Ho Hn Hv Hcov Hsame Hag. rewrite hc_rows.
  assert (Ht1 : forall r1, In r1 (tbl dold (q_t1 q)) <-> In r1 (tbl dnew (q_t1 q))).
  { intros [k1 v1]. apply row_unchanged; auto. }
  apply (hc_correct q dnew (eval q dold) (eval q dnew)).
  - apply eval_left_fun; assumption.
  - intros pos ks Hi mk c. rewrite (Hv pos ks Hi). apply restricted_left0. exact Hk.
  - intros mk Hc c.
    assert (Hp0 : In (0%nat, q_t0 q) (positions q)) by (unfold positions; rewrite Hk; left; reflexivity).
    unfold eval. rewrite !(eval_left_spec _ _ _ _ _ _ Hk).
    split; intros [[k0 v0] [Hi [Hs Hcase]]]; exists (k0, v0);
      assert (Hu0 : row_changed (tbl dold (q_t0 q)) (tbl dnew (q_t0 q)) k0 = false)
        by (apply (uncovered_unchanged q dold dnew cs 0%nat (q_t0 q) k0 mk Hcov Hp0 Hc);
            destruct Hcase as [[r1 [_ [_ [-> _]]]]|[_ [-> _]]]; reflexivity);
      (split; [apply (row_unchanged _ _ k0 (Ho _) (Hn _) Hu0 v0); exact Hi|]); (split; [exact Hs|]);
      (destruct Hcase as [[r1 [Hj Hrest]]|[Hno Hrest]];
       [left; exists r1; split; [apply Ht1; exact Hj|exact Hrest]
       |right; split; [intros r1 Hr1; apply Hno; apply Ht1; exact Hr1|exact Hrest]]).
  - exact Hag.
Qed.

(* ---------- events ---------- *)
Section EventProofs.
  Variables (K C : Type) (keqb : K -> K -> bool) (ceqb : C -> C -> bool).
  Hypothesis keqb_spec : forall a b, keqb a b = true <-> a = b.
  Hypothesis ceqb_spec : forall a b, ceqb a b = true <-> a = b.
  Notation look := (look K C keqb).
  Notation keys := (keys K C).
  Notation pass := (pass K C keqb ceqb).
  Notation upsert1 := (upsert1 K C keqb ceqb).

  Lemma filter_all {A} (p : A -> bool) l : (forall x, In x l -> p x = true) -> filter p l = l.
  Proof.
    induction l as [|a l IH]; cbn; intros H; [reflexivity|].
    rewrite (H a (or_introl eq_refl)). f_equal. apply IH. intros x Hx. apply H. right. exact Hx.
  Qed.

  Lemma filter_none {A} (p : A -> bool) l : (forall x, In x l -> p x = false) -> filter p l = [].
  Proof. intros H. apply filter_nil. exact H. Qed.

  (* a pass over a matview that already holds the new result changes nothing
     and emits nothing *)
  Lemma pass_noop st sel newr :
    NoDup (keys (rows_of K C st)) ->
    (forall k c, In (k, c) newr -> look k (rows_of K C st) = Some c) ->
    (forall k c, sel k = true -> look k (rows_of K C st) = Some c -> In (k, c) newr) ->
    pass st sel newr = st.
  Proof.
    intros Hn Hin Hsel. unfold Ivm.pass.
    assert (Hfold : fold_left upsert1 newr st = st).
    { clear Hsel. induction newr as [|[k c] t IH]; [reflexivity|]. cbn [fold_left].
      assert (Hu : upsert1 st (k, c) = st).
      { destruct st as [[rows nxt] evs]. unfold Ivm.upsert1.
        pose proof (Hin k c (or_introl eq_refl)) as Hl. unfold Proofs.IvmProofs.look, rows_of in Hl. cbn [fst] in Hl.
        destruct (Ivm.mfind K C keqb k rows) as [[rid c0]|]; [|discriminate].
        injection Hl as ->. rewrite (proj2 (ceqb_spec c c) eq_refl). reflexivity. }
      rewrite Hu. apply IH. intros k0 c0 H. apply Hin. right. exact H. }
    rewrite Hfold. destruct st as [[rows nxt] evs]. unfold rows_of in *. cbn [fst] in *.
    assert (Hd : forall e, In e rows -> Ivm.doomed K C keqb ceqb sel newr e = false).
    { intros [rid [k c]] He. unfold Ivm.doomed. cbn [fst snd].
      destruct (sel k) eqn:Es; [|reflexivity]. cbn [andb].
      pose proof (in_look K C keqb keqb_spec rid k c rows Hn He) as Hl.
      pose proof (Hsel k c Es Hl) as Hi.
      apply (row_mem_spec K C keqb ceqb keqb_spec ceqb_spec) in Hi. rewrite Hi. reflexivity. }
    rewrite filter_all by (intros e He; rewrite (Hd e He); reflexivity).
    rewrite filter_none by exact Hd. cbn. rewrite app_nil_r. reflexivity.
  Qed.
End EventProofs.

Theorem no_spurious_events q d m cs :
  functional mkey (list val) (eval q d) ->
  (forall pos ks, In (pos, ks) cs -> forall mk c,
     In (mk, c) (eval_restricted q d pos ks) <-> In (mk, c) (eval q d) /\ sel_pos pos ks mk = true) ->
  agree (m_rows m) (eval q d) ->
  handle_candidates q d m cs = (m, []).
Proof.
  intros Hf Hr [Hn Hl].
  assert (Hfold : hc_fold q d cs (m_rows m, m_next m, []) = (m_rows m, m_next m, [])).
  { induction cs as [|[pos ks] cs IH]; [reflexivity|]. rewrite hc_fold_cons. cbn [fst snd].
    rewrite (pass_noop mkey (list val) mkey_eqb cells_eqb mkey_eqb_spec cells_eqb_spec).
    - apply IH. intros p k Hi. apply Hr. right. exact Hi.
    - exact Hn.
    - intros k c Hi. apply (Hr pos ks (or_introl eq_refl)) in Hi as [Hi _]. apply Hl. exact Hi.
    - intros k c Hs Hlk. apply (Hr pos ks (or_introl eq_refl)). split; [apply Hl; exact Hlk|exact Hs]. }
  unfold handle_candidates. fold (hc_fold q d cs (m_rows m, m_next m, [])). rewrite Hfold.
  cbn. rewrite Z.add_0_r. destruct m; reflexivity.
Qed.

Lemma map_fst_combine {A B} (l : list A) (l' : list B) : length l = length l' -> map fst (combine l l') = l.
Proof.
  revert l'. induction l as [|a l IH]; destruct l' as [|b l']; cbn; intros H; try reflexivity; try discriminate.
  f_equal. apply IH. injection H as H. exact H.
Qed.

(* change ids of a batch: base+1, base+2, ... in emission order *)
Theorem stamp_ids base evs :
  map fst (stamp base evs) = map (fun i => base + Z.of_nat i) (seq 1 (length evs)) /\
  map snd (stamp base evs) = evs.
Proof.
  unfold stamp. split.
  - apply map_fst_combine. rewrite map_length, seq_length. reflexivity.
  - assert (H : forall (l : list Z) (l' : list (event mkey (list val))), length l = length l' -> map snd (combine l l') = l').
    { induction l as [|a l IH]; destruct l' as [|b l']; cbn; intros H; try reflexivity; try discriminate.
      f_equal. apply IH. injection H as H. exact H. }
    apply H. rewrite map_length, seq_length. reflexivity.
Qed.

Lemma hc_cid q d m cs :
  m_cid (fst (handle_candidates q d m cs)) = m_cid m + Z.of_nat (length (snd (handle_candidates q d m cs))).
Proof.
  unfold handle_candidates. fold (hc_fold q d cs (m_rows m, m_next m, [])).
  destruct (hc_fold q d cs (m_rows m, m_next m, [])) as [[rows nxt] evs]. reflexivity.
Qed.

(* ---------- replaying the events reproduces the matview ---------- *)
Section ReplayProofs.
  Variables (K C : Type) (keqb : K -> K -> bool) (ceqb : C -> C -> bool).
  Hypothesis keqb_spec : forall a b, keqb a b = true <-> a = b.
  Notation ment := (ment K C).
  Notation keys := (keys K C).
  Notation cv := (client_view K C).
  Notation replay := (replay K C).
  Notation upsert1 := (upsert1 K C keqb ceqb).
  Notation pass := (pass K C keqb ceqb).

  Definition rinv (rows : list ment) (nxt : Z) : Prop :=
    NoDup (map fst rows) /\ forall e, In e rows -> fst e < nxt.

  Lemma replay_app l a b : replay l (a ++ b) = replay (replay l a) b.
  Proof. unfold Ivm.replay. apply fold_left_app. Qed.

  Lemma map_noop (l : list (Z * C)) rid c : ~ In rid (map fst l) ->
    map (fun x => if fst x =? rid then (rid, c) else x) l = l.
  Proof.
    induction l as [|x l IH]; cbn; intros H; [reflexivity|].
    destruct (fst x =? rid) eqn:E; [apply Z.eqb_eq in E; exfalso; apply H; left; exact E|].
    f_equal. apply IH. intros Hi. apply H. right. exact Hi.
  Qed.

  Lemma cv_fst rows : map fst (cv rows) = map fst rows.
  Proof. unfold Ivm.client_view. rewrite map_map. reflexivity. Qed.

  Lemma mfind_rid k rows rid c0 : Ivm.mfind K C keqb k rows = Some (rid, c0) -> In rid (map fst rows).
  Proof.
    induction rows as [|[r [k' c']] t IH]; cbn; [discriminate|].
    destruct (keqb k' k); [intros H; injection H as -> _; left; reflexivity|intros H; right; exact (IH H)].
  Qed.

  Lemma cv_mset k c rows rid c0 : NoDup (map fst rows) -> Ivm.mfind K C keqb k rows = Some (rid, c0) ->
    cv (Ivm.mset K C keqb k c rows) = map (fun x => if fst x =? rid then (rid, c) else x) (cv rows).
  Proof.
    induction rows as [|[r [k' c']] t IH]; cbn; intros Hn Hf; [discriminate|].
    inversion Hn as [|? ? Hnot Hn']; subst.
    destruct (keqb k' k) eqn:E.
    - injection Hf as -> ->. cbn. rewrite Z.eqb_refl. f_equal.
      symmetry. apply map_noop. unfold Ivm.client_view. rewrite map_map. exact Hnot.
    - cbn. pose proof (mfind_rid _ _ _ _ Hf) as Hin.
      destruct (r =? rid) eqn:Er; [apply Z.eqb_eq in Er; subst; contradiction|].
      f_equal. apply IH; assumption.
  Qed.

  Lemma upsert1_replay rows nxt evs kc : rinv rows nxt ->
    let st' := upsert1 (rows, nxt, evs) kc in
    rinv (fst (fst st')) (snd (fst st')) /\
    exists new, snd st' = evs ++ new /\ cv (fst (fst st')) = replay (cv rows) new.
  Proof.
    intros [Hn Hlt]. destruct kc as [k c]. unfold Ivm.upsert1.
    destruct (Ivm.mfind K C keqb k rows) as [[rid c0]|] eqn:Ef.
    - destruct (ceqb c0 c).
      + cbn. split; [split; assumption|]. exists []. rewrite app_nil_r. split; reflexivity.
      + cbn [fst snd]. split.
        * split.
          -- replace (map fst (Ivm.mset K C keqb k c rows)) with (map fst rows); [exact Hn|].
             clear. induction rows as [|[r [k' c']] t IH]; cbn; [reflexivity|].
             destruct (keqb k' k); cbn; [reflexivity|f_equal; exact IH].
          -- intros e He. assert (In (fst e) (map fst rows)).
             { clear -He. induction rows as [|[r [k' c']] t IH]; cbn in *; [contradiction|].
               destruct (keqb k' k); cbn in He; destruct He as [<-|He]; cbn; auto.
               right. apply in_map. exact He. }
             apply in_map_iff in H as [e' [He' Hi']]. rewrite <- He'. apply Hlt. exact Hi'.
        * exists [(EvUpd, rid, k, c)]. split; [reflexivity|]. cbn. apply (cv_mset k c rows rid c0); assumption.
    - cbn [fst snd]. split.
      + split.
        * rewrite map_app. cbn. apply NoDup_app_one; [exact Hn|].
          intros H. apply in_map_iff in H as [e [He Hi]]. pose proof (Hlt e Hi). lia.
        * intros e He. apply in_app_iff in He as [He|[<-|[]]]; [pose proof (Hlt e He); lia|cbn; lia].
      + exists [(EvIns, nxt, k, c)]. split; [reflexivity|]. cbn. unfold Ivm.client_view. rewrite map_app. reflexivity.
  Qed.

  Lemma upserts_replay newr : forall rows nxt evs, rinv rows nxt ->
    let st' := fold_left upsert1 newr (rows, nxt, evs) in
    rinv (fst (fst st')) (snd (fst st')) /\
    exists new, snd st' = evs ++ new /\ cv (fst (fst st')) = replay (cv rows) new.
  Proof.
    induction newr as [|kc t IH]; intros rows nxt evs Hr; cbn [fold_left].
    - split; [exact Hr|]. exists []. rewrite app_nil_r. split; reflexivity.
    - destruct (upsert1_replay rows nxt evs kc Hr) as [Hr1 [n1 [He1 Hc1]]].
      destruct (upsert1 (rows, nxt, evs) kc) as [[rows1 nxt1] evs1]. cbn [fst snd] in *. subst evs1.
      destruct (IH rows1 nxt1 (evs ++ n1) Hr1) as [Hr2 [n2 [He2 Hc2]]].
      split; [exact Hr2|]. exists (n1 ++ n2). split.
      + rewrite He2, app_assoc. reflexivity.
      + rewrite Hc2, Hc1, replay_app. reflexivity.
  Qed.

  Lemma replay_dels (dead : list ment) : forall l,
    replay l (map (fun e => (EvDel, fst e, fst (snd e), snd (snd e))) dead) =
    filter (fun x => negb (existsb (Z.eqb (fst x)) (map fst dead))) l.
  Proof.
    induction dead as [|e dead IH]; intros l; cbn.
    - symmetry. apply filter_all. reflexivity.
    - unfold Ivm.replay in IH. rewrite IH. clear IH.
      induction l as [|x l IHl]; cbn; [reflexivity|].
      destruct (fst x =? fst e) eqn:E; cbn; [exact IHl|].
      destruct (existsb (Z.eqb (fst x)) (map fst dead)); cbn; [exact IHl|f_equal; exact IHl].
  Qed.

  Lemma cv_filter_rid (p : ment -> bool) rows : NoDup (map fst rows) ->
    cv (filter (fun e => negb (p e)) rows) =
    filter (fun x => negb (existsb (Z.eqb (fst x)) (map fst (filter p rows)))) (cv rows).
  Proof.
    intros Hn.
    assert (H : forall e, In e rows -> existsb (Z.eqb (fst e)) (map fst (filter p rows)) = p e).
    { intros e He. destruct (p e) eqn:Ep.
      - apply existsb_exists. exists (fst e). split; [|apply Z.eqb_refl].
        apply in_map. apply filter_In. auto.
      - destruct (existsb (Z.eqb (fst e)) (map fst (filter p rows))) eqn:Ex; [|reflexivity].
        apply existsb_exists in Ex as [r [Hr Heq]]. apply Z.eqb_eq in Heq. subst r.
        apply in_map_iff in Hr as [e' [Hfe Hi']]. apply filter_In in Hi' as [Hi' Hp'].
        assert (e' = e); [|subst; congruence].
        clear -Hn He Hi' Hfe. induction rows as [|a rows IH]; [contradiction|].
        inversion Hn as [|? ? Hnot Hn']; subst. destruct He as [->|He], Hi' as [->|Hi'].
        + reflexivity.
        + exfalso. apply Hnot. rewrite <- Hfe. apply in_map. exact Hi'.
        + exfalso. apply Hnot. rewrite Hfe. apply in_map. exact He.
        + apply IH; assumption. }
    unfold Ivm.client_view. revert H. generalize (map fst (filter p rows)) as D. intros D H.
    induction rows as [|e rows IH]; cbn; [reflexivity|].
    inversion Hn as [|? ? Hnot Hn']; subst.
    rewrite (H e (or_introl eq_refl)). destruct (p e); cbn.
    - apply IH; [exact Hn'|intros e0 He0; apply H; right; exact He0].
    - f_equal. apply IH; [exact Hn'|intros e0 He0; apply H; right; exact He0].
  Qed.

  Theorem pass_replay rows nxt evs sel newr : rinv rows nxt ->
    let st' := pass (rows, nxt, evs) sel newr in
    rinv (fst (fst st')) (snd (fst st')) /\
    exists new, snd st' = evs ++ new /\ cv (fst (fst st')) = replay (cv rows) new.
  Proof.
    intros Hr. unfold Ivm.pass.
    destruct (upserts_replay newr rows nxt evs Hr) as [[Hn1 Hlt1] [n1 [He1 Hc1]]].
    destruct (fold_left upsert1 newr (rows, nxt, evs)) as [[rows1 nxt1] evs1]. cbn [fst snd] in *. subst evs1.
    split.
    - split.
      + clear -Hn1. induction rows1 as [|e l IH]; cbn; [constructor|].
        inversion Hn1 as [|? ? Hnot Hn']; subst.
        destruct (negb (Ivm.doomed K C keqb ceqb sel newr e)); cbn; [constructor|]; auto.
        intros H. apply Hnot. apply in_map_iff in H as [e' [He' Hi']]. apply filter_In in Hi' as [Hi' _].
        rewrite <- He'. apply in_map. exact Hi'.
      + intros e He. apply filter_In in He as [He _]. apply Hlt1. exact He.
    - eexists. split; [rewrite <- app_assoc; reflexivity|].
      rewrite replay_app, <- Hc1, replay_dels. apply cv_filter_rid. exact Hn1.
  Qed.
End ReplayProofs.

Definition minv (m : mstate) : Prop := rinv mkey (list val) (m_rows m) (m_next m).

Theorem hc_replay q d m cs : minv m ->
  minv (fst (handle_candidates q d m cs)) /\
  client_view mkey (list val) (m_rows (fst (handle_candidates q d m cs))) =
  replay mkey (list val) (client_view mkey (list val) (m_rows m)) (snd (handle_candidates q d m cs)).
Proof.
  intros Hm. unfold handle_candidates. fold (hc_fold q d cs (m_rows m, m_next m, [])).
  assert (H : forall cs rows nxt evs, rinv mkey (list val) rows nxt ->
            let st' := hc_fold q d cs (rows, nxt, evs) in
            rinv mkey (list val) (fst (fst st')) (snd (fst st')) /\
            exists new, snd st' = evs ++ new /\
              client_view mkey (list val) (fst (fst st')) = replay mkey (list val) (client_view mkey (list val) rows) new).
  { clear. induction cs as [|[pos ks] cs IH]; intros rows nxt evs Hr.
    - cbn. split; [exact Hr|]. exists []. rewrite app_nil_r. split; reflexivity.
    - rewrite hc_fold_cons. cbn [fst snd].
      destruct (pass_replay mkey (list val) mkey_eqb cells_eqb rows nxt evs (sel_pos pos ks) (eval_restricted q d pos ks) Hr)
        as [Hr1 [n1 [He1 Hc1]]].
      destruct (pass mkey (list val) mkey_eqb cells_eqb (rows, nxt, evs) (sel_pos pos ks) (eval_restricted q d pos ks)) as [[rows1 nxt1] evs1].
      cbn [fst snd] in *. subst evs1.
      destruct (IH rows1 nxt1 (evs ++ n1) Hr1) as [Hr2 [n2 [He2 Hc2]]].
      split; [exact Hr2|]. exists (n1 ++ n2). split.
      + rewrite He2, app_assoc. reflexivity.
      + rewrite Hc2, Hc1, replay_app. reflexivity. }
  destruct (H cs (m_rows m) (m_next m) [] Hm) as [Hr [new [He Hc]]].
  destruct (hc_fold q d cs (m_rows m, m_next m, [])) as [[rows nxt] evs]. cbn [fst snd] in *.
  cbn in He. subst. split; [exact Hr|exact Hc].
Qed.

(* ---------- the initial query establishes the invariants ---------- *)
Definition tnodup (t : table) : Prop := NoDup (map fst t).
Definition dbnodup (d : db) : Prop := forall t, tnodup (tbl d t).

Lemma tnodup_tfun t : tnodup t -> tfun t.
Proof.
  unfold tnodup, tfun. induction t as [|[k0 v0] t IH]; cbn; intros Hn k v v' H1 H2; [contradiction|].
  inversion Hn as [|? ? Hnot Hn']; subst.
  destruct H1 as [H1|H1], H2 as [H2|H2].
  - congruence.
  - injection H1 as -> ->. exfalso. apply Hnot. exact (in_map fst t (k, v') H2).
  - injection H2 as -> ->. exfalso. apply Hnot. exact (in_map fst t (k, v) H1).
  - exact (IH Hn' k v v' H1 H2).
Qed.

Lemma dbnodup_dbfun d : dbnodup d -> dbfun d.
Proof. intros H t. apply tnodup_tfun. apply H. Qed.

Lemma NoDup_app_intro {A} (l1 l2 : list A) :
  NoDup l1 -> NoDup l2 -> (forall x, In x l1 -> ~ In x l2) -> NoDup (l1 ++ l2).
Proof.
  induction l1 as [|a l1 IH]; cbn; intros H1 H2 Hd; [exact H2|].
  inversion H1 as [|? ? Hnot H1']; subst. constructor.
  - rewrite in_app_iff. intros [H|H]; [contradiction|]. exact (Hd a (or_introl eq_refl) H).
  - apply IH; [exact H1'|exact H2|]. intros x Hx. apply Hd. right. exact Hx.
Qed.

Lemma nodup_flat_map {A B T} (f : A -> list B) (g : A -> T) (tag : B -> T) l :
  NoDup (map g l) -> (forall a b, In a l -> In b (f a) -> tag b = g a) ->
  (forall a, In a l -> NoDup (f a)) -> NoDup (flat_map f l).
Proof.
  induction l as [|a l IH]; cbn; intros Hn Ht Hf; [constructor|].
  inversion Hn as [|? ? Hnot Hn']; subst.
  apply NoDup_app_intro.
  - apply Hf. left. reflexivity.
  - apply IH; [exact Hn'| |]; intros; [apply Ht|apply Hf]; auto.
  - intros b Hb Hb'. apply in_flat_map in Hb' as [a' [Ha' Hb']].
    apply Hnot. rewrite <- (Ht a b (or_introl eq_refl) Hb), (Ht a' b (or_intror Ha') Hb').
    apply in_map. exact Ha'.
Qed.

Lemma map_flat_map {A B D} (h : B -> D) (f : A -> list B) l :
  map h (flat_map f l) = flat_map (fun a => map h (f a)) l.
Proof. induction l as [|a l IH]; cbn; [reflexivity|]. rewrite map_app, IH. reflexivity. Qed.

Lemma nodup_map_filter {A B} (g : A -> B) (p : A -> bool) l : NoDup (map g l) -> NoDup (map g (filter p l)).
Proof.
  induction l as [|a l IH]; cbn; intros Hn; [constructor|].
  inversion Hn as [|? ? Hnot Hn']; subst. destruct (p a); cbn; [constructor|]; auto.
  intros H. apply Hnot. apply in_map_iff in H as [x [Hx Hi]]. apply filter_In in Hi as [Hi _].
  rewrite <- Hx. apply in_map. exact Hi.
Qed.

Lemma nodup_map_some {A} (l : list A) : NoDup l -> NoDup (map Some l).
Proof.
  induction l as [|a l IH]; cbn; intros Hn; [constructor|].
  inversion Hn as [|? ? Hnot Hn']; subst. constructor; [|auto].
  intros H. apply in_map_iff in H as [x [Hx Hi]]. injection Hx as ->. contradiction.
Qed.

Lemma nodup_some_fst (l : table) : NoDup (map fst l) -> NoDup (map (fun r : row => Some (fst r)) l).
Proof. intros H. apply nodup_map_some in H. rewrite map_map in H. exact H. Qed.

Lemma out1_keys_nodup q en mk : NoDup (map fst (out1 q en mk)).
Proof. unfold out1. destruct (truthy _); cbn; repeat constructor; intros []. Qed.

Lemma out1_tag q en mk mk' : In mk' (map fst (out1 q en mk)) -> mk' = mk.
Proof. unfold out1. destruct (truthy _); cbn; [intros [H|[]]; auto|intros []]. Qed.

Lemma eval_keys_nodup q d s0 s1 : q_kind q <> JLeft -> dbnodup d -> NoDup (map fst (eval_gen q d s0 s1 false)).
Proof.
  intros Hk Hd. unfold eval_gen.
  assert (H0 : NoDup (map (fun r : row => Some (fst r)) (filter (fun r => s0 (fst r)) (tbl d (q_t0 q))))).
  { apply nodup_some_fst. apply nodup_map_filter. apply Hd. }
  destruct (q_kind q) eqn:Ek; [| |contradiction].
  - rewrite map_flat_map.
    apply (nodup_flat_map _ (fun r : row => Some (fst r)) (fun mk : mkey => comp 0 mk)); [exact H0| |].
    + intros r0 mk _ Hi. apply out1_tag in Hi. subst. reflexivity.
    + intros r0 _. apply out1_keys_nodup.
  - rewrite map_flat_map.
    apply (nodup_flat_map _ (fun r : row => Some (fst r)) (fun mk : mkey => comp 0 mk)); [exact H0| |].
    + intros r0 mk _ Hi. rewrite map_flat_map in Hi. apply in_flat_map in Hi as [r1 [_ Hi]].
      destruct (truthy (ev (q_on q) [Some r0; Some r1])); [|destruct Hi].
      apply out1_tag in Hi. subst. reflexivity.
    + intros r0 _. rewrite map_flat_map.
      apply (nodup_flat_map _ (fun r : row => Some (fst r)) (fun mk : mkey => comp 1 mk)).
      * apply nodup_some_fst. apply nodup_map_filter. apply Hd.
      * intros r1 mk _ Hi. destruct (truthy (ev (q_on q) [Some r0; Some r1])); [|destruct Hi].
        apply out1_tag in Hi. subst. reflexivity.
      * intros r1 _. destruct (truthy (ev (q_on q) [Some r0; Some r1])); [apply out1_keys_nodup|constructor].
Qed.

Lemma look_combine : forall (R : list mrow) (ids : list Z), length ids = length R -> NoDup (map fst R) ->
  forall mk c, mlook mk (combine ids R) = Some c <-> In (mk, c) R.
Proof.
  induction R as [|[mk0 c0] R IH]; destruct ids as [|i ids]; cbn; intros Hlen Hn mk c; try discriminate.
  - split; [discriminate|intros []].
  - inversion Hn as [|? ? Hnot Hn']; subst. injection Hlen as Hlen.
    unfold look. cbn. destruct (mkey_eqb mk0 mk) eqn:E.
    + apply mkey_eqb_spec in E. subst. split.
      * intros H. injection H as ->. left. reflexivity.
      * intros [H|H]; [injection H as ->; reflexivity|]. exfalso. apply Hnot. exact (in_map fst R (mk, c) H).
    + fold (mlook mk (combine ids R)). rewrite (IH ids Hlen Hn' mk c). split; [intros H; right; exact H|].
      intros [H|H]; [|exact H]. injection H as -> ->.
      assert (mkey_eqb mk mk = true) by (apply mkey_eqb_spec; reflexivity). congruence.
Qed.

Lemma keys_combine : forall (R : list mrow) (ids : list Z), length ids = length R -> mkeys (combine ids R) = map fst R.
Proof.
  induction R as [|r R IH]; destruct ids as [|i ids]; cbn; intros H; try reflexivity; try discriminate.
  f_equal. apply IH. injection H as H. exact H.
Qed.

Theorem m_init_agree q d : q_kind q <> JLeft -> dbnodup d ->
  agree (m_rows (m_init q d)) (eval q d) /\ minv (m_init q d) /\ m_cid (m_init q d) = 0.
Proof.
  intros Hk Hd. pose proof (eval_keys_nodup q d all_keys all_keys Hk Hd) as Hn. fold (eval q d) in Hn.
  unfold m_init. cbn [m_rows m_next m_cid].
  set (R := eval q d) in *. set (ids := map Z.of_nat (seq 1 (length R))).
  assert (Hlen : length ids = length R) by (unfold ids; rewrite map_length, seq_length; reflexivity).
  split; [|split; [|reflexivity]].
  - split; [rewrite keys_combine by exact Hlen; exact Hn|]. apply look_combine; assumption.
  - unfold minv, rinv. cbn [m_rows m_next].
    rewrite map_fst_combine by exact Hlen. split.
    + unfold ids. apply FinFun.Injective_map_NoDup; [intros a b H; lia|apply seq_NoDup].
    + intros e He. apply (in_map fst) in He. rewrite map_fst_combine in He by exact Hlen.
      unfold ids in He. apply in_map_iff in He as [n [Hn' Hi]]. apply in_seq in Hi. lia.
Qed.

(* ---------- the candidates the (fixed) code derives cover the changed rows ---------- *)
Lemma tfind_some_in k t v : tfind k t = Some v -> In k (map fst t).
Proof.
  unfold tfind. destruct (find (fun r => key_eqb (fst r) k) t) as [[k' v']|] eqn:E; [|discriminate].
  intros _. apply find_some in E as [Hi He]. cbn in He. apply key_eqb_spec in He. subst.
  exact (in_map fst t (k, v') Hi).
Qed.

Lemma changed_keys_spec told tnew k : row_changed told tnew k = true -> kin (changed_keys told tnew) k = true.
Proof.
  intros Hc. apply kin_spec. unfold changed_keys. apply filter_In. split; [|exact Hc].
  apply in_app_iff. unfold row_changed in Hc.
  destruct (tfind k told) as [a|] eqn:E1; [left; exact (tfind_some_in _ _ _ E1)|].
  destruct (tfind k tnew) as [b|] eqn:E2; [right; exact (tfind_some_in _ _ _ E2)|discriminate].
Qed.

Lemma cands_of_ok q dold dnew : valid_cands q (cands_of q dold dnew) /\ covers q dold dnew (cands_of q dold dnew).
Proof.
  unfold cands_of. split.
  - intros pos ks Hi. apply filter_In in Hi as [Hi _]. apply in_map_iff in Hi as [[p t] [He Hi]].
    cbn in He. injection He as <- _. exists t. exact Hi.
  - intros pos t Hp k Hc. exists (changed_keys (tbl dold t) (tbl dnew t)).
    pose proof (changed_keys_spec _ _ _ Hc) as Hk. split; [|exact Hk].
    apply filter_In. split.
    + apply in_map_iff. exists (pos, t). split; [reflexivity|exact Hp].
    + cbn. destruct (changed_keys (tbl dold t) (tbl dnew t)); [cbn in Hk; discriminate|reflexivity].
Qed.

(* ---------- whole histories ---------- *)
Fixpoint run_hist (q : query) (m : mstate) (dprev : db) (ds : list db) : mstate :=
  match ds with
  | [] => m
  | d :: t => run_hist q (fst (handle_candidates q d m (cands_of q dprev d))) d t
  end.

Lemma last_nonempty_indep {A} (l : list A) a d d' : last (a :: l) d = last (a :: l) d'.
Proof. revert a. induction l as [|b l IH]; intros a; [reflexivity|]. cbn [last]. apply IH. Qed.

Theorem history_correct q : q_kind q <> JLeft -> forall ds d0 m,
  dbfun d0 -> Forall dbfun ds -> agree (m_rows m) (eval q d0) ->
  agree (m_rows (run_hist q m d0 ds)) (eval q (last ds d0)).
Proof.
  intros Hk. induction ds as [|d ds IH]; intros d0 m H0 Hall Hag; [exact Hag|].
  inversion Hall as [|? ? Hd Hall']; subst. cbn [run_hist].
  destruct (cands_of_ok q d0 d) as [Hv Hc].
  assert (Hstep : agree (m_rows (fst (handle_candidates q d m (cands_of q d0 d)))) (eval q d)).
  { destruct (q_kind q) eqn:Ek; [apply (ivm_single q d0 d)|apply (ivm_inner q d0 d)|contradiction]; assumption. }
  specialize (IH d _ Hd Hall' Hstep).
  destruct ds as [|d' ds']; [exact IH|].
  change (last (d :: d' :: ds') d0) with (last (d' :: ds') d0).
  rewrite (last_nonempty_indep ds' d' d0 d). exact IH.
Qed.
