//! C05: the real sync server (process_sync + handle_need via cfg hooks) over
//! server databases built by the real ingest path; prints abs(D) and the answers.
use crate::{agentkit, c04::actor_of, util::Toks};
use klukai_agent::{
    agent::{process_multiple_changes, util::process_fully_buffered_changes},
    api::peer::verif_hooks::run_process_sync,
};
use klukai_types::{
    agent::Bookie,
    base::{CrsqlDbVersion, CrsqlSeq},
    broadcast::{ChangeSource, ChangeV1, Changeset},
    pubsub::unpack_columns,
    sync::{SyncMessage, SyncMessageV1, SyncNeedV1},
};
use std::time::{Duration, Instant};

fn pk_id(pk: &[u8]) -> i64 {
    unpack_columns(pk).ok().and_then(|v| v.first().and_then(|x| x.as_integer())).unwrap_or(-1)
}

fn fmt_msg(m: &SyncMessage) -> String {
    match m {
        SyncMessage::V1(SyncMessageV1::Changeset(ChangeV1 { changeset, .. })) => match changeset {
            Changeset::Full { version, changes, seqs, last_seq, .. } => format!(
                "F{}:{}-{}:{}[{}]",
                version.0,
                seqs.start().0,
                seqs.end().0,
                last_seq.0,
                changes.iter().map(|c| format!("{}/{}", c.seq.0, pk_id(&c.pk))).collect::<Vec<_>>().join(",")
            ),
            Changeset::Empty { versions, .. } => format!("E{}-{}", versions.start().0, versions.end().0),
            Changeset::EmptySet { .. } => "ES".into(),
        },
        _ => "OTHER".into(),
    }
}

/// case: serve <nops> { D v s e last k {seq}*k | W v k {rowid}*k | E lo hi | A v | O v k {rowid}*k }
///   (O: a complete version v of ANOTHER actor; needs are always about actor 5) <nneeds> { NF s e | NP v k {s e}*k }
pub fn serve(t: &mut Toks) -> String {
    let rt = tokio::runtime::Builder::new_multi_thread().worker_threads(3).enable_all().build().unwrap();
    let nops = t.usize();
    enum Op {
        D(u64, u64, u64, u64, Vec<u64>),
        W(u64, Vec<u64>),
        E(u64, u64),
        A(u64),
        O(u64, Vec<u64>),
    }
    let mut ops = vec![];
    for _ in 0..nops {
        ops.push(match t.tok() {
            "D" => {
                let v = t.u64();
                let s = t.u64();
                let e = t.u64();
                let last = t.u64();
                let k = t.usize();
                Op::D(v, s, e, last, (0..k).map(|_| t.u64()).collect())
            }
            "W" => {
                let v = t.u64();
                let k = t.usize();
                Op::W(v, (0..k).map(|_| t.u64()).collect())
            }
            "E" => Op::E(t.u64(), t.u64()),
            "A" => Op::A(t.u64()),
            "O" => {
                let v = t.u64();
                let k = t.usize();
                Op::O(v, (0..k).map(|_| t.u64()).collect())
            }
            x => panic!("bad op {x}"),
        });
    }
    let nneeds = t.usize();
    let mut needs = vec![];
    for _ in 0..nneeds {
        needs.push(match t.tok() {
            "NF" => SyncNeedV1::Full { versions: CrsqlDbVersion(t.u64())..=CrsqlDbVersion(t.u64()) },
            "NP" => {
                let v = t.u64();
                let k = t.usize();
                SyncNeedV1::Partial { version: CrsqlDbVersion(v), seqs: (0..k).map(|_| CrsqlSeq(t.u64())..=CrsqlSeq(t.u64())).collect() }
            }
            x => panic!("bad need {x}"),
        });
    }
    rt.block_on(async move {
        let kit = agentkit::new_agent(|_| {}).await;
        let agent = kit.agent.clone();
        let bookie = Bookie::new(Default::default());
        let actor = actor_of(5);
        let tmo = Duration::from_secs(30);
        let mut rowsize = 0usize;
        for op in ops {
            match op {
                Op::D(v, s, e, last, seqs) => {
                    let changes: Vec<_> = seqs
                        .iter()
                        .map(|q| agentkit::mk_change(actor, v, *q, (v * 1000 + 100 + q) as i64, "x", 1, 1))
                        .collect();
                    if let Some(c) = changes.first() {
                        rowsize = c.estimated_byte_size();
                    }
                    let c = agentkit::full(actor, v, changes, s, e, last, 1);
                    let _ = process_multiple_changes(agent.clone(), bookie.clone(), vec![(c, ChangeSource::Sync, Instant::now())], tmo).await;
                }
                Op::W(v, ids) => {
                    let n = ids.len() as u64;
                    let changes: Vec<_> = ids
                        .iter()
                        .enumerate()
                        .map(|(i, id)| agentkit::mk_change(actor, v, i as u64, (1000 + id) as i64, "x", v as i64, 1))
                        .collect();
                    if let Some(c) = changes.first() {
                        rowsize = c.estimated_byte_size();
                    }
                    let c = agentkit::full(actor, v, changes, 0, n.saturating_sub(1), n.saturating_sub(1), 1);
                    let _ = process_multiple_changes(agent.clone(), bookie.clone(), vec![(c, ChangeSource::Sync, Instant::now())], tmo).await;
                }
                Op::E(lo, hi) => {
                    let c = agentkit::empty(actor, lo, hi, 1);
                    let _ = process_multiple_changes(agent.clone(), bookie.clone(), vec![(c, ChangeSource::Sync, Instant::now())], tmo).await;
                }
                Op::A(v) => {
                    let _ = process_fully_buffered_changes(&agent, &bookie, actor, CrsqlDbVersion(v), tmo).await;
                }
                Op::O(v, ids) => {
                    // a complete version with the SAME number authored by another actor (versions are per actor)
                    let other = actor_of(6);
                    let n = ids.len() as u64;
                    let changes: Vec<_> = ids
                        .iter()
                        .enumerate()
                        .map(|(i, id)| agentkit::mk_change(other, v, i as u64, (2000 + id) as i64, "o", 1, 1))
                        .collect();
                    let c = agentkit::full(other, v, changes, 0, n.saturating_sub(1), n.saturating_sub(1), 1);
                    let _ = process_multiple_changes(agent.clone(), bookie.clone(), vec![(c, ChangeSource::Sync, Instant::now())], tmo).await;
                }
            }
        }
        // abs(D)
        let state = {
            let conn = agent.pool().read().await.unwrap();
            let mut live: Vec<(i64, i64, i64)> = conn
                .prepare("SELECT db_version, seq, pk FROM crsql_changes WHERE site_id = ? ORDER BY db_version, seq")
                .unwrap()
                .query_map([actor], |r| Ok((r.get::<_, i64>(0)?, r.get::<_, i64>(1)?, pk_id(&r.get::<_, Vec<u8>>(2)?))))
                .unwrap()
                .map(|x| x.unwrap())
                .collect();
            live.sort();
            let gaps: Vec<String> = conn
                .prepare("SELECT start, end FROM __corro_bookkeeping_gaps WHERE actor_id = ? ORDER BY start")
                .unwrap()
                .query_map([actor], |r| Ok(format!("{}-{}", r.get::<_, i64>(0)?, r.get::<_, i64>(1)?)))
                .unwrap()
                .map(|x| x.unwrap())
                .collect();
            let buf: Vec<String> = conn
                .prepare("SELECT db_version, seq, pk FROM __corro_buffered_changes WHERE site_id = ? ORDER BY db_version, seq")
                .unwrap()
                .query_map([actor], |r| Ok(format!("{}:{}/{}", r.get::<_, i64>(0)?, r.get::<_, i64>(1)?, pk_id(&r.get::<_, Vec<u8>>(2)?))))
                .unwrap()
                .map(|x| x.unwrap())
                .collect();
            let seq: Vec<String> = conn
                .prepare("SELECT db_version, start_seq, end_seq, last_seq FROM __corro_seq_bookkeeping WHERE site_id = ? ORDER BY db_version, start_seq")
                .unwrap()
                .query_map([actor], |r| Ok(format!("{}:{}-{}:{}", r.get::<_, i64>(0)?, r.get::<_, i64>(1)?, r.get::<_, i64>(2)?, r.get::<_, i64>(3)?)))
                .unwrap()
                .map(|x| x.unwrap())
                .collect();
            let (needed, max) = {
                let b = { bookie.read::<&str, _>("verif", None).await.get(&actor).cloned() };
                match b {
                    None => ("?".to_string(), "?".to_string()),
                    Some(b) => {
                        let r = b.read::<&str, _>("verif", None).await;
                        (
                            r.needed().iter().map(|x| format!("{}-{}", x.start().0, x.end().0)).collect::<Vec<_>>().join(","),
                            r.last().map(|m| m.0.to_string()).unwrap_or("-".into()),
                        )
                    }
                }
            };
            format!(
                "live={} gaps={} buf={} seq={} needed={} max={} size={}",
                live.iter().map(|(v, s, id)| format!("{v}:{s}/{id}")).collect::<Vec<_>>().join(","),
                gaps.join(","),
                buf.join(","),
                seq.join(","),
                needed,
                max,
                rowsize
            )
        };
        let mut outs = vec![state];
        for need in needs {
            let (tx, mut rx) = tokio::sync::mpsc::channel::<SyncMessage>(10_000);
            let (req_tx, req_rx) = tokio::sync::mpsc::channel(4);
            req_tx.send(vec![(actor, vec![need.clone()])]).await.unwrap();
            drop(req_tx);
            let res = run_process_sync(agent.pool().clone(), bookie.clone(), tx, req_rx).await;
            let mut msgs = vec![];
            while let Ok(m) = rx.try_recv() {
                msgs.push(fmt_msg(&m));
            }
            let nd = match &need {
                SyncNeedV1::Full { versions } => format!("NF {} {}", versions.start().0, versions.end().0),
                SyncNeedV1::Partial { version, seqs } => format!(
                    "NP {} {} {}",
                    version.0,
                    seqs.len(),
                    seqs.iter().map(|r| format!("{} {}", r.start().0, r.end().0)).collect::<Vec<_>>().join(" ")
                ),
                _ => "?".into(),
            };
            outs.push(format!("{} => {}{}", nd, msgs.join(" "), if res.is_err() { " ERR" } else { "" }));
        }
        outs.join(" || ")
    })
}
