"""C06 — a crash at any point loses no acknowledged write and no sync obligation."""
import random, re
import vlib, flow
from props.c02 import parse_bv, tok_bv, parse_ranges, tok_ranges


def parse_snap(st):
    m = re.match(r"own\[(.*?)\] a5\[(.*?)\] d=(\S+) g=(\S*) s=(\S*) own_rows=(\S*) a5_rows=(\S*) buf=(\S*)(?: live5\[(.*?)\])?(?: ack=(\S+))?", st.strip())
    if not m:
        return None
    return dict(own=m.group(1), a5=m.group(2), d=m.group(3), g=m.group(4), s=m.group(5),
                own_rows=[x for x in m.group(6).split(",") if x], a5_rows=[x for x in m.group(7).split(",") if x],
                buf=[x for x in m.group(8).split(",") if x], live=m.group(9), ack=m.group(10))


class C06(flow.Spec):
    pid = "C06"
    shards = 16
    rule = ("histories on a real agent (temp dir, WAL): L = acknowledged local transaction, LF = failing local request, W = complete "
            "remote version, D = partial chunk, E = empty changeset, A = apply a fully buffered version, C = run the buffered-meta "
            "clear loop. After EVERY operation -- i.e. after every commit -- corrosion.db and its -wal are copied (what kill -9 "
            "leaves); every copy is opened like a restart: BookedVersions::from_conn for the own and the remote actor, durable rows, "
            "buffered rows. In a third of the histories a REAL agent (start_with_config) is then started on the last copy. "
            "The model's from_conn runs on abs(Dur) read from the copy. Oracle: reload satisfies the bookkeeping invariant (Coq "
            "inv_b); every acknowledged local row is present; a remote version the reload advertises as held has all its rows in "
            "the table; after the real restart fully buffered versions are applied. "
            "non-trivial = distinct history with a partial version or a gap at some crash point")
    assumptions = ["process crash only: every copy is taken between two commits of the single writer; power-loss behaviour of WAL with synchronous=NORMAL and the filesystem are outside the model",
                   "multi-commit operations (the clear loop with more than TO_CLEAR_COUNT rows) are exercised with a single batch",
                   "remote versions write distinct rows (no overwrites), so 'stored' is 'all its rows are in the table'"]

    def cases(self, tier, seed):
        rnd = random.Random(seed)
        out = []
        N = 50 if tier == "quick" else 1500
        for i in range(N):
            ops, tags = [], set()
            nextlocal = 1
            for _ in range(rnd.randrange(3, 12)):
                x = rnd.random()
                if x < 0.25:
                    k = rnd.randrange(1, 4)
                    ops.append("L %d %s" % (k, " ".join(str(nextlocal + j) for j in range(k)))); nextlocal += k
                elif x < 0.32:
                    ops.append("LF")
                elif x < 0.55:
                    # a version's content is fixed: versions 1..4 are written whole
                    v = rnd.randrange(1, 5); k = (v % 3) + 1
                    ops.append("W %d %d %s" % (v, k, " ".join(map(str, range(1, k + 1)))))
                elif x < 0.8:
                    # versions 5..7 arrive in chunks
                    v = rnd.randrange(5, 8); last = 3
                    s = rnd.randrange(0, last + 1); e = rnd.randrange(s, last + 1)
                    if s == 0 and e == last:
                        e = last - 1
                    ops.append("D %d %d %d %d %d %s" % (v, s, e, last, e - s + 1, " ".join(map(str, range(s, e + 1))))); tags.add("partial")
                elif x < 0.88:
                    # versions 10..12 are empty at the origin
                    lo = rnd.randrange(10, 13)
                    ops.append("E %d %d" % (lo, min(12, lo + rnd.randrange(0, 2))))
                elif x < 0.95:
                    ops.append("A %d" % rnd.randrange(5, 8))
                    if rnd.random() < 0.5:
                        ops.append("C")
                else:
                    ops.append("C")
            # a second remote actor holds partial versions with the same numbers (and the same
            # first seq) as the ones actor 5 completes, applies and clears
            if rnd.random() < 0.6:
                pos = rnd.randrange(0, len(ops) + 1)
                for v in rnd.sample([5, 6, 7], rnd.randrange(1, 4)):
                    e = rnd.randrange(0, 3)
                    ops.insert(pos, "O %d 0 %d 3 %d %s" % (v, e, e + 1, " ".join(map(str, range(0, e + 1)))))
                tags.add("second-actor-same-version-numbers")
                # ... and actor 5 completes, applies and clears one of them
                v = rnd.choice([5, 6, 7])
                ops += ["D %d 0 1 3 2 0 1" % v, "D %d 2 3 3 2 2 3" % v, "A %d" % v, "C"]
            restart = 1 if i % 3 == 0 else 0
            if restart:
                # end with a version that is fully buffered but not applied
                v = 9
                ops += ["D %d 0 1 3 2 0 1" % v, "D %d 2 3 3 2 2 3" % v]; tags.add("restart-with-unapplied")
            out.append(("crash %d %s %d" % (len(ops), " ".join(ops), restart), tags))
        return out

    def model_lines(self, case, impl_obs):
        if impl_obs.startswith(("ERR", "PANIC", "CRASH")):
            return []
        lines = []
        for st in impl_obs.split(" # "):
            if st.startswith("RESTART"):
                continue
            p = parse_snap(st)
            if p is None:
                return []
            srows = [x for x in p["s"].split(";") if x]
            t = ["fromconn", "-1" if p["d"] == "-" else p["d"], str(len(srows))]
            for r in srows:
                v, rng, last = r.split(":")
                a, b = rng.split("-")
                t += [v, a, b, last]
            t += tok_ranges(parse_ranges(p["g"]))
            lines.append(" ".join(t))
        return lines

    def agree(self, case, impl_obs, model_obs):
        if impl_obs.startswith(("ERR", "PANIC", "CRASH")):
            return False
        snaps = [s for s in impl_obs.split(" # ") if not s.startswith("RESTART")]
        mo = model_obs.split(" || ")
        if len(snaps) != len(mo):
            return False
        for s, m in zip(snaps, mo):
            p = parse_snap(s)
            if p is None or p["a5"].strip() != m.strip():
                return False
        return True

    def oracle_lines(self, case, impl_obs):
        if impl_obs.startswith(("ERR", "PANIC", "CRASH")):
            return ["chk_reload 1 5 5 -1 0 0"]
        lines = []
        for st in impl_obs.split(" # "):
            if st.startswith("RESTART"):
                continue
            p = parse_snap(st)
            if p is None:
                return ["chk_reload 1 5 5 -1 0 0"]
            lines.append(" ".join(["chk_reload"] + tok_bv(parse_bv(p["a5"])) + tok_ranges(parse_ranges(p["g"]))))
            lines.append(" ".join(["chk_reload"] + tok_bv(parse_bv(p["own"])) + ["0"]))
        return lines

    def impl_verdict(self, case, impl_obs):
        if impl_obs.startswith(("ERR", "PANIC", "CRASH")):
            return False
        t = case.split()
        # replay the script to know what each version / local tx wrote
        i = 2
        ops = []
        while i < len(t) - 1:
            if t[i] == "L":
                k = int(t[i + 1]); ops.append(("L", [t[i + 2 + j] for j in range(k)])); i += 2 + k
            elif t[i] == "LF":
                ops.append(("LF",)); i += 1
            elif t[i] == "W":
                v, k = int(t[i + 1]), int(t[i + 2])
                ops.append(("W", v, [str(v * 1000 + int(t[i + 3 + j])) for j in range(k)])); i += 3 + k
            elif t[i] == "D":
                v, s, e, last, k = map(int, t[i + 1:i + 6])
                ops.append(("D", v, last)); i += 6 + k
            elif t[i] == "E":
                ops.append(("E",)); i += 3
            elif t[i] == "A":
                ops.append(("A",)); i += 2
            elif t[i] == "O":
                k = int(t[i + 5])
                ops.append(("O",)); i += 6 + k
            else:
                ops.append(("C",)); i += 1
        steps = impl_obs.split(" # ")
        snaps = [s for s in steps if not s.startswith("RESTART")]
        if len(snaps) != len(ops):
            return False
        acked, content = [], {}
        for op, st in zip(ops, snaps):
            p = parse_snap(st)
            if p is None:
                return False
            if op[0] == "L":
                if not p["ack"] or not p["ack"].startswith("1:"):
                    return False
                acked += op[1]
            if op[0] == "LF" and (p["ack"] is None or not p["ack"].startswith("0:") or "999" in p["own_rows"]):
                return False
            if op[0] == "W":
                content.setdefault(op[1], set()).update(op[2])
            if op[0] == "D":
                content.setdefault(op[1], set()).update(str(op[1] * 1000 + 100 + q) for q in range(op[2] + 1))
            # (1) every acknowledged local write is on disk at every later crash point
            if any(a not in p["own_rows"] for a in acked):
                return False
            # (2) whatever the reload advertises as held is durably stored
            n, mx, parts = parse_bv(p["a5"])
            partial_incomplete = set()
            for v, last, rs in parts:
                covered = set()
                for a, b in rs:
                    covered |= set(range(a, b + 1))
                if not all(q in covered for q in range(last + 1)):
                    partial_incomplete.add(v)
            needed = set()
            for a, b in n:
                needed |= set(range(a, b + 1))
            for v, rows in content.items():
                held = mx != -1 and v <= mx and v not in needed and v not in partial_incomplete
                complete_partial = any(pv == v for pv, _, _ in parts) and v not in partial_incomplete
                if held and not complete_partial and not all(r in p["a5_rows"] for r in rows):
                    return False
                # a complete-but-unapplied partial keeps its rows buffered
                if held and complete_partial and not all(r in p["a5_rows"] for r in rows):
                    have = {int(x.split(":")[1]) for x in p["buf"] if x.split(":")[0] == str(v)}
                    if not all((int(r) - v * 1000 - 100) in have for r in rows if int(r) - v * 1000 >= 100):
                        return False
            # (3) every buffered row of a version the reload lists as partial has its sequence record
            pcov = {}
            for v, last, rs_ in parts:
                c = set()
                for a, b in rs_:
                    c |= set(range(a, b + 1))
                pcov[v] = c
            for x in p["buf"]:
                v, q = map(int, x.split(":"))
                if v in pcov and q not in pcov[v]:
                    return False
                if v not in pcov and not (mx != -1 and v <= mx and v not in needed):
                    return False      # buffered rows of a version the reload knows nothing about
            # (4) what the live node advertised as received at this instant is not lost by the reload
            if p.get("live") not in (None, "-", ""):
                ln, lmx, lparts = parse_bv(p["live"])
                for v, last, rs_ in lparts:
                    lc = set()
                    for a, b in rs_:
                        lc |= set(range(a, b + 1))
                    held_after = mx != -1 and v <= mx and v not in needed and v not in pcov
                    if not held_after and not lc <= pcov.get(v, set()):
                        return False
        # (5) the second remote actor only ever received partial chunks: what a restart rebuilds
        # for it is exactly what the live node holds, at every crash point
        for st in snaps:
            m6 = re.search(r" a6\[(.*?)\] live6\[(.*?)\]", st)
            if m6 and m6.group(2) not in ("-", "") and m6.group(1) != m6.group(2):
                return False
        rs = [s for s in steps if s.startswith("RESTART")]
        if case.strip().endswith(" 1"):
            if not rs or "failed" in rs[0] or "same_actor=1" not in rs[0]:
                return False
            m = re.search(r"own_rows=(\S*) a5_rows=(\S*)", rs[0])
            rows5 = [x for x in m.group(2).split(",") if x]
            if any(a not in m.group(1).split(",") for a in acked):
                return False
            if not all(str(9100 + q) in rows5 for q in range(4)):
                return False            # the fully buffered version 9 must have been applied after restart
        return None

    def nontrivial(self, case, model_obs):
        return " D " in case


SPEC = C06
