(* C10 — Load shedding and duplicate suppression never lose a change for good.
   Model: Model/Ingest.v (transcription of handlers.rs:handle_changes after the
   two fix: commits recorded in KNOWN_FINDINGS.txt). Proofs: Proofs/IngestProofs.v. *)
From Coq Require Import List ZArith Bool Lia.
From Corro Require Import Lib.Ivl Model.Ingest Proofs.IngestProofs.
Import ListNotations.
Open Scope Z_scope.

(* In every state reachable by ANY sequence of offers (changesets of any
   number of actors: complete, partial chunks, empty ranges, duplicates),
   batch spawns of any size, batch completions (successful or failed) and
   cache trims, for every queue length: every entry of the duplicate-suppression
   cache is backed by a changeset that is queued, in flight or was stored by a
   successful batch, sequence number by sequence number. *)
Theorem C10_seen_cache_is_backed : forall self maxq ops,
  Forall op_wf ops -> SeenInv (irun self maxq ops) /\ all_wf (irun self maxq ops).
Proof. exact irun_inv. Qed.
Check C10_seen_cache_is_backed : forall self maxq ops,
  Forall (fun op => match op with Offer c => wf_chg c | _ => True end) ops ->
  (NoDup (map fst (seen (irun self maxq ops))) /\
   forall a v ss, sget (a, v) (seen (irun self maxq ops)) = Some ss ->
     canonical ss /\
     (exists c, In c (live (irun self maxq ops)) /\ about a v c = true) /\
     (forall q, mem q ss -> exists c, In c (live (irun self maxq ops)) /\ carries a v q c = true)) /\
  all_wf (irun self maxq ops).
Print Assumptions C10_seen_cache_is_backed.

(* hence: a changeset suppressed as an already-seen duplicate is never lost --
   all of its content is carried by changesets that are queued, in flight or stored *)
Theorem C10_suppressed_is_not_lost : forall st c,
  SeenInv st -> wf_chg c -> seen_dup (seen st) c = true ->
  match g_seqs c with
  | Some (s, e) => forall q, s <= q <= e ->
      exists c', In c' (live st) /\ carries (g_actor c) (g_lo c) q c' = true
  | None => forall v, g_lo c <= v <= g_hi c ->
      exists c', In c' (live st) /\ about (g_actor c) v c' = true
  end.
Proof. exact suppressed_is_live. Qed.
Print Assumptions C10_suppressed_is_not_lost.

(* a changeset that was shed (or whose batch failed) is forgotten by the cache:
   offered again it is not treated as a duplicate *)
Theorem C10_shed_change_is_accepted_again : forall s d,
  wf_chg d -> NoDup (map fst s) ->
  (forall k ss, sget k s = Some ss -> canonical ss) ->
  seen_dup (forget s d) d = false.
Proof. exact forgotten_not_dup. Qed.
Print Assumptions C10_shed_change_is_accepted_again.

Theorem C10_accepted_is_queued : forall self maxq st c d,
  snd (offer self maxq st c) = Accepted d -> In c (queue (fst (offer self maxq st c))).
Proof. exact accepted_is_queued. Qed.
Print Assumptions C10_accepted_is_queued.

Theorem C10_successful_batch_stores : forall self maxq st i b,
  nth_error (inflight st) i = Some b ->
  forall c, In c b -> In c (stored (istep self maxq st (Done i true))).
Proof. exact done_ok_stores. Qed.
Print Assumptions C10_successful_batch_stores.

(* non-vacuity: two actors, queue of 2, an overflow that drops actor 5's change
   while actor 6's traffic arrives; the dropped change is accepted again *)
Example C10_nonvacuous :
  let c a v := mkChg a v v (Some (0, 0)) 0 in
  let ops := [Offer (c 5 1); Spawn 1; Offer (c 5 2); Offer (c 5 3); Offer (c 6 1)] in
  Forall op_wf ops /\
  queue (irun 0 2 ops) = [c 5 3; c 6 1] /\
  seen_dup (seen (irun 0 2 ops)) (c 5 2) = false /\
  seen_dup (seen (irun 0 2 ops)) (c 5 3) = true.
Proof. split; [repeat constructor; cbn; lia|vm_compute; repeat split; reflexivity]. Qed.
