(* Model of cr-sqlite's merge of one change record into a CRR table with one
   data column (what INSERT INTO crsql_changes does; the extension is a binary:
   this model is earned by differential testing, C01).  One row state per
   primary key: causal length, optional sentinel clock row, optional column
   clock + value. *)
From Coq Require Import List ZArith Bool.
Import ListNotations.
Open Scope Z_scope.

Record rec := mkRec {
  r_row : Z;
  r_sent : bool;         (* cid = '-1' (sentinel) or the data column *)
  r_val : Z;             (* value rank of the data column (sentinel: 0) *)
  r_colv : Z;
  r_cl : Z;
  r_site : Z;            (* rank of the site id in byte order *)
  r_dbv : Z;
  r_seq : Z }.

Record clk := mkClk { k_site : Z; k_dbv : Z; k_seq : Z }.

Record cell := mkCell { c_val : Z; c_colv : Z; c_clk : clk }.

Record rowst := mkRow {
  rw_cl : Z;                    (* causal length; 0 = never seen *)
  rw_sent : option clk;         (* sentinel clock row *)
  rw_col : option cell }.       (* data column clock + value *)

Definition db := list (Z * rowst).

Fixpoint dget (k : Z) (d : db) : option rowst :=
  match d with [] => None | (k', v) :: t => if k =? k' then Some v else dget k t end.

Fixpoint dset (k : Z) (v : rowst) (d : db) : db :=
  match d with
  | [] => [(k, v)]
  | (k', v') :: t => if k =? k' then (k, v) :: t
                     else if k <? k' then (k, v) :: (k', v') :: t
                     else (k', v') :: dset k v t
  end.

Definition rclk (r : rec) : clk := mkClk (r_site r) (r_dbv r) (r_seq r).

Definition local_cl (o : option rowst) : Z := match o with Some s => rw_cl s | None => 0 end.

(* does the incoming column value win against the local column clock? *)
Definition cid_wins (l : option cell) (r : rec) : bool :=
  match l with
  | None => true
  | Some c =>
    if c_colv c <? r_colv r then true
    else if r_colv r <? c_colv c then false
    else if c_val c <? r_val r then true
    else if r_val r <? c_val c then false
    else k_site (c_clk c) <? r_site r          (* merge-equal-values: the bigger site id takes the clock *)
  end.

Definition merge (d : db) (r : rec) : db :=
  let o := dget (r_row r) d in
  let lcl := local_cl o in
  if r_cl r <? lcl then d
  else if Z.even (r_cl r) then
    (* a delete *)
    if r_cl r =? lcl then d
    else dset (r_row r) (mkRow (r_cl r) (Some (rclk r)) None) d
  else if r_sent r then
    (* row (re)creation marker: the causal length jumps; a column clock the row
       still has is kept with its value but its column version is zeroed *)
    if r_cl r =? lcl then d
    else dset (r_row r)
              (mkRow (r_cl r) (Some (rclk r))
                     (match o with
                      | Some s => match rw_col s with
                                  | Some c => Some (mkCell (c_val c) 0 (c_clk c))
                                  | None => None end
                      | None => None end)) d
  else
    if lcl <? r_cl r then
      (* resurrect / first sight: the row's causal length jumps, older column clocks are void *)
      dset (r_row r)
           (mkRow (r_cl r) (if r_cl r =? 1 then None else Some (rclk r))
                  (Some (mkCell (r_val r) (r_colv r) (rclk r)))) d
    else
      match o with
      | None => d
      | Some s =>
        if cid_wins (rw_col s) r
        then dset (r_row r) (mkRow (rw_cl s) (rw_sent s) (Some (mkCell (r_val r) (r_colv r) (rclk r)))) d
        else d
      end.

Definition merge_all (d : db) (rs : list rec) : db := fold_left merge rs d.

(* what the replicated table shows: row id -> value rank (None = column default) for live rows *)
Definition table (d : db) : list (Z * option Z) :=
  flat_map (fun kv => if Z.odd (rw_cl (snd kv))
                      then [(fst kv, match rw_col (snd kv) with Some c => Some (c_val c) | None => None end)]
                      else []) d.

(* per-cell CRDT versions: (row, causal length, column version) *)
Definition versions (d : db) : list (Z * Z * option Z) :=
  map (fun kv => (fst kv, rw_cl (snd kv), match rw_col (snd kv) with Some c => Some (c_colv c) | None => None end)) d.
