(* C19 — Backup and restore reproduce the replicated data with correct authorship.
   Models: Model/Backup.v (site-id ordinal rewriting of `corrosion backup` / `restore`),
   Model/RestoreLock.v (the byte-range lock table under sqlite3_restore::lock_all).
   Proofs: Proofs/BackupProofs.v, Proofs/RestoreLockProofs.v.
   PARTIAL for the second half: fcntl semantics, the shm mapping, std::io::copy and what a
   reader connection does after the file changed under it are runtime behaviour; the model has
   the lock table only, the rest is exercised by reader threads against the real command. *)
From Coq Require Import List ZArith Bool Lia.
From Corro Require Import Model.Backup Model.RestoreLock Gen.RestoreLocks Proofs.BackupProofs Proofs.RestoreLockProofs.
Import ListNotations.
Open Scope Z_scope.

(* backup: every clock row keeps its author (rows of "self" move to a fresh ordinal that maps to
   the source's site id), the backup has no "self" row, node-local tables are empty *)
Theorem C19_backup_preserves_authors : forall seq d d',
  forallb (fun p => 0 <=? fst p) (b_sites d) = true ->
  backup seq d = Some d' ->
  b_clock d' = rewrite 0 (fresh_ord seq (b_sites d)) (b_clock d) /\
  (forall r, In r (b_clock d) -> author d r <> None ->
     author d' (if snd r =? 0 then (fst r, fresh_ord seq (b_sites d)) else r) = author d r) /\
  site_of 0 (b_sites d') = None /\ b_members d' = [] /\ b_subs d' = [].
Proof. exact backup_preserves_authors. Qed.
Print Assumptions C19_backup_preserves_authors.

(* restore keeping the actor id x, onto a snapshot without a "self" row: every clock row keeps
   its author, the rows of x become "self" *)
Theorem C19_restore_preserves_authors : forall x snap,
  site_of 0 (b_sites snap) = None ->
  nodupz (map fst (b_sites snap)) = true -> nodupz (map snd (b_sites snap)) = true ->
  let d' := restore (Some x) snap in
  site_of 0 (b_sites d') = Some x /\
  forall r, In r (b_clock snap) -> author snap r <> None ->
    author d' (match ord_of x (b_sites snap) with
               | Some k => if snd r =? k then (fst r, 0) else r
               | None => r end) = author snap r.
Proof. exact restore_preserves_authors. Qed.
Print Assumptions C19_restore_preserves_authors.

(* the precondition is necessary: a snapshot that still has a "self" row is re-attributed *)
Check restore_with_self_row_refuted.

(* restore without keeping an id changes nothing in the snapshot (cr-sqlite then creates a fresh "self") *)
Theorem C19_restore_plain_is_identity : forall snap, restore None snap = snap.
Proof. reflexivity. Qed.
Print Assumptions C19_restore_plain_is_identity.

(* the lock table: under every interleaving of lock/unlock requests of any number of processes,
   while one process holds a write lock on a byte no other process holds any lock on it *)
Theorem C19_writer_excludes_everyone : forall ops b w o k,
  let t := fold_left lock_step ops [] in
  In (b, w, LWrite) t -> In (b, o, k) t -> o = w.
Proof. exact writer_excludes_everyone. Qed.
Print Assumptions C19_writer_excludes_everyone.

(* lock_all (its lock() calls are GENERATED from sqlite3_restore.rs, Gen/RestoreLocks.v): when it
   succeeds on a WAL destination, no other process held any lock on SQLite's WAL lock bytes --
   WRITE 120, CKPT 121, RECOVER 122 and the five read marks 123..127, one of which every
   reader inside a read transaction holds -- and on a rollback-journal destination nobody held
   PENDING, RESERVED or SHARED.  Together with C19_writer_excludes_everyone: from then until
   the locks are dropped no reader is inside, or can start, a read transaction. *)
Theorem C19_wal_lock_all_excludes_every_reader : forall t w t' b o k,
  run_locks t w lock_all_wal = Some t' -> 120 <= b <= 127 -> In (b, o, k) t -> o = w.
Proof.
  intros t w t' b o k Hrun Hb Hin. eapply run_locks_excludes; [exact Hrun| |exact Hin].
  assert (H : b = 120 \/ b = 121 \/ b = 122 \/ b = 123 \/ b = 124 \/ b = 125 \/ b = 126 \/ b = 127) by lia.
  destruct H as [->|[->|[->|[->|[->|[->|[->| ->]]]]]]]; vm_compute; reflexivity.
Qed.
Print Assumptions C19_wal_lock_all_excludes_every_reader.

Theorem C19_rollback_lock_all_excludes_every_reader : forall t w t' b o k,
  run_locks t w (lock_all_probe ++ lock_all_rollback) = Some t' ->
  b = 1073741824 \/ b = 1073741825 \/ b = 1073741826 -> In (b, o, k) t -> o = w.
Proof.
  intros t w t' b o k Hrun Hb Hin. eapply run_locks_excludes; [exact Hrun| |exact Hin].
  destruct Hb as [->|[->| ->]]; vm_compute; reflexivity.
Qed.
Print Assumptions C19_rollback_lock_all_excludes_every_reader.

(* non-vacuity: with a reader on read mark 4 lock_all fails; with nobody inside it succeeds *)
Example C19_lock_all_nonvacuous :
  run_locks [(127, 7, LRead)] 1 lock_all_wal = None /\
  (exists t', run_locks [] 1 lock_all_wal = Some t') /\
  run_locks [(1073741826, 7, LRead)] 1 (lock_all_probe ++ lock_all_rollback) = None.
Proof. vm_compute. split; [reflexivity|split; [eexists; reflexivity|reflexivity]]. Qed.

Example C19_nonvacuous :
  let src := mkB [(0, 70); (1, 80); (2, 90)] [(100, 0); (101, 1); (102, 0); (103, 2)] [5] [6] in
  (* backup, then restore onto a node whose id is 80, keeping it *)
  match backup 2 src with
  | Some bak =>
      b_sites bak = [(1, 80); (2, 90); (3, 70)] /\ b_clock bak = [(100, 3); (101, 1); (102, 3); (103, 2)] /\
      let dst := restore (Some 80) bak in
      b_sites dst = [(0, 80); (2, 90); (3, 70)] /\ b_clock dst = [(100, 3); (101, 0); (102, 3); (103, 2)] /\
      map (author dst) (b_clock dst) = map (author src) (b_clock src)
  | None => False
  end /\
  (* a reader holding SHARED keeps the restorer out; once it let go, the restorer's write lock keeps readers out *)
  let shared := 1073741826 in
  try_lock [(shared, 2, LRead)] shared 1 LWrite = None /\
  try_lock (lock_step [(shared, 2, LRead)] (OUnlock shared 2)) shared 1 LWrite = Some [(shared, 1, LWrite)] /\
  try_lock [(shared, 1, LWrite)] shared 2 LRead = None.
Proof. vm_compute. repeat split. Qed.
