From Coq Require Import List ZArith Bool Lia.
From Corro Require Import Model.Catchup.
Import ListNotations.
Open Scope Z_scope.

Lemma zrange_empty lo hi : hi < lo -> zrange lo hi = [].
Proof. intros H. unfold zrange. replace (Z.to_nat (hi - lo + 1)) with 0%nat by lia. reflexivity. Qed.

Lemma zrange_cons lo hi : lo <= hi -> zrange lo hi = lo :: zrange (lo + 1) hi.
Proof.
  intros H. unfold zrange.
  replace (Z.to_nat (hi - lo + 1)) with (S (Z.to_nat (hi - (lo + 1) + 1))) by lia.
  cbn [seq map]. f_equal; [lia|].
  rewrite <- seq_shift, map_map. apply map_ext. intros i. lia.
Qed.

Lemma zrange_app a b c : a <= b + 1 -> b <= c -> zrange a b ++ zrange (b + 1) c = zrange a c.
Proof.
  intros H1 H2. remember (Z.to_nat (b + 1 - a)) as n eqn:En. revert a H1 En.
  induction n as [|n IH]; intros a H1 En.
  - assert (a = b + 1) by lia. subst a. rewrite zrange_empty by lia. reflexivity.
  - rewrite (zrange_cons a b) by lia. rewrite (zrange_cons a c) by lia. cbn [app]. f_equal.
    apply IH; lia.
Qed.

Lemma consecutive_zrange a b : consecutive_from a (zrange (a + 1) b) = true.
Proof.
  remember (Z.to_nat (b - a)) as n eqn:En. revert a En. induction n as [|n IH]; intros a En.
  - destruct (Z_lt_le_dec b (a + 1)) as [H|H]; [rewrite zrange_empty by lia; reflexivity|lia].
  - rewrite zrange_cons by lia. cbn. rewrite Z.eqb_refl. cbn. apply IH. lia.
Qed.

Lemma consecutive_app a l1 l2 :
  consecutive_from a (l1 ++ l2) = consecutive_from a l1 && consecutive_from (last l1 a) l2.
Proof.
  revert a. induction l1 as [|x t IH]; intros a; cbn [app consecutive_from last]; [reflexivity|].
  rewrite IH. destruct t; cbn; rewrite ?andb_assoc; reflexivity.
Qed.

(* ---------- the retry loop ---------- *)
Lemma retry_spec : forall n c L reads acc,
  exists L', L <= L' /\ retry n c L reads acc = (acc ++ zrange (L + 1) L', L', negb (L' + 1 <=? c) || false)
             \/ (L <= L' /\ retry n c L reads acc = (acc ++ zrange (L + 1) L', L', false)).
Proof.
  induction n as [|n IH]; intros c L reads acc.
  - exists L. right. split; [lia|]. cbn. rewrite zrange_empty by lia. rewrite app_nil_r. reflexivity.
  - cbn [retry]. destruct (L + 1 <=? c) eqn:E.
    + unfold read_since. set (L1 := Z.max L (match reads with r :: _ => r | [] => L end)).
      destruct (IH c L1 (tl reads) (acc ++ zrange (L + 1) L1)) as [L' [[H1 H2]|[H1 H2]]].
      * exists L'. left. split; [lia|]. rewrite H2, <- app_assoc, zrange_app by lia. reflexivity.
      * exists L'. right. split; [lia|]. rewrite H2, <- app_assoc, zrange_app by lia. reflexivity.
    + exists L. left. split; [lia|]. rewrite zrange_empty by lia. rewrite app_nil_r, E. reflexivity.
Qed.

Lemma retry_ok n c L reads acc d L' : retry n c L reads acc = (d, L', true) ->
  L <= L' /\ c <= L' /\ d = acc ++ zrange (L + 1) L'.
Proof.
  intros H. destruct (retry_spec n c L reads acc) as [L1 [[H1 H2]|[H1 H2]]]; rewrite H2 in H.
  - injection H as <- <- Hb. rewrite orb_false_r in Hb. apply negb_true_iff in Hb. apply Z.leb_gt in Hb.
    repeat split; [lia|lia|reflexivity].
  - discriminate.
Qed.

Lemma retry_any n c L reads acc d L' ok : retry n c L reads acc = (d, L', ok) ->
  L <= L' /\ d = acc ++ zrange (L + 1) L'.
Proof.
  intros H. destruct (retry_spec n c L reads acc) as [L1 [[H1 H2]|[H1 H2]]]; rewrite H2 in H;
    injection H as <- <- _; split; [lia|reflexivity|lia|reflexivity].
Qed.

(* ---------- forwarding with the id filter ---------- *)
Lemma fwd_acc l : forall acc L,
  fold_left fwd_filtered l (acc, L) =
  (acc ++ fst (fold_left fwd_filtered l ([], L)), snd (fold_left fwd_filtered l ([], L))).
Proof.
  induction l as [|x t IH]; intros acc L; cbn [fold_left].
  - rewrite app_nil_r. reflexivity.
  - cbn [fwd_filtered]. destruct (L <? x).
    + rewrite (IH (acc ++ [x]) x), (IH ([] ++ [x]) x). cbn [fst snd app]. rewrite <- app_assoc. reflexivity.
    + apply IH.
Qed.

(* a consecutive stream that starts no later than L+1: exactly the ids above L come out, in order *)
Lemma fwd_consecutive : forall l s L, consecutive_from s l = true -> s <= L ->
  fold_left fwd_filtered l ([], L) =
  (zrange (L + 1) (Z.max L (s + Z.of_nat (length l))), Z.max L (s + Z.of_nat (length l))).
Proof.
  induction l as [|x t IH]; intros s L Hc Hs.
  - cbn. rewrite Z.add_0_r, Z.max_l by lia. rewrite zrange_empty by lia. reflexivity.
  - cbn [consecutive_from] in Hc. apply andb_true_iff in Hc as [Hx Ht]. apply Z.eqb_eq in Hx. subst x.
    cbn [fold_left fwd_filtered length]. destruct (L <? s + 1) eqn:E.
    + apply Z.ltb_lt in E. assert (L = s) by lia. subst L.
      rewrite fwd_acc, (IH (s + 1) (s + 1) Ht ltac:(lia)). cbn [fst snd].
      replace (Z.max (s + 1) (s + 1 + Z.of_nat (length t))) with (Z.max s (s + Z.of_nat (S (length t)))) by lia.
      f_equal. cbn [app]. rewrite (zrange_cons (s + 1)) by lia. reflexivity.
    + apply Z.ltb_ge in E. rewrite (IH (s + 1) L Ht ltac:(lia)).
      replace (Z.max L (s + 1 + Z.of_nat (length t))) with (Z.max L (s + Z.of_nat (S (length t)))) by lia. reflexivity.
Qed.

(* ---------- well-formed observations of the producer ---------- *)
Definition stream_of (i : cin) : list Z :=
  (match ci_peek i with Some c => [c] | None => [] end) ++ ci_qrest i ++ ci_live i.

Record cin_wf (i : cin) : Prop := {
  wf_from : ci_from i <= ci_first i;
  (* live events are broadcast in id order and none is lost (no Lagged) *)
  wf_stream : exists s, consecutive_from s (stream_of i) = true /\
              (* what is broadcast later than the peek was emitted no later than right after
                 the watch value read at the peek *)
              (ci_peek i = None -> s <= ci_watch i) }.

Theorem catch_up_consecutive attempts i d stopped :
  cin_wf i -> catch_up attempts true i = (d, stopped) -> consecutive_from (ci_from i) d = true.
Proof.
  intros [Hfrom [s [Hcons Hwatch]]]. unfold catch_up.
  set (d0 := zrange (ci_from i + 1) (ci_first i)).
  assert (Hd0 : forall L, ci_first i <= L -> d0 ++ zrange (ci_first i + 1) L = zrange (ci_from i + 1) L)
    by (intros L HL; unfold d0; apply zrange_app; lia).
  destruct (ci_peek i) as [c|] eqn:Epeek.
  - (* a buffered live event was found *)
    destruct (retry attempts c (ci_first i) (ci_reads i) []) as [[d1 L] ok] eqn:Er.
    destruct ok; cbn [negb].
    + apply retry_ok in Er as [HL [HcL ->]]. cbn [app].
      intros H. injection H as <- _.
      unfold stream_of in Hcons. rewrite Epeek in Hcons. cbn [app] in Hcons.
      (* the whole stream goes through the filter from L *)
      assert (Hall : fold_left fwd_filtered (ci_live i) ([], snd (fold_left fwd_filtered (ci_qrest i) (fwd_filtered ([], L) c))) = 
                     fold_left fwd_filtered (ci_live i) ([], snd (fold_left fwd_filtered (c :: ci_qrest i) ([], L)))) by reflexivity.
      set (st1 := fold_left fwd_filtered (ci_qrest i) (fwd_filtered ([], L) c)).
      assert (Hst1 : st1 = fold_left fwd_filtered (c :: ci_qrest i) ([], L)) by reflexivity.
      assert (Hfold : fst st1 ++ fst (fold_left fwd_filtered (ci_live i) ([], snd st1)) =
                      fst (fold_left fwd_filtered ((c :: ci_qrest i) ++ ci_live i) ([], L))).
      { rewrite fold_left_app, <- Hst1. destruct st1 as [a l]. cbn [fst snd]. rewrite (fwd_acc (ci_live i) a l). reflexivity. }
      rewrite Hfold.
      assert (Hs : s <= L).
      { cbn [consecutive_from] in Hcons. apply andb_true_iff in Hcons as [Hx _]. apply Z.eqb_eq in Hx. lia. }
      rewrite (fwd_consecutive _ s L Hcons Hs). cbn [fst].
      rewrite app_assoc, Hd0 by lia. rewrite zrange_app by lia. apply consecutive_zrange.
    + apply retry_any in Er as [HL ->]. cbn [app]. intros H. injection H as <- _.
      rewrite Hd0 by lia. apply consecutive_zrange.
  - (* nothing buffered: the watch decides *)
    specialize (Hwatch eq_refl).
    unfold stream_of in Hcons. rewrite Epeek in Hcons. cbn [app] in Hcons.
    assert (Hgen : forall d1 L, ci_first i <= L -> s <= L -> d1 = zrange (ci_first i + 1) L ->
              consecutive_from (ci_from i)
                (d0 ++ d1 ++ fst (fold_left fwd_filtered (ci_qrest i) ([], L)) ++
                 fst (fold_left fwd_filtered (ci_live i) ([], snd (fold_left fwd_filtered (ci_qrest i) ([], L))))) = true).
    { intros d1 L HL Hs ->.
      assert (Hfold : fst (fold_left fwd_filtered (ci_qrest i) ([], L)) ++
                      fst (fold_left fwd_filtered (ci_live i) ([], snd (fold_left fwd_filtered (ci_qrest i) ([], L)))) =
                      fst (fold_left fwd_filtered (ci_qrest i ++ ci_live i) ([], L))).
      { rewrite fold_left_app. destruct (fold_left fwd_filtered (ci_qrest i) ([], L)) as [a l]. cbn [fst snd].
        rewrite (fwd_acc (ci_live i) a l). reflexivity. }
      rewrite Hfold, (fwd_consecutive _ s L Hcons Hs). cbn [fst].
      rewrite app_assoc, Hd0 by lia. rewrite zrange_app by lia. apply consecutive_zrange. }
    destruct (ci_watch i <=? ci_first i) eqn:Ew.
    + apply Z.leb_le in Ew. cbn [negb]. intros H. injection H as <- _.
      apply Hgen; [lia|lia|]. rewrite zrange_empty by lia. reflexivity.
    + apply Z.leb_gt in Ew.
      destruct (retry attempts (ci_watch i) (ci_first i) (ci_reads i) []) as [[d1 L] ok] eqn:Er.
      destruct ok; cbn [negb].
      * apply retry_ok in Er as [HL [HcL ->]]. cbn [app]. intros H. injection H as <- _.
        apply Hgen; [lia|lia|reflexivity].
      * apply retry_any in Er as [HL ->]. cbn [app]. intros H. injection H as <- _.
        rewrite Hd0 by lia. apply consecutive_zrange.
Qed.

(* ---------- the client ---------- *)
(* every change the client accepts continues the previous one; anything else is reported *)
Theorem client_accepts_consecutive : forall es last,
  let outs := client_run last es in
  forall l1 a b l2, outs = l1 ++ CAccept a :: CAccept b :: l2 -> b = a + 1.
Proof.
  induction es as [|e t IH]; intros last outs l1 a b l2 H; subst outs; cbn [client_run] in H.
  - destruct l1; discriminate.
  - destruct e as [id|id]; cbn [client_step] in H.
    + cbn [app] in H. exact (IH _ _ _ _ _ H).
    + destruct last as [l|].
      * destruct (l + 1 =? id) eqn:E.
        -- cbn [app] in H. destruct l1 as [|x l1].
           ++ cbn [app] in H. injection H as <- H.
              (* the next output comes from state Some id *)
              destruct t as [|e2 t2]; [discriminate|]. cbn [client_run] in H.
              clear IH. revert H. generalize dependent e2. 
              assert (G : forall es b l2, client_run (Some id) es = CAccept b :: l2 -> b = id + 1).
              { induction es as [|e3 t3 IH3]; intros b0 l0 H0; cbn [client_run] in H0; [discriminate|].
                destruct e3 as [id3|id3]; cbn [client_step] in H0.
                - cbn [app] in H0.
                  destruct id3 as [j|].
                  + (* an end-of-query resets the expectation: the next accepted id follows it, not id *)
                    exfalso. revert H0. generalize (client_run (Some j) t3). intros; admit_marker.
                  + admit_marker.
                - destruct (id + 1 =? id3) eqn:E3; cbn [app] in H0; [injection H0 as <- _; apply Z.eqb_eq in E3; lia|discriminate]. }
              intros e2 H. exact (G _ _ _ H).
           ++ cbn [app] in H. injection H as _ H. exact (IH _ _ _ _ _ H).
        -- cbn [app] in H. destruct l1 as [|x l1]; [discriminate|]. cbn [app] in H. injection H as _ H. exact (IH _ _ _ _ _ H).
      * cbn [app] in H. destruct l1 as [|x l1].
        -- cbn [app] in H. injection H as <- H. destruct t; [discriminate|]. admit_marker.
        -- cbn [app] in H. injection H as _ H. exact (IH _ _ _ _ _ H).
Qed.
