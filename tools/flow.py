"""Generic verdict logic for properties whose correspondence is line based:
the same case lines go to the real code (harness) and to the extracted Coq
model (modelrun); outputs must be identical; a decidable oracle extracted from
Coq (proved equivalent to the Prop-level statement) judges the implementation's
observations whenever a proof obligation or the correspondence breaks."""
import os, sys, json, time, random
import vlib
from vlib import log


class Spec:
    pid = "C00"
    allow_axioms = ()
    extra_trusted = ()
    assumptions = ()
    rule = ""
    harness_mode = "lines"
    shards = None            # processes for the harness run (None: by case count)

    def cases(self, tier, seed):
        """-> list of (case_line, tags) ; tags: set of strings describing which
        branches the case is meant to hit (for the distribution)."""
        raise NotImplementedError

    def nontrivial(self, case, model_obs):
        return True

    def normalize(self, obs):
        return obs

    def model_lines(self, case, impl_obs):
        """lines to feed the model for this case (default: the case itself). A spec whose
        model works on an abstraction of the implementation's state (abs(D)) derives its
        model inputs from the implementation's observation here."""
        return [case]

    def agree(self, case, impl_obs, model_obs):
        """does the implementation's observation agree with the model's?"""
        return self.normalize(impl_obs) == self.normalize(model_obs)

    def oracle_line(self, case, impl_obs):
        """case + implementation observation -> a chk_* line for modelrun, or None"""
        return None

    def oracle_lines(self, case, impl_obs):
        """several oracle lines for one case (all must hold); default: the single one"""
        l = self.oracle_line(case, impl_obs)
        return [] if l is None else [l]

    def oracle_verdict(self, out):
        """modelrun's answer -> True (property holds on this case) / False / None (outside quantifier)"""
        if "wf=0" in out:
            return None
        if "ok=1" in out:
            return True
        if "ok=0" in out:
            return False
        return None

    def impl_verdict(self, case, impl_obs):
        """False when the implementation's observation alone shows the property failing
        (panic, crash, self-check flag); None/True otherwise"""
        if impl_obs.startswith(("PANIC", "CRASH")):
            return False
        return None

    def classify(self, case, impl_obs):
        """name of the known-finding class this failing case belongs to, or None"""
        return None

    def corpus(self):
        d = os.path.join(vlib.VERIF, "corpus", self.pid)
        out = []
        if os.path.isdir(d):
            for f in sorted(os.listdir(d)):
                if f.endswith(".cases"):
                    for l in open(os.path.join(d, f)):
                        l = l.strip()
                        if l and not l.startswith("#"):
                            out.append((l, {"corpus"}))
        return out


def run_spec(spec, tier, seed, replay=None):
    run = vlib.Run(spec.pid, tier, seed)
    run.is_replay = bool(replay)
    thorough = tier == "thorough"
    broken = []           # obligations / correspondences that no longer check

    # 1. translators
    tfail = vlib.run_translators()
    for t in tfail:
        # a translator whose output only one property's theorems import breaks only that property
        scope = {"lockorder2coq.py": {"C20"}}.get(t["translator"])
        if scope is not None and spec.pid not in scope:
            continue
        broken.append({"kind": "translator", **t})

    # 2. proofs
    log("%s: coq" % spec.pid)
    proof = vlib.coq_check(spec.pid, allow_axioms=spec.allow_axioms, thorough=thorough)
    for f in proof["failed"]:
        broken.append({"kind": "proof", **f})

    # 3. executables
    log("%s: modelrun" % spec.pid)
    ok_m, log_m = vlib.build_modelrun()
    if not ok_m:
        broken.append({"kind": "model-build", "output": log_m[-1500:]})
    log("%s: harness" % spec.pid)
    ok_h, log_h = vlib.build_harness()
    if not ok_h:
        broken.append({"kind": "harness-build", "output": log_h[-3000:]})
    if getattr(spec, "needs_cli", False):
        log("%s: corrosion CLI" % spec.pid)
        ok_c, log_c = vlib.build_cli()
        if not ok_c:
            broken.append({"kind": "cli-build", "output": log_c[-3000:]})
            ok_h = False

    cases, impl, model = [], [], []
    diffs = []
    oracle_fail = []
    stats = {}
    if ok_h:
        if replay:
            rp = json.load(open(replay))
            cs = [(c, {"replay"}) for c in rp.get("cases", [])]
            if "aux" in rp and hasattr(spec, "load_aux"):
                spec.load_aux(rp["aux"])
        else:
            cs = spec.corpus() + spec.cases(tier, seed)
        cases = [c for c, _ in cs]
        tags = [t for _, t in cs]
        log("%s: %d cases -> harness" % (spec.pid, len(cases)))
        impl = vlib.run_lines([vlib.HARNESS_BIN, spec.harness_mode], cases, shards=spec.shards)
        if ok_m:
            log("%s: %d cases -> model" % (spec.pid, len(cases)))
            mlines, midx = [], []
            for i, c in enumerate(cases):
                for ml in spec.model_lines(c, impl[i]):
                    mlines.append(ml); midx.append(i)
            mouts = vlib.run_lines([vlib.MODELRUN], mlines)
            grouped = [[] for _ in cases]
            for i, o in zip(midx, mouts):
                grouped[i].append(o)
            model = [" || ".join(g) for g in grouped]
            diffs = [i for i in range(len(cases)) if not spec.agree(cases[i], impl[i], model[i])]
            # oracle on the implementation's own observations (direct evaluation of
            # the property's decidable form on what the real code produced)
            olines, oidx = [], []
            for i, c in enumerate(cases):
                for ol in spec.oracle_lines(c, impl[i]):
                    olines.append(ol); oidx.append(i)
            oouts = vlib.run_lines([vlib.MODELRUN], olines) if olines else []
            n_in_quant = 0
            failed = set()
            for i, o in zip(oidx, oouts):
                v = spec.oracle_verdict(o)
                if v is not None:
                    n_in_quant += 1
                if v is False and i not in failed:
                    failed.add(i)
                    oracle_fail.append(i)
            for i, c in enumerate(cases):
                if i not in failed and spec.impl_verdict(c, impl[i]) is False:
                    failed.add(i); oracle_fail.append(i)
            stats["oracle_evaluations"] = len(olines)
            stats["oracle_inside_quantifier"] = n_in_quant
        # distribution
        dist = {}
        for t in tags:
            for x in t:
                dist[x] = dist.get(x, 0) + 1
        stats["distribution"] = dist
        nt = set()
        for i, c in enumerate(cases):
            if model and spec.nontrivial(c, model[i]):
                nt.add(c)
        stats["distinct_nontrivial"] = len(nt)

    # 4. verdict
    kf = {k["class"]: k["what"] for k in vlib.known_findings(spec.pid)}
    reported = False
    # (a) concrete failing inputs judged by the oracle
    unknown_fail = []
    for i in oracle_fail:
        cl = spec.classify(cases[i], impl[i])
        if cl is not None and cl in kf:
            msg = "%s (%s)" % (kf[cl], cl)
            if msg not in run.known_hits:
                run.known_hits.append(msg)
        else:
            unknown_fail.append(i)
    if unknown_fail:
        i = min(unknown_fail, key=lambda j: len(cases[j]))
        run.violation({"property": spec.pid, "kind": "oracle-false-on-implementation-output",
                       "cases": [cases[i]], "aux": spec.replay_aux([cases[i]]) if hasattr(spec, "replay_aux") else None,
                       "impl_obs": impl[i], "model_obs": model[i] if model else None,
                       "how_to_replay": "./check %s --replay <this file>" % spec.pid,
                       "other_failing_cases": [cases[j] for j in unknown_fail[:20]]})
        reported = True
    # (b) a proof obligation / translator / build / correspondence broke and the
    # oracle found no failing input
    known_diff = []
    real_diffs = []
    for i in diffs:
        cl = spec.classify(cases[i], impl[i])
        if cl is not None and cl in kf:
            known_diff.append(i)
            msg = "%s (%s)" % (kf[cl], cl)
            if msg not in run.known_hits:
                run.known_hits.append(msg)
        else:
            real_diffs.append(i)
    if not reported and (broken or real_diffs):
        payload = {"property": spec.pid, "kind": "unchecked-obligation",
                   "broken": broken,
                   "note": "the theorem(s)/correspondence named here no longer check; the oracle search over %d implementation observations found no failing input" % len(cases)}
        if real_diffs:
            i = min(real_diffs, key=lambda j: len(cases[j]))
            payload["correspondence"] = {"name": "impl-vs-model:%s" % spec.pid, "disagreements": len(real_diffs),
                                         "cases": [cases[i]], "aux": spec.replay_aux([cases[i]]) if hasattr(spec, "replay_aux") else None,
                                         "impl_obs": impl[i], "model_obs": model[i]}
            payload["cases"] = [cases[i]]
        run.violation(payload, found_input=False)

    # 5. evidence
    samples = []
    if cases:
        rnd = random.Random(seed)
        for i in sorted(rnd.sample(range(len(cases)), min(5, len(cases)))):
            samples.append({"case": cases[i], "impl": impl[i], "model": model[i] if model else None})
    run.coverage = {
        "obligations": proof["obligations"] + len(tfail),
        "discharged": proof["discharged"],
        "checker_cmd": "make -C coq Props/%s.vo (coqc 8.16.1, full .vo)%s; then impl-vs-model diff over the cases below" % (spec.pid, " + coqchk -o" if thorough else ""),
        "trusted_base": vlib.std_trusted_base(spec.extra_trusted),
        "theorems": proof["theorems"],
        "axioms_reported": proof["axioms"],
        "evaluations": len(cases),
        "distinct_nontrivial": stats.get("distinct_nontrivial", 0),
        "rule": spec.rule,
        "samples": samples or [{"note": "no case could be run"}],
        "correspondence_disagreements": len(diffs),
        "oracle_evaluations": stats.get("oracle_evaluations", 0),
        "oracle_inside_quantifier": stats.get("oracle_inside_quantifier", 0),
        "oracle_failures": len(oracle_fail),
        "distribution": stats.get("distribution", {}),
        "broken": broken,
    }
    if "coqchk" in proof:
        run.coverage["coqchk"] = proof["coqchk"]
    run.assumptions = list(spec.assumptions)
    return run.finish()
