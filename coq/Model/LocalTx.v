(* Model of a local write request, crates/klukai-agent/src/api/public/mod.rs:
   make_broadcastable_changes + klukai-types/src/change.rs:insert_local_changes +
   broadcast.rs:broadcast_changes.  The SQL engine is an oracle: a request is
   described by whether all its statements succeeded and by the change records
   (seq, estimated size) the transaction produced. *)
From Coq Require Import List ZArith Bool.
From Corro Require Import Lib.Ivl Model.Chunk Model.Book Gen.Consts.
Import ListNotations.
Open Scope Z_scope.

Record req := mkReq { r_ok : bool; r_recs : list (Z * Z) }.   (* (seq, size), seq = 0,1,2,... *)

Record lst := mkLst {
  l_bv : bv;                       (* own actor's bookkeeping *)
  l_rows : rows;                   (* its gap rows *)
  l_acked : list Z }.              (* acknowledged versions, newest first *)

Definition lst_init : lst := mkLst bv_empty [] [].

Record lout := mkLout {
  o_version : option Z;
  o_same : bool;                   (* database and bookkeeping unchanged *)
  o_chunks : list (Z * Z * Z) }.   (* broadcast changesets: (start, end, #changes) *)

Definition next_version (s : lst) : Z := max0 (maxv (l_bv s)) + 1.

Definition lstep (s : lst) (r : req) : lst * lout :=
  if negb (r_ok r) then (s, mkLout None true [])
  else match r_recs r with
       | [] => (s, mkLout None true [])
       | recs =>
         let v := next_version s in
         match insert_db (l_bv s) (l_rows s) [(v, v)] with
         | IdbErr => (s, mkLout None true [])
         | IdbOk b' rs' _ =>
           let last := fold_left (fun m r => Z.max m (fst r)) recs 0 in
           let cs := map (fun r => mkChg (fst r) (snd r) (fst r)) recs in
           let chunks := fst (run (repeat max_changes_byte_size (S (length cs))) (start_cursor cs 0 last)) in
           (mkLst b' rs' (v :: l_acked s),
            mkLout (Some v) false (map (fun ch => (fst (snd ch), snd (snd ch), Z.of_nat (length (fst ch)))) chunks))
         end
       end.

Fixpoint lruns (s : lst) (rs : list req) : list (lst * lout) :=
  match rs with
  | [] => []
  | r :: t => let x := lstep s r in x :: lruns (fst x) t
  end.

Definition lrun (rs : list req) : lst := fold_left (fun s r => fst (lstep s r)) rs lst_init.
