//! C11: real subscriptions (SubsManager / Matcher) over a real agent, fed by local
//! transactions (api_v1_transactions -> broadcast_changes -> match_changes) and by
//! changes authored on a second real agent and delivered through
//! process_multiple_changes in chosen batchings.  Batches of candidates are cut
//! by the harness (cfg(corro_verif) hook in the matcher loop), so the model can
//! be run on exactly the same batches.
use crate::{agentkit, util::Toks};
use klukai_agent::{
    agent::{process_multiple_changes, util::process_fully_buffered_changes},
    api::public::{api_v1_db_schema, api_v1_transactions, TimeoutParams},
};
use klukai_types::{
    agent::Bookie,
    api::{QueryEvent, Statement},
    base::CrsqlSeq,
    broadcast::{BroadcastInput, BroadcastV1, ChangeSource, ChangeV1, Changeset},
    pubsub::{normalize_sql, ChangeType, MatcherHandle},
    updates::verif_hooks as vh,
};
use std::sync::atomic::Ordering::SeqCst;
use std::time::{Duration, Instant};

pub const SCHEMA: &str = r#"
    CREATE TABLE IF NOT EXISTS t1 (id INTEGER NOT NULL PRIMARY KEY, a INTEGER, b INTEGER);
    CREATE TABLE IF NOT EXISTS t2 (id INTEGER NOT NULL PRIMARY KEY, r INTEGER, c INTEGER);
    CREATE TABLE IF NOT EXISTS t3 (x INTEGER NOT NULL, y INTEGER NOT NULL, d INTEGER, PRIMARY KEY (x, y));
    CREATE TABLE IF NOT EXISTS t4 (p INTEGER NOT NULL, q INTEGER NOT NULL, PRIMARY KEY (p, q));
"#;
/// t4 consists of its primary key only (used by C14; the C11 queries read t1..t3)
pub const TNAME: [&str; 4] = ["t1", "t2", "t3", "t4"];
pub const PKS: [&[&str]; 4] = [&["id"], &["id"], &["x", "y"], &["p", "q"]];
pub const VALS: [&[&str]; 4] = [&["a", "b"], &["r", "c"], &["d"], &[]];

fn colname(t: usize, c: usize) -> String {
    let n = PKS[t].len();
    if c < n { PKS[t][c].to_string() } else { VALS[t][c - n].to_string() }
}

fn v(tok: &str) -> String {
    if tok == "n" { "NULL".into() } else { tok.parse::<i64>().expect("int").to_string() }
}

/// prefix expression -> SQL; `tabs` maps FROM position to table index
fn expr(t: &mut Toks, tabs: &[usize]) -> String {
    match t.tok() {
        "c" => {
            let p = t.usize();
            let c = t.usize();
            format!("{}.{}", TNAME[tabs[p]], colname(tabs[p], c))
        }
        "k" => t.i64().to_string(),
        "n" => "NULL".into(),
        "+" => { let a = expr(t, tabs); let b = expr(t, tabs); format!("({a} + {b})") }
        "=" => { let a = expr(t, tabs); let b = expr(t, tabs); format!("({a} = {b})") }
        "<" => { let a = expr(t, tabs); let b = expr(t, tabs); format!("({a} < {b})") }
        "&" => { let a = expr(t, tabs); let b = expr(t, tabs); format!("({a} AND {b})") }
        "|" => { let a = expr(t, tabs); let b = expr(t, tabs); format!("({a} OR {b})") }
        "!" => { let a = expr(t, tabs); format!("(NOT {a})") }
        "z" => { let a = expr(t, tabs); format!("({a} IS NULL)") }
        x => panic!("bad expr token {x}"),
    }
}

pub struct Query { pub sql: String, pub tabs: Vec<usize> }

/// q <kind 0|1|2> <t0> [<t1> <on>] <where> <nproj> {expr}
pub fn query(t: &mut Toks) -> Query {
    assert_eq!(t.tok(), "q");
    let kind = t.usize();
    let t0 = t.usize();
    let (tabs, join) = if kind == 0 {
        (vec![t0], String::new())
    } else {
        let t1 = t.usize();
        let tabs = vec![t0, t1];
        let on = expr(t, &tabs);
        (tabs.clone(), format!(" {} {} ON {}", if kind == 1 { "JOIN" } else { "LEFT JOIN" }, TNAME[t1], on))
    };
    let wh = expr(t, &tabs);
    let np = t.usize();
    let proj: Vec<String> = (0..np).map(|_| expr(t, &tabs)).collect();
    Query { sql: format!("SELECT {} FROM {}{} WHERE {}", proj.join(", "), TNAME[t0], join, wh), tabs }
}

/// I t keys vals | U t keys colidx val | X t keys | K t keys newkeys
pub fn stmt(t: &mut Toks) -> Statement {
    let kind = t.tok();
    let ti = t.usize();
    let npk = PKS[ti].len();
    let keys: Vec<String> = (0..npk).map(|_| v(t.tok())).collect();
    let wh = PKS[ti].iter().zip(keys.iter()).map(|(c, k)| format!("{c} = {k}")).collect::<Vec<_>>().join(" AND ");
    let tn = TNAME[ti];
    Statement::Simple(match kind {
        "I" if VALS[ti].is_empty() => format!(
            "INSERT INTO {tn} ({}) VALUES ({}) ON CONFLICT ({}) DO NOTHING",
            PKS[ti].join(", "),
            keys.join(", "),
            PKS[ti].join(", ")
        ),
        "I" => {
            let vals: Vec<String> = (0..VALS[ti].len()).map(|_| v(t.tok())).collect();
            format!(
                "INSERT INTO {tn} ({}, {}) VALUES ({}, {}) ON CONFLICT ({}) DO UPDATE SET {}",
                PKS[ti].join(", "),
                VALS[ti].join(", "),
                keys.join(", "),
                vals.join(", "),
                PKS[ti].join(", "),
                VALS[ti].iter().map(|c| format!("{c} = excluded.{c}")).collect::<Vec<_>>().join(", ")
            )
        }
        "U" => {
            let ci = t.usize();
            let val = v(t.tok());
            format!("UPDATE {tn} SET {} = {val} WHERE {wh}", VALS[ti][ci])
        }
        "X" => format!("DELETE FROM {tn} WHERE {wh}"),
        "K" => {
            let nk: Vec<String> = (0..npk).map(|_| v(t.tok())).collect();
            format!(
                "UPDATE OR REPLACE {tn} SET {} WHERE {wh}",
                PKS[ti].iter().zip(nk.iter()).map(|(c, k)| format!("{c} = {k}")).collect::<Vec<_>>().join(", ")
            )
        }
        x => panic!("bad stmt {x}"),
    })
}

pub struct Node {
    pub kit: agentkit::Kit,
    pub bookie: Bookie,
    pub outbox: Vec<ChangeV1>,
}

pub async fn new_node() -> Node {
    let kit = agentkit::new_agent(|_| {}).await;
    let (status, _) = api_v1_db_schema(axum::Extension(kit.agent.clone()), axum::Json(vec![agentkit::SCHEMA.to_owned(), SCHEMA.to_owned()])).await;
    assert!(status.is_success(), "schema c11");
    let bookie = Bookie::new(Default::default());
    {
        let mut w = bookie.write::<&str, _>("verif", None).await;
        w.insert(kit.agent.actor_id(), kit.agent.booked().clone());
    }
    Node { kit, bookie, outbox: vec![] }
}

/// run a transaction and wait until its changes went through broadcast_changes
/// (which is where match_changes is called for local writes)
pub async fn local_tx(n: &mut Node, stmts: Vec<Statement>) -> bool {
    let (st, body) = api_v1_transactions(axum::Extension(n.kit.agent.clone()), axum::extract::Query(TimeoutParams { timeout: None }), axum::extract::Json(stmts)).await;
    if let Some(ver) = body.0.version {
        let deadline = Instant::now() + Duration::from_secs(20);
        let mut done = false;
        while !done && Instant::now() < deadline {
            match tokio::time::timeout(Duration::from_millis(200), n.kit.opts.rx_bcast.recv()).await {
                Ok(Some(BroadcastInput::AddBroadcast(BroadcastV1::Change(c)))) => {
                    if let Changeset::Full { version, seqs, last_seq, .. } = &c.changeset {
                        if version.0 == ver && seqs.end() == last_seq {
                            done = true;
                        }
                    }
                    n.outbox.push(c);
                }
                Ok(Some(_)) => {}
                Ok(None) => break,
                Err(_) => {}
            }
        }
    }
    st.is_success()
}

pub async fn apply_pending(n: &mut Node) {
    tokio::time::sleep(Duration::from_millis(5)).await;
    let mut todo = vec![];
    while let Ok(x) = n.kit.opts.rx_apply.try_recv() {
        todo.push(x);
    }
    for (a, ver) in todo {
        let _ = process_fully_buffered_changes(&n.kit.agent, &n.bookie, a, ver, Duration::from_secs(30)).await;
    }
}

fn split(c: &ChangeV1) -> Vec<ChangeV1> {
    if let Changeset::Full { version, changes, seqs, last_seq, ts } = &c.changeset {
        if changes.len() >= 2 {
            let mid = changes.len() / 2;
            let cut = changes[mid].seq;
            let a = ChangeV1 { actor_id: c.actor_id, changeset: Changeset::Full { version: *version, changes: changes[..mid].to_vec(), seqs: *seqs.start()..=CrsqlSeq(cut.0 - 1), last_seq: *last_seq, ts: *ts } };
            let b = ChangeV1 { actor_id: c.actor_id, changeset: Changeset::Full { version: *version, changes: changes[mid..].to_vec(), seqs: cut..=*seqs.end(), last_seq: *last_seq, ts: *ts } };
            return vec![a, b];
        }
    }
    vec![c.clone()]
}

/// deliver `pending` to node `to`.  modes: 0 one batch in order, 1 one batch reversed,
/// 2 one process_multiple_changes call per changeset in order, 3 per changeset reversed,
/// 4 every changeset split in two chunks delivered second-half-first, 5 each twice
pub async fn deliver(to: &mut Node, pending: Vec<ChangeV1>, mode: u64) {
    let lists: Vec<Vec<ChangeV1>> = match mode {
        1 => vec![pending.into_iter().rev().collect()],
        2 => pending.into_iter().map(|c| vec![c]).collect(),
        3 => pending.into_iter().rev().map(|c| vec![c]).collect(),
        4 => vec![pending.iter().flat_map(|c| split(c).into_iter().rev().collect::<Vec<_>>()).collect()],
        5 => vec![pending.iter().flat_map(|c| vec![c.clone(), c.clone()]).collect()],
        _ => vec![pending],
    };
    for list in lists {
        if list.is_empty() {
            continue;
        }
        let batch: Vec<_> = list.into_iter().map(|c| (c, ChangeSource::Broadcast, Instant::now())).collect();
        let _ = process_multiple_changes(to.kit.agent.clone(), to.bookie.clone(), batch, Duration::from_secs(30)).await;
        apply_pending(to).await;
    }
}

fn cell(v: &rusqlite::types::Value) -> String {
    match v {
        rusqlite::types::Value::Null => "n".into(),
        rusqlite::types::Value::Integer(i) => i.to_string(),
        rusqlite::types::Value::Real(f) => format!("r{f}"),
        rusqlite::types::Value::Text(s) => format!("t{s}"),
        rusqlite::types::Value::Blob(b) => format!("b{}", b.len()),
    }
}

pub async fn db_dump(n: &Node) -> String {
    db_dump_n(n, 3).await
}

pub async fn db_dump_n(n: &Node, ntables: usize) -> String {
    let conn = n.kit.agent.pool().read().await.unwrap();
    let mut parts = vec![];
    for ti in 0..ntables {
        let cols: Vec<&str> = PKS[ti].iter().chain(VALS[ti].iter()).copied().collect();
        let sql = format!("SELECT {} FROM {} ORDER BY {}", cols.join(", "), TNAME[ti], PKS[ti].join(", "));
        let mut st = conn.prepare(&sql).unwrap();
        let npk = PKS[ti].len();
        let rows: Vec<String> = st
            .query_map([], |r| {
                let all: Vec<String> = (0..cols.len()).map(|i| cell(&r.get::<_, rusqlite::types::Value>(i).unwrap())).collect();
                Ok(format!("{}:{}", all[..npk].join("."), all[npk..].join(",")))
            })
            .unwrap()
            .map(|x| x.unwrap())
            .collect();
        parts.push(rows.join(";"));
    }
    parts.join("|")
}

struct Sub {
    q: Query,
    handle: MatcherHandle,
    rx: tokio::sync::mpsc::Receiver<QueryEvent>,
    last_cid: u64,
    cid_ok: bool,
    client: Vec<(i64, String)>, // what a client that replays the stream holds: rowid -> cells
    rowkey: std::collections::HashMap<i64, String>,
}

fn sv(vs: &[klukai_types::api::SqliteValue]) -> String {
    vs.iter()
        .map(|x| match x {
            klukai_types::api::SqliteValue::Null => "n".to_string(),
            klukai_types::api::SqliteValue::Integer(i) => i.to_string(),
            klukai_types::api::SqliteValue::Real(f) => format!("r{}", f.0),
            klukai_types::api::SqliteValue::Text(s) => format!("t{s}"),
            klukai_types::api::SqliteValue::Blob(b) => format!("b{}", b.len()),
        })
        .collect::<Vec<_>>()
        .join(",")
}

/// (rowid, mkey, cells) of the subscription's `query` table
async fn matview(s: &Sub) -> Vec<(i64, String, String)> {
    let conn = s.handle.pool().get().await.unwrap();
    let mut st = conn.prepare("SELECT * FROM query ORDER BY __corro_rowid").unwrap();
    let names: Vec<String> = st.column_names().iter().map(|x| x.to_string()).collect();
    let npk: Vec<usize> = s.q.tabs.iter().map(|t| PKS[*t].len()).collect();
    let nkeys: usize = npk.iter().sum();
    assert!(names[1..=nkeys].iter().all(|n| n.starts_with("__corro_pk_")), "pk columns first: {names:?}");
    let rows = st
        .query_map([], |r| {
            let rid: i64 = r.get(0)?;
            let all: Vec<String> = (1..names.len()).map(|i| cell(&r.get::<_, rusqlite::types::Value>(i).unwrap())).collect();
            let mut mk = vec![];
            let mut off = 0;
            for n in npk.iter() {
                let ks = &all[off..off + n];
                mk.push(if ks.iter().all(|k| k == "n") { "-".to_string() } else { ks.join(".") });
                off += n;
            }
            Ok((rid, mk.join("/"), all[nkeys..].join(",")))
        })
        .unwrap()
        .map(|x| x.unwrap())
        .collect();
    rows
}

async fn user_query(n: &Node, sql: &str) -> Vec<String> {
    let conn = n.kit.agent.pool().read().await.unwrap();
    let mut st = conn.prepare(sql).unwrap();
    let nc = st.column_count();
    let mut rows: Vec<String> = st
        .query_map([], |r| Ok((0..nc).map(|i| cell(&r.get::<_, rusqlite::types::Value>(i).unwrap())).collect::<Vec<_>>().join(",")))
        .unwrap()
        .map(|x| x.unwrap())
        .collect();
    rows.sort();
    rows
}

/// drain the event stream of one subscription; returns the textual events of this batch
fn drain(s: &mut Sub) -> Vec<String> {
    let mut evs = vec![];
    while let Ok(e) = s.rx.try_recv() {
        match e {
            QueryEvent::Columns(_) => {}
            QueryEvent::Row(rid, cells) => {
                s.client.push((rid.0 as i64, sv(&cells)));
                evs.push(format!("R:{}:{}", rid.0, sv(&cells)));
            }
            QueryEvent::EndOfQuery { change_id, .. } => {
                s.last_cid = change_id.map(|c| c.0).unwrap_or(0);
                evs.push(format!("EOQ:{}", s.last_cid));
            }
            QueryEvent::Change(ty, rid, cells, cid) => {
                if cid.0 != s.last_cid + 1 {
                    s.cid_ok = false;
                }
                s.last_cid = cid.0;
                let c = sv(&cells);
                match ty {
                    ChangeType::Insert => s.client.push((rid.0 as i64, c.clone())),
                    ChangeType::Update => {
                        for x in s.client.iter_mut() {
                            if x.0 == rid.0 as i64 {
                                x.1 = c.clone();
                            }
                        }
                    }
                    ChangeType::Delete => s.client.retain(|x| x.0 != rid.0 as i64),
                }
                let k = match ty { ChangeType::Insert => "I", ChangeType::Update => "U", ChangeType::Delete => "D" };
                evs.push(format!("{k}:{}:{}:{}", rid.0, c, cid.0));
            }
            QueryEvent::Error(e) => evs.push(format!("ERR:{}", e.replace(' ', "_"))),
        }
    }
    evs
}

/// case: sub <nq> {query} <nops> { L k {stmt} | R k {stmt} | D mode | Q | F }
/// obs, per Q/F step and subscription:
///   db=<dump> ; then per sub  eq=<matview cells = user's query>  cid=<ids consecutive>
///   replay=<client replay = matview>  mv=<rowid:mkey:cells;...>  ev=<events>
pub fn sub(t: &mut Toks) -> String {
    let rt = tokio::runtime::Builder::new_multi_thread().worker_threads(4).enable_all().build().unwrap();
    let nq = t.usize();
    let queries: Vec<Query> = (0..nq).map(|_| query(t)).collect();
    let nops = t.usize();
    enum Op { L(Vec<Statement>), R(Vec<Statement>), D(u64), Q, F }
    let mut ops = vec![];
    for _ in 0..nops {
        ops.push(match t.tok() {
            "L" => { let k = t.usize(); Op::L((0..k).map(|_| stmt(t)).collect()) }
            "R" => { let k = t.usize(); Op::R((0..k).map(|_| stmt(t)).collect()) }
            "D" => Op::D(t.u64()),
            "Q" => Op::Q,
            "F" => Op::F,
            x => panic!("bad op {x}"),
        });
    }
    vh::MANUAL.store(true, SeqCst);
    rt.block_on(async move {
        let mut a = new_node().await;
        let mut b = new_node().await;
        let mut sent = 0usize;
        let mut subs: Vec<Sub> = vec![];
        let mut pending_q = Some(queries);
        let mut outs = vec![];
        for op in ops {
            match op {
                Op::L(stmts) => { local_tx(&mut a, stmts).await; }
                Op::R(stmts) => { local_tx(&mut b, stmts).await; }
                Op::D(mode) => {
                    let pending: Vec<ChangeV1> = b.outbox[sent..].to_vec();
                    sent = b.outbox.len();
                    deliver(&mut a, pending, mode).await;
                }
                Op::Q => {
                    let Some(qs) = pending_q.take() else { continue };
                    for q in qs {
                        let sql = normalize_sql(&q.sql).unwrap();
                        let res = a.kit.agent.subs_manager().get_or_insert(
                            &sql,
                            &a.kit.agent.config().db.subscriptions_path(),
                            &a.kit.agent.schema().read(),
                            a.kit.agent.pool(),
                            a.kit.tripwire.clone(),
                        );
                        let (handle, created) = match res {
                            Ok(x) => x,
                            Err(e) => return format!("SUBERR {} :: {}", e.to_string().replace(' ', "_"), q.sql.replace(' ', "_")),
                        };
                        let rx = created.expect("fresh subscription").evt_rx;
                        subs.push(Sub { q, handle, rx, last_cid: 0, cid_ok: true, client: vec![], rowkey: Default::default() });
                    }
                    // initial queries: wait for every end-of-query
                    let mut step = vec![format!("db={}", db_dump(&a).await)];
                    for s in subs.iter_mut() {
                        let mut evs = vec![];
                        let deadline = Instant::now() + Duration::from_secs(30);
                        loop {
                            evs.extend(drain(s));
                            if evs.iter().any(|e| e.starts_with("EOQ") || e.starts_with("ERR")) || Instant::now() > deadline {
                                break;
                            }
                            tokio::time::sleep(Duration::from_millis(3)).await;
                        }
                        step.push(report(&a, s, evs).await);
                    }
                    outs.push(step.join(" ; "));
                }
                Op::F => {
                    if subs.is_empty() {
                        continue;
                    }
                    let ids: Vec<uuid::Uuid> = { use klukai_types::updates::Handle; subs.iter().map(|s| s.handle.id()).collect() };
                    let ok = crate::util::flush_loops(&ids, 60).await;
                    let mut step = vec![format!("db={}", db_dump(&a).await)];
                    if !ok {
                        step.push("FLUSH-TIMEOUT".into());
                    }
                    for s in subs.iter_mut() {
                        let evs = drain(s);
                        step.push(report(&a, s, evs).await);
                    }
                    outs.push(step.join(" ; "));
                }
            }
        }
        vh::MANUAL.store(false, SeqCst);
        outs.join(" # ")
    })
}

async fn report(a: &Node, s: &mut Sub, evs: Vec<String>) -> String {
    let mv = matview(s).await;
    let mut mv_cells: Vec<String> = mv.iter().map(|r| r.2.clone()).collect();
    mv_cells.sort();
    let uq = user_query(a, &s.q.sql).await;
    let mut client: Vec<(i64, String)> = s.client.clone();
    client.sort();
    let mut mvc: Vec<(i64, String)> = mv.iter().map(|r| (r.0, r.2.clone())).collect();
    mvc.sort();
    // events with the matview key of their row (a deleted row's key is remembered from before)
    let now: std::collections::HashMap<i64, String> = mv.iter().map(|r| (r.0, r.1.clone())).collect();
    let evk: Vec<String> = evs
        .iter()
        .map(|e| {
            let parts: Vec<&str> = e.split(':').collect();
            if parts.len() >= 3 && ["I", "U", "D", "R"].contains(&parts[0]) {
                let rid: i64 = parts[1].parse().unwrap();
                let k = now.get(&rid).or_else(|| s.rowkey.get(&rid)).cloned().unwrap_or("?".into());
                format!("{}:{}:{}", parts[0], k, parts[2])
            } else {
                e.clone()
            }
        })
        .collect();
    for (rid, k) in now {
        s.rowkey.insert(rid, k);
    }
    format!(
        "eq={} cid={} replay={} mv={} ev={}",
        if mv_cells == uq { 1 } else { 0 },
        if s.cid_ok { 1 } else { 0 },
        if client == mvc { 1 } else { 0 },
        mv.iter().map(|r| format!("{}:{}", r.1, r.2)).collect::<Vec<_>>().join(";"),
        evk.join(";")
    )
}
