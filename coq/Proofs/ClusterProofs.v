(* Cluster level (C01): in every reachable state of Model/Cluster.v a node that knows every
   acknowledged version shows exactly the merge of all acknowledged records -- outside the
   class of histories with two unordered records for one row (concurrent deletes). *)
From Coq Require Import List ZArith Bool Lia Arith.
From Corro Require Import Model.Crdt Model.CrdtSpec Model.Cluster Proofs.CrdtProofs Proofs.ConvergeProofs Proofs.LiveProofs.
Import ListNotations.
Open Scope Z_scope.

(* ---------- the strict order ---------- *)
Lemma key3_spec r r' : key3_lt r r' = true <->
  r_colv r < r_colv r' \/ (r_colv r = r_colv r' /\ (r_val r < r_val r' \/ (r_val r = r_val r' /\ r_site r < r_site r'))).
Proof.
  unfold key3_lt. rewrite !orb_true_iff, !andb_true_iff, !orb_true_iff, !andb_true_iff, !Z.ltb_lt, !Z.eqb_eq. tauto.
Qed.

Lemma sdom_spec r r' : sdom r r' = true <->
  r_cl r < r_cl r' \/
  (r_cl r = r_cl r' /\ Z.odd (r_cl r) = true /\
   ((is_data r = false /\ is_data r' = true) \/ (is_data r = true /\ is_data r' = true /\ key3_lt r r' = true))).
Proof.
  unfold sdom. rewrite !orb_true_iff, !andb_true_iff, !orb_true_iff, !andb_true_iff, Z.ltb_lt, Z.eqb_eq, negb_true_iff. tauto.
Qed.

Lemma sdom_irrefl r : sdom r r = false.
Proof.
  destruct (sdom r r) eqn:E; [|reflexivity]. exfalso. apply sdom_spec in E.
  destruct E as [E|[_ [_ [[E1 E2]|[_ [_ E]]]]]]; [lia|congruence|].
  apply key3_spec in E. lia.
Qed.

Lemma sdom_trans a b c : sdom a b = true -> sdom b c = true -> sdom a c = true.
Proof.
  rewrite !sdom_spec. intros [H1|[H1 [O1 H1']]] [H2|[H2 [O2 H2']]].
  - left. lia.
  - left. lia.
  - left. lia.
  - right. split; [lia|]. split; [exact O1|].
    destruct H1' as [[A B]|[A [B K1]]], H2' as [[C D]|[C [D K2]]]; try congruence.
    + left. split; assumption.
    + right. split; [exact A|]. split; [exact D|]. apply key3_spec. apply key3_spec in K1, K2. lia.
Qed.

Lemma sdom_dominated r r' : sdom r r' = true -> dominated r r'.
Proof.
  intros H. apply sdom_spec in H. unfold dominated. destruct H as [H|[H [Ho H']]]; [left; exact H|].
  right. split; [exact H|].
  destruct H' as [[A B]|[A [B K]]].
  - left. unfold is_data in A. rewrite Ho, andb_true_r in A. apply negb_false_iff in A. exact A.
  - right. unfold is_data in B. apply andb_true_iff in B. destruct B as [B _]. apply negb_true_iff in B. split; [exact B|].
    apply key3_spec in K. unfold lexlt, rkey. cbn [fst snd].
    apply orb_false_iff. split.
    + apply Z.ltb_ge. lia.
    + apply andb_false_iff. destruct (Z.eq_dec (r_colv r') (r_colv r)) as [E|E].
      * right. apply Z.ltb_ge. lia.
      * left. apply Z.eqb_neq. exact E.
Qed.

(* ---------- lists ---------- *)
Lemma pairwise_of_bool f rs :
  forallb (fun r => forallb (fun r' => negb (f r r')) rs) rs = true -> pairwise f rs.
Proof.
  intros H r r' Hr Hr'. rewrite forallb_forall in H. specialize (H r Hr). rewrite forallb_forall in H.
  specialize (H r' Hr'). apply negb_true_iff in H. exact H.
Qed.

Lemma pairwise_incl f (P Q : list rec) : incl P Q -> pairwise f Q -> pairwise f P.
Proof. intros Hi H r r' Hr Hr'. apply H; apply Hi; assumption. Qed.

Lemma filter_length_lt {A} (f g : A -> bool) l y0 :
  (forall y, f y = true -> g y = true) -> In y0 l -> g y0 = true -> f y0 = false ->
  (length (filter f l) < length (filter g l))%nat.
Proof.
  intros Hfg. induction l as [|y l IH]; intros Hin Hg Hf; [destruct Hin|].
  assert (Hle : forall l', (length (filter f l') <= length (filter g l'))%nat).
  { induction l' as [|z l' IH']; cbn; [lia|]. destruct (f z) eqn:Ef.
    - rewrite (Hfg z Ef). cbn. lia.
    - destruct (g z); cbn; lia. }
  cbn. destruct Hin as [->|Hin].
  - rewrite Hf, Hg. cbn. pose proof (Hle l). lia.
  - specialize (IH Hin Hg Hf). destruct (f y) eqn:Ef.
    + rewrite (Hfg y Ef). cbn. lia.
    + destruct (g y); cbn; lia.
Qed.

Lemma all_recs_app l1 l2 : all_recs (l1 ++ l2) = all_recs l1 ++ all_recs l2.
Proof. unfold all_recs. apply flat_map_app. Qed.

Lemma all_recs_nth l x vx r : nth_error l x = Some vx -> In r (v_recs vx) -> In r (all_recs l).
Proof. intros H Hr. unfold all_recs. apply in_flat_map. exists vx. split; [eapply nth_error_In, H|exact Hr]. Qed.

Lemma nth_set_nth_eq {A} (l : list A) i y n : nth_error l i = Some n -> nth_error (set_nth i y l) i = Some y.
Proof. revert i. induction l as [|h t IH]; intros [|i] H; cbn in *; try discriminate; [reflexivity|apply IH, H]. Qed.

Lemma nth_set_nth_neq {A} (l : list A) i i' y : i' <> i -> nth_error (set_nth i y l) i' = nth_error l i'.
Proof.
  revert i i'. induction l as [|h t IH]; intros [|i] [|i'] H; cbn; try reflexivity; try congruence.
  apply IH. congruence.
Qed.

Lemma on_row_in k rs r : In r (on_row k rs) <-> In r rs /\ r_row r = k.
Proof. unfold on_row. rewrite filter_In, Z.eqb_eq. tauto. Qed.

Lemma live_merge_all M r : live (merge_all [] M) r = live_row (stL (on_row (r_row r) M)) r.
Proof. unfold live. rewrite merge_all_get. reflexivity. Qed.

(* ---------- the invariant ---------- *)
Definition covered (W M : list rec) (r : rec) : Prop :=
  In r M \/ exists r', In r' W /\ r_row r' = r_row r /\ sdom r r' = true.

Definition node_ok (W : list rec) (l : list ver) (nd : node) : Prop :=
  n_db nd = merge_all [] (n_merged nd) /\
  incl (n_merged nd) (all_recs l) /\
  (forall x, knows nd x = true -> (x < length l)%nat) /\
  (forall x vx, knows nd x = true -> nth_error l x = Some vx ->
                forall r, In r (v_recs vx) -> covered W (n_merged nd) r).

Definition CInv (W : list rec) (s : cstate) : Prop :=
  forall i nd, nth_error (c_nodes s) i = Some nd -> node_ok W (c_log s) nd.

Lemma covered_mono W M M' r : incl M M' -> covered W M r -> covered W M' r.
Proof. intros Hi [H|H]; [left; apply Hi, H|right; exact H]. Qed.

Lemma node_ok_log_ext W l e nd : node_ok W l nd -> node_ok W (l ++ e) nd.
Proof.
  intros [Hdb [Hin [Hlt Hcov]]]. split; [exact Hdb|]. split; [|split].
  - rewrite all_recs_app. intros r Hr. apply in_or_app. left. apply Hin, Hr.
  - intros x Hx. rewrite app_length. specialize (Hlt x Hx). lia.
  - intros x vx Hx Hn. rewrite nth_error_app1 in Hn by (apply Hlt, Hx). eapply Hcov; eassumption.
Qed.

(* what a version assembled from several servers consists of *)
Lemma mix_spec nodes x : forall rs srv l,
  mix nodes x rs srv = Some l ->
  incl l rs /\
  forall r, In r rs -> In r l \/ exists j m, nth_error nodes j = Some m /\ knows m x = true /\ live (n_db m) r = false.
Proof.
  induction rs as [|r rs IH]; intros srv l H; cbn [mix] in H.
  - inversion H; subst. split; [apply incl_refl|intros r []].
  - destruct srv as [|j srv]; [discriminate|].
    destruct (nth_error nodes j) as [m|] eqn:Em; [|discriminate].
    destruct (knows m x) eqn:Ek; [|discriminate].
    destruct (mix nodes x rs srv) as [l0|] eqn:E0; [|discriminate].
    destruct (IH srv l0 E0) as [Hi Hall]. inversion H; subst l. clear H.
    destruct (live (n_db m) r) eqn:El.
    + split.
      * intros y [<-|Hy]; [left; reflexivity|right; apply Hi, Hy].
      * intros y [<-|Hy]; [left; left; reflexivity|]. destruct (Hall y Hy) as [H|H]; [left; right; exact H|right; exact H].
    + split.
      * intros y Hy. right. apply Hi, Hy.
      * intros y [<-|Hy]; [right; exists j, m; auto|]. destruct (Hall y Hy) as [H|H]; [left; exact H|right; exact H].
Qed.

Section Step.
Variable W : list rec.
Hypothesis Hwf : wf W.
Hypothesis Htie : pairwise tie W.
Hypothesis Hclk : pairwise clk_clash W.

(* a record the server merged but no longer shows is strictly below a record of W *)
Lemma omitted_is_below M r :
  incl M W -> In r M -> live (merge_all [] M) r = false ->
  exists r', In r' W /\ r_row r' = r_row r /\ sdom r r' = true.
Proof.
  intros Hi Hr Hl. rewrite live_merge_all in Hl. set (k := r_row r) in *. set (Q := on_row k M) in *.
  assert (HQW : incl Q (on_row k W)).
  { intros y Hy. apply on_row_in in Hy. apply on_row_in. split; [apply Hi, Hy|apply Hy]. }
  pose proof (Hwf k) as Hwk. unfold wf_row in Hwk. apply andb_true_iff in Hwk. destruct Hwk as [HokW HtopW].
  assert (HokQ : forallb rec_ok Q = true).
  { apply forallb_forall. intros y Hy. rewrite forallb_forall in HokW. apply HokW, HQW, Hy. }
  assert (HrQ : In r Q) by (apply on_row_in; split; [exact Hr|reflexivity]).
  destruct (not_live_is_below Q k r) as [[r' [Hr' Hs]]|[Hp1 [Hp2 Hp3]]]; try assumption.
  - intros y Hy. apply on_row_in in Hy. apply Hy.
  - apply (pairwise_incl _ Q W); [|exact Htie]. intros y Hy. apply on_row_in in Hy. apply Hi, Hy.
  - apply (pairwise_incl _ Q W); [|exact Hclk]. intros y Hy. apply on_row_in in Hy. apply Hi, Hy.
  - apply on_row_in in Hr'. exists r'. split; [apply Hi, Hr'|]. split; [apply Hr'|exact Hs].
  - (* a marker of the newest generation the server merged *)
    set (P := on_row k W) in *.
    assert (HrP : In r P) by (apply HQW, HrQ).
    pose proof (maxcl_ub P r HrP) as Hub.
    destruct (Z.eq_dec (maxcl P) (r_cl r)) as [Heq|Hne].
    + rewrite Heq in HtopW. rewrite <- Z.negb_odd, Hp2 in HtopW. cbn in HtopW.
      apply existsb_exists in HtopW. destruct HtopW as [d [Hd Ht]].
      unfold is_top in Ht. apply andb_true_iff in Ht. destruct Ht as [Hsd Hcd]. apply Z.eqb_eq in Hcd.
      apply on_row_in in Hd. exists d. split; [apply Hd|]. split; [apply Hd|].
      apply sdom_spec. right. split; [lia|]. split; [exact Hp2|]. left.
      unfold is_data. rewrite Hp1, Hsd, Hcd, Hp2. split; reflexivity.
    + destruct (maxcl_attained P) as [r' [Hr' He]].
      * intros E. rewrite E in HrP. destruct HrP.
      * apply ok_pos, HokW.
      * apply on_row_in in Hr'. exists r'. split; [apply Hr'|]. split; [apply Hr'|]. apply sdom_cl. lia.
Qed.

Lemma absorb_ok l nd rs x vx :
  node_ok W l nd -> incl (all_recs l) W -> nth_error l x = Some vx -> incl rs (v_recs vx) ->
  (forall r, In r (v_recs vx) -> In r rs \/ exists r', In r' W /\ r_row r' = r_row r /\ sdom r r' = true) ->
  node_ok W l (absorb nd rs x).
Proof.
  intros [Hdb [Hin [Hlt Hcov]]] HlW Hx Hrs Hall. unfold absorb. split; [|split; [|split]]; cbn [n_db n_merged n_known].
  - rewrite Hdb. unfold merge_all. rewrite fold_left_app. reflexivity.
  - intros r Hr. apply in_app_or in Hr. destruct Hr as [Hr|Hr]; [apply Hin, Hr|].
    eapply all_recs_nth; [exact Hx|apply Hrs, Hr].
  - intros y Hy. unfold knows in Hy. cbn [n_known existsb] in Hy. apply orb_true_iff in Hy. destruct Hy as [Hy|Hy].
    + apply Nat.eqb_eq in Hy. subst y. apply nth_error_Some. congruence.
    + apply Hlt, Hy.
  - intros y vy Hy Hn r Hr. unfold knows in Hy. cbn [n_known existsb] in Hy. apply orb_true_iff in Hy. destruct Hy as [Hy|Hy].
    + apply Nat.eqb_eq in Hy. subst y. rewrite Hx in Hn. inversion Hn; subst vy.
      destruct (Hall r Hr) as [H|H]; [left; apply in_or_app; right; exact H|right; exact H].
    + eapply covered_mono; [|eapply Hcov; eassumption]. intros z Hz. apply in_or_app. left. exact Hz.
Qed.

Lemma cstep_inv s o :
  CInv W s -> incl (all_recs (c_log (cstep s o))) W -> CInv W (cstep s o).
Proof.
  intros Hinv HlW. destruct o as [i rs|i j x extra|i x srv]; cbn [cstep] in *.
  - destruct (nth_error (c_nodes s) i) as [n|] eqn:En; [|exact Hinv].
    unfold CInv. cbn [c_log c_nodes] in *. intros i' nd Hnd.
    destruct (Nat.eq_dec i' i) as [->|Hne].
    + rewrite (nth_set_nth_eq _ _ _ _ En) in Hnd. inversion Hnd; subst nd.
      apply absorb_ok with (vx := mkVer (Z.of_nat i) (next_version (Z.of_nat i) (c_log s)) rs).
      * apply node_ok_log_ext, (Hinv _ _ En).
      * exact HlW.
      * rewrite nth_error_app2, Nat.sub_diag by lia. reflexivity.
      * cbn. apply incl_refl.
      * intros r Hr. left. exact Hr.
    + rewrite nth_set_nth_neq in Hnd by exact Hne. apply node_ok_log_ext, (Hinv _ _ Hnd).
  - destruct (nth_error (c_nodes s) i) as [n|] eqn:En; [|exact Hinv].
    destruct (nth_error (c_nodes s) j) as [m|] eqn:Em; [|exact Hinv].
    destruct (nth_error (c_log s) x) as [vx|] eqn:Ex; [|exact Hinv].
    destruct (knows m x && negb (knows n x)) eqn:Eg; [|exact Hinv].
    apply andb_true_iff in Eg. destruct Eg as [Hmx _].
    unfold CInv. cbn [c_log c_nodes] in *. intros i' nd Hnd.
    destruct (Nat.eq_dec i' i) as [->|Hne].
    2:{ rewrite nth_set_nth_neq in Hnd by exact Hne. apply (Hinv _ _ Hnd). }
    rewrite (nth_set_nth_eq _ _ _ _ En) in Hnd. inversion Hnd; subst nd.
    destruct (Hinv j m Em) as [Hdbm [Hinm [_ Hcovm]]].
    apply absorb_ok with (vx := vx); [apply (Hinv _ _ En)|exact HlW|exact Ex| |].
    + unfold served. intros r Hr. apply filter_In in Hr. apply Hr.
    + intros r Hr. unfold served.
      destruct (live (n_db m) r || existsb (Z.eqb (r_seq r)) extra) eqn:Ef.
      * left. apply filter_In. split; assumption.
      * right. apply orb_false_iff in Ef. destruct Ef as [Hl _].
        destruct (Hcovm x vx Hmx Ex r Hr) as [Hm|Hm]; [|exact Hm].
        rewrite Hdbm in Hl. apply (omitted_is_below (n_merged m)); try assumption.
        intros y Hy. apply HlW, Hinm, Hy.
  - destruct (nth_error (c_nodes s) i) as [n|] eqn:En; [|exact Hinv].
    destruct (nth_error (c_log s) x) as [vx|] eqn:Ex; [|exact Hinv].
    destruct (negb (knows n x)); [|exact Hinv].
    destruct (mix (c_nodes s) x (v_recs vx) srv) as [l|] eqn:Emix; [|exact Hinv].
    destruct (mix_spec _ _ _ _ _ Emix) as [Hil Hall].
    unfold CInv. cbn [c_log c_nodes] in *. intros i' nd Hnd.
    destruct (Nat.eq_dec i' i) as [->|Hne].
    2:{ rewrite nth_set_nth_neq in Hnd by exact Hne. apply (Hinv _ _ Hnd). }
    rewrite (nth_set_nth_eq _ _ _ _ En) in Hnd. inversion Hnd; subst nd.
    apply absorb_ok with (vx := vx); [apply (Hinv _ _ En)|exact HlW|exact Ex|exact Hil|].
    intros r Hr. destruct (Hall r Hr) as [H|[j [m [Em [Hmx Hl]]]]]; [left; exact H|right].
    destruct (Hinv j m Em) as [Hdbm [Hinm [_ Hcovm]]].
    destruct (Hcovm x vx Hmx Ex r Hr) as [Hm|Hm]; [|exact Hm].
    rewrite Hdbm in Hl. apply (omitted_is_below (n_merged m)); try assumption.
    intros y Hy. apply HlW, Hinm, Hy.
Qed.

Lemma log_ext_step s o : exists e, c_log (cstep s o) = c_log s ++ e.
Proof.
  destruct o as [i rs|i j x extra|i x srv]; cbn [cstep].
  - destruct (nth_error (c_nodes s) i); [eexists; reflexivity|exists []; symmetry; apply app_nil_r].
  - destruct (nth_error (c_nodes s) i), (nth_error (c_nodes s) j), (nth_error (c_log s) x);
      try (exists []; symmetry; apply app_nil_r).
    destruct (knows _ _ && negb _); exists []; symmetry; apply app_nil_r.
  - destruct (nth_error (c_nodes s) i), (nth_error (c_log s) x); try (exists []; symmetry; apply app_nil_r).
    destruct (negb _); [|exists []; symmetry; apply app_nil_r].
    destruct (mix _ _ _ _); exists []; symmetry; apply app_nil_r.
Qed.

Lemma log_ext_run ops : forall s, exists e, c_log (fold_left cstep ops s) = c_log s ++ e.
Proof.
  induction ops as [|o ops IH]; intros s; cbn [fold_left]; [exists []; symmetry; apply app_nil_r|].
  destruct (IH (cstep s o)) as [e He]. destruct (log_ext_step s o) as [e' He'].
  exists (e' ++ e). rewrite He, He', app_assoc. reflexivity.
Qed.

Lemma run_inv ops : forall s,
  CInv W s -> incl (all_recs (c_log (fold_left cstep ops s))) W -> CInv W (fold_left cstep ops s).
Proof.
  induction ops as [|o ops IH]; intros s Hinv HlW; cbn [fold_left] in *; [exact Hinv|].
  apply IH; [|exact HlW]. apply cstep_inv; [exact Hinv|].
  destruct (log_ext_run ops (cstep s o)) as [e He]. rewrite He, all_recs_app in HlW.
  intros r Hr. apply HlW, in_or_app. left. exact Hr.
Qed.

(* every record is merged or strictly below a MERGED record: climb the strict order *)
Lemma climb M :
  incl M W -> (forall r, In r W -> covered W M r) ->
  forall r, In r W -> In r M \/ exists r', In r' M /\ r_row r' = r_row r /\ sdom r r' = true.
Proof.
  intros HMW Hcov.
  assert (H : forall n r, In r W -> (length (filter (sdom r) W) < n)%nat ->
                          In r M \/ exists r', In r' M /\ r_row r' = r_row r /\ sdom r r' = true).
  { induction n as [|n IH]; intros r Hr Hn; [lia|].
    destruct (Hcov r Hr) as [Hm|[r1 [Hr1 [Hrow Hs]]]]; [left; exact Hm|].
    assert (Hlt : (length (filter (sdom r1) W) < length (filter (sdom r) W))%nat).
    { apply filter_length_lt with (y0 := r1); [|exact Hr1|exact Hs|apply sdom_irrefl].
      intros y Hy. eapply sdom_trans; eassumption. }
    destruct (IH r1 Hr1) as [Hm|[r2 [Hr2 [Hrow2 Hs2]]]]; [lia| |].
    - right. exists r1. repeat split; assumption.
    - right. exists r2. split; [exact Hr2|]. split; [congruence|]. eapply sdom_trans; eassumption. }
  intros r Hr. apply (H (S (length (filter (sdom r) W)))); [exact Hr|lia].
Qed.

Lemma wf_of_cover M :
  incl M W -> (forall r, In r W -> In r M \/ exists r', In r' M /\ r_row r' = r_row r /\ sdom r r' = true) -> wf M.
Proof.
  intros HMW Hc k. pose proof (Hwf k) as Hwk. unfold wf_row in *. apply andb_true_iff in Hwk. destruct Hwk as [HokW HtopW].
  set (P := on_row k W) in *. set (Q := on_row k M).
  assert (HQP : incl Q P).
  { intros y Hy. apply on_row_in in Hy. apply on_row_in. split; [apply HMW, Hy|apply Hy]. }
  assert (HokQ : forallb rec_ok Q = true).
  { apply forallb_forall. intros y Hy. rewrite forallb_forall in HokW. apply HokW, HQP, Hy. }
  rewrite HokQ. cbn [andb].
  destruct (Z.even (maxcl Q)) eqn:Eev; [reflexivity|]. cbn [orb].
  assert (HcQ : forall r, In r P -> In r Q \/ exists r', In r' Q /\ sdom r r' = true).
  { intros r Hr. apply on_row_in in Hr. destruct Hr as [Hr Hk]. destruct (Hc r Hr) as [H|[r' [Hr' [Hrow Hs]]]].
    - left. apply on_row_in. split; assumption.
    - right. exists r'. split; [apply on_row_in; split; [exact Hr'|congruence]|exact Hs]. }
  assert (Hmax : maxcl P = maxcl Q).
  { destruct P as [|p P'] eqn:EP.
    - destruct Q as [|q Q']; [reflexivity|]. exfalso. apply (HQP q). left. reflexivity.
    - destruct (maxcl_attained (p :: P')) as [r1 [Hi1 He1]]; [discriminate|apply ok_pos, HokW|].
      assert (maxcl (p :: P') <= maxcl Q).
      { destruct (HcQ r1 Hi1) as [H|[r' [Hr' Hs]]].
        - pose proof (maxcl_ub _ _ H). lia.
        - pose proof (maxcl_ub _ _ Hr'). apply sdom_spec in Hs. lia. }
      assert (maxcl Q <= maxcl (p :: P')).
      { destruct Q as [|q Q'] eqn:EQ; [rewrite maxcl_nil; apply maxcl_nonneg|].
        destruct (maxcl_attained (q :: Q')) as [r2 [Hi2 He2]]; [discriminate|apply ok_pos, HokQ|].
        apply HQP in Hi2. pose proof (maxcl_ub _ _ Hi2). lia. }
      lia. }
  rewrite Hmax, Eev in HtopW. cbn [orb] in HtopW.
  apply existsb_exists in HtopW. destruct HtopW as [d [Hd Ht]].
  apply existsb_exists.
  destruct (HcQ d Hd) as [H|[r' [Hr' Hs]]]; [exists d; split; assumption|].
  exists r'. split; [exact Hr'|].
  unfold is_top in *. apply andb_true_iff in Ht. destruct Ht as [Hsd Hcd]. apply Z.eqb_eq in Hcd.
  pose proof (maxcl_ub _ _ Hr') as Hub.
  apply sdom_spec in Hs. destruct Hs as [Hs|[Hs [Ho [[A B]|[A [B _]]]]]]; [lia| |].
  - unfold is_data in A. rewrite Hsd, Ho in A. discriminate.
  - unfold is_data in B. apply andb_true_iff in B. destruct B as [B _]. rewrite B. cbn [andb]. apply Z.eqb_eq. lia.
Qed.

End Step.

Lemma cinit_inv W n : CInv W (cinit n).
Proof.
  intros i nd Hnd. cbn in Hnd. apply nth_error_In, repeat_spec in Hnd. subst nd.
  split; [reflexivity|]. split; [intros r []|]. split; intros x; intros; discriminate.
Qed.

Lemma knows_all_spec l nd : knows_all l nd = true -> forall x, (x < length l)%nat -> knows nd x = true.
Proof.
  unfold knows_all. rewrite forallb_forall. intros H x Hx. apply H. apply in_seq. lia.
Qed.

(* SAFETY at quiescence *)
Theorem cluster_quiescent_converges n ops i nd :
  let s := crun n ops in
  let U := all_recs (c_log s) in
  wf U -> no_tie U = true -> clk_unique U = true ->
  nth_error (c_nodes s) i = Some nd -> knows_all (c_log s) nd = true ->
  table (n_db nd) = table (merge_all [] U) /\ versions (n_db nd) = versions (merge_all [] U).
Proof.
  intros s U Hwf Htie Hclk Hnd Hall.
  apply pairwise_of_bool in Htie. apply pairwise_of_bool in Hclk.
  assert (Hinv : CInv U s).
  { unfold s, crun. apply run_inv; try assumption; [apply cinit_inv|apply incl_refl]. }
  destruct (Hinv i nd Hnd) as [Hdb [Hin [_ Hcov]]].
  assert (HcovU : forall r, In r U -> covered U (n_merged nd) r).
  { intros r Hr. unfold U, all_recs in Hr. apply in_flat_map in Hr. destruct Hr as [vx [Hvx Hr]].
    apply In_nth_error in Hvx. destruct Hvx as [x Hx].
    assert (Hlt : (x < length (c_log s))%nat) by (apply nth_error_Some; congruence).
    eapply Hcov; [eapply knows_all_spec; eassumption|exact Hx|exact Hr]. }
  pose proof (climb U (n_merged nd) Hin HcovU) as Hcl.
  pose proof (wf_of_cover U Hwf (n_merged nd) Hin Hcl) as HwfM.
  rewrite Hdb.
  destruct (converge_superseded U (n_merged nd) Hwf HwfM Hin) as [Ht Hv].
  - intros r Hr. destruct (Hcl r Hr) as [H|[r' [Hr' [Hrow Hs]]]]; [left; exact H|].
    right. exists r'. split; [exact Hr'|]. split; [exact Hrow|apply sdom_dominated, Hs].
  - split; symmetry; assumption.
Qed.

(* ... hence any two such nodes show the same *)
Corollary cluster_quiescent_nodes_agree n ops i1 nd1 i2 nd2 :
  let s := crun n ops in
  let U := all_recs (c_log s) in
  wf U -> no_tie U = true -> clk_unique U = true ->
  nth_error (c_nodes s) i1 = Some nd1 -> knows_all (c_log s) nd1 = true ->
  nth_error (c_nodes s) i2 = Some nd2 -> knows_all (c_log s) nd2 = true ->
  table (n_db nd1) = table (n_db nd2) /\ versions (n_db nd1) = versions (n_db nd2).
Proof.
  intros s U Hwf Htie Hclk H1 K1 H2 K2.
  destruct (cluster_quiescent_converges n ops i1 nd1 Hwf Htie Hclk H1 K1) as [A1 B1].
  destruct (cluster_quiescent_converges n ops i2 nd2 Hwf Htie Hclk H2 K2) as [A2 B2].
  fold s in A1, B1, A2, B2. split; congruence.
Qed.

(* no value from nowhere, cluster level: whatever a node merged was acknowledged somewhere *)
Theorem cluster_merged_is_acknowledged n ops i nd :
  nth_error (c_nodes (crun n ops)) i = Some nd ->
  n_db nd = merge_all [] (n_merged nd) /\ incl (n_merged nd) (all_recs (c_log (crun n ops))).
Proof.
  (* the invariant does not need the order hypotheses for these two clauses: instantiate W with
     everything and re-run the induction on the two clauses only *)
  intros Hnd.
  assert (H : forall ops s, (forall i nd, nth_error (c_nodes s) i = Some nd ->
                               n_db nd = merge_all [] (n_merged nd) /\ incl (n_merged nd) (all_recs (c_log s))) ->
                            forall i nd, nth_error (c_nodes (fold_left cstep ops s)) i = Some nd ->
                               n_db nd = merge_all [] (n_merged nd) /\ incl (n_merged nd) (all_recs (c_log (fold_left cstep ops s)))).
  { clear. induction ops as [|o ops IH]; intros s Hs; cbn [fold_left]; [exact Hs|].
    apply IH. clear IH. intros i' nd' Hnd'.
    destruct o as [i rs|i j x extra|i x srv]; cbn [cstep] in *.
    - destruct (nth_error (c_nodes s) i) as [n0|] eqn:En; [|apply (Hs _ _ Hnd')].
      cbn [c_log c_nodes] in *. rewrite all_recs_app.
      destruct (Nat.eq_dec i' i) as [->|Hne].
      + rewrite (nth_set_nth_eq _ _ _ _ En) in Hnd'. inversion Hnd'; subst nd'. cbn [absorb n_db n_merged].
        destruct (Hs i n0 En) as [Hdb Hin]. split.
        * rewrite Hdb. unfold merge_all. rewrite fold_left_app. reflexivity.
        * intros r Hr. apply in_app_or in Hr. apply in_or_app. destruct Hr as [Hr|Hr]; [left; apply Hin, Hr|].
          right. unfold all_recs. cbn. rewrite app_nil_r. exact Hr.
      + rewrite nth_set_nth_neq in Hnd' by exact Hne. destruct (Hs i' nd' Hnd') as [Hdb Hin]. split; [exact Hdb|].
        intros r Hr. apply in_or_app. left. apply Hin, Hr.
    - destruct (nth_error (c_nodes s) i) as [n0|] eqn:En; [|apply (Hs _ _ Hnd')].
      destruct (nth_error (c_nodes s) j) as [m|] eqn:Em; [|apply (Hs _ _ Hnd')].
      destruct (nth_error (c_log s) x) as [vx|] eqn:Ex; [|apply (Hs _ _ Hnd')].
      destruct (knows m x && negb (knows n0 x)); [|apply (Hs _ _ Hnd')].
      cbn [c_log c_nodes] in *.
      destruct (Nat.eq_dec i' i) as [->|Hne].
      + rewrite (nth_set_nth_eq _ _ _ _ En) in Hnd'. inversion Hnd'; subst nd'. cbn [absorb n_db n_merged].
        destruct (Hs i n0 En) as [Hdb Hin]. split.
        * rewrite Hdb. unfold merge_all. rewrite fold_left_app. reflexivity.
        * intros r Hr. apply in_app_or in Hr. destruct Hr as [Hr|Hr]; [apply Hin, Hr|].
          unfold served in Hr. apply filter_In in Hr. eapply all_recs_nth; [exact Ex|apply Hr].
      + rewrite nth_set_nth_neq in Hnd' by exact Hne. apply (Hs _ _ Hnd').
    - destruct (nth_error (c_nodes s) i) as [n0|] eqn:En; [|apply (Hs _ _ Hnd')].
      destruct (nth_error (c_log s) x) as [vx|] eqn:Ex; [|apply (Hs _ _ Hnd')].
      destruct (negb (knows n0 x)); [|apply (Hs _ _ Hnd')].
      destruct (mix (c_nodes s) x (v_recs vx) srv) as [l|] eqn:Emix; [|apply (Hs _ _ Hnd')].
      destruct (mix_spec _ _ _ _ _ Emix) as [Hil _].
      cbn [c_log c_nodes] in *.
      destruct (Nat.eq_dec i' i) as [->|Hne].
      + rewrite (nth_set_nth_eq _ _ _ _ En) in Hnd'. inversion Hnd'; subst nd'. cbn [absorb n_db n_merged].
        destruct (Hs i n0 En) as [Hdb Hin]. split.
        * rewrite Hdb. unfold merge_all. rewrite fold_left_app. reflexivity.
        * intros r Hr. apply in_app_or in Hr. destruct Hr as [Hr|Hr]; [apply Hin, Hr|].
          eapply all_recs_nth; [exact Ex|apply Hil, Hr].
      + rewrite nth_set_nth_neq in Hnd' by exact Hne. apply (Hs _ _ Hnd'). }
  apply (H ops (cinit n)) with (i := i); [|exact Hnd].
  intros i0 nd0 H0. cbn in H0. apply nth_error_In, repeat_spec in H0. subst nd0. split; [reflexivity|intros r []].
Qed.

(* PROGRESS: a version a node does not know yet can always be obtained from its origin, which
   knows it; one session later the node knows it *)
Theorem cluster_pull_makes_known s i j x n m vx :
  nth_error (c_nodes s) i = Some n -> nth_error (c_nodes s) j = Some m -> nth_error (c_log s) x = Some vx ->
  knows m x = true -> knows n x = false ->
  exists n', nth_error (c_nodes (cstep s (Pull i j x []))) i = Some n' /\ knows n' x = true /\
             (forall y, knows n y = true -> knows n' y = true) /\ c_log (cstep s (Pull i j x [])) = c_log s.
Proof.
  intros En Em Ex Hm Hn. cbn [cstep]. rewrite En, Em, Ex, Hm, Hn. cbn [andb negb c_nodes c_log].
  eexists. split; [eapply nth_set_nth_eq, En|]. split; [|split; [|reflexivity]].
  - unfold knows, absorb. cbn [n_known existsb]. rewrite Nat.eqb_refl. reflexivity.
  - intros y Hy. unfold knows, absorb in *. cbn [n_known existsb]. rewrite Hy. apply orb_true_r.
Qed.

(* ---------- progress towards quiescence ---------- *)
(* every acknowledged version is known by its origin *)
Definition OwnKnown (s : cstate) : Prop :=
  forall x vx, nth_error (c_log s) x = Some vx ->
  exists nd, nth_error (c_nodes s) (Z.to_nat (v_actor vx)) = Some nd /\ knows nd x = true.

Lemma knows_absorb nd rs x y : knows (absorb nd rs x) y = Nat.eqb y x || knows nd y.
Proof. reflexivity. Qed.

(* a step never makes a node forget a version, and never removes a node *)
Lemma cstep_knows_mono s o i nd :
  nth_error (c_nodes s) i = Some nd ->
  exists nd', nth_error (c_nodes (cstep s o)) i = Some nd' /\ forall y, knows nd y = true -> knows nd' y = true.
Proof.
  intros Hnd.
  assert (Hsame : exists nd', nth_error (c_nodes s) i = Some nd' /\ forall y, knows nd y = true -> knows nd' y = true)
    by (exists nd; split; [exact Hnd|auto]).
  destruct o as [i0 rs|i0 j x extra|i0 x srv]; cbn [cstep].
  - destruct (nth_error (c_nodes s) i0) as [n0|] eqn:En; [|exact Hsame]. cbn [c_nodes].
    destruct (Nat.eq_dec i i0) as [->|Hne].
    + rewrite (nth_set_nth_eq _ _ _ _ En). eexists. split; [reflexivity|].
      intros y Hy. rewrite knows_absorb. rewrite Hnd in En. inversion En; subst n0. rewrite Hy. apply orb_true_r.
    + rewrite nth_set_nth_neq by exact Hne. exists nd. split; [exact Hnd|auto].
  - destruct (nth_error (c_nodes s) i0) as [n0|] eqn:En; [|exact Hsame].
    destruct (nth_error (c_nodes s) j) as [m|]; [|exact Hsame].
    destruct (nth_error (c_log s) x) as [vx|]; [|exact Hsame].
    destruct (knows m x && negb (knows n0 x)); [|exact Hsame]. cbn [c_nodes].
    destruct (Nat.eq_dec i i0) as [->|Hne].
    + rewrite (nth_set_nth_eq _ _ _ _ En). eexists. split; [reflexivity|].
      intros y Hy. rewrite knows_absorb. rewrite Hnd in En. inversion En; subst n0. rewrite Hy. apply orb_true_r.
    + rewrite nth_set_nth_neq by exact Hne. exists nd. split; [exact Hnd|auto].
  - destruct (nth_error (c_nodes s) i0) as [n0|] eqn:En; [|exact Hsame].
    destruct (nth_error (c_log s) x) as [vx|]; [|exact Hsame].
    destruct (negb (knows n0 x)); [|exact Hsame].
    destruct (mix (c_nodes s) x (v_recs vx) srv) as [l|]; [|exact Hsame]. cbn [c_nodes].
    destruct (Nat.eq_dec i i0) as [->|Hne].
    + rewrite (nth_set_nth_eq _ _ _ _ En). eexists. split; [reflexivity|].
      intros y Hy. rewrite knows_absorb. rewrite Hnd in En. inversion En; subst n0. rewrite Hy. apply orb_true_r.
    + rewrite nth_set_nth_neq by exact Hne. exists nd. split; [exact Hnd|auto].
Qed.

Lemma cstep_own s o : OwnKnown s -> OwnKnown (cstep s o).
Proof.
  intros Hown x vx Hx.
  destruct (log_ext_step s o) as [e He].
  destruct (nth_error (c_log s) x) as [vx0|] eqn:Eold.
  - (* an old version: its origin still knows it *)
    assert (vx0 = vx).
    { rewrite He in Hx. rewrite nth_error_app1 in Hx by (apply nth_error_Some; congruence). congruence. }
    subst vx0. destruct (Hown x vx Eold) as [nd [Hnd Hk]].
    destruct (cstep_knows_mono s o _ nd Hnd) as [nd' [Hnd' Hmono]].
    exists nd'. split; [exact Hnd'|apply Hmono, Hk].
  - (* the version this step appended: only Local does that *)
    destruct o as [i rs|i j y extra|i y srv]; cbn [cstep] in *.
    + destruct (nth_error (c_nodes s) i) as [n0|] eqn:En.
      * cbn [c_log c_nodes] in *. apply nth_error_None in Eold.
        assert (Hxl : x = length (c_log s)).
        { assert (x < length (c_log s ++ [mkVer (Z.of_nat i) (next_version (Z.of_nat i) (c_log s)) rs]))%nat
            by (apply nth_error_Some; congruence).
          rewrite app_length in H. cbn in H. lia. }
        subst x. rewrite nth_error_app2, Nat.sub_diag in Hx by lia. cbn in Hx. inversion Hx; subst vx. cbn [v_actor].
        rewrite Nat2Z.id, (nth_set_nth_eq _ _ _ _ En). eexists. split; [reflexivity|].
        rewrite knows_absorb, Nat.eqb_refl. reflexivity.
      * rewrite Eold in Hx. discriminate.
    + assert (c_log (match nth_error (c_nodes s) i with
                     | Some n => match nth_error (c_nodes s) j with
                                 | Some m => match nth_error (c_log s) y with
                                             | Some vy => if knows m y && negb (knows n y)
                                                          then mkC (c_log s) (set_nth i (absorb n (served m vy extra) y) (c_nodes s)) else s
                                             | None => s end
                                 | None => s end
                     | None => s end) = c_log s) as Hl.
      { destruct (nth_error (c_nodes s) i), (nth_error (c_nodes s) j), (nth_error (c_log s) y); try reflexivity.
        destruct (knows _ _ && negb _); reflexivity. }
      rewrite Hl, Eold in Hx. discriminate.
    + exfalso. destruct (log_ext_step s (PullMix i y srv)) as [e' He']. cbn [cstep] in He'.
      assert (Hsame : c_log (cstep s (PullMix i y srv)) = c_log s).
      { cbn [cstep]. destruct (nth_error (c_nodes s) i), (nth_error (c_log s) y); try reflexivity.
        destruct (negb _); [|reflexivity]. destruct (mix _ _ _ _); reflexivity. }
      cbn [cstep] in Hsame. rewrite Hsame, Eold in Hx. discriminate.
Qed.

Lemma run_own ops : forall s, OwnKnown s -> OwnKnown (fold_left cstep ops s).
Proof. induction ops as [|o ops IH]; intros s H; cbn [fold_left]; [exact H|apply IH, cstep_own, H]. Qed.

Lemma cinit_own n : OwnKnown (cinit n).
Proof. intros x vx Hx. cbn in Hx. destruct x; discriminate. Qed.

Definition is_pull (o : cop) : Prop := match o with Local _ _ => False | _ => True end.

(* from any state in which origins know their own versions, node i can fetch every version of a list *)
Lemma fetch_all xs : forall s i nd,
  OwnKnown s -> nth_error (c_nodes s) i = Some nd ->
  (forall x, In x xs -> (x < length (c_log s))%nat) ->
  exists pulls, Forall is_pull pulls /\
    let s' := fold_left cstep pulls s in
    c_log s' = c_log s /\ OwnKnown s' /\
    exists nd', nth_error (c_nodes s') i = Some nd' /\
                (forall y, knows nd y = true -> knows nd' y = true) /\
                (forall x, In x xs -> knows nd' x = true).
Proof.
  induction xs as [|x xs IH]; intros s i nd Hown Hnd Hlt.
  - exists []. split; [constructor|]. cbn. split; [reflexivity|]. split; [exact Hown|].
    exists nd. split; [exact Hnd|]. split; [auto|intros x []].
  - destruct (knows nd x) eqn:Ek.
    + destruct (IH s i nd Hown Hnd) as [pulls [Hp [Hl [Ho [nd' [Hnd' [Hm Hall]]]]]]]; [intros y Hy; apply Hlt; right; exact Hy|].
      exists pulls. split; [exact Hp|]. cbv zeta in *. split; [exact Hl|]. split; [exact Ho|].
      exists nd'. split; [exact Hnd'|]. split; [exact Hm|].
      intros y [<-|Hy]; [apply Hm, Ek|apply Hall, Hy].
    + assert (Hx : (x < length (c_log s))%nat) by (apply Hlt; left; reflexivity).
      destruct (nth_error (c_log s) x) as [vx|] eqn:Ex; [|apply nth_error_None in Ex; lia].
      destruct (Hown x vx Ex) as [m [Hm Hmk]].
      set (j := Z.to_nat (v_actor vx)) in *.
      destruct (cluster_pull_makes_known s i j x nd m vx Hnd Hm Ex Hmk Ek) as [n1 [Hn1 [Hk1 [Hmono1 Hl1]]]].
      set (s1 := cstep s (Pull i j x [])) in *.
      assert (Hown1 : OwnKnown s1) by (apply cstep_own, Hown).
      destruct (IH s1 i n1 Hown1 Hn1) as [pulls [Hp [Hl [Ho [nd' [Hnd' [Hm' Hall]]]]]]].
      { intros y Hy. rewrite Hl1. apply Hlt. right. exact Hy. }
      exists (Pull i j x [] :: pulls). split; [constructor; [exact I|exact Hp]|].
      cbv zeta in *. cbn [fold_left]. fold s1. split; [rewrite Hl; exact Hl1|]. split; [exact Ho|].
      exists nd'. split; [exact Hnd'|]. split; [intros y Hy; apply Hm', Hmono1, Hy|].
      intros y [<-|Hy]; [apply Hm', Hk1|apply Hall, Hy].
Qed.

(* PROGRESS: from every reachable state, without any further write, every node can be brought to
   know every acknowledged version by sessions with the versions' origins alone *)
Theorem cluster_node_can_catch_up n ops i nd :
  nth_error (c_nodes (crun n ops)) i = Some nd ->
  exists pulls, Forall is_pull pulls /\
    let s' := fold_left cstep pulls (crun n ops) in
    c_log s' = c_log (crun n ops) /\
    exists nd', nth_error (c_nodes s') i = Some nd' /\ knows_all (c_log s') nd' = true.
Proof.
  intros Hnd.
  assert (Hown : OwnKnown (crun n ops)) by (apply run_own, cinit_own).
  destruct (fetch_all (seq 0 (length (c_log (crun n ops)))) (crun n ops) i nd Hown Hnd) as [pulls [Hp [Hl [_ [nd' [Hnd' [_ Hall]]]]]]].
  { intros x Hx. apply in_seq in Hx. lia. }
  exists pulls. split; [exact Hp|]. cbv zeta in *. split; [exact Hl|].
  exists nd'. split; [exact Hnd'|].
  unfold knows_all. rewrite Hl. apply forallb_forall. exact Hall.
Qed.

(* safety + progress: every node of every reachable state can, by sessions alone, reach a state
   in which it shows the merge of everything acknowledged *)
Theorem cluster_every_node_can_converge n ops i nd :
  let U := all_recs (c_log (crun n ops)) in
  wf U -> no_tie U = true -> clk_unique U = true ->
  nth_error (c_nodes (crun n ops)) i = Some nd ->
  exists pulls, Forall is_pull pulls /\
    let s' := crun n (ops ++ pulls) in
    c_log s' = c_log (crun n ops) /\
    exists nd', nth_error (c_nodes s') i = Some nd' /\
                table (n_db nd') = table (merge_all [] U) /\ versions (n_db nd') = versions (merge_all [] U).
Proof.
  intros U Hwf Htie Hclk Hnd.
  destruct (cluster_node_can_catch_up n ops i nd Hnd) as [pulls [Hp [Hl [nd' [Hnd' Hall]]]]].
  exists pulls. split; [exact Hp|]. cbv zeta in *.
  assert (Hrun : crun n (ops ++ pulls) = fold_left cstep pulls (crun n ops)) by (unfold crun; apply fold_left_app).
  rewrite Hrun. split; [exact Hl|]. exists nd'. split; [exact Hnd'|].
  rewrite <- Hrun in Hnd', Hall, Hl.
  pose proof (cluster_quiescent_converges n (ops ++ pulls) i nd') as H. cbv zeta in H.
  unfold U. rewrite <- Hl. apply H; try assumption; rewrite Hl; assumption.
Qed.

(* ---------- no value from nowhere, at the level of what a node SHOWS ---------- *)
(* the value a row shows after merging Q (in any order, any records) was carried by a record of Q *)
Lemma shown_value_was_merged Q : forall s c,
  stL Q = Some s -> rw_col s = Some c -> exists r, In r Q /\ r_val r = c_val c.
Proof.
  induction Q as [|x Q IH] using rev_ind; intros s c Hs Hc; [discriminate|].
  rewrite stL_snoc in Hs.
  destruct (merge_value_origin (stL Q) x s c Hs Hc) as [Hv|[s0 [c0 [Hs0 [Hc0 Hv]]]]].
  - exists x. split; [apply in_or_app; right; left; reflexivity|symmetry; exact Hv].
  - destruct (IH s0 c0 Hs0 Hc0) as [r [Hr Hrv]]. exists r. split; [apply in_or_app; left; exact Hr|congruence].
Qed.

Lemma table_in d k v : In (k, v) (table d) -> exists s, In (k, s) d /\ Z.odd (rw_cl s) = true /\
  v = match rw_col s with Some c => Some (c_val c) | None => None end.
Proof.
  unfold table. intros H. apply in_flat_map in H. destruct H as [[k' s] [Hin H]]. cbn [fst snd] in H.
  destruct (Z.odd (rw_cl s)) eqn:E; [|destruct H]. destruct H as [H|[]]. inversion H; subst. exists s. auto.
Qed.


Lemma in_sorted_dget : forall (d : db) k s, asorted d -> In (k, s) d -> dget k d = Some s.
Proof.
  induction d as [|[k0 s0] t IH]; intros k s Hs Hin; [destruct Hin|].
  cbn [asorted] in Hs. destruct Hs as [Hb Hs]. cbn [dget]. destruct Hin as [Hin|Hin].
  - inversion Hin; subst. rewrite Z.eqb_refl. reflexivity.
  - specialize (Hb k s Hin). destruct (k =? k0) eqn:E; [apply Z.eqb_eq in E; lia|]. apply IH; assumption.
Qed.

Theorem cluster_shown_values_were_acknowledged n ops i nd k v :
  nth_error (c_nodes (crun n ops)) i = Some nd -> In (k, Some v) (table (n_db nd)) ->
  exists r, In r (all_recs (c_log (crun n ops))) /\ r_row r = k /\ r_val r = v.
Proof.
  intros Hnd Hin.
  destruct (cluster_merged_is_acknowledged n ops i nd Hnd) as [Hdb Hsub].
  apply table_in in Hin. destruct Hin as [s [Hks [_ Hv]]].
  destruct (rw_col s) as [c|] eqn:Ec; [|discriminate]. inversion Hv; subst v.
  assert (Hget : dget k (n_db nd) = Some s).
  { apply in_sorted_dget; [|exact Hks]. rewrite Hdb. apply merge_all_sorted. exact I. }
  rewrite Hdb, merge_all_get in Hget. cbn [dget] in Hget.
  destruct (shown_value_was_merged (on_row k (n_merged nd)) s c Hget Ec) as [r [Hr Hrv]].
  apply on_row_in in Hr. exists r. split; [apply Hsub, Hr|]. split; [apply Hr|exact Hrv].
Qed.
