(* C05 — A sync server only sends what it holds and never declares unknown versions empty.
   Model: Model/Serve.v (process_sync filter, handle_need, send_change_chunks over
   an abstraction of the server database).  Proofs: Proofs/ServeProofs.v. *)
From Coq Require Import List ZArith Bool Lia.
From Corro Require Import Lib.Ivl Gen.Consts Gen.NeedSql Model.Chunk Model.Serve Proofs.ChunkProofs Proofs.ServeProofs.
Import ListNotations.
Open Scope Z_scope.

(* Full need: every version declared empty was requested and is neither live,
   nor (partially) buffered, nor listed as needed -- for every server state *)
Theorem C05_full_need_empty_only_if_cleared : forall sv s e lo hi v,
  In (MEmpty lo hi) (handle_need_full sv s e) -> lo <= v <= hi ->
  s <= v <= e /\ holds_live sv v = false /\ holds_buf sv v = false /\ memb v (sv_gaps sv) = false.
Proof. exact full_empty_only_if_cleared. Qed.
Print Assumptions C05_full_need_empty_only_if_cleared.

Theorem C05_partial_need_empty_only_if_cleared : forall sv v seqs lo hi,
  In (MEmpty lo hi) (handle_need_partial sv v seqs) ->
  lo = v /\ hi = v /\ holds_live sv v = false /\ holds_buf sv v = false /\ memb v (sv_gaps sv) = false.
Proof. exact partial_empty_only_if_cleared. Qed.
Print Assumptions C05_partial_need_empty_only_if_cleared.

(* every change sent lies inside the seq range of the changeset carrying it and
   the changeset's range lies inside the range being served (rows ordered by seq) *)
Theorem C05_changes_inside_their_range : forall rz v last rows a b m,
  wf_input (map (fun r => mkChg (fst r) rz (snd r)) rows) a b = true ->
  In m (send_chunks rz v last rows a b) ->
  match m with
  | MFull _ r s e _ => Forall (fun x => s <= fst x <= e) r /\ a <= s /\ e <= b
  | MEmpty _ _ => False
  end.
Proof. exact send_chunks_in_range. Qed.
Print Assumptions C05_changes_inside_their_range.

(* answers to buffered (partially held) versions are Full changesets about that version only *)
Theorem C05_buffered_answers_are_full : forall sv v q m,
  In m (buffered_msgs sv v q) -> exists r s e l, m = MFull v r s e l.
Proof. exact buffered_msgs_only_full. Qed.
Print Assumptions C05_buffered_answers_are_full.

(* a partially buffered version is answered with sub-ranges of exactly the ranges held *)
Theorem C05_buffered_within_held : forall sv v q m,
  (forall rs re last a b, In ((rs, re), last) (match vget v (sv_seq sv) with Some r => r | None => [] end) ->
     rs <= a -> b <= re ->
     wf_input (map (fun r => mkChg (fst r) (sv_rowsize sv) (snd r))
                   (filter (in_range a b) (match vget v (sv_buf sv) with Some b0 => b0 | None => [] end))) a b = true) ->
  In m (buffered_msgs sv v q) ->
  match m with
  | MFull _ _ s e _ => exists rs re last,
      In ((rs, re), last) (match vget v (sv_seq sv) with Some r => r | None => [] end) /\ rs <= s /\ e <= re
  | MEmpty _ _ => False
  end.
Proof. exact buffered_range_within_held. Qed.
Print Assumptions C05_buffered_within_held.

(* a version the server fully holds with live changes: the changesets sent for it (for every
   Full need covering it: C05_full_need_answers_live_version) have sequence ranges that tile
   0..=last_seq and carry exactly its live changes, in order -- via the C08 tiling theorem *)
Theorem C05_live_version_tiles_exact : forall rz v rows,
  rows <> [] ->
  wf_input (map (fun r => mkChg (fst r) rz (snd r)) rows) 0 (maxseq rows) = true ->
  let ms := send_chunks rz v (maxseq rows) rows 0 (maxseq rows) in
  tiles 0 (maxseq rows) (map msg_range ms) /\
  concat (map msg_rows ms) = rows /\
  Forall (fun m => match m with MFull v' _ _ _ l => v' = v /\ l = maxseq rows | MEmpty _ _ => False end) ms.
Proof. exact live_version_tiles_exact. Qed.
Print Assumptions C05_live_version_tiles_exact.

(* KNOWN FINDING (C01/C05, class resurrect-duplicate-seq).  The hypothesis wf_input above asks
   the stored rows of the version to have strictly increasing seqs.  On a node that merged a
   foreign record which resurrects a row it holds at a lower causal length, cr-sqlite stamps the
   sentinel it creates with the db_version and seq of that record: the node then stores two rows
   under one (site_id, db_version, seq), the hypothesis is false, and the chunker -- which stops
   at the first row whose seq is last_seq -- does not serve the second one.  Witness (the shape
   found on the real agents: sentinel then data record, both at seq 0 = last_seq): *)
Theorem C05_duplicate_seq_row_is_not_served_refuted :
  exists rz v rows,
    rows <> [] /\
    wf_input (map (fun r => mkChg (fst r) rz (snd r)) rows) 0 (maxseq rows) = false /\
    concat (map msg_rows (send_chunks rz v (maxseq rows) rows 0 (maxseq rows))) = removelast rows.
Proof.
  exists 75, 3, [(0, 1); (0, 2)].
  split; [discriminate|]. split; vm_compute; reflexivity.
Qed.
Print Assumptions C05_duplicate_seq_row_is_not_served_refuted.

Theorem C05_full_need_answers_live_version : forall sv s e v rows m,
  vget v (sv_live sv) = Some rows -> s <= v <= e ->
  In m (send_chunks (sv_rowsize sv) v (maxseq rows) rows 0 (maxseq rows)) ->
  In m (handle_need_full sv s e).
Proof. exact full_need_answers_live_version. Qed.
Print Assumptions C05_full_need_answers_live_version.

Example C05_nonvacuous :
  let sv := mkSrv [(8, [(0, 1009)]); (9, [(0, 1001); (1, 1002); (2, 1003)])] [(3, 3); (5, 5); (7, 7)]
                  [(4, [(0, 4100); (1, 4101)])] [(4, [((0, 1), 3)])] [(3, 3); (5, 5); (7, 7)] (Some 9) 75 in
  serve sv (NFull 1 9) =
    [MFull 9 [(0, 1001); (1, 1002); (2, 1003)] 0 2 2; MFull 8 [(0, 1009)] 0 0 0;
     MFull 4 [(0, 4100); (1, 4101)] 0 1 3; MEmpty 1 2; MEmpty 6 6] /\
  serve sv (NFull 3 3) = [].
Proof. vm_compute. split; reflexivity. Qed.

(* The seq-range SELECT of handle_need's Partial path, GENERATED from the SQL text in the source
   by tools/needsql2coq.py (Gen/NeedSql.v; Model/Serve.v's Partial path uses this function): for
   well-formed ranges it selects exactly the recorded ranges that share at least one seq with the
   requested range -- a recorded range that merely touches the request is not answered from, and
   none that overlaps is left out -- and the clamp the code then applies (max of the starts, min
   of the ends) is a non-empty range inside both. *)
Theorem C05_partial_select_finds_exactly_the_overlapping_ranges : forall rs re s e,
  rs <= re -> s <= e ->
  (need_overlap_pred_src rs re s e = true <-> exists x, rs <= x <= re /\ s <= x <= e).
Proof. exact need_overlap_select_exact. Qed.
Print Assumptions C05_partial_select_finds_exactly_the_overlapping_ranges.

Theorem C05_partial_answer_range_is_inside_both : forall rs re s e,
  rs <= re -> s <= e -> need_overlap_pred_src rs re s e = true ->
  Z.max rs s <= Z.min re e /\ rs <= Z.max rs s /\ Z.min re e <= re /\ s <= Z.max rs s /\ Z.min re e <= e.
Proof. exact need_overlap_clamp_nonempty. Qed.
Print Assumptions C05_partial_answer_range_is_inside_both.

Example C05_partial_select_examples :
  need_overlap_pred_src 3 6 0 2 = false /\ need_overlap_pred_src 3 6 0 3 = true /\
  need_overlap_pred_src 3 6 4 5 = true /\ need_overlap_pred_src 3 6 6 9 = true /\
  need_overlap_pred_src 3 6 7 9 = false /\ need_overlap_pred_src 3 6 0 9 = true.
Proof. vm_compute. repeat split; reflexivity. Qed.
