(* C15 — Schema changes are additive, atomic, idempotent and survive restart.
   Model: Model/SchemaDiff.v (execute_schema + Schema::constrain + apply_schema; SQLite and
   cr-sqlite DDL as three oracle rules).  Proofs: Proofs/SchemaProofs.v. *)
From Coq Require Import List ZArith Bool Lia.
From Corro Require Import Model.SchemaDiff Proofs.SchemaProofs.
Import ListNotations.
Open Scope Z_scope.

(* a rejected submission (parse error at any statement, constraint violation, forbidden
   edit of any table of the submission, failing DDL) leaves the in-memory schema, the
   database schema and every row exactly as before *)
Theorem C15_rejected_changes_nothing : forall st sub, fst (exec st sub) = false -> snd (exec st sub) = st.
Proof. exact exec_atomic. Qed.
Print Assumptions C15_rejected_changes_nothing.

(* an accepted submission never drops a table or a column, never changes a primary key
   (columns and order) or the definition of an existing column, in the schema the node works with *)
Theorem C15_accepted_is_additive_schema : forall st sub, NoDup (names (s_mem st)) -> fst (exec st sub) = true ->
  NoDup (names (s_mem (snd (exec st sub)))) /\
  forall o, In o (s_mem st) -> exists t, In t (s_mem (snd (exec st sub))) /\ tab_extends o t.
Proof. exact exec_ok_mem_additive. Qed.
Print Assumptions C15_accepted_is_additive_schema.

(* ... and in the database: every table keeps its key, its columns (new ones are appended)
   and every row (extended by the defaults of the new columns) *)
Theorem C15_accepted_is_additive_database : forall st sub, fst (exec st sub) = true ->
  forall d, In d (s_db st) -> exists d', In d' (s_db (snd (exec st sub))) /\ dtab_extends d d'.
Proof. exact exec_ok_db_additive. Qed.
Print Assumptions C15_accepted_is_additive_database.

(* re-applying an accepted submission is accepted and changes nothing in the schema *)
Theorem C15_resubmit_changes_nothing : forall st sub tabs,
  NoDup (names (s_mem st)) -> parse sub = Some tabs -> NoDup (names tabs) ->
  fst (exec st sub) = true ->
  fst (exec (snd (exec st sub)) sub) = true /\
  s_mem (snd (exec (snd (exec st sub)) sub)) = s_mem (snd (exec st sub)).
Proof. exact resubmit_accepted. Qed.
Print Assumptions C15_resubmit_changes_nothing.

(* reordering a primary key is a forbidden edit (the defect fixed in 51ca89d) *)
Definition ex_t1 : tab := mkTab 1 [mkCol 97 1 true 0 false false true; mkCol 98 1 true 0 false false true; mkCol 99 1 false 0 false false false] [97; 98] [].
Definition ex_t1_reordered : tab := mkTab 1 (t_cols ex_t1) [98; 97] [].
Definition ex_t1_added : tab := mkTab 1 (t_cols ex_t1 ++ [mkCol 100 1 true 1 false false false]) [97; 98] [mkIdx 1 false [99]].
Definition ex_bad : tab := mkTab 2 [mkCol 97 1 false 0 false false false] [] [].

Example C15_nonvacuous :
  let s0 := mkS [] [] in
  let s1 := insert_row (snd (exec s0 [Some ex_t1])) 1 [(97, Some 1); (98, Some 2); (99, Some 3)] in
  fst (exec s0 [Some ex_t1]) = true /\
  fst (exec s1 [Some ex_t1_reordered]) = false /\
  fst (exec s1 [Some ex_t1_added; Some ex_bad]) = false /\             (* second table has no key: nothing is applied *)
  fst (exec s1 [Some ex_t1_added; None]) = false /\                    (* syntax error in a later statement *)
  fst (exec s1 [Some ex_t1_added]) = true /\
  map d_rows (s_db (snd (exec s1 [Some ex_t1_added]))) = [[[(97, Some 1); (98, Some 2); (99, Some 3); (100, Some 0)]]].
Proof. vm_compute. repeat split. Qed.
